package hx

import (
	"testing"
	"testing/synctest"
)

// Bubble runs f in a testing/synctest bubble and survives a failing inner test.
//
// synctest.Test calls t.FailNow() on the OUTER test when the inner test has failed, and under the
// -race binary the testing package fails the inner test as soon as the race detector's error
// counter has grown while the bubble ran ("race detected during execution of test"). FailNow is a
// runtime.Goexit of the calling goroutine: called on the worker's goroutine it silently ends the
// whole worker loop. Bubble therefore calls synctest.Test on a helper goroutine; only that
// goroutine is ended. The outer test is still marked failed (the binary ends with FAIL / exit
// status 1 after WORKER-DONE); the orchestrator keys on WORKER-DONE, not on the status.
//
// It returns whether f ran to completion. f must not call t.Fatal / t.FailNow itself.
func Bubble(t *testing.T, f func(t *testing.T)) (completed bool) {
	done := make(chan struct{})
	go func() {
		defer close(done)
		synctest.Test(t, func(t *testing.T) {
			f(t)
			completed = true
		})
	}()
	<-done
	return completed
}

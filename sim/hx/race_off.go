//go:build !race

package hx

const raceBuild = false

//go:build race

package hx

const raceBuild = true

package hx

import (
	"runtime"
	"time"
)

// Race-invisible serialisation (engine R, DESIGN.md §2.2).
//
// Client goroutines execute their own operations in program order; ACROSS clients the
// order is dictated by the scenario. The hand-off uses a plain word that is read and written
// only inside //go:norace functions and waited on with a Gosched spin, so ThreadSanitizer's
// happens-before graph contains only the synchronisation the program under test performs:
// two operations of different clients that touch the same memory without a common lock are
// reported as a race whatever order the scenario runs them in, and properly locked ones never are.

type Gate struct {
	turn uint64 // 0 = controller, k = client k-1
	_    [56]byte
}

//go:norace
//go:noinline
func (g *Gate) load() uint64 { return g.turn }

//go:norace
//go:noinline
func (g *Gate) store(v uint64) { g.turn = v }

func (g *Gate) waitFor(v uint64, deadline time.Time) bool {
	n := 0
	for g.load() != v {
		runtime.Gosched()
		n++
		if n&0xfff == 0 && !deadline.IsZero() && time.Now().After(deadline) {
			return false
		}
	}
	return true
}

// SerialResult tells how a serialized run ended.
type SerialResult struct {
	Executed int  // number of operations executed
	Hung     bool // an operation did not finish within the real-time watchdog
	HungAt   int  // index into order
}

// RunSerialized runs clients' operations: order[i] is the client whose next operation runs at
// step i. Operations of one client run in that client's goroutine in program order. Entries of
// order that refer to a client without remaining operations are skipped. watchdog bounds each
// operation in real time (0 = none).
func RunSerialized(clients [][]func(), order []int, watchdog time.Duration) SerialResult {
	g := &Gate{}
	next := make([]int, len(clients))
	doneFlags := make([]Gate, len(clients))
	for ci := range clients {
		ci := ci
		go func() {
			for _, op := range clients[ci] {
				g.waitFor(uint64(ci+1), time.Time{})
				if doneFlags[ci].load() == 2 { // cancelled
					return
				}
				op()
				g.store(0)
			}
			doneFlags[ci].store(1)
		}()
	}
	res := SerialResult{}
	for i, c := range order {
		if c < 0 || c >= len(clients) || next[c] >= len(clients[c]) {
			continue
		}
		next[c]++
		g.store(uint64(c + 1))
		var dl time.Time
		if watchdog > 0 {
			dl = time.Now().Add(watchdog)
		}
		if !g.waitFor(0, dl) {
			res.Hung = true
			res.HungAt = i
			return res
		}
		res.Executed++
	}
	// run leftovers (operations not covered by order) client by client, so nothing is left parked
	for c := range clients {
		for next[c] < len(clients[c]) {
			next[c]++
			g.store(uint64(c + 1))
			g.waitFor(0, time.Time{})
			res.Executed++
		}
	}
	return res
}

package hx

import (
	"bufio"
	"bytes"
	"crypto/sha256"
	"encoding/hex"
	"encoding/json"
	"fmt"
	"net/http"
	"os"
	"os/exec"
	"strconv"
	"strings"
	"sync"
	"time"
)

// Guarded requests (bounded liveness, DESIGN.md §5.3).
//
// A handler that spins in a CPU loop can be seen neither by the fake clock nor be stopped from
// inside its own process (goroutines cannot be killed). Requests that may spin are therefore
// served by a CHILD process running the very same test binary and the very same real server
// (app.SetupServer behind hx.Srv, in-process in the child, no sockets): the parent sends the
// request target over a pipe, the child answers with status / content type / body digest.
// The watchdog counts the CPU TIME the child consumes for one request (from /proc), not wall
// time, so the verdict does not depend on machine load: a normal request needs well under a
// millisecond of CPU, the trip threshold is 600 ms. A tripped child is killed and replaced.
// The child is persistent (one per worker process); livesim2 keeps no state between requests
// (C07's claim, checked there), so which child served a request does not matter.

// GResp is the observation of one guarded request.
type GResp struct {
	Status     int    `json:"status"`
	CT         string `json:"ct,omitempty"`
	Len        int    `json:"len"`
	Sum        string `json:"sum,omitempty"`  // sha256 of the body (hex, 32 chars)
	Head       string `json:"head,omitempty"` // first bytes of the body (for diagnostics)
	Panic      string `json:"panic,omitempty"`
	PanicFrame string `json:"frame,omitempty"`
	Hung       bool   `json:"hung,omitempty"` // CPU watchdog tripped: the handler did not return
	Died       bool   `json:"died,omitempty"` // the child process ended while serving the request
	Note       string `json:"note,omitempty"`
}

// Digest is the body digest used by GResp.Sum, for comparing with in-process responses.
func Digest(b []byte) string {
	h := sha256.Sum256(b)
	return hex.EncodeToString(h[:16])
}

// Observe converts an in-process response into the same shape as a guarded one.
func Observe(r *Resp) GResp {
	g := GResp{Status: r.Status, CT: r.CT(), Len: len(r.Body), Sum: Digest(r.Body), Panic: r.Panic, PanicFrame: r.PanicFrame}
	if r.Hang {
		g.Hung, g.Note = true, "handler blocked without returning until the real-time watchdog"
	}
	n := len(r.Body)
	if n > 80 {
		n = 80
	}
	g.Head = printable(r.Body[:n])
	return g
}

func printable(b []byte) string {
	var sb strings.Builder
	for _, c := range b {
		if c >= 32 && c < 127 {
			sb.WriteByte(c)
		} else {
			sb.WriteByte('.')
		}
	}
	return sb.String()
}

type guardReq struct {
	VodRoot string            `json:"vodroot"`
	Target  string            `json:"target"`
	Warm    bool              `json:"warm,omitempty"`
	Method  string            `json:"method,omitempty"` // default GET
	Body    []byte            `json:"body,omitempty"`
	Hdr     map[string]string `json:"hdr,omitempty"`
	Handler string            `json:"handler,omitempty"` // "" = livesim2 router; otherwise a name registered with GuardRegister
}

// GuardRegister makes another http.Handler (e.g. the ingest receiver) available in the guard child
// under a name. It must be called from an init function so that parent and child agree.
func GuardRegister(name string, mk func() http.Handler) { guardHandlers[name] = mk }

var guardHandlers = map[string]func() http.Handler{}

const (
	guardCPUTripMS  = 600    // CPU consumed by the child for ONE request before it is declared hung
	guardWarmTripMS = 30000  // server set-up (asset scan) is allowed more
	guardWallTripMS = 120000 // fallback for a request that blocks without burning CPU
)

type guardProc struct {
	cmd    *exec.Cmd
	w      *os.File
	lines  chan []byte
	warmed map[string]bool
	stderr *tailBuf
}

// tailBuf keeps the first 64 KiB the child writes to stderr (a Go crash report starts with its cause).
type tailBuf struct {
	mu sync.Mutex
	b  []byte
}

func (t *tailBuf) Write(p []byte) (int, error) {
	t.mu.Lock()
	if room := 1<<16 - len(t.b); room > 0 {
		if len(p) < room {
			room = len(p)
		}
		t.b = append(t.b, p[:room]...)
	}
	t.mu.Unlock()
	return len(p), nil
}

// deathCause waits for the child to end and extracts "panic: ..." / "fatal error: ..." and the innermost
// livesim2 frame from its crash report.
func (gp *guardProc) deathCause() (cause, frame string) {
	done := make(chan struct{})
	go func() { _ = gp.cmd.Wait(); close(done) }()
	select {
	case <-done:
	case <-time.After(5 * time.Second):
	}
	gp.stderr.mu.Lock()
	txt := string(gp.stderr.b)
	gp.stderr.mu.Unlock()
	for _, l := range strings.Split(txt, "\n") {
		if cause == "" && (strings.HasPrefix(l, "panic: ") || strings.HasPrefix(l, "fatal error: ")) {
			cause = strings.TrimSpace(l)
			if i := strings.Index(cause, " [recovered]"); i > 0 {
				cause = cause[:i]
			}
			continue
		}
		if cause != "" && frame == "" && strings.Contains(l, "Dash-Industry-Forum/livesim2/") && !strings.HasPrefix(l, "\t") {
			f := l[strings.LastIndex(l, "/")+1:]
			if i := strings.LastIndex(f, "("); i > 0 {
				f = f[:i]
			}
			frame = f
		}
	}
	if cause == "" {
		cause = "child ended without a crash report"
	} else if i := strings.Index(txt, cause); i >= 0 {
		rep := txt[i:]
		if len(rep) > 1800 {
			rep = rep[:1800]
		}
		cause = rep
	}
	return cause, frame
}

var (
	guardMu  sync.Mutex
	guardCur *guardProc
)

// GuardChildEnv is the VERIF_MODE value that makes the test binary act as guard child.
const GuardChildEnv = "guardchild"

func guardStart() *guardProc {
	exe, err := os.Executable()
	if err != nil {
		panic("harness: guard: " + err.Error())
	}
	toChildR, toChildW, err := os.Pipe()
	if err != nil {
		panic("harness: guard: " + err.Error())
	}
	fromChildR, fromChildW, err := os.Pipe()
	if err != nil {
		panic("harness: guard: " + err.Error())
	}
	cmd := exec.Command(exe, "-test.run", "^TestGuardChild$", "-test.timeout", "0")
	var env []string
	for _, e := range os.Environ() {
		if strings.HasPrefix(e, "VERIF_MODE=") || strings.HasPrefix(e, "GOMAXPROCS=") || strings.HasPrefix(e, "GORACE=") {
			continue
		}
		env = append(env, e)
	}
	cmd.Env = append(env, "VERIF_MODE="+GuardChildEnv, "GOMAXPROCS=2")
	cmd.ExtraFiles = []*os.File{toChildR, fromChildW} // fd 3, fd 4 in the child
	errBuf := &tailBuf{}
	cmd.Stderr = errBuf
	if err := cmd.Start(); err != nil {
		panic("harness: guard: cannot start child: " + err.Error())
	}
	toChildR.Close()
	fromChildW.Close()
	gp := &guardProc{cmd: cmd, w: toChildW, lines: make(chan []byte, 1), warmed: map[string]bool{}, stderr: errBuf}
	go func() {
		rd := bufio.NewReaderSize(fromChildR, 1<<16)
		for {
			line, err := rd.ReadBytes('\n')
			if err != nil {
				close(gp.lines)
				fromChildR.Close()
				return
			}
			gp.lines <- line
		}
	}()
	return gp
}

func (gp *guardProc) kill() {
	_ = gp.cmd.Process.Kill()
	_ = gp.w.Close()
	go func() { _ = gp.cmd.Wait() }()
}

// procCPUms returns utime+stime of a process in ms (-1 if unreadable).
func procCPUms(pid int) int64 {
	b, err := os.ReadFile("/proc/" + strconv.Itoa(pid) + "/stat")
	if err != nil {
		return -1
	}
	i := bytes.LastIndexByte(b, ')')
	if i < 0 {
		return -1
	}
	f := strings.Fields(string(b[i+1:]))
	if len(f) < 13 {
		return -1
	}
	ut, e1 := strconv.ParseInt(f[11], 10, 64)
	st, e2 := strconv.ParseInt(f[12], 10, 64)
	if e1 != nil || e2 != nil {
		return -1
	}
	return (ut + st) * 10 // USER_HZ = 100
}

func (gp *guardProc) roundTrip(rq guardReq, tripMS int64) GResp {
	b, _ := json.Marshal(rq)
	cpu0 := procCPUms(gp.cmd.Process.Pid)
	if _, err := gp.w.Write(append(b, '\n')); err != nil {
		return GResp{Died: true, Note: "write: " + err.Error()}
	}
	wall0 := time.Now()
	tick := time.NewTimer(5 * time.Millisecond)
	defer tick.Stop()
	wait := 5 * time.Millisecond
	for {
		select {
		case line, ok := <-gp.lines:
			if !ok {
				cause, frame := gp.deathCause()
				return GResp{Died: true, Note: cause, PanicFrame: frame}
			}
			var g GResp
			if err := json.Unmarshal(line, &g); err != nil {
				panic(fmt.Sprintf("harness: guard: bad answer %q: %v", line, err))
			}
			return g
		case <-tick.C:
			cpu := procCPUms(gp.cmd.Process.Pid)
			if cpu0 >= 0 && cpu >= 0 && cpu-cpu0 >= tripMS {
				return GResp{Hung: true, Note: fmt.Sprintf("child used %d ms CPU without answering", cpu-cpu0)}
			}
			if time.Since(wall0) > guardWallTripMS*time.Millisecond {
				return GResp{Hung: true, Note: "no answer within the wall-clock fallback"}
			}
			if wait < 40*time.Millisecond {
				wait *= 2
			}
			tick.Reset(wait)
		}
	}
}

// GuardGet serves GET target on a real server over vodRoot inside the guard child.
func GuardGet(vodRoot, target string) GResp {
	guardMu.Lock()
	defer guardMu.Unlock()
	for attempt := 0; ; attempt++ {
		if guardCur == nil {
			guardCur = guardStart()
		}
		gp := guardCur
		if !gp.warmed[vodRoot] {
			g := gp.roundTrip(guardReq{VodRoot: vodRoot, Warm: true}, guardWarmTripMS)
			if g.Hung || g.Died || g.Status != 1 {
				gp.kill()
				guardCur = nil
				if attempt >= 2 {
					panic(fmt.Sprintf("harness: guard child cannot set up a server on %s: %+v", vodRoot, g))
				}
				continue
			}
			gp.warmed[vodRoot] = true
		}
		g := gp.roundTrip(guardReq{VodRoot: vodRoot, Target: target}, guardCPUTripMS)
		if g.Hung || g.Died {
			gp.kill()
			guardCur = nil
		}
		return g
	}
}

// GuardDo serves any request (method, body, headers) in the guard child: on the livesim2 router over
// vodRoot (handler ""), or on a handler registered with GuardRegister.
func GuardDo(vodRoot, handler, method, target string, body []byte, hdr map[string]string) GResp {
	guardMu.Lock()
	defer guardMu.Unlock()
	for attempt := 0; ; attempt++ {
		if guardCur == nil {
			guardCur = guardStart()
		}
		gp := guardCur
		if handler == "" && !gp.warmed[vodRoot] {
			g := gp.roundTrip(guardReq{VodRoot: vodRoot, Warm: true}, guardWarmTripMS)
			if g.Hung || g.Died || g.Status != 1 {
				gp.kill()
				guardCur = nil
				if attempt >= 2 {
					panic(fmt.Sprintf("harness: guard child cannot set up a server on %s: %+v", vodRoot, g))
				}
				continue
			}
			gp.warmed[vodRoot] = true
		}
		g := gp.roundTrip(guardReq{VodRoot: vodRoot, Target: target, Method: method, Body: body, Hdr: hdr, Handler: handler}, guardCPUTripMS)
		if g.Hung || g.Died {
			gp.kill()
			guardCur = nil
		}
		return g
	}
}

// GuardChildMain is the child side: it never returns.
func GuardChildMain() {
	in := os.NewFile(3, "guard-in")
	out := os.NewFile(4, "guard-out")
	if in == nil || out == nil {
		os.Exit(3)
	}
	srvs := map[string]*Srv{}
	others := map[string]http.Handler{}
	rd := bufio.NewReaderSize(in, 1<<22)
	for {
		line, err := rd.ReadBytes('\n')
		if err != nil {
			os.Exit(0) // parent gone
		}
		var rq guardReq
		if err := json.Unmarshal(line, &rq); err != nil {
			os.Exit(4)
		}
		var g GResp
		if rq.Handler != "" {
			h := others[rq.Handler]
			if h == nil {
				mk := guardHandlers[rq.Handler]
				if mk == nil {
					os.Exit(5)
				}
				h = mk()
				others[rq.Handler] = h
			}
			m := rq.Method
			if m == "" {
				m = "GET"
			}
			g = Observe(DoHandler(h, m, rq.Target, rq.Body, rq.Hdr, ""))
			b, _ := json.Marshal(g)
			if _, err := out.Write(append(b, '\n')); err != nil {
				os.Exit(0)
			}
			continue
		}
		s := srvs[rq.VodRoot]
		if s == nil {
			s, err = NewSrv(SrvOpts{VodRoot: rq.VodRoot})
			if err != nil {
				g = GResp{Status: -2, Note: err.Error()}
				b, _ := json.Marshal(g)
				out.Write(append(b, '\n'))
				continue
			}
			srvs[rq.VodRoot] = s
		}
		if rq.Warm {
			g = GResp{Status: 1}
		} else {
			m := rq.Method
			if m == "" {
				m = "GET"
			}
			g = Observe(s.Do(m, rq.Target, rq.Body, rq.Hdr))
		}
		b, _ := json.Marshal(g)
		if _, err := out.Write(append(b, '\n')); err != nil {
			os.Exit(0)
		}
	}
}

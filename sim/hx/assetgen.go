package hx

// Generated VoD assets (DESIGN.md §3.1): small synthetic DASH VoD assets written with mp4ff.
//
//	spec := hx.RandomAssetSpec(rng, hx.GenOpts{Name: "gen/a0", Tag: 7})
//	err  := hx.GenAsset(filepath.Join(vodRoot, spec.Name), spec)
//
// The spec is plain data (JSON-serialisable, lives in a scenario's world); GenAsset is a
// deterministic function of the spec. Every sample carries 16 unique payload bytes
// ("vsim", asset tag, representation index, segment index, sample index) followed by padding,
// so each served sample is attributable to exactly one source sample (DecodePayload).
// Init segments are the repository's bundled ones with mdhd.timescale (and the trex default
// duration) rewritten, so codec strings and encryption preparation stay realistic.

import (
	"bytes"
	"encoding/binary"
	"fmt"
	"os"
	"path/filepath"
	"strings"

	"github.com/Eyevinn/mp4ff/bits"
	"github.com/Eyevinn/mp4ff/mp4"

	"verif/sim/core"
)

// RepSpec describes one generated representation (one AdaptationSet per representation).
type RepSpec struct {
	ID        string `json:"id"`
	Kind      string `json:"kind"`  // video | audio
	Codec     string `json:"codec"` // avc1 | mp4a | ac-3
	Timescale uint32 `json:"timescale"`
	FrameDur  uint32 `json:"framedur"` // constant sample duration (ticks)
	// SegFrames[i] = number of samples of segment i; the segments are back to back.
	SegFrames []int `json:"segframes"`
	// DurMode says where the sample duration is stored: "" = in every trun entry,
	// "tfhd" = tfhd default (trun without durations), "trex" = trex default in the init segment.
	DurMode string `json:"durmode,omitempty"`
	// Start is the tfdt of the first segment (0 normally).
	Start uint64 `json:"start,omitempty"`
	// GapAfter > 0: GapTicks are skipped after segment number GapAfter (1-based) - a hole in the
	// media timeline (not a contiguous representation).
	GapAfter int    `json:"gapafter,omitempty"`
	GapTicks uint64 `json:"gapticks,omitempty"`
	// JitterSeg > 0: the first two samples of segment number JitterSeg (1-based) last FrameDur-1 and FrameDur+1
	// ticks (same segment timing, but the representation has no constant sample duration any more).
	// Only with durations in the trun entries (DurMode "").
	JitterSeg int `json:"jitterseg,omitempty"`
}

// AssetSpec describes one generated asset.
type AssetSpec struct {
	Name        string    `json:"name"` // directory below the VoD root (slash separated)
	MPD         string    `json:"mpd"`  // MPD file name
	Tag         uint32    `json:"tag"`  // goes into every sample payload
	Addressing  string    `json:"addressing"`
	StartNumber uint32    `json:"startnumber"`
	Reps        []RepSpec `json:"reps"`
	// MPDSeconds: $Number$ templates whose nominal duration is a whole number of seconds are
	// written as duration="<seconds>" without @timescale (as the bundled testpic assets do).
	MPDSeconds bool `json:"mpdseconds,omitempty"`
	// Informational (set by RandomAssetSpec; GenAsset does not read them):
	Class     string `json:"class,omitempty"`     // good | nonms | disagree | gap
	Pattern   string `json:"pattern,omitempty"`   // uniform | alternating | irregular
	AudioLoop string `json:"audioloop,omitempty"` // none | shorter | equal | longer
	AudioGrid string `json:"audiogrid,omitempty"` // video | own
}

// SegInfo is one row of the segment table a spec describes.
type SegInfo struct {
	Nr     uint32 // $Number$ value (StartNumber + index)
	Start  uint64
	End    uint64
	Frames int
}

// Table returns the segment table of the representation as it is written to disk.
func (a AssetSpec) Table(r RepSpec) []SegInfo {
	t := r.Start
	out := make([]SegInfo, 0, len(r.SegFrames))
	for i, n := range r.SegFrames {
		d := uint64(n) * uint64(r.FrameDur)
		out = append(out, SegInfo{Nr: a.StartNumber + uint32(i), Start: t, End: t + d, Frames: n})
		t += d
		if r.GapAfter > 0 && i+1 == r.GapAfter {
			t += r.GapTicks
		}
	}
	return out
}

// TotalTicks is the media duration of the representation (last end - first start).
func (a AssetSpec) TotalTicks(r RepSpec) uint64 {
	tb := a.Table(r)
	return tb[len(tb)-1].End - tb[0].Start
}

// RefRep is the representation livesim2 documents as timing reference: the first video
// representation in id order, else the first audio one.
func (a AssetSpec) RefRep() RepSpec {
	best := -1
	for _, kind := range []string{"video", "audio"} {
		for i, r := range a.Reps {
			if r.Kind == kind && (best < 0 || r.ID < a.Reps[best].ID) {
				best = i
			}
		}
		if best >= 0 {
			return a.Reps[best]
		}
	}
	return a.Reps[0]
}

// LoopWholeMS tells whether the reference representation's duration is a whole number of ms.
func (a AssetSpec) LoopWholeMS() bool {
	r := a.RefRep()
	return (a.TotalTicks(r)*1000)%uint64(r.Timescale) == 0
}

// LoopDurMS is the loop duration rounded down to ms.
func (a AssetSpec) LoopDurMS() int64 {
	r := a.RefRep()
	return int64(a.TotalTicks(r) * 1000 / uint64(r.Timescale))
}

// ---------------------------------------------------------------------------------------
// Payload.

const payloadMagic = "vsim"

// SamplePayload builds the unique payload of a sample.
func SamplePayload(tag uint32, rep, seg, sample int, pad int) []byte {
	b := make([]byte, 16+pad)
	copy(b, payloadMagic)
	binary.BigEndian.PutUint32(b[4:], tag)
	binary.BigEndian.PutUint16(b[8:], uint16(rep))
	binary.BigEndian.PutUint16(b[10:], uint16(seg))
	binary.BigEndian.PutUint32(b[12:], uint32(sample))
	for i := 16; i < len(b); i++ {
		b[i] = byte(0xA0 + i)
	}
	return b
}

// DecodePayload is the inverse of SamplePayload.
func DecodePayload(b []byte) (tag uint32, rep, seg, sample int, ok bool) {
	if len(b) < 16 || string(b[:4]) != payloadMagic {
		return 0, 0, 0, 0, false
	}
	return binary.BigEndian.Uint32(b[4:]), int(binary.BigEndian.Uint16(b[8:])), int(binary.BigEndian.Uint16(b[10:])),
		int(binary.BigEndian.Uint32(b[12:])), true
}

// ---------------------------------------------------------------------------------------
// Writing.

var initSources = map[string]string{
	"avc1": "testpic_2s/V300/init.mp4",
	"mp4a": "testpic_2s/A48/init.mp4",
	"ac-3": "bbb_hevc_ac3_8s/audio_init.mp4",
}

var codecStrings = map[string]string{"avc1": "avc1.64001e", "mp4a": "mp4a.40.2", "ac-3": "ac-3"}

func genInit(r RepSpec) ([]byte, uint32, error) {
	src, ok := initSources[r.Codec]
	if !ok {
		return nil, 0, fmt.Errorf("unknown codec %q", r.Codec)
	}
	data, err := os.ReadFile(filepath.Join(BundledAssets, filepath.FromSlash(src)))
	if err != nil {
		return nil, 0, err
	}
	f, err := mp4.DecodeFileSR(bits.NewFixedSliceReader(data))
	if err != nil {
		return nil, 0, err
	}
	in := f.Init
	if in == nil || in.Moov == nil || in.Moov.Trak == nil || in.Moov.Mvex == nil || in.Moov.Mvex.Trex == nil {
		return nil, 0, fmt.Errorf("%s: unexpected init structure", src)
	}
	in.Moov.Trak.Mdia.Mdhd.Timescale = r.Timescale
	if r.Kind == "audio" && r.Timescale <= 0xffff {
		for _, c := range in.Moov.Trak.Mdia.Minf.Stbl.Stsd.Children {
			if ase, ok := c.(*mp4.AudioSampleEntryBox); ok {
				ase.SampleRate = uint16(r.Timescale)
			}
		}
	}
	trex := in.Moov.Mvex.Trex
	switch {
	case r.DurMode == "trex":
		trex.DefaultSampleDuration = r.FrameDur
	case trex.DefaultSampleDuration != 0 && trex.DefaultSampleDuration != r.FrameDur:
		trex.DefaultSampleDuration = 0
	}
	var buf bytes.Buffer
	if err := in.Encode(&buf); err != nil {
		return nil, 0, err
	}
	return buf.Bytes(), in.Moov.Trak.Tkhd.TrackID, nil
}

func genSegment(a AssetSpec, repIdx int, r RepSpec, segIdx int, si SegInfo, trackID uint32) ([]byte, error) {
	seg := mp4.NewMediaSegment()
	frag, err := mp4.CreateFragment(si.Nr, trackID)
	if err != nil {
		return nil, err
	}
	seg.AddFragment(frag)
	t := si.Start
	for k := 0; k < si.Frames; k++ {
		flags := mp4.SyncSampleFlags
		pad := 0
		if r.Kind == "video" {
			if k > 0 {
				flags = mp4.NonSyncSampleFlags
			}
			pad = (k*7 + segIdx) % 5
		}
		data := SamplePayload(a.Tag, repIdx, segIdx, k, pad)
		dur := r.FrameDur
		if r.JitterSeg == segIdx+1 && r.DurMode == "" && si.Frames >= 2 && r.FrameDur > 1 {
			switch k {
			case 0:
				dur--
			case 1:
				dur++
			}
		}
		frag.AddFullSample(mp4.FullSample{
			Sample:     mp4.Sample{Flags: flags, Dur: dur, Size: uint32(len(data))},
			DecodeTime: t,
			Data:       data,
		})
		t += uint64(dur)
	}
	switch r.DurMode {
	case "tfhd":
		tfhd := frag.Moof.Traf.Tfhd
		tfhd.Flags |= 0x000008 // default-sample-duration-present
		tfhd.DefaultSampleDuration = r.FrameDur
		frag.Moof.Traf.Trun.Flags &^= mp4.TrunSampleDurationPresentFlag
	case "trex":
		frag.Moof.Traf.Trun.Flags &^= mp4.TrunSampleDurationPresentFlag
	}
	var buf bytes.Buffer
	if err := seg.Encode(&buf); err != nil {
		return nil, err
	}
	return buf.Bytes(), nil
}

// MediaName returns the file name (relative to the asset directory) of a segment.
func (a AssetSpec) MediaName(r RepSpec, si SegInfo) string {
	if a.Addressing == "time" {
		return fmt.Sprintf("%s/%d.m4s", r.ID, si.Start)
	}
	return fmt.Sprintf("%s/%d.m4s", r.ID, si.Nr)
}

func checkSpec(a AssetSpec) error {
	if a.Name == "" || a.MPD == "" || len(a.Reps) == 0 {
		return fmt.Errorf("asset spec needs name, mpd and representations")
	}
	if a.Addressing != "number" && a.Addressing != "time" {
		return fmt.Errorf("addressing %q", a.Addressing)
	}
	seen := map[string]bool{}
	for _, r := range a.Reps {
		if r.ID == "" || seen[r.ID] || strings.ContainsAny(r.ID, "/$") {
			return fmt.Errorf("bad or duplicate representation id %q", r.ID)
		}
		seen[r.ID] = true
		if r.Kind != "video" && r.Kind != "audio" {
			return fmt.Errorf("rep %s: kind %q", r.ID, r.Kind)
		}
		if r.Timescale == 0 || r.FrameDur == 0 || len(r.SegFrames) == 0 {
			return fmt.Errorf("rep %s: timescale, framedur and segframes are needed", r.ID)
		}
		for _, n := range r.SegFrames {
			if n <= 0 {
				return fmt.Errorf("rep %s: empty segment", r.ID)
			}
		}
	}
	return nil
}

// GenAsset writes the asset described by spec into dir (created if needed; existing media
// files of the same name are overwritten, nothing is deleted).
func GenAsset(dir string, spec AssetSpec) error {
	if err := checkSpec(spec); err != nil {
		return err
	}
	for ri, r := range spec.Reps {
		if err := os.MkdirAll(filepath.Join(dir, r.ID), 0o755); err != nil {
			return err
		}
		initData, trackID, err := genInit(r)
		if err != nil {
			return fmt.Errorf("rep %s init: %w", r.ID, err)
		}
		if err := os.WriteFile(filepath.Join(dir, r.ID, "init.mp4"), initData, 0o644); err != nil {
			return err
		}
		for si, s := range spec.Table(r) {
			data, err := genSegment(spec, ri, r, si, s, trackID)
			if err != nil {
				return fmt.Errorf("rep %s segment %d: %w", r.ID, si, err)
			}
			if err := os.WriteFile(filepath.Join(dir, filepath.FromSlash(spec.MediaName(r, s))), data, 0o644); err != nil {
				return err
			}
		}
	}
	return os.WriteFile(filepath.Join(dir, spec.MPD), []byte(GenMPD(spec)), 0o644)
}

// GenAssetInRoot writes the asset below vodRoot at spec.Name.
func GenAssetInRoot(vodRoot string, spec AssetSpec) error {
	return GenAsset(filepath.Join(vodRoot, filepath.FromSlash(spec.Name)), spec)
}

// GenMPD renders the static MPD: one period, one AdaptationSet with its own SegmentTemplate
// per representation ($Number$ + duration, or $Time$ + SegmentTimeline).
func GenMPD(a AssetSpec) string {
	ref := a.RefRep()
	durS := float64(a.TotalTicks(ref)) / float64(ref.Timescale)
	var maxSeg float64
	for _, s := range a.Table(ref) {
		if d := float64(s.End-s.Start) / float64(ref.Timescale); d > maxSeg {
			maxSeg = d
		}
	}
	var b strings.Builder
	b.WriteString(`<?xml version="1.0" encoding="utf-8"?>` + "\n")
	fmt.Fprintf(&b, `<MPD xmlns="urn:mpeg:dash:schema:mpd:2011" profiles="urn:mpeg:dash:profile:isoff-live:2011" type="static" minBufferTime="PT2S" maxSegmentDuration="PT%.3fS" mediaPresentationDuration="PT%.3fS">`+"\n", maxSeg, durS)
	fmt.Fprintf(&b, "  <ProgramInformation><Title>generated %s tag %d</Title></ProgramInformation>\n", a.Name, a.Tag)
	b.WriteString(`  <Period id="p0" start="PT0S">` + "\n")
	for i, r := range a.Reps {
		mime := r.Kind + "/mp4"
		fmt.Fprintf(&b, `    <AdaptationSet id="%d" contentType="%s" mimeType="%s" segmentAlignment="true" startWithSAP="1"`, i+1, r.Kind, mime)
		if r.Kind == "audio" {
			b.WriteString(` lang="en"`)
		}
		b.WriteString(">\n")
		b.WriteString(`      <Role schemeIdUri="urn:mpeg:dash:role:2011" value="main"/>` + "\n")
		tb := a.Table(r)
		if a.Addressing == "time" {
			fmt.Fprintf(&b, `      <SegmentTemplate timescale="%d" initialization="$RepresentationID$/init.mp4" media="$RepresentationID$/$Time$.m4s">`+"\n", r.Timescale)
			b.WriteString("        <SegmentTimeline>\n")
			for j := 0; j < len(tb); {
				d := tb[j].End - tb[j].Start
				rpt := 0
				for j+rpt+1 < len(tb) && tb[j+rpt+1].End-tb[j+rpt+1].Start == d && tb[j+rpt+1].Start == tb[j+rpt].End {
					rpt++
				}
				needT := j == 0 || tb[j].Start != tb[j-1].End
				b.WriteString("          <S")
				if needT {
					fmt.Fprintf(&b, ` t="%d"`, tb[j].Start)
				}
				fmt.Fprintf(&b, ` d="%d"`, d)
				if rpt > 0 {
					fmt.Fprintf(&b, ` r="%d"`, rpt)
				}
				b.WriteString("/>\n")
				j += rpt + 1
			}
			b.WriteString("        </SegmentTimeline>\n      </SegmentTemplate>\n")
		} else {
			avg := (a.TotalTicks(r) + uint64(len(tb))/2) / uint64(len(tb))
			if a.MPDSeconds && avg > 0 && avg%uint64(r.Timescale) == 0 {
				fmt.Fprintf(&b, `      <SegmentTemplate duration="%d" startNumber="%d" initialization="$RepresentationID$/init.mp4" media="$RepresentationID$/$Number$.m4s"/>`+"\n",
					avg/uint64(r.Timescale), a.StartNumber)
			} else {
				fmt.Fprintf(&b, `      <SegmentTemplate timescale="%d" duration="%d" startNumber="%d" initialization="$RepresentationID$/init.mp4" media="$RepresentationID$/$Number$.m4s"/>`+"\n",
					r.Timescale, avg, a.StartNumber)
			}
		}
		bw := 300000 + 1000*i
		if r.Kind == "audio" {
			bw = 48000 + 1000*i
			fmt.Fprintf(&b, `      <Representation id="%s" codecs="%s" bandwidth="%d" audioSamplingRate="%d">`+"\n", r.ID, codecStrings[r.Codec], bw, r.Timescale)
			b.WriteString(`        <AudioChannelConfiguration schemeIdUri="urn:mpeg:dash:23003:3:audio_channel_configuration:2011" value="2"/>` + "\n")
			b.WriteString("      </Representation>\n")
		} else {
			fmt.Fprintf(&b, `      <Representation id="%s" codecs="%s" bandwidth="%d" width="640" height="360" sar="1:1"/>`+"\n", r.ID, codecStrings[r.Codec], bw)
		}
		b.WriteString("    </AdaptationSet>\n")
	}
	b.WriteString("  </Period>\n</MPD>\n")
	return b.String()
}

// ---------------------------------------------------------------------------------------
// Random specs.

// GenOpts steers RandomAssetSpec. Zero values mean "draw it".
type GenOpts struct {
	Name  string
	Tag   uint32
	Class string // good (default) | nonms | disagree | gap
	// MaxSegs (default 12), MinSegMS (default 200), MaxSegMS (default 10000) bound the layout;
	// MaxFrames (default 1800) bounds the total number of video samples (speed).
	MaxSegs, MinSegMS, MaxSegMS, MaxFrames int
	// Addressing "number" | "time" | "" (draw); Audio "none" | "" (draw).
	Addressing string
	Audio      string
	// AudioRates: sample rates (= audio timescales) to draw from. Empty = 48000 only (and no
	// extra random draw, so specs drawn with the old options stay the same). Rates other than
	// 48000 always use AAC-like 1024-sample frames.
	AudioRates []uint32
	// AudioDurModes: if set, the audio representation's DurMode is drawn from it ("" = trun,
	// "tfhd", "trex"). Note: livesim2 answers 500 to every MPD of an asset whose audio has no
	// default sample duration anywhere and is not 48 kHz AAC / AC-3 (trun placement, other rate).
	AudioDurModes []string
	// GapIn (class "gap" only): "" = the hole is in the primary (and second video)
	// representation; "audio" = the hole is in the audio representation only (audio is then
	// always present and on the video grid); "any" = one of the two is drawn.
	GapIn string
}

type rate struct{ ts, fd uint32 }

// frame-rate families: members of one family describe the same frame rate in different timescales.
var rateFamilies = [][]rate{
	{{1000, 40}, {12800, 512}, {25000, 1000}, {90000, 3600}},    // 25
	{{15360, 512}, {30000, 1000}, {60000, 2000}, {90000, 3000}}, // 30
	{{30000, 1001}, {60000, 2002}, {90000, 3003}},               // 29.97
	{{24000, 1000}, {15360, 640}, {90000, 3750}},                // 24
	{{24000, 1001}}, // 23.976
	{{1000, 20}, {12800, 256}, {25000, 500}, {90000, 1800}}, // 50
	{{15360, 256}, {60000, 1000}, {90000, 1500}},            // 60
	{{60000, 1001}},             // 59.94
	{{12800, 1024}, {1000, 80}}, // 12.5
}

func gcd64(a, b uint64) uint64 {
	for b != 0 {
		a, b = b, a%b
	}
	return a
}

// msQuantum: the total number of frames must be a multiple of it for a whole-ms duration.
func msQuantum(r rate) int {
	return int(uint64(r.ts) / gcd64(uint64(r.ts), uint64(r.fd)*1000))
}

func gcdInt(a, b int) int { return int(gcd64(uint64(a), uint64(b))) }

// RandomAssetSpec draws an asset layout. It never fails; all values are within the ranges of
// DESIGN.md §3.1.
func RandomAssetSpec(rng *core.Rng, o GenOpts) AssetSpec {
	if o.MaxSegs <= 0 {
		o.MaxSegs = 12
	}
	if o.MinSegMS <= 0 {
		o.MinSegMS = 200
	}
	if o.MaxSegMS <= 0 {
		o.MaxSegMS = 10000
	}
	if o.MaxFrames <= 0 {
		o.MaxFrames = 1800
	}
	if o.Class == "" {
		o.Class = "good"
	}
	a := AssetSpec{Name: o.Name, MPD: core.Pick(rng, []string{"Manifest.mpd", "stream.mpd", "a.mpd"}), Tag: o.Tag, Class: o.Class}
	if a.Name == "" {
		a.Name = fmt.Sprintf("gen%d", o.Tag)
	}
	a.Addressing = o.Addressing
	if a.Addressing == "" {
		a.Addressing = core.Pick(rng, []string{"number", "time"})
	}
	a.StartNumber = core.Pick(rng, []uint32{1, 1, 1, 1, 0, 7})
	a.MPDSeconds = rng.Chance(0.5)

	audioOnly := o.Audio != "none" && o.Class != "disagree" && rng.Chance(0.08)
	var fam []rate
	var prim rate
	for {
		fam = core.Pick(rng, rateFamilies)
		prim = core.Pick(rng, fam)
		if audioOnly {
			fam = []rate{{48000, 1024}}
			prim = fam[0]
		}
		if o.Class != "nonms" || msQuantum(prim) > 1 {
			break
		}
	}
	q := msQuantum(prim)
	nseg := rng.Range(1, o.MaxSegs)
	if rng.Chance(0.1) {
		nseg = 1
	}
	if o.Class == "gap" && nseg < 2 {
		nseg = 2
	}
	framesOf := func(ms int) int {
		n := int(uint64(ms) * uint64(prim.ts) / (uint64(prim.fd) * 1000))
		if n < 1 {
			n = 1
		}
		return n
	}
	minF, maxF := framesOf(o.MinSegMS), framesOf(o.MaxSegMS)
	if lim := o.MaxFrames / nseg; maxF > lim {
		maxF = lim
	}
	if maxF < minF {
		maxF = minF
	}
	drawF := func() int {
		var n int
		switch rng.Intn(4) {
		case 0: // sub-second
			n = rng.Range(minF, framesOf(999))
		case 1: // whole seconds when the rate allows it
			s := rng.Range(1, 10)
			n = framesOf(s * 1000)
			if uint64(n)*uint64(prim.fd) != uint64(s)*uint64(prim.ts) {
				n = framesOf(s*1000) + rng.Intn(2)
			}
		case 2:
			n = rng.Range(framesOf(1000), framesOf(4000))
		default:
			n = rng.Range(minF, maxF)
		}
		if n > maxF {
			n = maxF
		}
		if n < minF {
			n = minF
		}
		return n
	}
	a.Pattern = core.Pick(rng, []string{"uniform", "alternating", "irregular"})
	segs := make([]int, nseg)
	switch a.Pattern {
	case "uniform":
		n := drawF()
		if o.Class != "nonms" {
			step := q / gcdInt(q, nseg)
			n = (n + step - 1) / step * step
		}
		for i := range segs {
			segs[i] = n
		}
	case "alternating":
		x, y := drawF(), drawF()
		for i := range segs {
			if i%2 == 0 {
				segs[i] = x
			} else {
				segs[i] = y
			}
		}
	default:
		for i := range segs {
			segs[i] = drawF()
		}
	}
	total := 0
	for _, n := range segs {
		total += n
	}
	if o.Class == "nonms" {
		if total%q == 0 {
			segs[nseg-1]++
		}
	} else if total%q != 0 {
		segs[nseg-1] += q - total%q
	}
	durMode := func() string { return core.Pick(rng, []string{"", "", "tfhd", "trex"}) }
	primKind, primCodec, primID := "video", "avc1", "V1"
	if audioOnly {
		primKind, primCodec, primID = "audio", "mp4a", "A1"
	}
	p := RepSpec{ID: primID, Kind: primKind, Codec: primCodec, Timescale: prim.ts, FrameDur: prim.fd, SegFrames: segs, DurMode: durMode()}
	gapIn := o.GapIn
	if o.Class == "gap" && gapIn == "any" {
		gapIn = core.Pick(rng, []string{"", "audio"})
	}
	if audioOnly {
		gapIn = "" // the only representation takes the hole
	}
	if o.Class == "gap" && gapIn != "audio" {
		p.GapAfter = rng.Range(1, nseg-1)
		// a hole of whole milliseconds, so that only the hole distinguishes the asset
		p.GapTicks = uint64(q) * uint64(prim.fd) * uint64(rng.Range(1, 3))
	}
	a.Reps = append(a.Reps, p)

	// second video representation
	if !audioOnly && (o.Class == "disagree" || rng.Chance(0.35)) {
		r2 := core.Pick(rng, fam)
		v2 := RepSpec{ID: "V2", Kind: "video", Codec: "avc1", Timescale: r2.ts, FrameDur: r2.fd, DurMode: durMode(),
			SegFrames: append([]int(nil), segs...), GapAfter: p.GapAfter}
		if p.GapTicks > 0 {
			v2.GapTicks = p.GapTicks / uint64(prim.fd) * uint64(r2.fd)
		}
		if o.Class == "disagree" {
			// differ by at least 3 ms worth of frames, or by a whole segment
			minDiff := int(3*uint64(r2.ts)/(1000*uint64(r2.fd))) + 1
			switch {
			case nseg > 1 && rng.Chance(0.4):
				v2.SegFrames = v2.SegFrames[:nseg-1]
			case rng.Bool() && v2.SegFrames[nseg-1] > minDiff:
				v2.SegFrames[nseg-1] -= rng.Range(minDiff, min(v2.SegFrames[nseg-1]-1, minDiff+5))
			default:
				v2.SegFrames[nseg-1] += rng.Range(minDiff, minDiff+5)
			}
			if rng.Bool() { // let either one be the reference (first in id order)
				a.Reps[0].ID, v2.ID = "V2", "V1"
			}
		}
		a.Reps = append(a.Reps, v2)
	}

	// audio
	a.AudioLoop, a.AudioGrid = "none", ""
	audioGap := o.Class == "gap" && gapIn == "audio" && !audioOnly
	if !audioOnly && o.Audio != "none" && (rng.Chance(0.75) || audioGap) {
		fr := uint64(1024)
		codec := "mp4a"
		if rng.Chance(0.3) {
			fr, codec = 1536, "ac-3"
		}
		arate := uint64(48000)
		if len(o.AudioRates) > 0 {
			arate = uint64(core.Pick(rng, o.AudioRates))
			if arate != 48000 {
				fr, codec = 1024, "mp4a"
			}
		}
		grid := func(x uint64) uint64 { // first audio frame index at or after video time x
			num := x * arate
			den := uint64(prim.ts) * fr
			return (num + den - 1) / den
		}
		vt := a.Table(p)
		totalFrames := int(grid(vt[len(vt)-1].End - vt[0].Start))
		a.AudioLoop = core.Pick(rng, []string{"shorter", "equal", "longer"})
		delta := 0
		switch a.AudioLoop {
		case "shorter":
			delta = -rng.Range(1, 3)
		case "longer":
			delta = rng.Range(1, 3)
		}
		a.AudioGrid = core.Pick(rng, []string{"video", "video", "own"})
		if audioGap {
			a.AudioGrid = "video"
		}
		var af []int
		if a.AudioGrid == "video" {
			prev := uint64(0)
			for _, s := range vt {
				e := grid(s.End - vt[0].Start)
				af = append(af, int(e-prev))
				prev = e
			}
		} else {
			per := rng.Range(20, 200)
			for left := totalFrames; left > 0; left -= per {
				af = append(af, min(per, left))
			}
			if len(af) > 14 {
				af = af[:14]
				af[13] = totalFrames - 13*per
			}
		}
		af[len(af)-1] += delta
		for len(af) > 1 && af[len(af)-1] <= 0 { // very short last segment: fold into the previous one
			af[len(af)-2] += af[len(af)-1]
			af = af[:len(af)-1]
		}
		ok := true
		for _, n := range af {
			if n <= 0 {
				ok = false
			}
		}
		if ok {
			ar := RepSpec{ID: "A1", Kind: "audio", Codec: codec, Timescale: uint32(arate), FrameDur: uint32(fr), SegFrames: af, DurMode: durMode()}
			if len(o.AudioDurModes) > 0 {
				ar.DurMode = core.Pick(rng, o.AudioDurModes)
			}
			if audioGap && len(af) >= 2 {
				ar.GapAfter = rng.Range(1, len(af)-1)
				ar.GapTicks = fr * uint64(rng.Range(1, 40))
			}
			a.Reps = append(a.Reps, ar)
		} else {
			a.AudioLoop, a.AudioGrid = "none", ""
		}
	}
	// document order: sometimes audio first (as in the bundled testpic assets)
	if len(a.Reps) > 1 && rng.Chance(0.3) {
		last := a.Reps[len(a.Reps)-1]
		copy(a.Reps[1:], a.Reps[:len(a.Reps)-1])
		a.Reps[0] = last
	}
	return a
}

// Traits returns categorical traits of a generated asset for signatures (DESIGN Appendix A).
func (a AssetSpec) Traits() map[string]string {
	ref := a.RefRep()
	t := map[string]string{"addressing": a.Addressing, "segdur": "const", "n1": "false", "rate1001": "false",
		"audioloop": a.AudioLoop, "class": a.Class, "refkind": ref.Kind}
	for _, n := range ref.SegFrames {
		if n != ref.SegFrames[0] {
			t["segdur"] = "variable"
		}
	}
	if len(ref.SegFrames) == 1 {
		t["n1"] = "true"
	}
	if ref.FrameDur%1001 == 0 {
		t["rate1001"] = "true"
	}
	if t["audioloop"] == "" {
		t["audioloop"] = "none"
	}
	t["gapin"] = "none"
	for _, r := range a.Reps {
		if r.GapAfter > 0 {
			if t["gapin"] == "none" || t["gapin"] == r.Kind {
				t["gapin"] = r.Kind
			} else {
				t["gapin"] = "both"
			}
		}
		if r.Kind == "audio" {
			t["audiorate"] = "48000"
			if r.Timescale != 48000 {
				t["audiorate"] = "other"
			}
		}
	}
	return t
}

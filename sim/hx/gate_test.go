package hx

import (
	"sync"
	"testing"
)

func TestGateRace(t *testing.T) {
	m := map[int]int{}
	var mu sync.Mutex
	locked := testing.Short()
	op := func(k int) func() {
		return func() {
			if locked {
				mu.Lock()
				defer mu.Unlock()
			}
			m[k] = k
		}
	}
	r := RunSerialized([][]func(){{op(1), op(2)}, {op(3), func() { _ = len(m) }}}, []int{0, 1, 0, 1}, 0)
	if r.Executed != 4 {
		t.Fatalf("executed %d", r.Executed)
	}
}

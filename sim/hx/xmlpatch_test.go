package hx

import (
	"testing"

	"github.com/beevik/etree"
)

func mustDoc(t *testing.T, s string) *etree.Document {
	d, err := ParseXML([]byte(s))
	if err != nil {
		t.Fatal(err)
	}
	return d
}

func TestApplyXMLPatch(t *testing.T) {
	cases := []struct{ name, base, patch, want, issue string }{
		{"append", `<doc><a id="1"/></doc>`, `<p><add sel="/doc"><b/></add></p>`, `<doc><a id="1"/><b/></doc>`, ""},
		{"prepend", `<doc>
  <a id="1"/></doc>`, `<p><add sel="/doc" pos="prepend"><b/></add></p>`, `<doc><b/><a id="1"/></doc>`, ""},
		{"after", `<doc><a id="1"/><a id="2"/></doc>`, `<p><add sel="/doc/a[@id='1']" pos="after"><b/><c/></add></p>`, `<doc><a id="1"/><b/><c/><a id="2"/></doc>`, ""},
		{"before", `<doc><a id="1"/><a id="2"/></doc>`, `<p><add sel='/doc/a[2]' pos="before"><b/></add></p>`, `<doc><a id="1"/><b/><a id="2"/></doc>`, ""},
		{"attr add", `<doc><a id="1"/></doc>`, `<p><add sel="/doc/a[1]" type="@x">v</add></p>`, `<doc><a x="v" id="1"/></doc>`, ""},
		{"attr add sel form", `<doc><a id="1"/></doc>`, `<p><add sel="/doc/a[1]/@x">v</add></p>`, `<doc><a x="v" id="1"/></doc>`, "add-attr-sel-form"},
		{"attr replace", `<doc><a id="1" x="o"/></doc>`, `<p><replace sel="/doc/a/@x">n</replace></p>`, `<doc><a id="1" x="n"/></doc>`, ""},
		{"attr remove", `<doc><a id="1" x="o"/></doc>`, `<p><remove sel="/doc/a/@x"/></p>`, `<doc><a id="1"/></doc>`, ""},
		{"attr remove missing", `<doc><a id="1"/></doc>`, `<p><remove sel="/doc/a/@x"/></p>`, `<doc><a id="1"/></doc>`, "sel-no-match"},
		{"elem replace", `<doc><a id="1">t</a><b/></doc>`, `<p><replace sel="/doc/a"><a id="1">u</a></replace></p>`, `<doc><a id="1">u</a><b/></doc>`, ""},
		{"elem remove idx", `<doc><s/><a n="1"/><a n="2"/><a n="3"/></doc>`, `<p><remove sel="/doc/a[2]"/><remove sel="/doc/a[2]"/></p>`, `<doc><s/><a n="1"/></doc>`, ""},
		{"ambiguous", `<doc><a k="1"/><a k="1"/></doc>`, `<p><remove sel="/doc/a[@k='1']"/></p>`, `<doc><a k="1"/><a k="1"/></doc>`, "sel-ambiguous"},
		{"two preds", `<doc><a k="1" id="x"/><a k="1" id="y"/></doc>`, `<p><remove sel="/doc/a[@k='1'][2]"/></p>`, `<doc><a k="1" id="x"/></doc>`, ""},
		{"ns attr unprefixed does not match", `<doc xmlns:q="u" q:x="1"/>`, `<p><replace sel="/doc/@x">2</replace></p>`, `<doc xmlns:q="u" q:x="1"/>`, "sel-no-match"},
		{"ns attr prefixed", `<doc xmlns:q="u" q:x="1"/>`, `<p><replace sel="/doc/@q:x">2</replace></p>`, `<doc xmlns:q="u" q:x="2"/>`, ""},
		{"order of ops", `<l><S n="1"/><S n="2"/><S n="3"/></l>`, `<p><remove sel="/l/S[1]"/><add sel="/l" pos="prepend"><S n="0"/></add><add sel="/l/S[2]" pos="after"><S n="9"/></add></p>`, `<l><S n="0"/><S n="2"/><S n="9"/><S n="3"/></l>`, ""},
	}
	for _, c := range cases {
		base := mustDoc(t, c.base)
		patch := mustDoc(t, c.patch)
		want := mustDoc(t, c.want)
		iss, _ := ApplyXMLPatch(base.Root(), patch.Root())
		got := ""
		if len(iss) > 0 {
			got = iss[0].Kind
		}
		if got != c.issue {
			t.Errorf("%s: issue %q want %q (%v)", c.name, got, c.issue, iss)
		}
		if d := CanonicalDiff(base.Root(), want.Root()); d != nil {
			t.Errorf("%s: %v", c.name, d)
		}
	}
	a := mustDoc(t, `<d b="1" a="2"> <x/>  <y>t </y></d>`)
	b := mustDoc(t, `<d a="2" b="1"><x></x><y> t</y></d>`)
	if d := CanonicalDiff(a.Root(), b.Root()); d != nil {
		t.Errorf("canonical: %v", d)
	}
	c := mustDoc(t, `<d a="2" b="1"><y>t</y><x/></d>`)
	if d := CanonicalDiff(a.Root(), c.Root()); d == nil {
		t.Errorf("order must matter")
	}
}

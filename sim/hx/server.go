// Package hx holds the harness-side plumbing around the real code: in-process HTTP
// (no sockets), panic capture, MP4 and MPD observation helpers.
package hx

import (
	"bytes"
	"context"
	"fmt"
	"io"
	"log/slog"
	"net/http"
	"net/http/httptest"
	"os"
	"strings"
	"sync"
	"sync/atomic"
	"time"

	"github.com/Dash-Industry-Forum/livesim2/cmd/livesim2/app"
	"github.com/Dash-Industry-Forum/livesim2/pkg/logging"
	"github.com/go-chi/chi/v5/middleware"
)

func init() {
	// as main() does: without it the /loglevel endpoint dereferences a nil level variable
	_ = logging.InitSlog("ERROR", "discard")
	// SUT logging is discarded: logging must not perturb anything, and must not cost time.
	slog.SetDefault(slog.New(slog.NewTextHandler(io.Discard, &slog.HandlerOptions{Level: slog.LevelError + 100})))
}

// BundledAssets is the VoD root with the repository's own test assets.
const BundledAssets = "/repo/cmd/livesim2/app/testdata/assets"

// Srv is one livesim2 server instance (real app.SetupServer), driven in-process.
type Srv struct {
	S       *app.Server
	VodRoot string
}

type SrvOpts struct {
	VodRoot      string
	RepDataRoot  string // "" = disabled
	WriteRepData bool
	DrmCfgFile   string
	MaxRequests  int
	ReqLimitInt  int
	WhiteList    string
	TimeoutS     int
}

func NewSrv(o SrvOpts) (*Srv, error) {
	cfg := app.DefaultConfig
	cfg.VodRoot = o.VodRoot
	if cfg.VodRoot == "" {
		cfg.VodRoot = BundledAssets
	}
	cfg.RepDataRoot = o.RepDataRoot
	cfg.WriteRepData = o.WriteRepData
	cfg.DrmCfgFile = o.DrmCfgFile
	cfg.MaxRequests = o.MaxRequests
	if o.ReqLimitInt > 0 {
		cfg.ReqLimitInt = o.ReqLimitInt
	}
	cfg.WhiteListBlocks = o.WhiteList
	cfg.TimeoutS = o.TimeoutS
	cfg.LogFormat = "discard"
	s, err := app.SetupServer(context.Background(), &cfg)
	if err != nil {
		return nil, err
	}
	return &Srv{S: s, VodRoot: cfg.VodRoot}, nil
}

// Resp is a recorded response.
type Resp struct {
	Status int
	Header http.Header
	Body   []byte
	// Panic is non-empty if the handler panicked (recovered by the production middleware).
	Panic      string
	PanicFrame string
	// Hang is set when the handler did not return within the real-time watchdog.
	Hang bool
}

// Watchdog bounds every in-process request in real time (0 = none, e.g. inside synctest bubbles,
// where a real timer must not be used).
var Watchdog = 30 * time.Second

// Poisoned is set once a handler goroutine had to be abandoned.
var Poisoned atomic.Bool

func (r *Resp) CT() string { return r.Header.Get("Content-Type") }

type panicEntry struct {
	mu    sync.Mutex
	val   string
	stack string
}

func (p *panicEntry) Write(status, bytes int, header http.Header, elapsed time.Duration, extra interface{}) {
}
func (p *panicEntry) Panic(v interface{}, stack []byte) {
	p.mu.Lock()
	p.val = fmt.Sprint(v)
	p.stack = string(stack)
	p.mu.Unlock()
}

// TopAppFrame returns the first livesim2 function in a stack trace ("app.(*T).Method").
func TopAppFrame(stack string) string {
	for _, line := range strings.Split(stack, "\n") {
		if !strings.HasPrefix(line, "github.com/Dash-Industry-Forum/livesim2/") {
			continue
		}
		fn := line
		if i := strings.LastIndex(fn, "("); i > 0 {
			fn = fn[:i]
		}
		fn = strings.TrimPrefix(fn, "github.com/Dash-Industry-Forum/livesim2/")
		// drop directory part, keep pkg.Func
		if i := strings.LastIndex(fn, "/"); i >= 0 {
			fn = fn[i+1:]
		}
		// skip the middleware frames that merely re-panic / log
		if strings.Contains(fn, "SlogMiddleWare") {
			continue
		}
		// strip closures suffix .func1 etc. is kept: it is stable enough
		return fn
	}
	return "unknown"
}

// Do serves one request through the real router.
func (s *Srv) Do(method, target string, body []byte, hdr map[string]string) *Resp {
	return DoHandler(s.S.Router, method, target, body, hdr, "")
}

// Get is Do("GET").
func (s *Srv) Get(target string) *Resp { return s.Do("GET", target, nil, nil) }

// GetAt requests path at the simulated instant nowMS through the documented ?nowMS seam.
func (s *Srv) GetAt(path string, nowMS int64) *Resp {
	sep := "?"
	if strings.Contains(path, "?") {
		sep = "&"
	}
	return s.Get(fmt.Sprintf("%s%snowMS=%d", path, sep, nowMS))
}

// DoHandler serves one request through any handler, capturing recovered panics.
func DoHandler(h http.Handler, method, target string, body []byte, hdr map[string]string, remoteAddr string) *Resp {
	// net/http guarantees a non-nil Body for server requests, so an absent body is http.NoBody
	var rd io.Reader = http.NoBody
	if body != nil {
		rd = bytes.NewReader(body)
	}
	return DoHandlerReader(h, method, target, rd, hdr, remoteAddr)
}

// DoHandlerReader is DoHandler with the request body given as a reader (e.g. one that delivers its bytes late).
func DoHandlerReader(h http.Handler, method, target string, rd io.Reader, hdr map[string]string, remoteAddr string) *Resp {
	req, err := http.NewRequest(method, "http://sim.test"+target, rd)
	if err != nil {
		return &Resp{Status: -1, Header: http.Header{}, Body: []byte(err.Error())}
	}
	req.RequestURI = target
	req.RemoteAddr = "192.0.2.1:1234"
	if remoteAddr != "" {
		req.RemoteAddr = remoteAddr
	}
	for k, v := range hdr {
		req.Header.Set(k, v)
	}
	pe := &panicEntry{}
	req = middleware.WithLogEntry(req, pe)
	rec := httptest.NewRecorder()
	resp := &Resp{}
	serve := func() {
		defer func() {
			if r := recover(); r != nil {
				// not recovered by the SUT's own middleware (e.g. handler used without router)
				pe.Panic(r, debugStack())
			}
		}()
		h.ServeHTTP(rec, req)
	}
	if Watchdog <= 0 {
		serve()
	} else {
		// Real-time watchdog (DESIGN §5.3): a handler that spins can never be seen by a simulated
		// clock. On a trip the goroutine is abandoned and the process is marked poisoned: the worker
		// records the scenario and ends, the orchestrator continues in a fresh process.
		done := make(chan struct{})
		go func() { defer close(done); serve() }()
		select {
		case <-done:
		case <-time.After(Watchdog):
			Poisoned.Store(true)
			return &Resp{Status: -2, Header: http.Header{}, Hang: true}
		}
	}
	resp.Status = rec.Code
	resp.Header = rec.Header()
	resp.Body = rec.Body.Bytes()
	pe.mu.Lock()
	if pe.val != "" {
		resp.Panic = pe.val
		resp.PanicFrame = TopAppFrame(pe.stack)
	}
	pe.mu.Unlock()
	return resp
}

func debugStack() []byte {
	buf := make([]byte, 64<<10)
	n := runtimeStack(buf)
	return buf[:n]
}

// TempDir creates a scratch directory; the caller removes it.
func TempDir(prefix string) string {
	d, err := os.MkdirTemp("", "verif-"+prefix+"-")
	if err != nil {
		panic(err)
	}
	return d
}

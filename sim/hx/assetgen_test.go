package hx_test

import (
	"fmt"
	"os"
	"path/filepath"
	"strings"
	"testing"

	"verif/sim/core"
	"verif/sim/hx"
	"verif/sim/refmodel"
)

// TestGenAssets validates the generator: for many random specs of every class the independent
// reference scan must agree with the spec's segment table, a real server started on the root
// must list exactly the good assets, and every sample payload must be attributable.
func TestGenAssets(t *testing.T) {
	rng := core.NewRng(12345)
	classes := []string{"good", "good", "good", "nonms", "disagree", "gap"}
	stats := map[string]int{}
	for round := 0; round < 40; round++ {
		root := hx.TempDir("gentest")
		var specs []hx.AssetSpec
		for i := 0; i < 6; i++ {
			sp := hx.RandomAssetSpec(rng, hx.GenOpts{Name: fmt.Sprintf("g/%s%d", classes[i], i), Tag: uint32(round*10 + i), Class: classes[i], MaxFrames: 600,
				AudioRates: []uint32{48000, 44100, 32000, 22050}, GapIn: "any"})
			if err := hx.GenAssetInRoot(root, sp); err != nil {
				t.Fatalf("gen: %v", err)
			}
			specs = append(specs, sp)
			for k, v := range sp.Traits() {
				stats[k+"="+v]++
			}
			stats[fmt.Sprintf("ts=%d", sp.RefRep().Timescale)]++
			for _, r := range sp.Reps {
				stats["durmode="+r.DurMode]++
				stats["codec="+r.Codec]++
			}
		}
		ref, err := refmodel.ScanRoot(root)
		if err != nil {
			t.Fatal(err)
		}
		srv, err := hx.NewSrv(hx.SrvOpts{VodRoot: root})
		if err != nil {
			t.Fatalf("server: %v", err)
		}
		list := string(srv.Get("/assets").Body)
		for _, sp := range specs {
			ra := ref[sp.Name]
			if ra == nil {
				t.Fatalf("%s: not found by refmodel", sp.Name)
			}
			for _, r := range sp.Reps {
				rr := ra.Reps[r.ID]
				if rr == nil {
					t.Fatalf("%s/%s: refmodel has no such rep (bad=%q)", sp.Name, r.ID, ra.Bad)
				}
				tb := sp.Table(r)
				if len(tb) != len(rr.Segs) {
					t.Fatalf("%s/%s: %d segs vs refmodel %d", sp.Name, r.ID, len(tb), len(rr.Segs))
				}
				for i, s := range tb {
					end := s.End
					// $Number$ addressing: the reference scan defines a segment's end as the next one's start
					if sp.Addressing == "number" && i+1 < len(tb) {
						end = tb[i+1].Start
					}
					if rr.Segs[i].Start != s.Start || rr.Segs[i].End != end {
						t.Fatalf("%s/%s seg %d: spec [%d,%d) refmodel [%d,%d)", sp.Name, r.ID, i, s.Start, end, rr.Segs[i].Start, rr.Segs[i].End)
					}
				}
				if rr.Timescale != uint64(r.Timescale) || rr.FrameDur != r.FrameDur {
					t.Fatalf("%s/%s: timescale/framedur %d/%d vs %d/%d", sp.Name, r.ID, rr.Timescale, rr.FrameDur, r.Timescale, r.FrameDur)
				}
			}
			listed := strings.Contains(list, "<strong>"+sp.Name+"</strong>")
			// a hole in any representation's timeline: left out (the reference scan does not judge it)
			// ($Number$ tables are closed by construction: such an asset is loaded)
			wantServed := sp.Class == "good" || (sp.Class == "gap" && sp.Addressing == "number")
			if sp.Class == "gap" && sp.Addressing == "time" {
				stats["gapin="+sp.Traits()["gapin"]]++
				if ra.Bad == "" {
					ra.Bad = "hole in a representation's timeline"
				}
			}
			if listed != wantServed {
				t.Fatalf("%s (class %s, wholeMS %v): listed=%v spec=%+v", sp.Name, sp.Class, sp.LoopWholeMS(), listed, sp)
			}
			if (ra.Bad == "") != wantServed {
				t.Fatalf("%s: refmodel bad=%q class=%s", sp.Name, ra.Bad, sp.Class)
			}
			if sp.Class == "nonms" && sp.LoopWholeMS() {
				t.Fatalf("%s: nonms class with whole-ms loop", sp.Name)
			}
			if (wantServed || sp.Class == "gap") && (!sp.LoopWholeMS() || ra.LoopDurMS != sp.LoopDurMS()) {
				t.Fatalf("%s: loop %d vs %d", sp.Name, ra.LoopDurMS, sp.LoopDurMS())
			}
			// payload attribution of one VoD segment through the independent parser
			r0 := sp.Reps[0]
			data, _ := os.ReadFile(filepath.Join(root, sp.Name, sp.MediaName(r0, sp.Table(r0)[0])))
			in, _ := ra.Reps[r0.ID].Init()
			sg, err := hx.ParseSeg(data, in.Trex)
			if err != nil {
				t.Fatal(err)
			}
			for k, s := range sg.AllSamples() {
				tag, ri, si, ki, ok := hx.DecodePayload(s.Data)
				if !ok || tag != sp.Tag || ri != 0 || si != 0 || ki != k || s.Dur != r0.FrameDur {
					t.Fatalf("%s: payload %v %d %d %d %d dur %d", sp.Name, ok, tag, ri, si, ki, s.Dur)
				}
			}
			// a live MPD and one segment of a good asset are served
			if wantServed && sp.Class == "good" {
				now := int64(1_000_000_000_000)
				for _, typ := range []string{"", "segtimeline_1/", "segtimelinenr_1/"} {
					r := srv.GetAt("/livesim2/"+typ+sp.Name+"/"+sp.MPD, now)
					stats[fmt.Sprintf("mpd-%s%d-rate-%s", typ, r.Status, sp.Traits()["audiorate"])]++
					if r.Status != 200 && sp.Traits()["audiorate"] != "other" {
						t.Fatalf("%s %s: MPD status %d %s", sp.Name, typ, r.Status, r.Body)
					}
					if r.Status != 200 {
						for _, rp := range sp.Reps {
							if rp.Kind == "audio" {
								stats[fmt.Sprintf("mpd-%s%d-durmode-%s", typ, r.Status, rp.DurMode)]++
							}
						}
					}
				}
				stats["served"]++
			}
		}
		os.RemoveAll(root)
	}
	keys := make([]string, 0)
	for k := range stats {
		keys = append(keys, k)
	}
	sortStrings(keys)
	for _, k := range keys {
		t.Logf("%-24s %d", k, stats[k])
	}
}

func sortStrings(s []string) {
	for i := range s {
		for j := i + 1; j < len(s); j++ {
			if s[j] < s[i] {
				s[i], s[j] = s[j], s[i]
			}
		}
	}
}

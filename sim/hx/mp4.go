package hx

import (
	"bytes"
	"crypto/sha256"
	"encoding/binary"
	"encoding/hex"
	"fmt"
	"strings"

	"github.com/Eyevinn/mp4ff/bits"
	"github.com/Eyevinn/mp4ff/mp4"
)

// Sample is one media sample as observed in a served segment.
type Sample struct {
	DecodeTime uint64
	Dur        uint32
	Size       uint32
	Flags      uint32
	Cto        int32
	Hash       string // sha256 of payload (hex, 16 chars)
	Data       []byte
}

// Frag is one moof+mdat pair.
type Frag struct {
	Seq     uint32
	Tfdt    uint64
	Samples []Sample
	Dur     uint64
	NrEmsg  int
	Emsgs   []*mp4.EmsgBox
	RawMoof *mp4.MoofBox
	Mp4     *mp4.Fragment
}

// Seg is a parsed media segment (whole or concatenated chunks).
type Seg struct {
	HasStyp bool
	Brands  []string
	Frags   []Frag
	Dur     uint64
	// TopBoxes lists the top-level box types in order.
	TopBoxes []string
	Mp4      *mp4.MediaSegment
}

func (s *Seg) Tfdt() uint64 { return s.Frags[0].Tfdt }
func (s *Seg) Seq() uint32  { return s.Frags[0].Seq }

func (s *Seg) AllSamples() []Sample {
	var out []Sample
	for _, f := range s.Frags {
		out = append(out, f.Samples...)
	}
	return out
}

// Init holds what the harness needs from an init segment.
type Init struct {
	Timescale  uint32
	Trex       *mp4.TrexBox
	TrackID    uint32
	SampleType string // avc1, encv, mp4a, enca, stpp, wvtt, ...
	Scheme     string // cenc / cbcs when protected
	KID        string // hex, when protected
	Mp4        *mp4.InitSegment
	HasMehd    bool
}

func ParseInit(data []byte) (*Init, error) {
	f, err := mp4.DecodeFileSR(bits.NewFixedSliceReader(data))
	if err != nil {
		return nil, err
	}
	if f.Init == nil || f.Init.Moov == nil || f.Init.Moov.Trak == nil {
		return nil, fmt.Errorf("no init/moov/trak")
	}
	in := &Init{Mp4: f.Init}
	moov := f.Init.Moov
	in.Timescale = moov.Trak.Mdia.Mdhd.Timescale
	in.TrackID = moov.Trak.Tkhd.TrackID
	if moov.Mvex != nil {
		in.Trex = moov.Mvex.Trex
		in.HasMehd = moov.Mvex.Mehd != nil
	}
	stsd := moov.Trak.Mdia.Minf.Stbl.Stsd
	for _, c := range stsd.Children {
		in.SampleType = c.Type()
		var sinf *mp4.SinfBox
		switch b := c.(type) {
		case *mp4.VisualSampleEntryBox:
			sinf = b.Sinf
		case *mp4.AudioSampleEntryBox:
			sinf = b.Sinf
		}
		if sinf != nil {
			if sinf.Schm != nil {
				in.Scheme = sinf.Schm.SchemeType
			}
			if sinf.Schi != nil && sinf.Schi.Tenc != nil {
				in.KID = hex.EncodeToString(sinf.Schi.Tenc.DefaultKID)
			}
		}
		break
	}
	return in, nil
}

// TopBoxes walks the top-level boxes of a byte stream (type, size) without decoding them.
func TopBoxes(data []byte) ([]string, []int, error) {
	var types []string
	var sizes []int
	pos := 0
	for pos < len(data) {
		if pos+8 > len(data) {
			return types, sizes, fmt.Errorf("truncated box header at %d", pos)
		}
		size := int(binary.BigEndian.Uint32(data[pos:]))
		typ := string(data[pos+4 : pos+8])
		if size == 1 {
			if pos+16 > len(data) {
				return types, sizes, fmt.Errorf("truncated largesize at %d", pos)
			}
			size = int(binary.BigEndian.Uint64(data[pos+8:]))
		}
		if size < 8 || pos+size > len(data) {
			return types, sizes, fmt.Errorf("bad box size %d at %d (%s)", size, pos, typ)
		}
		types = append(types, typ)
		sizes = append(sizes, size)
		pos += size
	}
	return types, sizes, nil
}

// ParseSeg parses a media segment. trex may be nil (then defaults come from tfhd only).
func ParseSeg(data []byte, trex *mp4.TrexBox) (*Seg, error) {
	types, _, err := TopBoxes(data)
	if err != nil {
		return nil, err
	}
	f, err := mp4.DecodeFileSR(bits.NewFixedSliceReader(data))
	if err != nil {
		return nil, err
	}
	if len(f.Segments) != 1 {
		return nil, fmt.Errorf("%d segments in body, want 1 (top boxes %v)", len(f.Segments), types)
	}
	ms := f.Segments[0]
	s := &Seg{TopBoxes: types, Mp4: ms}
	if ms.Styp != nil {
		s.HasStyp = true
		s.Brands = append([]string{ms.Styp.MajorBrand()}, ms.Styp.CompatibleBrands()...)
	}
	for _, fr := range ms.Fragments {
		if fr.Moof == nil || fr.Moof.Traf == nil || fr.Moof.Traf.Tfdt == nil {
			return nil, fmt.Errorf("fragment without moof/traf/tfdt")
		}
		fg := Frag{Seq: fr.Moof.Mfhd.SequenceNumber, Tfdt: fr.Moof.Traf.Tfdt.BaseMediaDecodeTime(), RawMoof: fr.Moof, Mp4: fr}
		for _, c := range fr.Children {
			if e, ok := c.(*mp4.EmsgBox); ok {
				fg.Emsgs = append(fg.Emsgs, e)
			}
		}
		fg.NrEmsg = len(fg.Emsgs)
		fss, err := fr.GetFullSamples(trex)
		if err != nil {
			return nil, fmt.Errorf("GetFullSamples: %w", err)
		}
		for _, fs := range fss {
			h := sha256.Sum256(fs.Data)
			fg.Samples = append(fg.Samples, Sample{DecodeTime: fs.DecodeTime, Dur: fs.Dur, Size: fs.Size,
				Flags: fs.Flags, Cto: fs.CompositionTimeOffset, Hash: hex.EncodeToString(h[:8]), Data: fs.Data})
			fg.Dur += uint64(fs.Dur)
		}
		s.Dur += fg.Dur
		s.Frags = append(s.Frags, fg)
	}
	if len(s.Frags) == 0 {
		return nil, fmt.Errorf("no fragments")
	}
	return s, nil
}

// SameSamples compares two sample lists on duration, size, flags, cto and payload;
// decode times are compared relative to shift (b = a + shift).
func SameSamples(a, b []Sample, shift int64, cmpTime bool) string {
	if len(a) != len(b) {
		return fmt.Sprintf("sample count %d != %d", len(a), len(b))
	}
	for i := range a {
		x, y := a[i], b[i]
		if x.Dur != y.Dur || x.Size != y.Size || x.Flags != y.Flags || x.Cto != y.Cto {
			return fmt.Sprintf("sample %d meta differs: %+v vs %+v", i, sampleMeta(x), sampleMeta(y))
		}
		if !bytes.Equal(x.Data, y.Data) {
			return fmt.Sprintf("sample %d payload differs", i)
		}
		if cmpTime && int64(x.DecodeTime)+shift != int64(y.DecodeTime) {
			return fmt.Sprintf("sample %d decode time %d+%d != %d", i, x.DecodeTime, shift, y.DecodeTime)
		}
	}
	return ""
}

func sampleMeta(s Sample) string {
	return fmt.Sprintf("{dt=%d dur=%d size=%d flags=%x cto=%d}", s.DecodeTime, s.Dur, s.Size, s.Flags, s.Cto)
}

func ShortHash(b []byte) string {
	h := sha256.Sum256(b)
	return hex.EncodeToString(h[:8])
}

// ReparseSenc re-reads the senc box of every fragment of a decoded file from the raw bytes with the
// per-sample IV size that the init segment's tenc declares. mp4ff's DecodeFile has no init segment at hand
// and guesses the IV size (it takes the first of 0, 8, 16 that does not run out of bytes), which mis-parses
// some perfectly valid boxes; decrypting with such a guess fails or panics.
func ReparseSenc(f *mp4.File, raw []byte, ivSize byte) error {
	var frags []*mp4.Fragment
	for _, s := range f.Segments {
		frags = append(frags, s.Fragments...)
	}
	return ReparseSencFrags(frags, raw, ivSize)
}

// ReparseSencFrags is ReparseSenc for the fragments (in order) decoded from raw.
func ReparseSencFrags(frags []*mp4.Fragment, raw []byte, ivSize byte) error {
	// offsets of the senc boxes in raw, in fragment order
	var offs []int
	pos := 0
	for pos+8 <= len(raw) {
		sz := int(binary.BigEndian.Uint32(raw[pos:]))
		if sz < 8 || pos+sz > len(raw) {
			break
		}
		if string(raw[pos+4:pos+8]) == "moof" {
			for p := pos + 8; p+8 <= pos+sz; {
				s2 := int(binary.BigEndian.Uint32(raw[p:]))
				if s2 < 8 {
					break
				}
				if string(raw[p+4:p+8]) == "traf" {
					for q := p + 8; q+8 <= p+s2; {
						s3 := int(binary.BigEndian.Uint32(raw[q:]))
						if s3 < 8 {
							break
						}
						if string(raw[q+4:q+8]) == "senc" {
							offs = append(offs, q)
						}
						q += s3
					}
				}
				p += s2
			}
		}
		pos += sz
	}
	k := 0
	{
		for _, fr := range frags {
			if fr.Moof == nil || fr.Moof.Traf == nil || fr.Moof.Traf.Senc == nil {
				continue
			}
			if k >= len(offs) {
				return fmt.Errorf("senc boxes in the decoded file and in the raw bytes do not match")
			}
			o := offs[k]
			k++
			box, err := mp4.DecodeBox(uint64(o), bytes.NewReader(raw[o:]))
			if err != nil {
				return err
			}
			senc, ok := box.(*mp4.SencBox)
			if !ok {
				return fmt.Errorf("not a senc box at %d", o)
			}
			traf := fr.Moof.Traf
			if err := senc.ParseReadBox(ivSize, traf.Saiz); err != nil && !strings.Contains(err.Error(), "already parsed") {
				return err // ("already parsed": boxes that need no guess are parsed while they are decoded)
			}
			for i, c := range traf.Children {
				if c == mp4.Box(traf.Senc) {
					traf.Children[i] = senc
				}
			}
			traf.Senc = senc
		}
	}
	return nil
}

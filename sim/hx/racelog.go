package hx

import (
	"fmt"
	"io"
	"os"
	"sort"
	"strings"
)

// Reading the Go race detector's reports from inside the process (engine R, DESIGN.md §2.2).
//
// The -race binary is started with GORACE="log_path=<p> halt_on_error=0 ...": the runtime
// appends every report synchronously (at the second access) to the file <p>.<pid>, which it
// creates with the first report. A property brackets a serialized run with
//
//	m := hx.RaceMark()
//	hx.RunSerialized(...)
//	reps, err := hx.RaceSince(m)
//
// and turns every report into a violation whose signature is RaceReport.Sig().
// If the binary was not built with -race, or GORACE has no log_path that names a file,
// RaceMark().Active is false and RaceSince returns ErrRaceInactive: the caller must count
// a probe ("race detection not active") instead of passing silently.
//
// De-duplication: by default ThreadSanitizer reports a pair of access stacks only once per
// process, so the same race in a later scenario of the same worker process (or in a shrink
// re-run) is not reported again. GORACE="... suppress_equal_stacks=0 suppress_equal_addresses=0"
// switches that off (probed with go1.26.8); RaceDedupOff() tells whether it is off.

// ErrRaceInactive is returned by RaceSince when reports cannot be observed.
var ErrRaceInactive = fmt.Errorf("race detection not active")

// RaceMarkT is a position in the race log.
type RaceMarkT struct {
	Active bool   // race binary AND a readable log_path
	Reason string // why not active
	Path   string // <log_path>.<pid>
	Off    int64  // size of the log file when the mark was taken
}

// RaceAccess is one of the two conflicting accesses of a report.
type RaceAccess struct {
	Op     string   // "read" | "write" | "atomic read" | "atomic write"
	Frames []string // function names, innermost first, without arguments / line numbers
}

// RaceReport is one "WARNING: DATA RACE" block.
type RaceReport struct {
	Cur, Prev RaceAccess
	Raw       string
}

// RaceBuild tells whether the binary was built with -race.
func RaceBuild() bool { return raceBuild }

func goraceOpts() map[string]string {
	m := map[string]string{}
	for _, f := range strings.Fields(os.Getenv("GORACE")) {
		if i := strings.IndexByte(f, '='); i > 0 {
			m[f[:i]] = f[i+1:]
		}
	}
	return m
}

// RaceDedupOff tells whether GORACE disables the once-per-process suppression of equal reports.
func RaceDedupOff() bool { return goraceOpts()["suppress_equal_stacks"] == "0" }

// RaceMark returns the current end of the race log.
func RaceMark() RaceMarkT {
	if !raceBuild {
		return RaceMarkT{Reason: "binary built without -race"}
	}
	o := goraceOpts()
	lp := o["log_path"]
	if lp == "" || lp == "stdout" || lp == "stderr" {
		return RaceMarkT{Reason: "GORACE has no log_path file"}
	}
	if o["halt_on_error"] == "1" {
		return RaceMarkT{Reason: "GORACE halt_on_error=1"}
	}
	m := RaceMarkT{Active: true, Path: fmt.Sprintf("%s.%d", lp, os.Getpid())}
	if st, err := os.Stat(m.Path); err == nil {
		m.Off = st.Size()
	}
	return m
}

// RaceSince returns the reports appended to the race log since the mark.
func RaceSince(m RaceMarkT) ([]RaceReport, error) {
	if !m.Active {
		return nil, ErrRaceInactive
	}
	f, err := os.Open(m.Path)
	if err != nil {
		if os.IsNotExist(err) {
			return nil, nil // no report yet in this process
		}
		return nil, err
	}
	defer f.Close()
	if _, err := f.Seek(m.Off, io.SeekStart); err != nil {
		return nil, err
	}
	b, err := io.ReadAll(f)
	if err != nil {
		return nil, err
	}
	return ParseRaceLog(string(b)), nil
}

// ParseRaceLog splits race-detector output into reports.
func ParseRaceLog(s string) []RaceReport {
	var out []RaceReport
	for {
		i := strings.Index(s, "WARNING: DATA RACE")
		if i < 0 {
			return out
		}
		s = s[i+len("WARNING: DATA RACE"):]
		end := strings.Index(s, "==================")
		block := s
		if end >= 0 {
			block = s[:end]
			s = s[end:]
		} else {
			s = ""
		}
		out = append(out, parseRaceBlock(block))
	}
}

func parseRaceBlock(block string) RaceReport {
	r := RaceReport{Raw: strings.TrimSpace(block)}
	var cur *RaceAccess
	for _, line := range strings.Split(block, "\n") {
		if line == "" {
			cur = nil
			continue
		}
		if !strings.HasPrefix(line, " ") {
			// section header: "Write at 0x.. by goroutine 8:", "Previous read at 0x.. by main goroutine:",
			// "Goroutine 8 (running) created at:"
			cur = nil
			low := strings.ToLower(line)
			at := strings.Index(low, " at 0x")
			if at < 0 {
				continue
			}
			op := low[:at]
			if strings.HasPrefix(op, "previous ") {
				r.Prev.Op = strings.TrimPrefix(op, "previous ")
				cur = &r.Prev
			} else {
				r.Cur.Op = op
				cur = &r.Cur
			}
			continue
		}
		if cur == nil {
			continue
		}
		t := strings.TrimSpace(line)
		// function lines end with "()" ; location lines are "/path/file.go:12 +0x44"
		if strings.HasSuffix(t, ")") && !strings.Contains(t, ".go:") {
			if i := strings.LastIndex(t, "("); i > 0 {
				t = t[:i]
			}
			cur.Frames = append(cur.Frames, t)
		}
	}
	return r
}

const livesimModule = "github.com/Dash-Industry-Forum/livesim2/"

func shortFunc(fn string) string {
	fn = strings.TrimPrefix(fn, livesimModule)
	if i := strings.LastIndex(fn, "/"); i >= 0 {
		fn = fn[i+1:]
	}
	return fn
}

// AppFrame returns the innermost livesim2 function of the access ("app.(*IPRequestLimiter).Inc"),
// or, if there is none, the innermost function that is not part of the runtime.
func (a RaceAccess) AppFrame() string {
	for _, f := range a.Frames {
		if strings.HasPrefix(f, livesimModule) {
			return shortFunc(f)
		}
	}
	for _, f := range a.Frames {
		if !strings.HasPrefix(f, "runtime.") && !strings.HasPrefix(f, "internal/") {
			return shortFunc(f)
		}
	}
	if len(a.Frames) > 0 {
		return a.Frames[0]
	}
	return "unknown"
}

// Via names the runtime primitive through which the access happened ("map", "slice", "") .
func (a RaceAccess) Via() string {
	if len(a.Frames) == 0 {
		return ""
	}
	f := a.Frames[0]
	switch {
	case strings.HasPrefix(f, "runtime.map") || strings.Contains(f, "internal/runtime/maps"):
		return "map"
	case strings.HasPrefix(f, "runtime.slice") || strings.HasPrefix(f, "runtime.growslice"):
		return "slice"
	}
	return ""
}

func (a RaceAccess) String() string { return a.Op + " " + a.AppFrame() }

// Sig is the categorical signature of the report: the two accesses by operation and innermost
// livesim2 function, in a canonical order (which of the two ran first is a matter of schedule,
// not of root cause), no addresses, goroutine numbers or line numbers.
func (r RaceReport) Sig() map[string]string {
	xs := []string{r.Cur.String(), r.Prev.String()}
	sort.Strings(xs)
	sig := map[string]string{"kind": "data-race", "a": xs[0], "b": xs[1]}
	if v := r.Cur.Via() + r.Prev.Via(); v != "" {
		if r.Cur.Via() == "map" || r.Prev.Via() == "map" {
			sig["via"] = "map"
		} else {
			sig["via"] = "slice"
		}
	}
	return sig
}

// Detail is a compact human-readable form (top frames of both accesses).
func (r RaceReport) Detail() string {
	top := func(a RaceAccess) string {
		n := len(a.Frames)
		if n > 4 {
			n = 4
		}
		fs := make([]string, n)
		for i := 0; i < n; i++ {
			fs[i] = shortFunc(a.Frames[i])
		}
		return a.Op + " by " + strings.Join(fs, " < ")
	}
	return top(r.Cur) + " || previous " + top(r.Prev)
}

package hx

// Independent XML-patch applier (RFC 5261 subset used by DASH MPD patches, ISO/IEC 23009-1
// clause 5.15) and canonical XML tree comparison, both on an etree DOM. Written from the RFC,
// it never calls livesim2's pkg/patch.
//
// Supported:
//   <add sel=ELEM [pos=prepend|before|after]> element children </add>   (default: append)
//   <add sel=ELEM type="@name">value</add>                               (attribute add)
//   <replace sel=ELEM> one element </replace>, <replace sel=ELEM/@name>value</replace>
//   <remove sel=ELEM/>, <remove sel=ELEM/@name/>
// Selectors: absolute location paths of child steps `/A/B[3]/C[@id='x'][@k="v"]` with an
// optional final attribute step `/@name`. Every selector must locate exactly one node
// (RFC 5261 §4.1); operations are applied in document order, each on the result of the
// previous ones. Element names are compared by local name (the served patches use
// unprefixed names for elements of the MPD namespace, as the DASH examples do); attribute
// names are compared with their prefix (an unprefixed name selects only attributes in no
// namespace, XPath 1.0 §2.3).

import (
	"fmt"
	"sort"
	"strconv"
	"strings"

	"github.com/beevik/etree"
)

// XPIssue is one problem met while applying a patch. All fields but Detail/OpIdx are categorical.
type XPIssue struct {
	Kind   string // sel-syntax | sel-no-match | sel-ambiguous | add-attr-sel-form | add-attr-exists | bad-pos | bad-content | unknown-op | root-op
	Op     string // add | replace | remove | other
	Target string // element | attribute
	Addr   string // how the last element step is addressed: id | scheme | attr | index | bare
	Tag    string // local name of the last element step
	OpIdx  int
	Detail string
	Fatal  bool // the patch could not be applied further
}

func (i XPIssue) String() string {
	return fmt.Sprintf("op#%d %s %s: %s", i.OpIdx, i.Op, i.Kind, i.Detail)
}

type xpPred struct {
	Pos  int // > 0: positional
	Attr string
	Val  string
}

type xpStep struct {
	Name  string // local name
	Preds []xpPred
}

type xpSel struct {
	Steps []xpStep
	Attr  string // full attribute name of the final attribute step ("" if none)
}

func localName(s string) string {
	if i := strings.LastIndex(s, ":"); i >= 0 {
		return s[i+1:]
	}
	return s
}

func isNameChar(c byte) bool {
	return c == '_' || c == '-' || c == '.' || c == ':' || (c >= '0' && c <= '9') || (c >= 'a' && c <= 'z') || (c >= 'A' && c <= 'Z') || c >= 0x80
}

func parseSel(s string) (*xpSel, error) {
	sel := &xpSel{}
	i := 0
	n := len(s)
	if n == 0 || s[0] != '/' {
		return nil, fmt.Errorf("selector %q is not an absolute path", s)
	}
	for i < n {
		if s[i] != '/' {
			return nil, fmt.Errorf("selector %q: expected '/' at %d", s, i)
		}
		i++
		if i < n && s[i] == '@' {
			i++
			st := i
			for i < n && isNameChar(s[i]) {
				i++
			}
			if st == i || i != n {
				return nil, fmt.Errorf("selector %q: bad attribute step", s)
			}
			sel.Attr = s[st:i]
			break
		}
		st := i
		for i < n && isNameChar(s[i]) {
			i++
		}
		if st == i {
			return nil, fmt.Errorf("selector %q: empty step at %d", s, i)
		}
		step := xpStep{Name: localName(s[st:i])}
		for i < n && s[i] == '[' {
			i++
			if i < n && s[i] == '@' {
				i++
				st := i
				for i < n && isNameChar(s[i]) {
					i++
				}
				name := s[st:i]
				if name == "" || i >= n || s[i] != '=' {
					return nil, fmt.Errorf("selector %q: bad predicate", s)
				}
				i++
				if i >= n || (s[i] != '\'' && s[i] != '"') {
					return nil, fmt.Errorf("selector %q: predicate value not quoted", s)
				}
				q := s[i]
				i++
				st = i
				for i < n && s[i] != q {
					i++
				}
				if i >= n {
					return nil, fmt.Errorf("selector %q: unterminated string", s)
				}
				val := s[st:i]
				i++
				if i >= n || s[i] != ']' {
					return nil, fmt.Errorf("selector %q: missing ]", s)
				}
				i++
				step.Preds = append(step.Preds, xpPred{Attr: name, Val: val})
			} else {
				st := i
				for i < n && s[i] >= '0' && s[i] <= '9' {
					i++
				}
				if st == i || i >= n || s[i] != ']' {
					return nil, fmt.Errorf("selector %q: bad positional predicate", s)
				}
				p, err := strconv.Atoi(s[st:i])
				if err != nil || p < 1 {
					return nil, fmt.Errorf("selector %q: bad position", s)
				}
				i++
				step.Preds = append(step.Preds, xpPred{Pos: p})
			}
		}
		sel.Steps = append(sel.Steps, step)
	}
	if len(sel.Steps) == 0 {
		return nil, fmt.Errorf("selector %q has no element step", s)
	}
	return sel, nil
}

func (s *xpSel) addrKind() (addr, tag string) {
	last := s.Steps[len(s.Steps)-1]
	tag = last.Name
	if len(last.Preds) == 0 {
		return "bare", tag
	}
	p := last.Preds[len(last.Preds)-1]
	switch {
	case p.Pos > 0:
		return "index", tag
	case p.Attr == "id":
		return "id", tag
	case p.Attr == "schemeIdUri":
		return "scheme", tag
	}
	return "attr", tag
}

func attrByFullName(e *etree.Element, full string) *etree.Attr {
	space, key := "", full
	if i := strings.Index(full, ":"); i >= 0 {
		space, key = full[:i], full[i+1:]
	}
	for i := range e.Attr {
		if e.Attr[i].Space == space && e.Attr[i].Key == key {
			return &e.Attr[i]
		}
	}
	return nil
}

func filterPreds(cands []*etree.Element, preds []xpPred) []*etree.Element {
	for _, p := range preds {
		var next []*etree.Element
		if p.Pos > 0 {
			if p.Pos <= len(cands) {
				next = append(next, cands[p.Pos-1])
			}
		} else {
			for _, c := range cands {
				if a := attrByFullName(c, p.Attr); a != nil && a.Value == p.Val {
					next = append(next, c)
				}
			}
		}
		cands = next
	}
	return cands
}

// evalElems evaluates the element steps of a selector against the document root.
func (s *xpSel) evalElems(root *etree.Element) []*etree.Element {
	var set []*etree.Element
	first := s.Steps[0]
	if root.Tag == first.Name {
		set = filterPreds([]*etree.Element{root}, first.Preds)
	}
	for _, st := range s.Steps[1:] {
		var next []*etree.Element
		for _, ctx := range set {
			var cands []*etree.Element
			for _, c := range ctx.ChildElements() {
				if c.Tag == st.Name {
					cands = append(cands, c)
				}
			}
			next = append(next, filterPreds(cands, st.Preds)...)
		}
		set = next
	}
	return set
}

// NormalizeXML drops comments, processing instructions and whitespace-only character data
// below elements that have element children (insignificant whitespace).
func NormalizeXML(e *etree.Element) {
	hasElem := len(e.ChildElements()) > 0
	var keep []etree.Token
	for _, t := range e.Child {
		switch v := t.(type) {
		case *etree.Element:
			NormalizeXML(v)
			keep = append(keep, v)
		case *etree.CharData:
			if hasElem && strings.TrimSpace(v.Data) == "" {
				continue
			}
			keep = append(keep, v)
		}
	}
	for len(e.Child) > 0 {
		e.RemoveChildAt(len(e.Child) - 1)
	}
	for _, t := range keep {
		e.AddChild(t)
	}
}

func contentElems(op *etree.Element) []*etree.Element { return op.ChildElements() }

// ApplyXMLPatch applies the operations of patchRoot in document order to the document whose
// root is `root` (modified in place; NormalizeXML is applied first). It returns the issues
// met; after a Fatal issue the remaining operations are not applied.
func ApplyXMLPatch(root *etree.Element, patchRoot *etree.Element) (issues []XPIssue, counts map[string]int) {
	NormalizeXML(root)
	counts = map[string]int{}
	for idx, op := range patchRoot.ChildElements() {
		iss := applyOne(root, op, idx, counts)
		fatal := false
		for _, i := range iss {
			issues = append(issues, i)
			if i.Fatal {
				fatal = true
			}
		}
		if fatal {
			break
		}
	}
	return issues, counts
}

func applyOne(root, op *etree.Element, idx int, counts map[string]int) (out []XPIssue) {
	mk := func(kind, target string, sel *xpSel, fatal bool, format string, a ...any) XPIssue {
		is := XPIssue{Kind: kind, Op: op.Tag, Target: target, OpIdx: idx, Fatal: fatal, Detail: fmt.Sprintf(format, a...), Addr: "none", Tag: "none"}
		if sel != nil {
			is.Addr, is.Tag = sel.addrKind()
		}
		return is
	}
	switch op.Tag {
	case "add", "replace", "remove":
	default:
		o := mk("unknown-op", "element", nil, true, "unknown patch operation <%s>", op.Tag)
		o.Op = "other"
		return []XPIssue{o}
	}
	selStr := op.SelectAttrValue("sel", "")
	sel, err := parseSel(selStr)
	if err != nil {
		return []XPIssue{mk("sel-syntax", "element", nil, true, "%v", err)}
	}
	typ := op.SelectAttrValue("type", "")
	pos := op.SelectAttrValue("pos", "")
	target := "element"
	if sel.Attr != "" || strings.HasPrefix(typ, "@") {
		target = "attribute"
	}
	if op.Tag == "add" && sel.Attr != "" {
		// RFC 5261 §4.3: the selector of <add> locates the element; the new attribute is named by
		// type="@name". A selector ending in /@name cannot locate an (absent) attribute.
		out = append(out, mk("add-attr-sel-form", "attribute", sel, false,
			"<add sel=%q> names the new attribute in the selector instead of type=\"@%s\"", selStr, sel.Attr))
		typ = "@" + sel.Attr
		sel = &xpSel{Steps: sel.Steps}
	}
	elems := sel.evalElems(root)
	if len(elems) != 1 {
		kind := "sel-no-match"
		if len(elems) > 1 {
			kind = "sel-ambiguous"
		}
		return append(out, mk(kind, target, sel, true, "selector %q matches %d elements", selStr, len(elems)))
	}
	el := elems[0]
	switch op.Tag {
	case "add":
		if strings.HasPrefix(typ, "@") {
			name := typ[1:]
			if attrByFullName(el, name) != nil {
				out = append(out, mk("add-attr-exists", target, sel, false, "attribute %s already present at %q", name, selStr))
				el.RemoveAttr(name)
			}
			el.CreateAttr(name, op.Text())
			counts["add-attr"]++
			return out
		}
		if typ != "" {
			return append(out, mk("bad-content", target, sel, true, "unsupported add type %q", typ))
		}
		kids := contentElems(op)
		if len(kids) == 0 {
			return append(out, mk("bad-content", target, sel, true, "<add sel=%q> without element content", selStr))
		}
		switch pos {
		case "":
			for _, k := range kids {
				el.AddChild(k.Copy())
			}
			counts["add-append"]++
		case "prepend":
			for i, k := range kids {
				el.InsertChildAt(i, k.Copy())
			}
			counts["add-prepend"]++
		case "before", "after":
			par := el.Parent()
			if par == nil || el == root {
				return append(out, mk("root-op", target, sel, true, "pos=%s relative to the root", pos))
			}
			at := el.Index()
			if pos == "after" {
				at++
			}
			for i, k := range kids {
				par.InsertChildAt(at+i, k.Copy())
			}
			counts["add-"+pos]++
		default:
			return append(out, mk("bad-pos", target, sel, true, "pos=%q", pos))
		}
	case "replace":
		if sel.Attr != "" {
			a := attrByFullName(el, sel.Attr)
			if a == nil {
				return append(out, mk("sel-no-match", target, sel, true, "selector %q: element found but no attribute %s", selStr, sel.Attr))
			}
			a.Value = op.Text()
			counts["replace-attr"]++
			return out
		}
		kids := contentElems(op)
		if len(kids) != 1 {
			return append(out, mk("bad-content", target, sel, true, "<replace sel=%q> with %d elements", selStr, len(kids)))
		}
		par := el.Parent()
		if par == nil || el == root {
			return append(out, mk("root-op", target, sel, true, "replace of the root"))
		}
		at := el.Index()
		par.RemoveChildAt(at)
		par.InsertChildAt(at, kids[0].Copy())
		counts["replace-elem"]++
	case "remove":
		if sel.Attr != "" {
			if attrByFullName(el, sel.Attr) == nil {
				return append(out, mk("sel-no-match", target, sel, true, "selector %q: element found but no attribute %s", selStr, sel.Attr))
			}
			el.RemoveAttr(sel.Attr)
			counts["remove-attr"]++
			return out
		}
		par := el.Parent()
		if par == nil || el == root {
			return append(out, mk("root-op", target, sel, true, "remove of the root"))
		}
		par.RemoveChildAt(el.Index())
		counts["remove-elem"]++
	}
	return out
}

// XMLDiff describes the first difference between two canonical trees.
type XMLDiff struct {
	Kind   string // tag | attr-missing | attr-extra | attr-value | text | child-missing | child-extra | child-order | child-id
	Tag    string // local name of the element at which the difference shows
	Path   string
	Detail string
}

func (d *XMLDiff) String() string {
	return fmt.Sprintf("%s at %s: %s", d.Kind, d.Path, d.Detail)
}

func sortedAttrs(e *etree.Element) []etree.Attr {
	as := append([]etree.Attr(nil), e.Attr...)
	sort.Slice(as, func(i, j int) bool {
		if as[i].Space != as[j].Space {
			return as[i].Space < as[j].Space
		}
		return as[i].Key < as[j].Key
	})
	return as
}

func significantText(e *etree.Element) string {
	hasElem := len(e.ChildElements()) > 0
	var b strings.Builder
	for _, t := range e.Child {
		if c, ok := t.(*etree.CharData); ok {
			if hasElem && strings.TrimSpace(c.Data) == "" {
				continue
			}
			b.WriteString(c.Data)
		}
	}
	return strings.TrimSpace(b.String())
}

func elemLabel(e *etree.Element) string {
	if a := attrByFullName(e, "id"); a != nil {
		return fmt.Sprintf("%s[@id='%s']", e.Tag, a.Value)
	}
	return e.Tag
}

// CanonicalDiff compares got with want: element names (with prefix), attribute sets (order
// ignored), significant text, and the ordered list of child elements. nil = equal.
func CanonicalDiff(got, want *etree.Element) *XMLDiff {
	return canonDiff(got, want, "/"+want.Tag)
}

func canonDiff(got, want *etree.Element, path string) *XMLDiff {
	if got.Tag != want.Tag || got.Space != want.Space {
		return &XMLDiff{Kind: "tag", Tag: want.Tag, Path: path, Detail: fmt.Sprintf("got <%s> want <%s>", got.FullTag(), want.FullTag())}
	}
	ga, wa := sortedAttrs(got), sortedAttrs(want)
	gi, wi := 0, 0
	for gi < len(ga) || wi < len(wa) {
		switch {
		case wi >= len(wa) || (gi < len(ga) && ga[gi].FullKey() < wa[wi].FullKey()):
			return &XMLDiff{Kind: "attr-extra", Tag: want.Tag, Path: path, Detail: fmt.Sprintf("attribute %s=%q only in result", ga[gi].FullKey(), ga[gi].Value)}
		case gi >= len(ga) || ga[gi].FullKey() > wa[wi].FullKey():
			return &XMLDiff{Kind: "attr-missing", Tag: want.Tag, Path: path, Detail: fmt.Sprintf("attribute %s=%q missing in result", wa[wi].FullKey(), wa[wi].Value)}
		default:
			if ga[gi].Value != wa[wi].Value {
				return &XMLDiff{Kind: "attr-value", Tag: want.Tag, Path: path, Detail: fmt.Sprintf("@%s got %q want %q", wa[wi].FullKey(), ga[gi].Value, wa[wi].Value)}
			}
			gi++
			wi++
		}
	}
	if gt, wt := significantText(got), significantText(want); gt != wt {
		return &XMLDiff{Kind: "text", Tag: want.Tag, Path: path, Detail: fmt.Sprintf("text got %q want %q", gt, wt)}
	}
	gc, wc := got.ChildElements(), want.ChildElements()
	for i := 0; i < len(gc) && i < len(wc); i++ {
		if gc[i].Tag != wc[i].Tag {
			kind := "child-order"
			return &XMLDiff{Kind: kind, Tag: want.Tag, Path: path, Detail: fmt.Sprintf("child %d: got <%s> want <%s>", i+1, elemLabel(gc[i]), elemLabel(wc[i]))}
		}
		if ga, wa := attrByFullName(gc[i], "id"), attrByFullName(wc[i], "id"); ga != nil && wa != nil && ga.Value != wa.Value {
			return &XMLDiff{Kind: "child-id", Tag: want.Tag, Path: path, Detail: fmt.Sprintf("child %d: got <%s> want <%s>", i+1, elemLabel(gc[i]), elemLabel(wc[i]))}
		}
		if d := canonDiff(gc[i], wc[i], fmt.Sprintf("%s/%s[%d]", path, wc[i].Tag, i+1)); d != nil {
			return d
		}
	}
	if len(gc) > len(wc) {
		return &XMLDiff{Kind: "child-extra", Tag: want.Tag, Path: path, Detail: fmt.Sprintf("%d children, want %d; first extra <%s>", len(gc), len(wc), elemLabel(gc[len(wc)]))}
	}
	if len(gc) < len(wc) {
		return &XMLDiff{Kind: "child-missing", Tag: want.Tag, Path: path, Detail: fmt.Sprintf("%d children, want %d; first missing <%s>", len(gc), len(wc), elemLabel(wc[len(gc)]))}
	}
	return nil
}

// ParseXML parses a document and returns it (root may be nil for an empty document).
func ParseXML(b []byte) (*etree.Document, error) {
	d := etree.NewDocument()
	if err := d.ReadFromBytes(b); err != nil {
		return nil, err
	}
	if d.Root() == nil {
		return nil, fmt.Errorf("no root element")
	}
	return d, nil
}

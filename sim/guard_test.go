package sim

import (
	"os"
	"testing"

	"verif/sim/hx"
)

// TestGuardChild is the entry point of the guard child process (hx.GuardGet): the same test
// binary, started with VERIF_MODE=guardchild, serves requests on a real in-process server and
// can be killed by its parent when a handler spins (see hx/guard.go).
func TestGuardChild(t *testing.T) {
	if os.Getenv("VERIF_MODE") != hx.GuardChildEnv {
		t.Skip("not a guard child")
	}
	hx.GuardChildMain()
}

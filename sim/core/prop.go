package core

import (
	"encoding/json"
	"sort"
	"testing"
)

// Prop is one property's simulation: a generator that materialises a scenario from one
// integer, and an executor that is a pure function of the scenario and the code under test.
type Prop interface {
	ID() string
	Engine() string
	// Gen materialises scenario number idx. All randomness comes from rng.
	Gen(rng *Rng, tier string, idx int) *Scenario
	// Run executes the scenario. It never draws randomness.
	Run(t *testing.T, sc *Scenario, res *Result)
}

// Optional interfaces.

// WorldShrinker lets a property propose simpler variants of a scenario beyond dropping ops.
type WorldShrinker interface {
	ShrinkCandidates(sc *Scenario) []*Scenario
}

// RaceProp marks properties that must (also) be run under the -race binary.
type RaceProp interface {
	NeedsRace() bool
}

var registry = map[string]Prop{}

func Register(p Prop) { registry[p.ID()] = p }

func Lookup(id string) (Prop, bool) { p, ok := registry[id]; return p, ok }

func AllIDs() []string {
	ids := make([]string, 0, len(registry))
	for id := range registry {
		ids = append(ids, id)
	}
	sort.Strings(ids)
	return ids
}

// Execute runs one scenario to completion and finishes the result.
func Execute(t *testing.T, p Prop, sc *Scenario, keepLog bool) *Result {
	res := NewResult(keepLog)
	p.Run(t, sc, res)
	res.Finish()
	return res
}

// Shrink minimises sc while the violation with the given key persists: delta debugging over
// ops (chunks, then single ops), then property-specific candidates, to a fixpoint (bounded).
func Shrink(t *testing.T, p Prop, sc *Scenario, key string, budget int) (*Scenario, int) {
	tries := 0
	fails := func(c *Scenario) bool {
		if tries >= budget {
			return false
		}
		tries++
		r := Execute(t, p, c, false)
		return r.Has(key)
	}
	cur := sc.Clone()
	for round := 0; round < 6; round++ {
		changed := false
		// ddmin over ops
		n := 2
		for len(cur.Ops) >= 1 && tries < budget {
			if n > len(cur.Ops) {
				n = len(cur.Ops)
			}
			chunk := (len(cur.Ops) + n - 1) / n
			reduced := false
			for start := 0; start < len(cur.Ops); start += chunk {
				end := start + chunk
				if end > len(cur.Ops) {
					end = len(cur.Ops)
				}
				cand := cur.Clone()
				cand.Ops = append(append([]json.RawMessage(nil), cur.Ops[:start]...), cur.Ops[end:]...)
				if fails(cand) {
					cur = cand
					reduced = true
					changed = true
					if n > 2 {
						n--
					}
					break
				}
			}
			if !reduced {
				if chunk <= 1 {
					break
				}
				n *= 2
			}
		}
		if ws, ok := p.(WorldShrinker); ok {
			for again := true; again && tries < budget; {
				again = false
				for _, cand := range ws.ShrinkCandidates(cur) {
					if fails(cand) {
						cur = cand.Clone()
						changed = true
						again = true
						break
					}
				}
			}
		}
		if !changed {
			break
		}
	}
	return cur, tries
}

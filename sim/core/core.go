// Package core holds what every engine shares: the seeded PRNG, the materialised
// scenario (= replay file), the event log / fingerprint, violations with categorical
// signatures, and per-run statistics (fault and probe counters).
package core

import (
	"crypto/sha256"
	"encoding/hex"
	"encoding/json"
	"fmt"
	"sort"
	"strings"
)

// ---------------------------------------------------------------------------------------
// PRNG: SplitMix64. One integer decides everything.

type Rng struct{ s uint64 }

func NewRng(seed uint64) *Rng { return &Rng{s: seed} }

func (r *Rng) Uint64() uint64 {
	r.s += 0x9E3779B97F4A7C15
	z := r.s
	z = (z ^ (z >> 30)) * 0xBF58476D1CE4E5B9
	z = (z ^ (z >> 27)) * 0x94D049BB133111EB
	return z ^ (z >> 31)
}

// Intn returns a value in [0, n). n <= 0 gives 0.
func (r *Rng) Intn(n int) int {
	if n <= 1 {
		return 0
	}
	return int(r.Uint64() % uint64(n))
}

func (r *Rng) Int63n(n int64) int64 {
	if n <= 1 {
		return 0
	}
	return int64(r.Uint64() % uint64(n))
}

// Range returns a value in [lo, hi] (inclusive).
func (r *Rng) Range(lo, hi int) int {
	if hi <= lo {
		return lo
	}
	return lo + r.Intn(hi-lo+1)
}

func (r *Rng) Range64(lo, hi int64) int64 {
	if hi <= lo {
		return lo
	}
	return lo + r.Int63n(hi-lo+1)
}

func (r *Rng) Float() float64 { return float64(r.Uint64()>>11) / float64(1<<53) }

func (r *Rng) Chance(p float64) bool { return r.Float() < p }

func (r *Rng) Bool() bool { return r.Uint64()&1 == 1 }

// Shuffle permutes n elements (Fisher-Yates).
func (r *Rng) Shuffle(n int, swap func(i, j int)) {
	for i := n - 1; i > 0; i-- {
		j := r.Intn(i + 1)
		swap(i, j)
	}
}

func Pick[T any](r *Rng, xs []T) T { return xs[r.Intn(len(xs))] }

// Mix derives the seed of run idx of a property from the master seed.
func Mix(master uint64, prop string, idx uint64) uint64 {
	h := sha256.Sum256([]byte(fmt.Sprintf("%d|%s|%d", master, prop, idx)))
	var v uint64
	for i := 0; i < 8; i++ {
		v = v<<8 | uint64(h[i])
	}
	return v
}

// ---------------------------------------------------------------------------------------
// Scenario = replay file.

type Scenario struct {
	Format   int               `json:"format"`
	Property string            `json:"property"`
	Engine   string            `json:"engine"`
	Seed     uint64            `json:"seed"`
	Tier     string            `json:"tier"`
	Idx      int               `json:"idx,omitempty"` // run index within the batch (informational)
	World    json.RawMessage   `json:"world"`
	Ops      []json.RawMessage `json:"ops"`
	// Expect is filled in replay files: the violation the file reproduces.
	Expect *Violation `json:"expect,omitempty"`
	// Log is the event log of the minimised run (informational, in replay files).
	Log []string `json:"log,omitempty"`
	// Note is free text (e.g. corpus entry description).
	Note string `json:"note,omitempty"`
}

func (s *Scenario) Clone() *Scenario {
	c := *s
	c.Ops = append([]json.RawMessage(nil), s.Ops...)
	c.Expect = nil
	c.Log = nil
	return &c
}

func MustJSON(v any) json.RawMessage {
	b, err := json.Marshal(v)
	if err != nil {
		panic(err)
	}
	return b
}

func NewScenario(prop, engine string, seed uint64, tier string, world any) *Scenario {
	return &Scenario{Format: 1, Property: prop, Engine: engine, Seed: seed, Tier: tier, World: MustJSON(world)}
}

func (s *Scenario) AddOp(op any) { s.Ops = append(s.Ops, MustJSON(op)) }

func DecodeWorld[T any](s *Scenario) (T, error) {
	var w T
	err := json.Unmarshal(s.World, &w)
	return w, err
}

func DecodeOps[T any](s *Scenario) ([]T, error) {
	out := make([]T, len(s.Ops))
	for i, raw := range s.Ops {
		if err := json.Unmarshal(raw, &out[i]); err != nil {
			return nil, fmt.Errorf("op %d: %w", i, err)
		}
	}
	return out, nil
}

// ---------------------------------------------------------------------------------------
// Violations.

type Violation struct {
	Invariant string            `json:"invariant"`
	Signature map[string]string `json:"signature"`
	Detail    string            `json:"detail,omitempty"`
}

// Key is the identity used by the shrinker ("same violation class") and for de-duplication.
func (v Violation) Key() string {
	keys := make([]string, 0, len(v.Signature))
	for k := range v.Signature {
		keys = append(keys, k)
	}
	sort.Strings(keys)
	var b strings.Builder
	b.WriteString(v.Invariant)
	for _, k := range keys {
		b.WriteString("|")
		b.WriteString(k)
		b.WriteString("=")
		b.WriteString(v.Signature[k])
	}
	return b.String()
}

// ---------------------------------------------------------------------------------------
// Result of one executed scenario.

type Result struct {
	Violations []Violation    `json:"violations,omitempty"`
	Stats      map[string]int `json:"stats,omitempty"` // fault.<kind>, probe.<name>, op.<name> counters
	SimMS      int64          `json:"sim_ms"`          // simulated time covered
	Events     int            `json:"events"`
	Finger     string         `json:"finger"`
	Nontrivial bool           `json:"nontrivial"`
	Log        []string       `json:"-"`
	hash       interface {
		Write([]byte) (int, error)
		Sum([]byte) []byte
	}
	keepLog bool
	seen    map[string]bool
}

func NewResult(keepLog bool) *Result {
	return &Result{Stats: map[string]int{}, hash: sha256.New(), keepLog: keepLog, seen: map[string]bool{}}
}

// Event appends to the event log. It must never draw randomness or read a clock.
func (r *Result) Event(format string, args ...any) {
	line := fmt.Sprintf(format, args...)
	r.Events++
	fmt.Fprintf(r.hash, "%d:%s\n", r.Events, line)
	if r.keepLog && len(r.Log) < 4000 {
		r.Log = append(r.Log, line)
	}
}

func (r *Result) Count(key string) { r.Stats[key]++ }

func (r *Result) Add(key string, n int) { r.Stats[key] += n }

// Violate records a violation (de-duplicated by key; first detail wins).
func (r *Result) Violate(inv string, sig map[string]string, format string, args ...any) {
	v := Violation{Invariant: inv, Signature: sig, Detail: fmt.Sprintf(format, args...)}
	k := v.Key()
	r.Event("VIOLATION %s", k)
	if r.seen[k] {
		return
	}
	r.seen[k] = true
	r.Violations = append(r.Violations, v)
}

func (r *Result) Finish() {
	r.Finger = hex.EncodeToString(r.hash.Sum(nil))[:16]
}

func (r *Result) Has(key string) bool {
	for _, v := range r.Violations {
		if v.Key() == key {
			return true
		}
	}
	return false
}

func Sig(kv ...string) map[string]string {
	m := map[string]string{}
	for i := 0; i+1 < len(kv); i += 2 {
		m[kv[i]] = kv[i+1]
	}
	return m
}

// ---------------------------------------------------------------------------------------
// Known findings.

type Finding struct {
	ID        string            `json:"id"`
	Property  string            `json:"property"`
	Status    string            `json:"status"` // open | fixed
	Invariant string            `json:"invariant"`
	Match     map[string]string `json:"match"`
	What      string            `json:"what"`
	Replay    string            `json:"replay,omitempty"`
	FixCommit string            `json:"fix_commit,omitempty"`
}

// Matches tells whether an OPEN finding covers the violation: same invariant and all
// match features equal. A feature value may list alternatives separated by '|'.
func (f Finding) Matches(prop string, v Violation) bool {
	if f.Status != "open" || f.Property != prop || f.Invariant != v.Invariant {
		return false
	}
	for k, want := range f.Match {
		got, ok := v.Signature[k]
		if !ok {
			return false
		}
		hit := false
		for _, alt := range strings.Split(want, "|") {
			if alt == got {
				hit = true
				break
			}
		}
		if !hit {
			return false
		}
	}
	return true
}

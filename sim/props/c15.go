package props

// C15 — the representation-metadata cache never changes what is served (engine T with disk
// faults; manifest level fault_enumeration). DESIGN.md §7 "C15", §4 (disk rows), Appendix B.
//
// Disk = a scratch directory per run. VoD root = copies of bundled assets + generated assets
// (hx.GenAsset). The metadata root is a separate directory or the VoD root itself ("+").
// Operations: start(write|read|scan), damage(file, kind, arg), mutate(asset), compare.
// Oracle: relation between two observations of the system itself - the instance under test
// against an instance that scans all segments (RepDataRoot disabled) over the same VoD root -
// plus what the statement says about left-out assets, idempotent writing and contiguity.

import (
	"bytes"
	"compress/gzip"
	"encoding/json"
	"fmt"
	"io"
	"os"
	"path/filepath"
	"sort"
	"strings"
	"testing"

	"github.com/Eyevinn/dash-mpd/mpd"

	"verif/sim/core"
	"verif/sim/hx"
)

type c15World struct {
	Kind    string         `json:"kind"` // faultfree | damaged | enum
	Bundled []string       `json:"bundled,omitempty"`
	Gen     []hx.AssetSpec `json:"gen,omitempty"`
	// Alt[i] (if its Name is set) is another layout of Gen[i] used by the "mutate" op:
	// the asset's segments change after the cache was written.
	Alt    []hx.AssetSpec `json:"alt,omitempty"`
	Shared bool           `json:"shared"` // metadata root = VoD root ("+")
}

type c15Op struct {
	Op    string `json:"op"`             // start | damage | mutate | compare
	Mode  string `json:"mode,omitempty"` // start: write | read | scan
	Kind  string `json:"kind,omitempty"` // damage kind
	File  int    `json:"file,omitempty"` // selector into the sorted list of cache files (mod n)
	Arg   int64  `json:"arg,omitempty"`  // byte/bit position selector (mod size); crash point number
	Asset int    `json:"asset,omitempty"`
	T     int64  `json:"t,omitempty"`     // compare: base instant (ms)
	Chain bool   `json:"chain,omitempty"` // compare: also walk one full loop of consecutive segments
}

type C15 struct{}

func init() { core.Register(C15{}) }

func (C15) ID() string     { return "C15" }
func (C15) Engine() string { return "tlsim" }

var c15SmallBundled = []string{"testpic_2s", "testpic_6s", "testpic_8s", "testpic_alt_seg_dur_stl", "bbb_hevc_ac3_8s"}
var c15LargeBundled = []string{"WAVE/vectors/cfhd_sets/12.5_25_50/t3/2022-10-17", "WAVE/vectors/cfhd_sets/14.985_29.97_59.94/t1/2022-10-17"}

// damage kinds; "corrupt" ones make a file unreadable, "stale" ones make it describe other media.
var c15Corrupt = []string{"truncate", "zero", "bitflip", "plaintrunc", "crash", "diskfull"}
var c15Stale = []string{"stale-other", "mutate"}

func c15FaultClass(kind string) string {
	if kind == "cache-hole" {
		return "hole"
	}
	for _, k := range c15Stale {
		if k == kind {
			return "stale"
		}
	}
	return "corrupt"
}

// c15Faults is the set of damage kinds currently applied to one asset's cache files.
type c15Faults map[string]bool

// Class: corrupt | stale | hole (a well-formed file whose segment table has a hole) |
// hole+corrupt | mixed (a stale file together with files of another class in the same asset).
func (f c15Faults) Class() string {
	if len(f) == 0 {
		return ""
	}
	stale, corrupt, hole := false, false, false
	for k := range f {
		switch c15FaultClass(k) {
		case "stale":
			stale = true
		case "hole":
			hole = true
		default:
			corrupt = true
		}
	}
	// Whenever a stale file is involved the outcome may be the stale file's doing (an open known
	// finding matches "stale|mixed"); "hole" stays a class of its own otherwise.
	switch {
	case stale && (corrupt || hole):
		return "mixed"
	case stale:
		return "stale"
	case hole && corrupt:
		return "hole+corrupt"
	case hole:
		return "hole"
	}
	return "corrupt"
}

func (f c15Faults) String() string { return strings.Join(sortedKeys(f), "+") }

func (r *c15Run) markAffected(asset, kind string) {
	if r.affected[asset] == nil {
		r.affected[asset] = c15Faults{}
	}
	r.affected[asset][kind] = true
}

// faultClassAny summarises the faults present anywhere in the cache ("none" if clean).
func (r *c15Run) faultClassAny() string {
	out := "none"
	for _, k := range sortedKeys(r.affected) {
		switch c := r.affected[k].Class(); {
		case out == "none":
			out = c
		case out != c:
			out = "mixed"
		}
	}
	return out
}

// ---------------------------------------------------------------------------------------
// Generator.

func c15GenWorld(rng *core.Rng, tier string, kind string, small bool) c15World {
	w := c15World{Kind: kind, Shared: rng.Chance(0.4)}
	nGen := core.Pick(rng, []int{1, 1, 2, 2, 3})
	if small {
		nGen = 1
	}
	if tier == "thorough" && !small {
		nGen = rng.Range(1, 5)
	}
	classes := []string{"good", "good", "good", "good", "nonms", "disagree"}
	for i := 0; i < nGen; i++ {
		o := hx.GenOpts{Name: fmt.Sprintf("gen/a%d", i), Tag: uint32(100 + i), Class: core.Pick(rng, classes), MaxFrames: 500,
			// audio at other rates than 48 kHz has no codec/timescale fallback for its frame duration
			// in the server: what the scan learns from the segments must survive the cache
			AudioRates: []uint32{48000, 48000, 44100, 32000, 22050}, AudioDurModes: []string{"tfhd", "tfhd", "tfhd", "trex", "trex", ""},
			GapIn: "any"}
		if i == 0 {
			o.Class = "good"
			// the first asset is always servable: audio at another rate than 48 kHz with its frame
			// duration only in the trun entries gets 500 for every MPD (also from the scanning instance)
			o.AudioDurModes = []string{"tfhd", "tfhd", "trex"}
		}
		if kind == "faultfree" && i > 0 && rng.Chance(0.12) {
			// a hole in the media timeline; only with $Time$ addressing, where the hole is in the
			// loaded segment table itself (a $Number$ table is closed by construction)
			o.Class, o.Addressing = "gap", "time"
		}
		if small {
			o.MaxSegs, o.MaxFrames = 3, 60
		}
		if tier == "thorough" && !small {
			o.MaxFrames = 1500
		}
		sp := hx.RandomAssetSpec(rng, o)
		if i > 0 && sp.Class == "good" && rng.Chance(0.12) {
			// audio whose inner segment has two samples of other durations than the rest: first and last segment look
			// regular, only a full scan sees that there is no constant sample duration (class "jitter": the server may
			// leave the asset or its audio out, but scan and cache must agree)
			for ri := range sp.Reps {
				if rp := &sp.Reps[ri]; rp.Kind == "audio" && len(rp.SegFrames) >= 3 && rp.SegFrames[1] >= 2 {
					rp.DurMode = ""
					rp.JitterSeg = 2 + rng.Intn(len(rp.SegFrames)-2)
					sp.Class = "jitter"
					break
				}
			}
		}
		w.Gen = append(w.Gen, sp)
		alt := hx.AssetSpec{}
		if kind == "damaged" && rng.Chance(0.5) {
			o2 := o
			o2.Tag += 1000
			o2.Class = "good"
			o2.Addressing = sp.Addressing
			alt = hx.RandomAssetSpec(rng, o2)
			alt.MPD = sp.MPD
		}
		if kind == "damaged" && sp.Class == "good" && rng.Chance(0.3) {
			// the same asset cut again: one representation keeps its number of segments, its first and its last segment,
			// but one frame moves across an inner boundary (what a cache written before the re-cut must not survive)
			var cand []int
			for ri, rp := range sp.Reps {
				if len(rp.SegFrames) >= 4 && rp.SegFrames[2] >= 2 && rp.GapAfter == 0 {
					cand = append(cand, ri)
				}
			}
			if len(cand) > 0 {
				rc := sp
				rc.Reps = append([]hx.RepSpec(nil), sp.Reps...)
				ri := core.Pick(rng, cand)
				sf := append([]int(nil), rc.Reps[ri].SegFrames...)
				k := 1 + rng.Intn(len(sf)-3) // boundary between inner segments k and k+1
				sf[k]++
				sf[k+1]--
				if sf[k+1] >= 1 {
					rc.Reps[ri].SegFrames = sf
					rc.Pattern = "recut"
					alt = rc
				}
			}
		}
		w.Alt = append(w.Alt, alt)
	}
	if !small && rng.Chance(0.45) {
		n := rng.Range(1, 2)
		perm := append([]string(nil), c15SmallBundled...)
		rng.Shuffle(len(perm), func(i, j int) { perm[i], perm[j] = perm[j], perm[i] })
		w.Bundled = append(w.Bundled, perm[:n]...)
		if tier == "thorough" && rng.Chance(0.1) {
			w.Bundled = append(w.Bundled, core.Pick(rng, c15LargeBundled))
		}
		sort.Strings(w.Bundled)
	}
	return w
}

func c15Instant(rng *core.Rng) int64 {
	if rng.Chance(0.15) {
		return rng.Int63n(3_000_000_000) + 1_000_000 // close to the epoch
	}
	return 1_600_000_000_000 + rng.Int63n(300_000_000_000)
}

func (C15) Gen(rng *core.Rng, tier string, idx int) *core.Scenario {
	// thorough tier: every second scenario enumerates the crash points of a write run over a
	// small fixed world (idx -> k-th crash point; exhaustive once idx covers the world's total).
	if tier == "thorough" && idx%2 == 1 {
		k := idx / 2
		variant := k / 1024
		wr := core.NewRng(0xC15E0000 + uint64(variant))
		w := c15GenWorld(wr, "quick", "enum", true)
		sc := core.NewScenario("C15", "tlsim", 0, tier, w)
		sc.AddOp(c15Op{Op: "start", Mode: "write"})
		sc.AddOp(c15Op{Op: "damage", Kind: "crash", Arg: int64(k % 1024)})
		sc.AddOp(c15Op{Op: "start", Mode: "read"})
		sc.AddOp(c15Op{Op: "compare", T: c15Instant(wr), Chain: k%8 == 0})
		return sc
	}
	kind := "faultfree"
	if rng.Chance(0.55) {
		kind = "damaged"
	}
	w := c15GenWorld(rng, tier, kind, false)
	sc := core.NewScenario("C15", "tlsim", 0, tier, w)
	cmp := func() { sc.AddOp(c15Op{Op: "compare", T: c15Instant(rng), Chain: rng.Chance(0.5)}) }
	rounds := rng.Range(1, 2)
	if tier == "thorough" {
		rounds = rng.Range(2, 5)
	}
	if kind == "faultfree" {
		if rng.Chance(0.15) { // read with no cache at all
			sc.AddOp(c15Op{Op: "start", Mode: "read"})
			cmp()
		}
		sc.AddOp(c15Op{Op: "start", Mode: "write"})
		if rng.Chance(0.5) {
			cmp()
		}
		for r := 0; r < rounds; r++ {
			switch rng.Intn(6) {
			case 0: // idempotent re-write
				sc.AddOp(c15Op{Op: "start", Mode: "write"})
				if rng.Bool() {
					cmp()
				}
			case 1: // cache partially present
				for n := rng.Range(1, 3); n > 0; n-- {
					sc.AddOp(c15Op{Op: "damage", Kind: "delete", File: rng.Intn(1000)})
				}
			case 2: // uncompressed variant of a file
				sc.AddOp(c15Op{Op: "damage", Kind: "plainjson", File: rng.Intn(1000)})
			case 3:
				sc.AddOp(c15Op{Op: "start", Mode: "scan"})
				cmp()
			}
			sc.AddOp(c15Op{Op: "start", Mode: "read"})
			cmp()
		}
		return sc
	}
	sc.AddOp(c15Op{Op: "start", Mode: "write"})
	kinds := []string{"truncate", "truncate", "zero", "delete", "bitflip", "bitflip", "plaintrunc", "stale-other", "crash", "crash", "diskfull", "mutate",
		"cache-hole", "cache-hole"}
	for r := 0; r < rounds; r++ {
		for n := rng.Range(1, 2); n > 0; n-- {
			k := core.Pick(rng, kinds)
			switch k {
			case "mutate":
				sc.AddOp(c15Op{Op: "mutate", Asset: rng.Intn(8)})
			case "diskfull":
				sc.AddOp(c15Op{Op: "damage", Kind: k, File: rng.Intn(1000)})
				sc.AddOp(c15Op{Op: "start", Mode: "write"})
			default:
				sc.AddOp(c15Op{Op: "damage", Kind: k, File: rng.Intn(1000), Arg: rng.Int63n(1 << 40)})
			}
		}
		sc.AddOp(c15Op{Op: "start", Mode: "read"})
		cmp()
		if rng.Chance(0.35) { // repair by a new write run, then the cache must be as good as new
			sc.AddOp(c15Op{Op: "start", Mode: "write"})
			sc.AddOp(c15Op{Op: "start", Mode: "read"})
			cmp()
		}
	}
	return sc
}

// ShrinkCandidates: drop one asset of the world at a time.
func (C15) ShrinkCandidates(sc *core.Scenario) []*core.Scenario {
	w, err := core.DecodeWorld[c15World](sc)
	if err != nil {
		return nil
	}
	var out []*core.Scenario
	emit := func(nw c15World) {
		if len(nw.Bundled)+len(nw.Gen) == 0 {
			return
		}
		c := sc.Clone()
		c.World = core.MustJSON(nw)
		out = append(out, c)
	}
	for i := range w.Bundled {
		nw := w
		nw.Bundled = append(append([]string(nil), w.Bundled[:i]...), w.Bundled[i+1:]...)
		emit(nw)
	}
	for i := range w.Gen {
		nw := w
		nw.Gen = append(append([]hx.AssetSpec(nil), w.Gen[:i]...), w.Gen[i+1:]...)
		if len(w.Alt) == len(w.Gen) {
			nw.Alt = append(append([]hx.AssetSpec(nil), w.Alt[:i]...), w.Alt[i+1:]...)
		}
		emit(nw)
	}
	if w.Shared {
		nw := w
		nw.Shared = false
		emit(nw)
	}
	// small file selectors and arguments in damage ops
	ops, err := core.DecodeOps[c15Op](sc)
	if err != nil {
		return out
	}
	for i, op := range ops {
		if op.Op != "damage" {
			continue
		}
		for f := 0; f < 6 && f < op.File; f++ {
			c := sc.Clone()
			o := op
			o.File = f
			c.Ops[i] = core.MustJSON(o)
			out = append(out, c)
		}
		if op.Arg > 64 && op.Kind != "crash" {
			for _, a := range []int64{0, 9, 40} {
				c := sc.Clone()
				o := op
				o.Arg = a
				c.Ops[i] = core.MustJSON(o)
				out = append(out, c)
			}
		}
	}
	return out
}

// ---------------------------------------------------------------------------------------
// Executor state.

type c15Asset struct {
	Name       string
	MPDs       []string
	Gen        int // index into world.Gen, -1 for bundled
	Class      string
	LoopMS     int64
	FirstSegMS int64
	NSegs      int
	Traits     map[string]string
}

type c15Run struct {
	res     *core.Result
	w       c15World
	root    string
	vod     string
	meta    string
	assets  []*c15Asset
	cur     *hx.Srv
	curMode string
	curErr  string
	hasCur  bool
	scan    *hx.Srv
	scanErr string
	hasScan bool
	// affected: assets whose cache is currently corrupt/stale -> damage kinds (relaxation applies)
	affected map[string]c15Faults
	// pendingFull: cache paths that are currently symlinks to /dev/full
	pendingFull map[string]bool
	snapshot    map[string]string // relative cache path -> hash, after the last write run
	wroteOnce   bool
}

func c15CopyTree(src, dst string) {
	err := filepath.WalkDir(src, func(p string, d os.DirEntry, err error) error {
		if err != nil {
			return err
		}
		rel, _ := filepath.Rel(src, p)
		target := filepath.Join(dst, rel)
		if d.IsDir() {
			return os.MkdirAll(target, 0o755)
		}
		// never carry cache files of the repository over
		if strings.HasSuffix(p, "_data.json.gz") || strings.HasSuffix(p, "_data.json") {
			return nil
		}
		data, err := os.ReadFile(p)
		if err != nil {
			return err
		}
		return os.WriteFile(target, data, 0o644)
	})
	if err != nil {
		panic(fmt.Sprintf("harness: copy %s: %v", src, err))
	}
}

func (r *c15Run) setup() {
	r.root = hx.TempDir("c15")
	r.vod = filepath.Join(r.root, "vod")
	r.meta = filepath.Join(r.root, "meta")
	if r.w.Shared {
		r.meta = r.vod
	}
	for _, d := range []string{r.vod, r.meta} {
		if err := os.MkdirAll(d, 0o755); err != nil {
			panic("harness: " + err.Error())
		}
	}
	bref := refAssets(hx.BundledAssets)
	for _, b := range r.w.Bundled {
		c15CopyTree(filepath.Join(hx.BundledAssets, filepath.FromSlash(b)), filepath.Join(r.vod, filepath.FromSlash(b)))
		ra := bref[b]
		if ra == nil {
			panic("harness: unknown bundled asset " + b)
		}
		a := &c15Asset{Name: b, Gen: -1, Class: "bundled", LoopMS: ra.LoopDurMS, NSegs: len(ra.Ref().Segs),
			Traits: map[string]string{"asset": "bundled"}}
		first := ra.Ref().Segs[0]
		a.FirstSegMS = int64(first.Dur() * 1000 / ra.Ref().Timescale)
		ents, _ := os.ReadDir(filepath.Join(r.vod, filepath.FromSlash(b)))
		for _, e := range ents {
			if strings.HasSuffix(e.Name(), ".mpd") {
				a.MPDs = append(a.MPDs, e.Name())
			}
		}
		sort.Strings(a.MPDs)
		r.assets = append(r.assets, a)
	}
	for i, sp := range r.w.Gen {
		if err := hx.GenAssetInRoot(r.vod, sp); err != nil {
			panic(fmt.Sprintf("harness: generate %s: %v", sp.Name, err))
		}
		r.assets = append(r.assets, r.genAsset(i, sp))
	}
	sort.Slice(r.assets, func(i, j int) bool { return r.assets[i].Name < r.assets[j].Name })
}

func (r *c15Run) genAsset(i int, sp hx.AssetSpec) *c15Asset {
	ref := sp.RefRep()
	tb := sp.Table(ref)
	tr := sp.Traits()
	tr["asset"] = "generated"
	return &c15Asset{Name: sp.Name, MPDs: []string{sp.MPD}, Gen: i, Class: sp.Class, LoopMS: sp.LoopDurMS(),
		FirstSegMS: int64((tb[0].End - tb[0].Start) * 1000 / uint64(ref.Timescale)), NSegs: len(tb), Traits: tr}
}

// start creates a server instance; a start-up panic is captured like an error.
func c15Start(o hx.SrvOpts) (srv *hx.Srv, errStr string, panicked bool) {
	defer func() {
		if p := recover(); p != nil {
			srv, errStr, panicked = nil, fmt.Sprint(p), true
		}
	}()
	s, err := hx.NewSrv(o)
	if err != nil {
		return nil, err.Error(), false
	}
	return s, "", false
}

func (r *c15Run) scanInst() *hx.Srv {
	if !r.hasScan {
		s, e, _ := c15Start(hx.SrvOpts{VodRoot: r.vod})
		r.scan, r.scanErr, r.hasScan = s, e, true
		r.res.Count("op.start-scan-ref")
	}
	return r.scan
}

// cacheFiles lists the cache files below the metadata root (relative, slash separated, sorted).
// Only files of representations that exist in the current VoD root count (after a "mutate" the
// files of representations that are gone are never read nor rewritten).
func (r *c15Run) cacheFiles() []string {
	var out []string
	live := map[string]bool{}
	for _, f := range r.writeOrder() {
		live[strings.TrimSuffix(f, ".gz")] = true
	}
	_ = filepath.WalkDir(r.meta, func(p string, d os.DirEntry, err error) error {
		if err != nil || d.IsDir() {
			return nil
		}
		if strings.HasSuffix(p, "_data.json.gz") || strings.HasSuffix(p, "_data.json") {
			rel, _ := filepath.Rel(r.meta, p)
			rel = filepath.ToSlash(rel)
			if live[strings.TrimSuffix(rel, ".gz")] {
				out = append(out, rel)
			}
		}
		return nil
	})
	sort.Strings(out)
	return out
}

func c15AssetOfFile(rel string) string {
	if i := strings.LastIndex(rel, "/"); i >= 0 {
		return rel[:i]
	}
	return ""
}

// writeOrder lists the gzip cache files in the order a write run creates them: MPDs in walk
// order, adaptation sets and representations in document order, first occurrence only.
func (r *c15Run) writeOrder() []string {
	var order []string
	seen := map[string]bool{}
	_ = filepath.WalkDir(r.vod, func(p string, d os.DirEntry, err error) error {
		if err != nil || d.IsDir() || filepath.Ext(p) != ".mpd" {
			return nil
		}
		data, err := os.ReadFile(p)
		if err != nil {
			return nil
		}
		m, err := mpd.ReadFromString(string(data))
		if err != nil || len(m.Periods) != 1 {
			return nil
		}
		rel, _ := filepath.Rel(r.vod, filepath.Dir(p))
		rel = filepath.ToSlash(rel)
		for _, as := range m.Periods[0].AdaptationSets {
			for _, rep := range as.Representations {
				f := rel + "/" + rep.Id + "_data.json.gz"
				if !seen[f] {
					seen[f] = true
					order = append(order, f)
				}
			}
		}
		return nil
	})
	return order
}

func (r *c15Run) abs(rel string) string { return filepath.Join(r.meta, filepath.FromSlash(rel)) }

func (r *c15Run) clearFullLinks() {
	for _, p := range sortedKeys(r.pendingFull) {
		// what a full disk leaves behind: the created, empty file
		_ = os.Remove(p)
		if err := os.WriteFile(p, nil, 0o644); err != nil {
			panic("harness: " + err.Error())
		}
		delete(r.pendingFull, p)
	}
}

func (r *c15Run) snapshotCache() map[string]string {
	snap := map[string]string{}
	for _, f := range r.cacheFiles() {
		if r.pendingFull[r.abs(f)] {
			continue
		}
		data, err := os.ReadFile(r.abs(f))
		if err != nil {
			panic("harness: " + err.Error())
		}
		snap[f] = hx.ShortHash(data)
	}
	return snap
}

func (r *c15Run) opStart(op c15Op) {
	res := r.res
	o := hx.SrvOpts{VodRoot: r.vod}
	switch op.Mode {
	case "write":
		o.RepDataRoot, o.WriteRepData = r.meta, true
	case "read":
		o.RepDataRoot = r.meta
		for _, p := range sortedKeys(r.pendingFull) { // never hit by a write run: plain empty files now
			rel, _ := filepath.Rel(r.meta, p)
			r.markAffected(c15AssetOfFile(filepath.ToSlash(rel)), "zero")
		}
		r.clearFullLinks()
	case "scan":
	default:
		return
	}
	res.Count("op.start-" + op.Mode)
	fullBefore := len(r.pendingFull)
	srv, errStr, panicked := c15Start(o)
	r.cur, r.curMode, r.curErr, r.hasCur = srv, op.Mode, errStr, true
	res.Event("start %s ok=%v panicked=%v", op.Mode, srv != nil, panicked)
	if panicked {
		res.Violate("C15.startup-survives", core.Sig("kind", "startup-panic", "mode", op.Mode, "fault", r.faultClassAny()), "SetupServer panicked: %s", trunc(errStr, 300))
	}
	if op.Mode != "write" {
		return
	}
	fullAssets := map[string]bool{}
	if fullBefore > 0 {
		// disk full during this write run: was the write error noticed?
		res.Add("fault.diskfull-fired", fullBefore)
		if srv == nil {
			res.Count("probe.write-error-reported")
		} else {
			res.Count("probe.write-error-startup-continues")
		}
		for _, p := range sortedKeys(r.pendingFull) {
			rel, _ := filepath.Rel(r.meta, p)
			fullAssets[c15AssetOfFile(filepath.ToSlash(rel))] = true
			r.markAffected(c15AssetOfFile(filepath.ToSlash(rel)), "diskfull")
		}
		r.clearFullLinks()
	}
	if srv == nil {
		return
	}
	// a complete write run replaces every cache file: stale/corrupt files are gone, except the
	// ones that could not be written (disk full, handled above).
	// An asset with a file that could not be written keeps its earlier faults as well: the failed
	// write aborts the loading of that MPD, so the files of its later representations are not
	// rewritten by this run either.
	keep := map[string]c15Faults{}
	for k, v := range r.affected {
		if fullAssets[k] {
			keep[k] = v
		}
	}
	r.affected = keep
	// plain JSON files the harness created are superseded by the gzip files of this run (the
	// loader reads the gzip file first); remove them so that snapshots compare like with like.
	for _, f := range r.cacheFiles() {
		if strings.HasSuffix(f, "_data.json") {
			if _, err := os.Stat(r.abs(f) + ".gz"); err == nil {
				_ = os.Remove(r.abs(f))
			}
		}
	}
	// (2) idempotent: same bytes as after the previous write run over the same assets
	snap := r.snapshotCache()
	if r.snapshot != nil && fullBefore == 0 {
		res.Count("probe.idempotence-checked")
		names := map[string]bool{}
		for k := range snap {
			names[k] = true
		}
		for k := range r.snapshot {
			names[k] = true
		}
		for _, k := range sortedKeys(names) {
			a, okA := r.snapshot[k]
			b, okB := snap[k]
			switch {
			case okA && !okB:
				res.Violate("C15.write-idempotent", core.Sig("kind", "file-missing-after-rewrite"), "%s written by the first run, absent after the second", k)
			case !okA && okB:
				res.Violate("C15.write-idempotent", core.Sig("kind", "file-extra-after-rewrite"), "%s only written by the second run", k)
			case a != b:
				res.Violate("C15.write-idempotent", core.Sig("kind", "bytes-differ"), "%s differs between two write runs (%s vs %s)", k, a, b)
			}
		}
	}
	if fullBefore == 0 {
		r.snapshot = snap
	}
	r.wroteOnce = true
	if len(snap) == 0 {
		res.Violate("C15.write-idempotent", core.Sig("kind", "nothing-written"), "write run produced no cache file")
	}
}

func gunzip(data []byte) ([]byte, error) {
	zr, err := gzip.NewReader(bytes.NewReader(data))
	if err != nil {
		return nil, err
	}
	return io.ReadAll(zr)
}

func (r *c15Run) opDamage(op c15Op) {
	res := r.res
	files := r.cacheFiles()
	// regular files only (a pending /dev/full link is not damaged again)
	var cand []string
	for _, f := range files {
		if !r.pendingFull[r.abs(f)] {
			cand = append(cand, f)
		}
	}
	if len(cand) == 0 {
		res.Event("damage %s skipped (no cache files)", op.Kind)
		return
	}
	pick := func(i int) string { return cand[((i%len(cand))+len(cand))%len(cand)] }
	arg := op.Arg
	if arg < 0 {
		arg = -arg
	}
	mark := func(f, kind string) { r.markAffected(c15AssetOfFile(f), kind) }
	switch op.Kind {
	case "crash":
		// state after a crash of a write run: files 1..j complete, file j+1 a byte prefix
		// (or not yet created), the rest absent. Needs the complete set written by a write run.
		order := r.writeOrder()
		var have []string
		var sizes []int64
		var total int64
		for _, f := range order {
			st, err := os.Lstat(r.abs(f))
			if err != nil || !st.Mode().IsRegular() {
				continue
			}
			have = append(have, f)
			sizes = append(sizes, st.Size())
			total += st.Size() + 1
		}
		if len(have) == 0 {
			res.Event("damage crash skipped")
			return
		}
		k := arg % total
		j := 0
		for k >= sizes[j]+1 {
			k -= sizes[j] + 1
			j++
		}
		if op.File%4 == 3 { // boost the rare "crash between two files" points
			j, k = int(arg%int64(len(have))), 0
		}
		// k == 0: file j not yet created; k in 1..size: prefix of k-1 bytes
		for i := j + 1; i < len(have); i++ {
			_ = os.Remove(r.abs(have[i]))
		}
		if k == 0 {
			_ = os.Remove(r.abs(have[j]))
			res.Count("fault.crash-between-files")
		} else {
			if err := os.Truncate(r.abs(have[j]), k-1); err != nil {
				panic("harness: " + err.Error())
			}
			mark(have[j], "crash")
			res.Count("fault.crash-torn-file")
		}
		res.Event("damage crash file#%d/%d prefix=%d of %d (crash points %d)", j, len(have), k-1, sizes[j], total)
		return
	}
	if op.Kind == "cache-hole" {
		r.damageCacheHole(op, cand, arg)
		return
	}
	f := pick(op.File)
	p := r.abs(f)
	data, err := os.ReadFile(p)
	if err != nil {
		panic("harness: " + err.Error())
	}
	switch op.Kind {
	case "truncate":
		if len(data) < 2 {
			return
		}
		n := 1 + arg%int64(len(data)-1)
		_ = os.Truncate(p, n)
		mark(f, op.Kind)
		res.Event("damage truncate #%d to %d of %d", op.File%len(cand), n, len(data))
	case "zero":
		_ = os.Truncate(p, 0)
		mark(f, op.Kind)
		res.Event("damage zero #%d", op.File%len(cand))
	case "delete":
		_ = os.Remove(p)
		res.Event("damage delete #%d", op.File%len(cand))
	case "bitflip":
		if len(data) == 0 {
			return
		}
		bit := arg % int64(len(data)*8)
		data[bit/8] ^= 1 << uint(bit%8)
		_ = os.WriteFile(p, data, 0o644)
		mark(f, op.Kind)
		res.Event("damage bitflip #%d bit %d of %d bytes", op.File%len(cand), bit, len(data))
	case "plainjson", "plaintrunc":
		if !strings.HasSuffix(f, ".gz") {
			return
		}
		plain, err := gunzip(data)
		if err != nil || len(plain) < 2 {
			res.Event("damage %s skipped (file not intact)", op.Kind)
			return
		}
		if op.Kind == "plaintrunc" {
			plain = plain[:1+arg%int64(len(plain)-1)]
			mark(f, op.Kind)
		}
		_ = os.Remove(p)
		_ = os.WriteFile(strings.TrimSuffix(p, ".gz"), plain, 0o644)
		res.Event("damage %s #%d len %d", op.Kind, op.File%len(cand), len(plain))
	case "stale-other":
		// cache file of another asset's representation copied over this one; prefer the same file name
		base := f[strings.LastIndex(f, "/")+1:]
		var src []string
		for _, g := range cand {
			if c15AssetOfFile(g) != c15AssetOfFile(f) && g[strings.LastIndex(g, "/")+1:] == base {
				src = append(src, g)
			}
		}
		if len(src) == 0 {
			for _, g := range cand {
				if c15AssetOfFile(g) != c15AssetOfFile(f) && strings.HasSuffix(g, ".gz") == strings.HasSuffix(f, ".gz") {
					src = append(src, g)
				}
			}
		}
		if len(src) == 0 {
			res.Event("damage stale-other skipped")
			return
		}
		g := src[int(arg%int64(len(src)))]
		od, err := os.ReadFile(r.abs(g))
		if err != nil {
			panic("harness: " + err.Error())
		}
		if bytes.Equal(od, data) {
			res.Event("damage stale-other skipped (same bytes)")
			return
		}
		_ = os.WriteFile(p, od, 0o644)
		mark(f, op.Kind)
		res.Event("damage stale-other #%d", op.File%len(cand))
	case "diskfull":
		_ = os.Remove(p)
		if err := os.Symlink("/dev/full", p); err != nil {
			panic("harness: " + err.Error())
		}
		r.pendingFull[p] = true
		res.Event("damage diskfull #%d", op.File%len(cand))
		return // counted when the write run hits it
	default:
		return
	}
	res.Count("fault." + op.Kind)
}

// damageCacheHole rewrites one cache file as well-formed JSON whose segment table has a hole:
// every segment after segment k starts (and ends) g ticks later, so endTime(k) != startTime(k+1).
// Audio representations are preferred (their table is not the reference one).
func (r *c15Run) damageCacheHole(op c15Op, cand []string, arg int64) {
	res := r.res
	type target struct {
		file string
		doc  map[string]any
		segs []any
	}
	var audio, other []target
	for _, f := range cand {
		if !strings.HasSuffix(f, ".gz") {
			continue
		}
		data, err := os.ReadFile(r.abs(f))
		if err != nil {
			continue
		}
		plain, err := gunzip(data)
		if err != nil {
			continue
		}
		dec := json.NewDecoder(bytes.NewReader(plain))
		dec.UseNumber()
		var doc map[string]any
		if dec.Decode(&doc) != nil {
			continue
		}
		segs, _ := doc["segments"].([]any)
		if len(segs) < 2 {
			continue
		}
		t := target{file: f, doc: doc, segs: segs}
		if doc["contentType"] == "audio" {
			audio = append(audio, t)
		} else {
			other = append(other, t)
		}
	}
	pool := audio
	if len(pool) == 0 || op.File%5 == 4 {
		pool = append(pool, other...)
	}
	if len(pool) == 0 {
		res.Event("damage cache-hole skipped")
		return
	}
	t := pool[op.File%len(pool)]
	num := func(v any) int64 {
		n, _ := v.(json.Number)
		i, _ := n.Int64()
		return i
	}
	g := num(t.doc["constantSampleDuration"])
	if g <= 0 {
		g = 1000
	}
	g *= 1 + arg%8
	k := 1 + int((arg/8)%int64(len(t.segs)-1))
	for i := k; i < len(t.segs); i++ {
		sg, ok := t.segs[i].(map[string]any)
		if !ok {
			return
		}
		sg["startTime"] = json.Number(fmt.Sprint(num(sg["startTime"]) + g))
		sg["endTime"] = json.Number(fmt.Sprint(num(sg["endTime"]) + g))
	}
	out, err := json.Marshal(t.doc)
	if err != nil {
		panic("harness: " + err.Error())
	}
	var buf bytes.Buffer
	zw := gzip.NewWriter(&buf)
	_, _ = zw.Write(out)
	_ = zw.Close()
	if err := os.WriteFile(r.abs(t.file), buf.Bytes(), 0o644); err != nil {
		panic("harness: " + err.Error())
	}
	r.markAffected(c15AssetOfFile(t.file), "cache-hole")
	res.Count("fault.cache-hole")
	if t.doc["contentType"] == "audio" {
		res.Count("fault.cache-hole-audio")
	}
	res.Event("damage cache-hole %v after segment %d of %d by %d", t.doc["contentType"], k, len(t.segs), g)
}

func (r *c15Run) opMutate(op c15Op) {
	if len(r.w.Gen) == 0 || len(r.w.Alt) != len(r.w.Gen) || !r.wroteOnce {
		return
	}
	n := len(r.w.Gen)
	for k := 0; k < n; k++ {
		i := (op.Asset + k) % n
		alt := r.w.Alt[i]
		if alt.Name == "" {
			continue
		}
		old := r.w.Gen[i]
		dir := filepath.Join(r.vod, filepath.FromSlash(old.Name))
		for _, rep := range old.Reps {
			_ = os.RemoveAll(filepath.Join(dir, rep.ID))
		}
		_ = os.Remove(filepath.Join(dir, old.MPD))
		if err := hx.GenAsset(dir, alt); err != nil {
			panic("harness: " + err.Error())
		}
		r.w.Gen[i], r.w.Alt[i] = alt, old
		for j, a := range r.assets {
			if a.Name == old.Name {
				r.assets[j] = r.genAsset(i, alt)
			}
		}
		r.markAffected(old.Name, "mutate")
		r.hasScan, r.scan = false, nil
		r.snapshot = nil
		r.res.Count("fault.mutate")
		r.res.Event("mutate gen#%d", i)
		return
	}
}

// ---------------------------------------------------------------------------------------
// Comparison battery.

type c15Obs struct {
	class   string // assetlist | mpd | init | segment
	content string
	url     string
	now     int64
	a, b    *hx.Resp // a = scanning instance, b = instance under test
}

func c15Get(s *hx.Srv, url string, now int64) *hx.Resp {
	if s == nil {
		return &hx.Resp{Status: -2}
	}
	if now < 0 {
		return s.Get(url)
	}
	return s.GetAt(url, now)
}

func c15Same(a, b *hx.Resp) bool {
	return a.Status == b.Status && a.CT() == b.CT() && bytes.Equal(a.Body, b.Body) && a.Panic == b.Panic
}

// c15ListSections splits the /assets page into one section per asset path.
func c15ListSections(body []byte) map[string]string {
	out := map[string]string{}
	for _, sec := range strings.Split(string(body), "<section>")[1:] {
		i := strings.Index(sec, "<strong>")
		j := strings.Index(sec, "</strong>")
		if i < 0 || j < i {
			continue
		}
		if e := strings.Index(sec, "</section>"); e >= 0 {
			sec = sec[:e]
		}
		out[sec[i+8:j]] = sec
	}
	return out
}

func pickIdx(n int) []int {
	seen := map[int]bool{}
	var out []int
	for _, i := range []int{0, n / 2, n - 1} {
		if i >= 0 && i < n && !seen[i] {
			seen[i] = true
			out = append(out, i)
		}
	}
	return out
}

// battery issues the same requests to both instances. The request list is derived from the
// scanning instance's own MPDs (and the test instance's, where they list other segments).
func (r *c15Run) battery(a *c15Asset, scan, cur *hx.Srv, T int64) []c15Obs {
	var obs []c15Obs
	both := func(class, content, url string, now int64) c15Obs {
		o := c15Obs{class: class, content: content, url: url, now: now, a: c15Get(scan, url, now), b: c15Get(cur, url, now)}
		obs = append(obs, o)
		r.res.Count("op.request-pair")
		return o
	}
	loop := a.LoopMS
	if loop <= 0 {
		loop = 8000
	}
	base := T - T%loop
	// just after a loop wrap (newest segment = last of the previous loop; its audio straddles the
	// wrap) and one more instant: mid-loop or right after the first segment of the new loop
	instants := []int64{base + 1, base + loop/2 + 137}
	if (T/7)%2 == 1 {
		instants[1] = base + a.FirstSegMS + 1
	}
	types := []string{"number", "timeline", "timelinenr"}
	seenInit := map[string]bool{}
	for ii, now := range instants {
		r.res.SimMS += loop
		for _, m := range a.MPDs {
			mpds := map[string]c15Obs{}
			for _, typ := range types {
				prefix := URLCfg{MPDType: typ}.Prefix(a.Name)
				mpds[typ] = both("mpd", "", prefix+"/"+m, now)
			}
			// segments: explicit lists of the timeline MPDs; the number-template variant re-uses
			// the numbers listed by the timeline-number MPD.
			var plans [][2]string // (list type, request type)
			if ii%2 == 0 {
				plans = [][2]string{{"timeline", "timeline"}, {"timelinenr", "number"}}
			} else {
				plans = [][2]string{{"timelinenr", "timelinenr"}}
			}
			for _, pl := range plans {
				for side := 0; side < 2; side++ {
					src := mpds[pl[0]].a
					if side == 1 {
						src = mpds[pl[0]].b
						if c15Same(mpds[pl[0]].a, src) {
							continue
						}
					}
					if src.Status != 200 {
						continue
					}
					cm, err := ParseClientMPD(src.Body)
					if err != nil || len(cm.Periods) != 1 {
						continue
					}
					prefix := URLCfg{MPDType: pl[1]}.Prefix(a.Name)
					for _, ca := range cm.Periods[0].Sets {
						if ca.Init != "" && ca.ContentType != "image" {
							u := prefix + "/" + fillTemplate(ca.Init, ca.RepID, 0, 0)
							if !seenInit[u] {
								seenInit[u] = true
								both("init", ca.ContentType, u, now)
							}
						}
						for _, i := range pickIdx(len(ca.Segs)) {
							both("segment", ca.ContentType, prefix+"/"+ca.Segs[i].URL, now)
						}
					}
				}
			}
		}
	}
	return obs
}

func c15StatusStr(s int) string {
	if s == -2 {
		return "no-server"
	}
	return fmt.Sprint(s)
}

func (r *c15Run) opCompare(op c15Op) {
	res := r.res
	if !r.hasCur {
		return
	}
	scan := r.scanInst()
	cur := r.cur
	res.Count("op.compare")
	anyFault := len(r.affected) > 0
	faultOf := func(a *c15Asset) string { return r.affected[a.Name].Class() }
	// start-up must survive a bad cache file
	if cur == nil && scan != nil {
		res.Violate("C15.startup-survives", core.Sig("kind", "startup-error", "mode", r.curMode, "fault", r.faultClassAny()),
			"instance (%s) failed to start while the scanning instance starts: %s", r.curMode, trunc(r.curErr, 200))
		return
	}
	if cur == nil && scan == nil {
		res.Count("probe.both-fail-to-start")
		return
	}
	la, lb := c15Get(scan, "/assets", -1), c15Get(cur, "/assets", -1)
	secA, secB := c15ListSections(la.Body), c15ListSections(lb.Body)
	res.Event("assets scan=%d cur=%d same=%v", len(secA), len(secB), c15Same(la, lb))
	if !anyFault && !c15Same(la, lb) {
		res.Violate("C15.cache-equals-scan", core.Sig("kind", "asset-list-differs", "mode", r.curMode, "req", "assetlist"),
			"/assets differs: scan lists %v, %s instance lists %v", sortedKeys(secA), r.curMode, sortedKeys(secB))
	}
	// an asset nobody knows about must not appear (e.g. through a foreign cache file)
	known := map[string]bool{}
	for _, a := range r.assets {
		known[a.Name] = true
	}
	for _, n := range sortedKeys(secB) {
		if !known[n] {
			res.Violate("C15.cache-equals-scan", core.Sig("kind", "unknown-asset-listed", "mode", r.curMode), "asset %q listed", n)
		}
	}
	for _, a := range r.assets {
		fault := faultOf(a)
		_, listedA := secA[a.Name]
		_, listedB := secB[a.Name]
		// (3) left-out assets
		if a.Class == "nonms" || a.Class == "disagree" {
			for side, listed := range []bool{listedA, listedB} {
				if listed && (side == 0 || fault == "") {
					inst := "scan"
					if side == 1 {
						inst = r.curMode
					}
					res.Violate("C15.bad-asset-left-out", merge(core.Sig("kind", "listed", "class", a.Class, "instance", inst)),
						"asset %s (%s) is listed by the %s instance", a.Name, a.Class, inst)
				}
			}
			res.Count("probe.bad-asset-" + a.Class)
		} else if !listedA && a.Class == "gap" {
			res.Count("probe.gap-asset-left-out-" + a.Traits["gapin"])
		} else if !listedA && a.Class == "jitter" {
			res.Count("probe.jitter-asset-left-out")
		} else if !listedA {
			res.Violate("C15.sanity-good-asset-served", core.Sig("kind", "good-asset-not-listed", "class", a.Class),
				"asset %s (%s) is not listed by the scanning instance", a.Name, a.Class)
		}
		obs := r.battery(a, scan, cur, op.T)
		if (a.Class == "nonms" || a.Class == "disagree") && fault == "" {
			for _, o := range obs {
				if o.b.Status != 404 {
					res.Violate("C15.bad-asset-left-out", core.Sig("kind", "not-404", "class", a.Class, "req", o.class, "status", c15StatusStr(o.b.Status)),
						"%s (asset class %s): status %d", o.url, a.Class, o.b.Status)
					break
				}
			}
		}
		identical := secA[a.Name] == secB[a.Name]
		var first *c15Obs
		absent := !listedB
		n200 := 0
		jitterPanic := false
		for i := range obs {
			o := &obs[i]
			res.Event("%s %s t=%d -> %d/%d %s/%s", o.class, o.url, o.now, o.a.Status, o.b.Status, hx.ShortHash(o.a.Body), hx.ShortHash(o.b.Body))
			if o.a.Status == 200 {
				n200++
			}
			if a.Class == "jitter" && o.a.Panic != "" && !jitterPanic {
				// an asset that the loader refuses (audio without constant sample duration) must be left out, not half
				// registered: its requests may be 404, never a handler that dies
				jitterPanic = true
				res.Violate("C15.bad-asset-left-out", core.Sig("kind", "handler-panic", "class", a.Class, "req", o.class, "frame", o.a.PanicFrame),
					"%s (asset class %s) on the scanning instance: panic %s", o.url, a.Class, trunc(o.a.Panic, 120))
			}
			if o.b.Panic != "" && o.a.Panic == o.b.Panic {
				// both instances panic alike: not a cache matter (C08/C03 territory)
				res.Count("probe.both-instances-panic")
			}
			if !c15Same(o.a, o.b) {
				identical = false
				if first == nil {
					first = o
				}
			}
			if o.b.Status != 404 {
				absent = false
			}
		}
		res.Add("probe.responses-200", n200)
		switch {
		case identical:
			if fault != "" {
				res.Count("probe.damaged-served-identically")
			} else if listedA {
				res.Count("probe.asset-identical")
			}
		case fault != "" && absent:
			res.Count("probe.damaged-asset-left-out")
		default:
			sig := core.Sig("mode", r.curMode)
			detail := ""
			if first == nil { // only the asset-list section differs
				sig["req"], sig["kind"] = "assetlist", "list-entry-differs"
				if listedA != listedB {
					sig["kind"] = "listed-by-one-only"
				}
				detail = fmt.Sprintf("asset list entry of %s: scan listed=%v, %s listed=%v", a.Name, listedA, r.curMode, listedB)
			} else {
				sig["req"] = first.class
				sig["scan"], sig["cache"] = c15StatusStr(first.a.Status), c15StatusStr(first.b.Status)
				switch {
				case first.a.Status == 200 && first.b.Status == 200:
					sig["kind"] = "different-content"
				case first.a.Status == 200:
					sig["kind"] = "partially-served"
				case first.b.Status == 200:
					sig["kind"] = "extra-served"
				default:
					sig["kind"] = "different-error"
				}
				if first.content != "" {
					sig["content"] = first.content
				}
				detail = fmt.Sprintf("%s at %d: scan %d (%d bytes, %s) vs %s instance %d (%d bytes, %s); listed scan=%v cache=%v", first.url, first.now,
					first.a.Status, len(first.a.Body), hx.ShortHash(first.a.Body), r.curMode, first.b.Status, len(first.b.Body), hx.ShortHash(first.b.Body), listedA, listedB)
				if first.b.Status != 200 {
					detail += " body=" + trunc(string(first.b.Body), 120)
				}
				if first.b.Panic != "" {
					detail += " handler panic in " + first.b.PanicFrame + ": " + trunc(first.b.Panic, 120)
				}
			}
			if fault != "" {
				sig["fault"] = fault
				res.Violate("C15.damaged-identical-or-absent", sig, "damage %s on %s: %s", r.affected[a.Name], a.Name, detail)
			} else {
				if anyFault {
					sig["other-asset-damaged"] = "true"
				}
				res.Violate("C15.cache-equals-scan", merge(sig, map[string]string{"asset": a.Traits["asset"]}), "%s", detail)
			}
		}
		// (4) contiguity over one full loop, observed on the instance under test
		if (op.Chain || a.Class == "gap") && listedB && cur != nil && fault == "" {
			r.chain(a, cur, op.T)
		}
	}
}

// chain fetches N+2 consecutive segments (one loop and the wrap) of every representation and
// checks tfdt(n+1) = tfdt(n) + duration(n).
func (r *c15Run) chain(a *c15Asset, cur *hx.Srv, T int64) {
	res := r.res
	loop := a.LoopMS
	if loop <= 0 {
		return
	}
	typ := "timelinenr"
	if (T/1000)%2 == 1 {
		typ = "timeline"
	}
	cfg := URLCfg{MPDType: typ, Tsbd: pint(int(2*loop/1000) + 30)}
	prefix := cfg.Prefix(a.Name)
	now := T - T%loop + loop/3
	if now < 4*loop {
		now += 4 * loop
	}
	for _, m := range a.MPDs {
		mr := cur.GetAt(prefix+"/"+m, now)
		if mr.Status != 200 {
			continue
		}
		cm, err := ParseClientMPD(mr.Body)
		if err != nil || len(cm.Periods) != 1 {
			continue
		}
		for _, ca := range cm.Periods[0].Sets {
			if ca.ContentType == "image" || ca.Init == "" {
				continue
			}
			ir := cur.GetAt(prefix+"/"+fillTemplate(ca.Init, ca.RepID, 0, 0), now)
			if ir.Status != 200 {
				continue
			}
			in, err := hx.ParseInit(ir.Body)
			if err != nil {
				continue
			}
			segs := ca.Segs
			want := a.NSegs + 2
			if len(segs) > want {
				segs = segs[len(segs)-want:]
			}
			var prevEnd uint64
			havePrev := false
			n := 0
			// source attribution (generated assets): which VoD sample each served sample is
			var spec *hx.AssetSpec
			var tab []hx.SegInfo
			repIdx := -1
			if a.Gen >= 0 && a.Gen < len(r.w.Gen) {
				spec = &r.w.Gen[a.Gen]
				for i, rs := range spec.Reps {
					if rs.ID == ca.RepID {
						repIdx, tab = i, spec.Table(rs)
					}
				}
			}
			prevSeg, prevIdx := -1, -1
			for _, ds := range segs {
				sr := cur.GetAt(prefix+"/"+ds.URL, now)
				res.Count("op.chain-segment")
				if sr.Status != 200 {
					havePrev, prevSeg = false, -1
					res.Count("probe.chain-segment-not-200")
					if a.Class == "gap" {
						res.Violate("C15.contiguous", merge(core.Sig("kind", "listed-segment-not-served", "content", ca.ContentType), pickTraits(a.Traits, "asset", "class", "gapin")),
							"%s %s (%s instance, %s): asset with a hole is served, segment %s listed in the MPD gives %d", a.Name, ca.RepID, r.curMode, typ, ds.URL, sr.Status)
					}
					continue
				}
				sg, err := hx.ParseSeg(sr.Body, in.Trex)
				if err != nil {
					havePrev, prevSeg = false, -1
					continue
				}
				if repIdx >= 0 {
					// Each segment of the table must start where the previous one ends: when the served
					// stream passes from the last sample of VoD segment k to the first sample of VoD
					// segment k+1, the two must be adjacent in the VoD media timeline (from the files).
					for _, sm := range sg.AllSamples() {
						tag, ri, si, ki, ok := hx.DecodePayload(sm.Data)
						if !ok || tag != spec.Tag || ri != repIdx || si >= len(tab) {
							prevSeg = -1
							res.Count("probe.chain-foreign-sample")
							continue
						}
						res.Count("probe.chain-sample-attributed")
						if prevSeg >= 0 && si == prevSeg+1 && ki == 0 && prevIdx == tab[prevSeg].Frames-1 {
							res.Count("probe.chain-source-boundary-crossed")
							if tab[si].Start != tab[prevSeg].End {
								res.Violate("C15.contiguous", merge(core.Sig("kind", "source-hole-served-as-continuous", "content", ca.ContentType), pickTraits(a.Traits, "asset", "class", "gapin")),
									"%s %s (%s instance, %s): served samples run from VoD segment %d (ends at %d) straight into VoD segment %d (starts at %d): the loaded table has a hole of %d ticks",
									a.Name, ca.RepID, r.curMode, typ, prevSeg+1, tab[prevSeg].End, si+1, tab[si].Start, tab[si].Start-tab[prevSeg].End)
							}
						}
						prevSeg, prevIdx = si, ki
					}
				}
				if havePrev && sg.Tfdt() != prevEnd {
					off := "gap"
					if sg.Tfdt() < prevEnd {
						off = "overlap"
					}
					res.Violate("C15.contiguous", merge(core.Sig("kind", "non-contiguous", "content", ca.ContentType), pickTraits(a.Traits, "asset", "class", "gapin")),
						"%s %s (%s instance, %s, vod addressing %s): %s: segment %s starts at %d, previous ended at %d (timescale %d)", a.Name, ca.RepID, r.curMode, typ,
						a.Traits["addressing"], off, ds.URL, sg.Tfdt(), prevEnd, in.Timescale)
				}
				prevEnd = sg.Tfdt() + sg.Dur
				havePrev = true
				n++
			}
			res.Event("chain %s %s %s n=%d", a.Name, ca.RepID, typ, n)
			if n > a.NSegs {
				res.Count("probe.chain-full-loop-with-wrap")
			}
		}
	}
	res.SimMS += loop
}

func pickTraits(t map[string]string, keys ...string) map[string]string {
	out := map[string]string{}
	for _, k := range keys {
		if v, ok := t[k]; ok {
			out[k] = v
		}
	}
	return out
}

func (C15) Run(t *testing.T, sc *core.Scenario, res *core.Result) {
	w, err := core.DecodeWorld[c15World](sc)
	if err != nil {
		panic(err)
	}
	ops, err := core.DecodeOps[c15Op](sc)
	if err != nil {
		panic(err)
	}
	if len(w.Bundled)+len(w.Gen) == 0 {
		return
	}
	// private copies: mutate swaps specs
	w.Gen = append([]hx.AssetSpec(nil), w.Gen...)
	w.Alt = append([]hx.AssetSpec(nil), w.Alt...)
	r := &c15Run{res: res, w: w, affected: map[string]c15Faults{}, pendingFull: map[string]bool{}}
	r.setup()
	defer os.RemoveAll(r.root)
	res.Count("world." + w.Kind)
	if w.Shared {
		res.Count("world.shared-root")
	} else {
		res.Count("world.separate-root")
	}
	for _, op := range ops {
		switch op.Op {
		case "start":
			r.opStart(op)
		case "damage":
			if !r.wroteOnce {
				continue // nothing to damage before a write run
			}
			r.opDamage(op)
		case "mutate":
			r.opMutate(op)
		case "compare":
			r.opCompare(op)
		}
	}
	res.Nontrivial = res.Stats["op.compare"] > 0 && res.Stats["probe.responses-200"] > 0
}

package props

// World building for C10: DRM configuration files (CPIX packages) and a pre-encrypted asset.

import (
	"bytes"
	"encoding/base64"
	"encoding/hex"
	"encoding/json"
	"fmt"
	"os"
	"path/filepath"
	"strings"

	"github.com/Eyevinn/mp4ff/mp4"
	"github.com/beevik/etree"
)

// c10Key is one content key of a generated CPIX package (hex strings).
type c10Key struct {
	KID    string `json:"kid"`
	Key    string `json:"key"`
	IV     string `json:"iv"`
	Scheme string `json:"scheme"`
	Track  string `json:"track,omitempty"` // "", VIDEO, AUDIO (intendedTrackType of its usage rule)
}

// c10Package is one entry of the DRM configuration file. Either File (an existing CPIX
// document, absolute path) or Keys (the harness writes the CPIX document).
type c10Package struct {
	Name string   `json:"name"`
	File string   `json:"file,omitempty"`
	Keys []c10Key `json:"keys,omitempty"`
}

const c10DrmTestdata = "/repo/pkg/drm/testdata"

func uuidStr(hexKID string) string {
	s := hexKID
	return fmt.Sprintf("%s-%s-%s-%s-%s", s[:8], s[8:12], s[12:16], s[16:20], s[20:])
}

func mustHex(s string) []byte {
	b, err := hex.DecodeString(s)
	if err != nil {
		panic("harness: bad hex " + s)
	}
	return b
}

// c10WriteCPIX writes a CPIX 2.3 document in the shape of pkg/drm/testdata.
func c10WriteCPIX(path string, contentID string, keys []c10Key) {
	var b strings.Builder
	b.WriteString(`<?xml version="1.0" encoding="utf-8"?>` + "\n")
	fmt.Fprintf(&b, `<cpix:CPIX xmlns:cpix="urn:dashif:org:cpix" xmlns:pskc="urn:ietf:params:xml:ns:keyprov:pskc" contentId="%s" version="2.3">`+"\n", contentID)
	b.WriteString("  <cpix:ContentKeyList>\n")
	for _, k := range keys {
		ivAttr := ""
		if k.IV != "" { // explicitIV is optional in CPIX
			ivAttr = fmt.Sprintf(` explicitIV="%s"`, base64.StdEncoding.EncodeToString(mustHex(k.IV)))
		}
		fmt.Fprintf(&b, `    <cpix:ContentKey%s kid="%s" commonEncryptionScheme="%s">`+"\n", ivAttr, uuidStr(k.KID), k.Scheme)
		fmt.Fprintf(&b, "      <cpix:Data><pskc:Secret><pskc:PlainValue>%s</pskc:PlainValue></pskc:Secret></cpix:Data>\n",
			base64.StdEncoding.EncodeToString(mustHex(k.Key)))
		b.WriteString("    </cpix:ContentKey>\n")
	}
	b.WriteString("  </cpix:ContentKeyList>\n  <cpix:DRMSystemList>\n")
	for _, k := range keys {
		// a Widevine entry with a (dummy but well-formed base64) PSSH that names the key
		pssh := base64.StdEncoding.EncodeToString(append([]byte("pssh-for-"), mustHex(k.KID)...))
		fmt.Fprintf(&b, `    <cpix:DRMSystem kid="%s" systemId="edef8ba9-79d6-4ace-a3c8-27dcd51d21ed"><cpix:PSSH>%s</cpix:PSSH></cpix:DRMSystem>`+"\n",
			uuidStr(k.KID), pssh)
	}
	b.WriteString("  </cpix:DRMSystemList>\n  <cpix:ContentKeyUsageRuleList>\n")
	for _, k := range keys {
		if k.Track == "" {
			fmt.Fprintf(&b, `    <cpix:ContentKeyUsageRule kid="%s"> </cpix:ContentKeyUsageRule>`+"\n", uuidStr(k.KID))
		} else {
			fmt.Fprintf(&b, `    <cpix:ContentKeyUsageRule kid="%s" intendedTrackType="%s"/>`+"\n", uuidStr(k.KID), k.Track)
		}
	}
	b.WriteString("  </cpix:ContentKeyUsageRuleList>\n</cpix:CPIX>\n")
	if err := os.WriteFile(path, []byte(b.String()), 0o644); err != nil {
		panic("harness: " + err.Error())
	}
}

// c10WriteDrmConfig writes <dir>/drm_config.json (format of pkg/drm/testdata/drm_config_test.json)
// and the generated CPIX documents; it returns the config path.
func c10WriteDrmConfig(dir string, pkgs []c10Package) string {
	type lic struct {
		LaURL string `json:"laURL"`
	}
	type pk struct {
		Name     string         `json:"name"`
		Desc     string         `json:"desc"`
		CPIXFile string         `json:"cpixFile"`
		URLs     map[string]lic `json:"licenseURLs"`
	}
	cfg := struct {
		Version  string `json:"version"`
		Packages []pk   `json:"packages"`
	}{Version: "0.5"}
	for i, p := range pkgs {
		f := p.File
		if f == "" {
			f = fmt.Sprintf("cpix_%d.xml", i) // relative to the config file
			c10WriteCPIX(filepath.Join(dir, f), fmt.Sprintf("verif-%d", i), p.Keys)
		}
		cfg.Packages = append(cfg.Packages, pk{Name: p.Name, Desc: "verif", CPIXFile: f, URLs: map[string]lic{
			"widevine":  {LaURL: "https://widevine.example.test/proxy?p=" + p.Name},
			"playready": {LaURL: "https://playready.example.test/rightsmanager?p=" + p.Name},
		}})
	}
	b, _ := json.MarshalIndent(cfg, "", "  ")
	path := filepath.Join(dir, "drm_config.json")
	if err := os.WriteFile(path, b, 0o644); err != nil {
		panic("harness: " + err.Error())
	}
	return path
}

// c10CPIXDoc is the harness's own reading of a CPIX document (etree, no pkg/drm).
type c10CPIXDoc struct {
	Keys    map[string]c10Key // by kid hex
	Order   []string
	ByTrack map[string]string // lower-case track type -> kid hex
	PSSH    map[string]string // kid hex + "/" + systemId -> PSSH text
}

func c10ReadCPIX(path string) *c10CPIXDoc {
	d := etree.NewDocument()
	if err := d.ReadFromFile(path); err != nil {
		panic("harness: CPIX " + path + ": " + err.Error())
	}
	doc := &c10CPIXDoc{Keys: map[string]c10Key{}, ByTrack: map[string]string{}, PSSH: map[string]string{}}
	normKID := func(s string) string { return strings.ToLower(strings.ReplaceAll(s, "-", "")) }
	for _, ke := range d.FindElements("/CPIX/ContentKeyList/ContentKey") {
		k := c10Key{KID: normKID(ke.SelectAttrValue("kid", "")), Scheme: ke.SelectAttrValue("commonEncryptionScheme", "")}
		if iv := ke.SelectAttrValue("explicitIV", ""); iv != "" {
			b, err := base64.StdEncoding.DecodeString(iv)
			if err != nil {
				panic("harness: CPIX iv")
			}
			k.IV = hex.EncodeToString(b)
		}
		if pv := ke.FindElement("./Data/Secret/PlainValue"); pv != nil {
			b, err := base64.StdEncoding.DecodeString(strings.TrimSpace(pv.Text()))
			if err != nil {
				panic("harness: CPIX key")
			}
			k.Key = hex.EncodeToString(b)
		}
		doc.Keys[k.KID] = k
		doc.Order = append(doc.Order, k.KID)
	}
	for _, ur := range d.FindElements("/CPIX/ContentKeyUsageRuleList/ContentKeyUsageRule") {
		tt := strings.ToLower(ur.SelectAttrValue("intendedTrackType", ""))
		if tt != "" {
			doc.ByTrack[tt] = normKID(ur.SelectAttrValue("kid", ""))
		}
	}
	for _, ds := range d.FindElements("/CPIX/DRMSystemList/DRMSystem") {
		if p := ds.FindElement("./PSSH"); p != nil {
			doc.PSSH[normKID(ds.SelectAttrValue("kid", ""))+"/"+strings.ToLower(ds.SelectAttrValue("systemId", ""))] = strings.TrimSpace(p.Text())
		}
	}
	if len(doc.Keys) == 0 {
		panic("harness: CPIX without keys: " + path)
	}
	return doc
}

// KIDFor is the key a CPIX document assigns to a track type: the only key, or the one whose
// usage rule names the track type.
func (d *c10CPIXDoc) KIDFor(contentType string) string {
	if len(d.Order) == 1 {
		return d.Order[0]
	}
	return d.ByTrack[strings.ToLower(contentType)]
}

func c10PackagePath(dir string, idx int, p c10Package) string {
	if p.File != "" {
		return p.File
	}
	return filepath.Join(dir, fmt.Sprintf("cpix_%d.xml", idx))
}

// ---------------------------------------------------------------------------------------
// Pre-encrypted asset: a copy of a bundled clear asset whose init and media segments are
// encrypted by the harness with mp4ff (InitProtect / EncryptFragment).

type c10PreEnc struct {
	Src    string   `json:"src"`  // bundled asset directory name
	Reps   []string `json:"reps"` // representation directories to copy
	Scheme string   `json:"scheme"`
	KID    string   `json:"kid"`
	Key    string   `json:"key"`
	IV     string   `json:"iv"`
	AddCP  bool     `json:"addcp"` // add ContentProtection elements to the VoD MPD
}

const c10PreEncAsset = "preenc"

// c10BuildPreEnc writes <root>/preenc/{Manifest.mpd,<rep>/init.mp4,<rep>/N.m4s}.
func c10BuildPreEnc(root string, pe c10PreEnc, srcRoot string) {
	src := filepath.Join(srcRoot, pe.Src)
	dst := filepath.Join(root, c10PreEncAsset)
	key, iv := mustHex(pe.Key), mustHex(pe.IV)
	kid, err := mp4.NewUUIDFromHex(pe.KID)
	if err != nil {
		panic("harness: " + err.Error())
	}
	for _, rep := range pe.Reps {
		if err := os.MkdirAll(filepath.Join(dst, rep), 0o755); err != nil {
			panic("harness: " + err.Error())
		}
		raw, err := os.ReadFile(filepath.Join(src, rep, "init.mp4"))
		if err != nil {
			panic("harness: " + err.Error())
		}
		f, err := mp4.DecodeFile(bytes.NewReader(raw))
		if err != nil || f.Init == nil {
			panic(fmt.Sprintf("harness: decode init %s: %v", rep, err))
		}
		ipd, err := mp4.InitProtect(f.Init, key, iv, pe.Scheme, kid, nil)
		if err != nil {
			panic("harness: InitProtect: " + err.Error())
		}
		var buf bytes.Buffer
		if err := f.Init.Encode(&buf); err != nil {
			panic("harness: " + err.Error())
		}
		if err := os.WriteFile(filepath.Join(dst, rep, "init.mp4"), buf.Bytes(), 0o644); err != nil {
			panic("harness: " + err.Error())
		}
		ents, err := os.ReadDir(filepath.Join(src, rep))
		if err != nil {
			panic("harness: " + err.Error())
		}
		for _, e := range ents {
			if !strings.HasSuffix(e.Name(), ".m4s") {
				continue
			}
			raw, err := os.ReadFile(filepath.Join(src, rep, e.Name()))
			if err != nil {
				panic("harness: " + err.Error())
			}
			sf, err := mp4.DecodeFile(bytes.NewReader(raw))
			if err != nil || len(sf.Segments) != 1 {
				panic(fmt.Sprintf("harness: decode %s/%s: %v", rep, e.Name(), err))
			}
			for _, fr := range sf.Segments[0].Fragments {
				if err := mp4.EncryptFragment(fr, key, iv, ipd); err != nil {
					panic("harness: EncryptFragment: " + err.Error())
				}
			}
			var sb bytes.Buffer
			if err := sf.Segments[0].Encode(&sb); err != nil {
				panic("harness: " + err.Error())
			}
			if err := os.WriteFile(filepath.Join(dst, rep, e.Name()), sb.Bytes(), 0o644); err != nil {
				panic("harness: " + err.Error())
			}
		}
	}
	mpdRaw, err := os.ReadFile(filepath.Join(src, "Manifest.mpd"))
	if err != nil {
		panic("harness: " + err.Error())
	}
	if pe.AddCP {
		d := etree.NewDocument()
		if err := d.ReadFromBytes(mpdRaw); err != nil {
			panic("harness: " + err.Error())
		}
		for _, as := range d.FindElements("/MPD/Period/AdaptationSet") {
			cp := etree.NewElement("ContentProtection")
			cp.CreateAttr("xmlns:cenc", "urn:mpeg:cenc:2013")
			cp.CreateAttr("schemeIdUri", "urn:mpeg:dash:mp4protection:2011")
			cp.CreateAttr("value", pe.Scheme)
			cp.CreateAttr("cenc:default_KID", uuidStr(pe.KID))
			as.InsertChildAt(0, cp)
		}
		mpdRaw, err = d.WriteToBytes()
		if err != nil {
			panic("harness: " + err.Error())
		}
	}
	if err := os.WriteFile(filepath.Join(dst, "Manifest.mpd"), mpdRaw, 0o644); err != nil {
		panic("harness: " + err.Error())
	}
}

package props

// C10 — advertised key ids, init segments, licences and ciphertext agree (engine T + restart faults).
//
// A DRM player session: MPD (default_KID, licence URL) -> licence -> init (tenc) -> media
// segments over at least one loop. Every served protected segment is decrypted twice (mp4ff
// and an independent AES-CTR / AES-CBC-pattern decryptor, c10_crypto.go) and compared with the
// clear twin's segment for the same URL (without the DRM parameter) and instant. Faults: the
// server instance is dropped and rebuilt between the steps; requests are duplicated.

import (
	"bytes"
	"encoding/base64"
	"encoding/hex"
	"encoding/json"
	"fmt"
	"math"
	"net/url"
	"os"
	"strings"
	"testing"

	"github.com/Eyevinn/mp4ff/bits"
	"github.com/Eyevinn/mp4ff/mp4"
	"github.com/beevik/etree"

	"verif/sim/core"
	"verif/sim/hx"
	"verif/sim/refmodel"
)

type c10World struct {
	Kind   string       `json:"kind"` // clearkey | cpix | preenc
	Asset  string       `json:"asset"`
	MPD    string       `json:"mpd"`
	Cfg    URLCfg       `json:"cfg"`              // the clear twin's configuration
	DRM    string       `json:"drm"`              // URL part: eccp_cenc | eccp_cbcs | drm_<package>
	Pkgs   []c10Package `json:"pkgs,omitempty"`   // DRM configuration file content
	PreEnc *c10PreEnc   `json:"preenc,omitempty"` // kind preenc: how the asset was encrypted
	T0     int64        `json:"t0"`
}

type c10Op struct {
	Op    string `json:"op"`            // mpd | licence | init | seg | restart | use
	Use   string `json:"use,omitempty"` // op use: the DRM URL part (eccp_cenc | eccp_cbcs | drm_<package>) that the following ops request
	Rep   int    `json:"rep,omitempty"`
	Back  int    `json:"back,omitempty"`  // seg: how many segments behind the newest one of the MPD
	Delay int64  `json:"delay,omitempty"` // ms after T0 at which the request is made
	Dup   bool   `json:"dup,omitempty"`   // fault: the request is sent twice
	DRM   bool   `json:"drm,omitempty"`   // kind preenc: request with the DRM parameter (must be refused)
}

type C10 struct{}

func init() { core.Register(C10{}) }

func (C10) ID() string     { return "C10" }
func (C10) Engine() string { return "tlsim" }

// assets a DRM session can be run on. The last one cannot be encrypted by livesim2 (HEVC / AC-3).
var c10Assets = []assetRef{
	{"testpic_2s", "Manifest.mpd"},
	{"testpic_2s", "Manifest.mpd"},
	{"testpic_2s", "Manifest_thumbs.mpd"},
	{"testpic_2s", "Manifest_imsc1.mpd"},
	{"testpic_6s", "Manifest.mpd"},
	{"testpic_8s", "Manifest.mpd"},
	{"testpic_alt_seg_dur_stl", "Manifest.mpd"},
	{"WAVE/vectors/cfhd_sets/12.5_25_50/t3/2022-10-17", "stream.mpd"},
	{"WAVE/vectors/cfhd_sets/14.985_29.97_59.94/t1/2022-10-17", "stream.mpd"},
	{"WAVE/vectors/cfhd_sets/14.985_29.97_59.94/t1/2022-10-17", "stream_w_beeps.mpd"},
}

var c10Unencryptable = assetRef{"bbb_hevc_ac3_8s", "manifest.mpd"}

func randHex(rng *core.Rng, n int) string {
	b := make([]byte, n)
	for i := range b {
		b[i] = byte(rng.Intn(256))
	}
	return hex.EncodeToString(b)
}

func c10GenPackages(rng *core.Rng) []c10Package {
	var pk []c10Package
	n := rng.Range(1, 3)
	for i := 0; i < n; i++ {
		name := fmt.Sprintf("pkg-%c%d", 'a'+byte(rng.Intn(26)), i)
		switch rng.Intn(5) {
		case 0:
			pk = append(pk, c10Package{Name: name, File: c10DrmTestdata + "/cpix_1key_cbcs_test.xml"})
		case 1:
			pk = append(pk, c10Package{Name: name, File: c10DrmTestdata + "/cpix_2keys_cbcs_test.xml"})
		case 2: // one key for everything
			pk = append(pk, c10Package{Name: name, Keys: []c10Key{{KID: randHex(rng, 16), Key: randHex(rng, 16), IV: randHex(rng, 16),
				Scheme: core.Pick(rng, []string{"cbcs", "cenc"})}}})
		default: // one key per track type
			scheme := core.Pick(rng, []string{"cbcs", "cbcs", "cenc"})
			ks := []c10Key{
				{KID: randHex(rng, 16), Key: randHex(rng, 16), IV: randHex(rng, 16), Scheme: scheme, Track: "VIDEO"},
				{KID: randHex(rng, 16), Key: randHex(rng, 16), IV: randHex(rng, 16), Scheme: scheme, Track: "AUDIO"},
			}
			if rng.Bool() {
				ks[0], ks[1] = ks[1], ks[0]
			}
			pk = append(pk, c10Package{Name: name, Keys: ks})
		}
		if last := &pk[len(pk)-1]; last.File == "" && rng.Chance(0.08) {
			for j := range last.Keys {
				last.Keys[j].IV = "" // CPIX document without the optional explicitIV
			}
		}
	}
	return pk
}

// c10Sibling returns a package with the same scheme and key layout as p, but other key ids,
// keys and IVs: what a second customer on the same server would have configured.
func c10Sibling(rng *core.Rng, p c10Package, name string) c10Package {
	sib := c10Package{Name: name}
	switch {
	case strings.HasSuffix(p.File, "cpix_1key_cbcs_test.xml"):
		sib.Keys = []c10Key{{Scheme: "cbcs"}}
	case strings.HasSuffix(p.File, "cpix_2keys_cbcs_test.xml"):
		sib.Keys = []c10Key{{Scheme: "cbcs", Track: "VIDEO"}, {Scheme: "cbcs", Track: "AUDIO"}}
	default:
		for _, k := range p.Keys {
			sib.Keys = append(sib.Keys, c10Key{Scheme: k.Scheme, Track: k.Track})
		}
	}
	for i := range sib.Keys {
		sib.Keys[i].KID, sib.Keys[i].Key, sib.Keys[i].IV = randHex(rng, 16), randHex(rng, 16), randHex(rng, 16)
	}
	return sib
}

func (C10) Gen(rng *core.Rng, tier string, idx int) *core.Scenario {
	assets := refAssets(hx.BundledAssets)
	w := c10World{}
	switch k := rng.Intn(20); {
	case k < 9:
		w.Kind = "clearkey"
	case k < 16:
		w.Kind = "cpix"
	default:
		w.Kind = "preenc"
	}
	ar := core.Pick(rng, c10Assets)
	if w.Kind != "preenc" && rng.Chance(0.04) {
		ar = c10Unencryptable
	}
	if w.Kind == "preenc" {
		ar = assetRef{"testpic_2s", "Manifest.mpd"}
	}
	a := assets[ar.Asset]
	if a == nil {
		panic("harness: unknown asset " + ar.Asset)
	}
	w.Asset, w.MPD = ar.Asset, ar.MPD
	// instant of the MPD request
	w.T0 = int64(1_600_000_000_000) + rng.Int63n(300_000_000_000)
	if rng.Chance(0.1) {
		w.T0 = int64(100_000) + rng.Int63n(4_000_000_000_000)
	}
	cfg := URLCfg{MPDType: core.Pick(rng, []string{"number", "number", "timeline", "timelinenr"})}
	switch rng.Intn(6) {
	case 0: // stream started recently: small media times, early wraps
		cfg.StartS = p64(w.T0/1000 - int64(rng.Range(70, 400)))
	case 1:
		cfg.StartS = p64(w.T0/1000 - int64(rng.Range(1, 1000000)))
	}
	if cfg.StartS != nil && *cfg.StartS < 0 {
		cfg.StartS = nil
	}
	if rng.Chance(0.25) {
		cfg.Snr = pint(core.Pick(rng, []int{1, 7, 100, 4711}))
	}
	if rng.Chance(0.3) {
		cfg.Tsbd = pint(core.Pick(rng, []int{90, 120, 300}))
	}
	maxSegMS := int64(0)
	for _, s := range a.Ref().Segs {
		if d := ceilDiv(int64(s.Dur())*1000, int64(a.Ref().Timescale)); d > maxSegMS {
			maxSegMS = d
		}
	}
	chunked := rng.Chance(0.3) // (pre-encrypted assets too: a DRM parameter must be refused on every delivery path)
	if chunked {
		// low-latency mode: chunk duration = segment duration - ato. Requests are made after the
		// segment has ended, so that all chunks are written at once (pacing is C09's business).
		segS := float64(a.SegDurMS) / 1000
		cfg.Ato = core.Pick(rng, []string{fmt.Sprintf("%.2f", segS*0.75), fmt.Sprintf("%.1f", segS/2), "1", "0.5"})
		cfg.ChunkDur = core.Pick(rng, []string{"0.5", "0.25", "1"})
		if f := cfg.AtoS(); f <= 0 || f*1000 >= float64(a.SegDurMS) {
			cfg.Ato = "0.5"
		}
	}
	w.Cfg = cfg
	switch w.Kind {
	case "clearkey":
		w.DRM = core.Pick(rng, []string{"eccp_cenc", "eccp_cbcs"})
		if rng.Chance(0.2) {
			w.Pkgs = c10GenPackages(rng) // a DRM configuration is loaded but not used
		}
	case "cpix":
		w.Pkgs = c10GenPackages(rng)
		w.DRM = "drm_" + core.Pick(rng, w.Pkgs).Name
	case "preenc":
		w.PreEnc = &c10PreEnc{Src: "testpic_2s", Reps: []string{"V300", "A48"}, Scheme: core.Pick(rng, []string{"cenc", "cbcs"}),
			KID: randHex(rng, 16), Key: randHex(rng, 16), IV: randHex(rng, 16), AddCP: rng.Bool()}
		if rng.Bool() {
			w.PreEnc.IV = randHex(rng, 8) + "0000000000000000"
		}
		w.Asset = c10PreEncAsset
		if rng.Bool() {
			w.Pkgs = c10GenPackages(rng)
			w.DRM = "drm_" + core.Pick(rng, w.Pkgs).Name
		} else {
			w.DRM = core.Pick(rng, []string{"eccp_cenc", "eccp_cbcs"})
		}
	}
	// Package switching inside one session: the same instance is asked for the same asset under
	// several DRM selections, of which at least two are CPIX packages with the same scheme but
	// other keys; ClearKey is interleaved as well.
	var sels []string // the selections in the order of their first use; sels[0] == w.DRM
	if (w.Kind == "cpix" && rng.Chance(0.55)) || (w.Kind == "clearkey" && rng.Chance(0.3)) {
		if len(w.Pkgs) == 0 {
			w.Pkgs = c10GenPackages(rng)
		}
		base := w.Pkgs[rng.Intn(len(w.Pkgs))]
		if w.Kind == "cpix" {
			for _, p := range w.Pkgs {
				if "drm_"+p.Name == w.DRM {
					base = p
				}
			}
		}
		for j := range base.Keys {
			if base.Keys[j].IV == "" {
				base.Keys = nil // never pair with the IV-less variant (it fails on its own)
				break
			}
		}
		sels = []string{w.DRM}
		if base.File != "" || len(base.Keys) > 0 {
			sib := c10Sibling(rng, base, fmt.Sprintf("pkg-%c%d", 'a'+byte(rng.Intn(26)), len(w.Pkgs)))
			w.Pkgs = append(w.Pkgs, sib)
			if w.Kind == "clearkey" {
				sels = append(sels, "drm_"+base.Name)
			}
			sels = append(sels, "drm_"+sib.Name)
		}
		if rng.Chance(0.5) {
			cand := []string{"eccp_cenc", "eccp_cbcs"}
			for _, p := range w.Pkgs {
				cand = append(cand, "drm_"+p.Name)
			}
			c := core.Pick(rng, cand)
			dup := false
			for _, x := range sels {
				dup = dup || x == c
			}
			if !dup {
				sels = append(sels, c)
			}
		}
		if len(sels) < 2 {
			sels = nil
		}
	}
	sc := core.NewScenario("C10", "tlsim", 0, tier, w)

	// the representations of the MPD, as the reference model lists them (document order)
	nReps := 0
	for _, as := range a.ASets[ar.MPD] {
		nReps += len(as.RepIDs)
	}
	if nReps == 0 {
		nReps = 2
	}
	nLoop := len(a.Ref().Segs)
	span := nLoop + rng.Range(0, 2)
	if tier == "thorough" {
		span = 2*nLoop + rng.Range(0, 3)
	}
	// keep the oldest requested segment inside the time-shift buffer
	for span > 1 && int64(span+1)*maxSegMS+maxSegMS+3000 > cfg.TsbdS()*1000-5000 {
		span--
	}
	minDelay := maxSegMS + 1000
	delay := func() int64 { return minDelay + int64(rng.Range(0, 2000)) }
	pDup := core.Pick(rng, []float64{0, 0.1, 0.3})
	var ops []c10Op
	add := func(op c10Op) {
		if rng.Chance(pDup) && op.Op != "restart" {
			op.Dup = true
		}
		ops = append(ops, op)
	}
	if w.Kind == "preenc" {
		add(c10Op{Op: "mpd", DRM: true})
		add(c10Op{Op: "mpd"})
		var mid []c10Op
		for r := 0; r < nReps; r++ {
			mid = append(mid, c10Op{Op: "init", Rep: r}, c10Op{Op: "init", Rep: r, DRM: true})
		}
		rng.Shuffle(len(mid), func(i, j int) { mid[i], mid[j] = mid[j], mid[i] })
		for _, op := range mid {
			add(op)
		}
		for b := span; b >= 1; b-- {
			for r := 0; r < nReps; r++ {
				add(c10Op{Op: "seg", Rep: r, Back: b, Delay: delay(), DRM: rng.Chance(0.35)})
			}
		}
		add(c10Op{Op: "mpd", DRM: true, Delay: delay()})
	} else if len(sels) >= 2 {
		// phases: A (full) - B (full) - A again - [C (full)] - [B again], optionally with a restart
		// at a phase boundary. "again" = the player returns to a selection it has the MPD of.
		phase := func(sel string, full bool, nBack int) {
			if sel != w.DRM || len(ops) > 0 {
				ops = append(ops, c10Op{Op: "use", Use: sel})
			}
			var mid []c10Op
			if full {
				add(c10Op{Op: "mpd"})
				if drmKind(sel) == "clearkey" {
					mid = append(mid, c10Op{Op: "licence"})
				}
				for r := 0; r < nReps; r++ {
					mid = append(mid, c10Op{Op: "init", Rep: r})
				}
			} else {
				for r := 0; r < nReps; r++ {
					if rng.Chance(0.7) {
						mid = append(mid, c10Op{Op: "init", Rep: r})
					}
				}
			}
			rng.Shuffle(len(mid), func(i, j int) { mid[i], mid[j] = mid[j], mid[i] })
			for _, op := range mid {
				add(op)
			}
			for b := nBack - 1; b >= 0; b-- {
				for r := 0; r < nReps; r++ {
					add(c10Op{Op: "seg", Rep: r, Back: b, Delay: delay()})
				}
			}
		}
		boundary := func() {
			if rng.Chance(0.3) {
				ops = append(ops, c10Op{Op: "restart"})
			}
		}
		short := 2
		if span < short {
			short = span
		}
		phase(sels[0], true, span)
		boundary()
		phase(sels[1], true, short+rng.Intn(2))
		boundary()
		phase(sels[0], false, short)
		if len(sels) > 2 {
			boundary()
			phase(sels[2], true, short)
		}
		if rng.Bool() {
			boundary()
			phase(sels[1], false, short)
		}
	} else {
		add(c10Op{Op: "mpd"})
		mid := []c10Op{}
		if w.Kind == "clearkey" {
			mid = append(mid, c10Op{Op: "licence"})
		}
		for r := 0; r < nReps; r++ {
			mid = append(mid, c10Op{Op: "init", Rep: r})
		}
		rng.Shuffle(len(mid), func(i, j int) { mid[i], mid[j] = mid[j], mid[i] })
		for _, op := range mid {
			add(op)
		}
		// the restart between licence/init and the segments is the heart of the fault model
		if rng.Chance(0.4) {
			ops = append(ops, c10Op{Op: "restart"})
		}
		var late []c10Op
		for b := span - 1; b >= 0; b-- {
			for r := 0; r < nReps; r++ {
				late = append(late, c10Op{Op: "seg", Rep: r, Back: b, Delay: delay()})
			}
		}
		// a second licence / init / MPD request somewhere during playback (key rotation free
		// system: the answers must stay the same, also on another instance)
		extra := rng.Range(0, 3)
		for i := 0; i < extra; i++ {
			var e c10Op
			switch rng.Intn(3) {
			case 0:
				e = c10Op{Op: "init", Rep: rng.Intn(nReps)}
			case 1:
				e = c10Op{Op: "licence"}
			default:
				e = c10Op{Op: "mpd"}
			}
			if e.Op == "licence" && w.Kind != "clearkey" {
				e = c10Op{Op: "init", Rep: rng.Intn(nReps)}
			}
			at := rng.Intn(len(late) + 1)
			late = append(late[:at], append([]c10Op{e}, late[at:]...)...)
		}
		for _, op := range late {
			add(op)
		}
	}
	// further restarts at random points of the session (between licence, init and segments)
	nRestart := core.Pick(rng, []int{0, 0, 1, 1, 2, 3})
	if tier == "thorough" {
		nRestart += rng.Range(0, 3)
	}
	for i := 0; i < nRestart; i++ {
		at := rng.Range(1, len(ops))
		ops = append(ops[:at], append([]c10Op{{Op: "restart"}}, ops[at:]...)...)
	}
	for _, op := range ops {
		sc.AddOp(op)
	}
	return sc
}

// ---------------------------------------------------------------------------------------
// Observation helpers.

// c10CP is what the MPD announces for one representation.
type c10CP struct {
	Has     bool
	KID     string // hex, lower case, no dashes
	Scheme  string // value of the mp4protection descriptor
	LaURLs  []string
	Systems []c10Sys
}

type c10Sys struct {
	URN   string
	PSSH  string
	LaURL string
}

func localAttr(e *etree.Element, key string) (string, bool) {
	for _, a := range e.Attr {
		if a.Key == key {
			return a.Value, true
		}
	}
	return "", false
}

// c10ParseCP reads the ContentProtection descriptors per representation id with etree
// (livesim2 writes them with dash-mpd, so this is a second reader).
func c10ParseCP(body []byte) (map[string]*c10CP, error) {
	d := etree.NewDocument()
	if err := d.ReadFromBytes(body); err != nil {
		return nil, err
	}
	out := map[string]*c10CP{}
	read := func(cp *c10CP, holder *etree.Element) error {
		for _, e := range holder.SelectElements("ContentProtection") {
			cp.Has = true
			scheme := strings.ToLower(e.SelectAttrValue("schemeIdUri", ""))
			if kid, ok := localAttr(e, "default_KID"); ok {
				k := strings.ToLower(strings.ReplaceAll(kid, "-", ""))
				if cp.KID != "" && cp.KID != k {
					return fmt.Errorf("two different default_KID values in one adaptation set: %s, %s", cp.KID, k)
				}
				cp.KID = k
			}
			if scheme == "urn:mpeg:dash:mp4protection:2011" {
				cp.Scheme = e.SelectAttrValue("value", "")
				continue
			}
			sys := c10Sys{URN: scheme}
			for _, c := range e.ChildElements() {
				switch strings.ToLower(c.Tag) {
				case "laurl":
					sys.LaURL = strings.TrimSpace(c.Text())
				case "pssh":
					sys.PSSH = strings.TrimSpace(c.Text())
				}
			}
			if sys.LaURL != "" {
				cp.LaURLs = append(cp.LaURLs, sys.LaURL)
			}
			cp.Systems = append(cp.Systems, sys)
		}
		return nil
	}
	for _, as := range d.FindElements("/MPD/Period/AdaptationSet") {
		for _, rep := range as.SelectElements("Representation") {
			id := rep.SelectAttrValue("id", "")
			cp := &c10CP{}
			if err := read(cp, as); err != nil {
				return nil, err
			}
			if err := read(cp, rep); err != nil {
				return nil, err
			}
			if prev, ok := out[id]; ok && (prev.KID != cp.KID || prev.Scheme != cp.Scheme) {
				return nil, fmt.Errorf("representation %s announced with different protection in two periods", id)
			}
			out[id] = cp
		}
	}
	return out, nil
}

func c10TencOf(in *hx.Init) *c10Tenc {
	t := &c10Tenc{SampleType: in.SampleType}
	stsd := in.Mp4.Moov.Trak.Mdia.Minf.Stbl.Stsd
	var sinf *mp4.SinfBox
	for _, c := range stsd.Children {
		switch b := c.(type) {
		case *mp4.VisualSampleEntryBox:
			sinf = b.Sinf
		case *mp4.AudioSampleEntryBox:
			sinf = b.Sinf
		}
		break
	}
	if sinf == nil {
		return t
	}
	t.HasSinf = true
	if sinf.Frma != nil {
		t.Frma = sinf.Frma.DataFormat
	}
	if sinf.Schm != nil {
		t.Scheme = sinf.Schm.SchemeType
	}
	if sinf.Schi != nil && sinf.Schi.Tenc != nil {
		te := sinf.Schi.Tenc
		t.KID = append([]byte(nil), te.DefaultKID...)
		t.IVSize = int(te.DefaultPerSampleIVSize)
		t.ConstIV = append([]byte(nil), te.DefaultConstantIV...)
		t.Crypt = int(te.DefaultCryptByteBlock)
		t.Skip = int(te.DefaultSkipByteBlock)
		t.Protected = te.DefaultIsProtected == 1
	}
	return t
}

func b64urlDecode(s string) ([]byte, error) {
	s = strings.TrimRight(s, "=")
	s = strings.NewReplacer("+", "-", "/", "_").Replace(s)
	return base64.RawURLEncoding.DecodeString(s)
}

type c10InitObs struct {
	Raw      []byte
	In       *hx.Init
	Tenc     *c10Tenc
	ClearIn  *hx.Init
	Instance int
}

type c10Rep struct {
	CA          ClientAS
	Content     string // video | audio | text | image
	Encryptable bool   // the clear sample entry is one livesim2 prepares for encryption (AVC / AAC)
}

// c10Ctx is the player's state under one DRM selection (the DRM part of the URL). A session
// may switch between selections on the same server instance ("use" op); everything observed
// (MPD, licence keys, inits) is kept and compared per selection.
type c10Ctx struct {
	drm   string // URL part: eccp_cenc | eccp_cbcs | drm_<package>
	kind  string // clearkey | cpix
	drmPx string // URL prefix with the DRM parameter
	feat  map[string]string

	mpdT     int64
	cm       *ClientMPD
	reps     []c10Rep
	cps      map[string]*c10CP
	mpdInst  int
	keys     map[string][]byte // kid hex -> key
	keyInst  map[string]int
	inits    map[string]*c10InitObs
	wrapSeen map[string]map[int64]bool
}

type c10Session struct {
	res    *core.Result
	w      c10World
	a      *refmodel.Asset
	srv    *hx.Srv // the DRM session's current instance
	twin   *hx.Srv
	opts   hx.SrvOpts
	inst   int // instance counter (restarts)
	dir    string
	docs   map[string]*c10CPIXDoc // by package name
	clrPx  string
	lo, hi int64

	*c10Ctx                     // the active selection
	ctxs     map[string]*c10Ctx // by DRM URL part
	switches int                // how often the active selection changed
}

func drmKind(drm string) string {
	if strings.HasPrefix(drm, "drm_") {
		return "cpix"
	}
	return "clearkey"
}

// ctx returns (creating it on first use) the state for a DRM selection.
func (s *c10Session) ctx(drm string) *c10Ctx {
	if c, ok := s.ctxs[drm]; ok {
		return c
	}
	if drm != "eccp_cenc" && drm != "eccp_cbcs" {
		if !strings.HasPrefix(drm, "drm_") || s.docs[strings.TrimPrefix(drm, "drm_")] == nil {
			panic("harness: unknown DRM selection " + drm)
		}
	}
	c := &c10Ctx{drm: drm, kind: drmKind(drm), keys: map[string][]byte{}, keyInst: map[string]int{}, inits: map[string]*c10InitObs{},
		wrapSeen: map[string]map[int64]bool{}}
	cfg := s.w.Cfg
	cfg.Extra = append(append([]string(nil), s.w.Cfg.Extra...), drm)
	c.drmPx = cfg.Prefix(s.w.Asset)
	delivery := "whole"
	if s.w.Cfg.ChunkDur != "" {
		delivery = "chunked"
	}
	mt := s.w.Cfg.MPDType
	if mt == "" {
		mt = "number"
	}
	c.feat = core.Sig("drm", drmLabel(drm, s.docs), "mpdtype", mt, "delivery", delivery)
	if s.w.Kind == "preenc" {
		c.feat["asset"] = "pre-encrypted-" + s.w.PreEnc.Scheme
	} else if d := s.docs[strings.TrimPrefix(drm, "drm_")]; d != nil && c.kind == "cpix" && d.Keys[d.Order[0]].IV == "" {
		c.feat["cpix-iv"] = "absent"
	}
	s.ctxs[drm] = c
	return c
}

// opUse switches the DRM selection of the following requests (same server instance).
func (s *c10Session) opUse(op c10Op) {
	if op.Use == "" || op.Use == s.drm {
		s.res.Count("skip.use-same")
		return
	}
	if s.w.Kind == "preenc" {
		// the pre-encrypted asset's own state does not depend on the parameter that is refused
		cur := s.c10Ctx
		nc := s.ctx(op.Use)
		drm, kind, px, feat := nc.drm, nc.kind, nc.drmPx, nc.feat
		*nc = *cur
		nc.drm, nc.kind, nc.drmPx, nc.feat = drm, kind, px, feat
		s.c10Ctx = nc
	} else {
		prev := s.c10Ctx
		_, known := s.ctxs[op.Use]
		s.c10Ctx = s.ctx(op.Use)
		if known {
			s.res.Count("probe.return-to-earlier-selection")
		}
		if prev.kind != s.kind {
			s.res.Count("probe.clearkey-cpix-interleaved")
		}
	}
	s.switches++
	s.res.Count("fault.package-switch")
	s.res.Event("use %s (instance %d)", op.Use, s.inst)
}

// sw adds the "pkg-switch" feature when the session has changed its DRM selection before this
// point. The feature is absent otherwise, so that signatures (and committed replay files) of
// sessions that never switch stay what they were.
func (s *c10Session) sw(sig map[string]string) map[string]string {
	if s.switches > 0 {
		sig["pkg-switch"] = "true"
	}
	return sig
}

func (s *c10Session) touch(t int64) {
	if s.lo == 0 || t < s.lo {
		s.lo = t
	}
	if t > s.hi {
		s.hi = t
	}
}

func (s *c10Session) newSrv() *hx.Srv {
	srv, err := hx.NewSrv(s.opts)
	if err != nil {
		panic(fmt.Sprintf("harness: cannot set up server: %v", err))
	}
	return srv
}

func drmLabel(drm string, docs map[string]*c10CPIXDoc) string {
	switch {
	case drm == "eccp_cenc":
		return "cenc"
	case drm == "eccp_cbcs":
		return "cbcs"
	case strings.HasPrefix(drm, "drm_"):
		if d := docs[strings.TrimPrefix(drm, "drm_")]; d != nil {
			return "cpix-" + d.Keys[d.Order[0]].Scheme
		}
		return "cpix"
	}
	return drm
}

func (C10) Run(t *testing.T, sc *core.Scenario, res *core.Result) {
	w, err := core.DecodeWorld[c10World](sc)
	if err != nil {
		panic(err)
	}
	ops, err := core.DecodeOps[c10Op](sc)
	if err != nil {
		panic(err)
	}
	s := &c10Session{res: res, w: w, docs: map[string]*c10CPIXDoc{}, ctxs: map[string]*c10Ctx{}}
	needDir := len(w.Pkgs) > 0 || w.Kind == "preenc"
	if needDir {
		s.dir = hx.TempDir("c10")
		defer os.RemoveAll(s.dir)
	}
	if len(w.Pkgs) > 0 {
		s.opts.DrmCfgFile = c10WriteDrmConfig(s.dir, w.Pkgs)
		for i, p := range w.Pkgs {
			s.docs[p.Name] = c10ReadCPIX(c10PackagePath(s.dir, i, p))
		}
	}
	bundled := refAssets(hx.BundledAssets)
	if w.Kind == "preenc" {
		if w.PreEnc == nil {
			panic("harness: preenc world without parameters")
		}
		root := s.dir + "/vod"
		c10BuildPreEnc(root, *w.PreEnc, hx.BundledAssets)
		s.opts.VodRoot = root
		s.a = bundled[w.PreEnc.Src]
	} else {
		s.a = bundled[w.Asset]
	}
	if s.a == nil {
		panic("harness: unknown asset " + w.Asset)
	}
	s.twin = bundledSrv()
	if s.opts.DrmCfgFile == "" && s.opts.VodRoot == "" {
		s.srv = s.twin // a plain instance over the bundled assets; restarts replace it by fresh ones
	} else {
		s.srv = s.newSrv()
	}
	s.clrPx = w.Cfg.Prefix(w.Asset)
	s.c10Ctx = s.ctx(w.DRM)
	for _, op := range ops {
		res.Count("op." + op.Op)
		switch op.Op {
		case "restart":
			s.srv = s.newSrv()
			s.inst++
			res.Count("fault.restart")
			res.Event("restart -> instance %d", s.inst)
		case "use":
			s.opUse(op)
		case "mpd":
			if w.Kind == "preenc" {
				s.preMPD(op)
			} else {
				s.opMPD(op)
			}
		case "licence":
			s.opLicence(op)
		case "init":
			if w.Kind == "preenc" {
				s.preInit(op)
			} else {
				s.opInit(op)
			}
		case "seg":
			if w.Kind == "preenc" {
				s.preSeg(op)
			} else {
				s.opSeg(op)
			}
		default:
			panic("harness: unknown op " + op.Op)
		}
	}
	res.SimMS += s.hi - s.lo
	res.Nontrivial = res.Stats["probe.segment-decrypted"] > 0 || res.Stats["probe.preenc-refused"] > 0
}

func (s *c10Session) violate(inv string, extra map[string]string, format string, args ...any) {
	s.res.Violate("C10."+inv, s.sw(merge(s.feat, extra)), format, args...)
}

// served reports invariant (5) for a well-formed session request: no panic, no 5xx. The
// signature carries only what separates causes (request kind, content class, DRM family).
func (s *c10Session) served(r *hx.Resp, what string, rp *c10Rep, target string) bool {
	fam := "clearkey"
	if s.kind == "cpix" {
		fam = "cpix"
	}
	sig := core.Sig("request", what, "drm-family", fam)
	if v, ok := s.feat["cpix-iv"]; ok {
		sig["cpix-iv"] = v
	}
	if rp != nil {
		sig = merge(sig, s.contentSig(rp))
	}
	if r.Panic != "" {
		s.res.Violate("C10.no-panic", s.sw(merge(sig, core.Sig("kind", "panic", "frame", r.PanicFrame))),
			"%s: handler panicked: %s (status %d)", target, r.Panic, r.Status)
		return false
	}
	if r.Status >= 500 {
		s.res.Violate("C10.no-5xx", s.sw(merge(sig, core.Sig("kind", "5xx", "status", fmt.Sprint(r.Status)))),
			"%s: status %d %q", target, r.Status, trunc(string(r.Body), 120))
		return false
	}
	return true
}

// contentSig: content type, whether the MPD announces protection for it, and whether its codec
// is one of those the MPD's codecs attribute names as AVC / AAC.
func (s *c10Session) contentSig(rp *c10Rep) map[string]string {
	c := core.Sig("content", rp.Content)
	if rp.Content == "video" || rp.Content == "audio" {
		if !rp.Encryptable {
			c["codec"] = "other"
		}
	}
	if cp := s.cps[rp.CA.RepID]; cp == nil || !cp.Has {
		c["protection"] = "none-announced"
	}
	return c
}

func twinFailed(rc *hx.Resp) bool { return rc.Panic != "" || rc.Status >= 500 }

func (s *c10Session) sessionReps(cm *ClientMPD) []c10Rep {
	var out []c10Rep
	seen := map[string]bool{}
	for _, p := range cm.Periods {
		for _, ca := range p.Sets {
			if seen[ca.RepID] {
				continue
			}
			seen[ca.RepID] = true
			out = append(out, c10Rep{CA: ca, Content: ca.ContentType,
				Encryptable: strings.HasPrefix(ca.Codecs, "avc") || strings.HasPrefix(ca.Codecs, "mp4a")})
		}
	}
	return out
}

func (s *c10Session) opMPD(op c10Op) {
	t := s.w.T0 + op.Delay
	s.touch(t)
	target := s.drmPx + "/" + s.w.MPD
	r := s.srv.GetAt(target, t)
	s.res.Event("mpd %s t=%d -> %d len=%d inst=%d", target, t, r.Status, len(r.Body), s.inst)
	if !s.served(r, "mpd", nil, target) {
		return
	}
	if r.Status != 200 {
		s.violate("mpd-served", core.Sig("kind", "mpd-not-200", "status", fmt.Sprint(r.Status)), "%s at %d: %d %q", target, t, r.Status, trunc(string(r.Body), 120))
		return
	}
	if op.Dup {
		r2 := s.srv.GetAt(target, t)
		s.res.Count("fault.duplicate")
		if r2.Status != r.Status || !bytes.Equal(r2.Body, r.Body) {
			s.violate("duplicate-same-answer", core.Sig("kind", "mpd-differs"), "%s at %d answered differently the second time (%d/%d bytes)", target, t, len(r.Body), len(r2.Body))
		}
	}
	cm, err := ParseClientMPD(r.Body)
	if err != nil {
		s.violate("mpd-served", core.Sig("kind", "mpd-unparsable"), "%s: %v", target, err)
		return
	}
	cps, err := c10ParseCP(r.Body)
	if err != nil {
		s.violate("mpd-protection", core.Sig("kind", "inconsistent-descriptors"), "%s: %v", target, err)
		return
	}
	reps := s.sessionReps(cm)
	if len(reps) == 0 {
		s.violate("mpd-served", core.Sig("kind", "no-representations"), "%s lists no representation", target)
		return
	}
	// the twin's MPD tells which content is there at all (and is the reference for what is listed)
	first := s.cm == nil
	if !first {
		// a later MPD must announce the same protection (possibly from another instance)
		for _, id := range sortedKeys(cps) {
			if old, ok := s.cps[id]; ok && (old.KID != cps[id].KID || old.Scheme != cps[id].Scheme || old.Has != cps[id].Has) {
				s.violate("stable-across-requests", core.Sig("kind", "mpd-kid-changed", "restarted", fmt.Sprint(s.mpdInst != s.inst)),
					"rep %s: default_KID %s/%s, earlier %s/%s", id, cps[id].KID, cps[id].Scheme, old.KID, old.Scheme)
			}
		}
		return
	}
	s.cm, s.cps, s.reps, s.mpdT, s.mpdInst = cm, cps, reps, t, s.inst
	for i := range s.reps {
		rp := &s.reps[i]
		cp := cps[rp.CA.RepID]
		c := core.Sig("content", rp.Content)
		switch rp.Content {
		case "video", "audio":
			if (cp == nil || !cp.Has) && !rp.Encryptable {
				// a codec the server does not encrypt and does not announce as protected: plain content
				s.res.Count("probe.unencryptable-not-announced")
				continue
			}
			if cp == nil || !cp.Has || cp.KID == "" {
				s.violate("mpd-protection", merge(c, core.Sig("kind", "no-default-kid")), "rep %s (%s): no ContentProtection with default_KID in a %s MPD", rp.CA.RepID, rp.Content, s.drm)
				continue
			}
			if len(cp.KID) != 32 {
				s.violate("mpd-protection", merge(c, core.Sig("kind", "malformed-default-kid")), "rep %s: default_KID %q", rp.CA.RepID, cp.KID)
				continue
			}
			want := strings.TrimPrefix(s.drm, "eccp_")
			if s.kind == "clearkey" && cp.Scheme != want {
				s.violate("mpd-protection", merge(c, core.Sig("kind", "scheme-not-requested")), "rep %s: mp4protection value %q for %s", rp.CA.RepID, cp.Scheme, s.drm)
			}
			if s.kind == "clearkey" && len(cp.LaURLs) == 0 {
				s.violate("mpd-protection", merge(c, core.Sig("kind", "no-licence-url")), "rep %s: no licence URL in the ClearKey MPD", rp.CA.RepID)
			}
			if s.kind == "cpix" {
				s.checkCPIXAnnounce(rp, cp)
			}
		}
	}
	s.res.Count("probe.mpd-parsed")
}

// checkCPIXAnnounce relates the MPD's descriptors to the configured CPIX document.
func (s *c10Session) checkCPIXAnnounce(rp *c10Rep, cp *c10CP) {
	doc := s.docs[strings.TrimPrefix(s.drm, "drm_")]
	if doc == nil {
		panic("harness: no CPIX document for " + s.drm)
	}
	c := core.Sig("content", rp.Content)
	k, ok := doc.Keys[cp.KID]
	if !ok {
		s.violate("mpd-protection", merge(c, core.Sig("kind", "kid-not-in-package")), "rep %s: default_KID %s is not a key of the configured CPIX document", rp.CA.RepID, cp.KID)
		return
	}
	if want := doc.KIDFor(rp.Content); want != "" && want != cp.KID {
		s.violate("mpd-protection", merge(c, core.Sig("kind", "kid-of-other-track-type")), "rep %s (%s): default_KID %s, the package's usage rules give %s", rp.CA.RepID, rp.Content, cp.KID, want)
	}
	if cp.Scheme != k.Scheme {
		s.violate("mpd-protection", merge(c, core.Sig("kind", "scheme-not-of-package")), "rep %s: mp4protection value %q, CPIX says %q", rp.CA.RepID, cp.Scheme, k.Scheme)
	}
	for _, sys := range cp.Systems {
		if sys.PSSH == "" {
			continue
		}
		id := strings.TrimPrefix(sys.URN, "urn:uuid:")
		if want, ok := doc.PSSH[cp.KID+"/"+id]; !ok || want != sys.PSSH {
			s.violate("mpd-protection", merge(c, core.Sig("kind", "pssh-of-other-key")), "rep %s: pssh of system %s is not the CPIX document's for kid %s", rp.CA.RepID, id, cp.KID)
		}
		s.res.Count("probe.cpix-pssh-checked")
	}
	// the key a licence server would hand out for this kid
	s.keys[cp.KID] = mustHex(k.Key)
	s.keyInst[cp.KID] = s.inst
}

func (s *c10Session) opLicence(op c10Op) {
	if s.cm == nil || s.kind != "clearkey" {
		s.res.Count("skip.licence")
		return
	}
	// one request per distinct licence URL with all key ids announced next to it
	byURL := map[string]map[string]bool{}
	for _, rp := range s.reps {
		cp := s.cps[rp.CA.RepID]
		if cp == nil || len(cp.KID) != 32 {
			continue
		}
		for _, u := range cp.LaURLs {
			if byURL[u] == nil {
				byURL[u] = map[string]bool{}
			}
			byURL[u][cp.KID] = true
		}
	}
	for _, u := range sortedKeys(byURL) {
		pu, err := url.Parse(u)
		if err != nil || pu.Path == "" {
			s.violate("licence", core.Sig("kind", "licence-url-unusable"), "licence URL %q", u)
			continue
		}
		if pu.Host != "sim.test" {
			s.violate("licence", core.Sig("kind", "licence-url-foreign-host"), "licence URL %q does not point to the server the MPD came from (sim.test)", u)
			continue
		}
		kids := sortedKeys(byURL[u])
		var b64 []string
		for _, k := range kids {
			b64 = append(b64, base64.RawURLEncoding.EncodeToString(mustHex(k)))
		}
		body, _ := json.Marshal(map[string]any{"kids": b64, "type": "temporary"})
		target := pu.RequestURI()
		r := s.srv.Do("POST", target, body, map[string]string{"Content-Type": "application/json"})
		s.res.Event("licence %s kids=%v -> %d %s inst=%d", target, kids, r.Status, hx.ShortHash(r.Body), s.inst)
		if !s.served(r, "licence", nil, target) {
			continue
		}
		if r.Status != 200 {
			s.violate("licence", core.Sig("kind", "licence-not-200", "status", fmt.Sprint(r.Status)), "POST %s for the advertised kids %v: %d %q", target, kids, r.Status, trunc(string(r.Body), 120))
			continue
		}
		if op.Dup {
			r2 := s.srv.Do("POST", target, body, map[string]string{"Content-Type": "application/json"})
			s.res.Count("fault.duplicate")
			if r2.Status != r.Status || !bytes.Equal(r2.Body, r.Body) {
				s.violate("duplicate-same-answer", core.Sig("kind", "licence-differs"), "POST %s answered differently the second time", target)
			}
		}
		var ans struct {
			Keys []struct {
				Kty string `json:"kty"`
				K   string `json:"k"`
				Kid string `json:"kid"`
			} `json:"keys"`
			Type string `json:"type"`
		}
		if err := json.Unmarshal(r.Body, &ans); err != nil {
			s.violate("licence", core.Sig("kind", "licence-unparsable"), "POST %s: %v in %q", target, err, trunc(string(r.Body), 120))
			continue
		}
		got := map[string][]byte{}
		for _, k := range ans.Keys {
			kid, err1 := b64urlDecode(k.Kid)
			key, err2 := b64urlDecode(k.K)
			if err1 != nil || err2 != nil || len(kid) != 16 || len(key) != 16 {
				s.violate("licence", core.Sig("kind", "licence-key-malformed"), "POST %s: key entry %+v", target, k)
				continue
			}
			got[hex.EncodeToString(kid)] = key
		}
		for _, kid := range kids {
			key, ok := got[kid]
			if !ok {
				s.violate("licence", core.Sig("kind", "licence-without-advertised-kid"), "POST %s: answer %q has no key for the advertised kid %s", target, trunc(string(r.Body), 160), kid)
				continue
			}
			if old, ok := s.keys[kid]; ok && !bytes.Equal(old, key) {
				s.violate("stable-across-requests", core.Sig("kind", "licence-key-changed", "restarted", fmt.Sprint(s.keyInst[kid] != s.inst)),
					"kid %s: key %x, earlier %x", kid, key, old)
			}
			s.keys[kid] = key
			s.keyInst[kid] = s.inst
			s.res.Count("probe.licence-key")
		}
	}
}

func (s *c10Session) rep(op c10Op) *c10Rep {
	if s.cm == nil || len(s.reps) == 0 {
		return nil
	}
	i := op.Rep % len(s.reps)
	if i < 0 {
		i = 0
	}
	return &s.reps[i]
}

func (s *c10Session) opInit(op c10Op) {
	rp := s.rep(op)
	if rp == nil || rp.Content == "image" {
		s.res.Count("skip.init")
		return
	}
	t := s.mpdT + op.Delay
	s.touch(t)
	name := fillTemplate(rp.CA.Init, rp.CA.RepID, 0, 0)
	target := s.drmPx + "/" + name
	r := s.srv.GetAt(target, t)
	s.res.Event("init %s -> %d %s inst=%d", target, r.Status, hx.ShortHash(r.Body), s.inst)
	c := s.contentSig(rp)
	rc := s.twin.GetAt(s.clrPx+"/"+name, t)
	if twinFailed(rc) {
		s.res.Count("probe.clear-twin-failed")
		return
	}
	if !s.served(r, "init", rp, target) {
		return
	}
	if r.Status != 200 || rc.Status != 200 {
		if r.Status != rc.Status {
			s.violate("init", merge(c, core.Sig("kind", "init-status-differs", "status", fmt.Sprint(r.Status), "clear", fmt.Sprint(rc.Status))),
				"%s: %d, clear twin %d", target, r.Status, rc.Status)
		}
		return
	}
	if op.Dup {
		r2 := s.srv.GetAt(target, t)
		s.res.Count("fault.duplicate")
		if r2.Status != r.Status || !bytes.Equal(r2.Body, r.Body) {
			s.violate("duplicate-same-answer", merge(c, core.Sig("kind", "init-differs")), "%s answered differently the second time", target)
		}
	}
	in, err := hx.ParseInit(r.Body)
	if err != nil {
		s.violate("init", merge(c, core.Sig("kind", "init-unparsable")), "%s: %v", target, err)
		return
	}
	cin, err := hx.ParseInit(rc.Body)
	if err != nil {
		panic("harness: clear init unparsable: " + err.Error())
	}
	obs := &c10InitObs{Raw: r.Body, In: in, Tenc: c10TencOf(in), ClearIn: cin, Instance: s.inst}
	if old, ok := s.inits[rp.CA.RepID]; ok {
		if !bytes.Equal(old.Raw, r.Body) {
			s.violate("stable-across-requests", merge(c, core.Sig("kind", "init-changed", "restarted", fmt.Sprint(old.Instance != s.inst))),
				"%s: init differs from the one fetched earlier (kid %x / %x, iv %x / %x)", target, obs.Tenc.KID, old.Tenc.KID, obs.Tenc.ConstIV, old.Tenc.ConstIV)
		}
		if old.Instance != s.inst {
			s.res.Count("probe.init-refetched-after-restart")
		}
	}
	s.inits[rp.CA.RepID] = obs
	// rare condition: this instance has already served this representation's init under another
	// selection with the same scheme (state carried from one package to the other would show here)
	for _, name := range sortedKeys(s.ctxs) {
		o := s.ctxs[name]
		if o == s.c10Ctx || o.feat["drm"] != s.feat["drm"] {
			continue
		}
		if oi := o.inits[rp.CA.RepID]; oi != nil && oi.Instance == s.inst {
			s.res.Count("probe.init-after-same-scheme-package-on-same-instance")
			break
		}
	}
	cp := s.cps[rp.CA.RepID]
	te := obs.Tenc
	if cp == nil || !cp.Has {
		// nothing announced: the init must be the clear one
		if !bytes.Equal(r.Body, rc.Body) {
			s.violate("unprotected-as-clear", merge(c, core.Sig("kind", "init-differs")), "%s: no protection announced, but the init differs from the clear twin's", target)
		}
		s.res.Count("probe.unprotected-init")
		return
	}
	// (1) MPD default_KID == init tenc KID
	if !te.HasSinf || len(te.KID) == 0 {
		s.res.Violate("C10.kid-mpd-equals-init", s.sw(merge(c, core.Sig("kind", "init-not-protected"))), "%s: MPD announces default_KID %s, the init has sample entry %q without protection box", target, cp.KID, te.SampleType)
		return
	}
	if hex.EncodeToString(te.KID) != cp.KID {
		s.violate("kid-mpd-equals-init", merge(c, core.Sig("kind", "kid-differs", "restarted", fmt.Sprint(s.mpdInst != s.inst))),
			"%s: tenc KID %x, MPD default_KID %s", target, te.KID, cp.KID)
	}
	if te.Scheme != cp.Scheme {
		s.violate("kid-mpd-equals-init", merge(c, core.Sig("kind", "scheme-differs")), "%s: schm %q, MPD value %q", target, te.Scheme, cp.Scheme)
	}
	s.res.Count("probe.kid-compared")
	if !te.Protected {
		s.violate("init", merge(c, core.Sig("kind", "tenc-not-protected")), "%s: tenc default_isProtected is 0", target)
	}
	switch te.Scheme {
	case "cenc":
		if te.IVSize != 8 && te.IVSize != 16 {
			s.violate("init", merge(c, core.Sig("kind", "tenc-iv-size")), "%s: cenc with per-sample IV size %d", target, te.IVSize)
		}
	case "cbcs":
		if te.IVSize == 0 && len(te.ConstIV) != 8 && len(te.ConstIV) != 16 {
			sig := merge(c, core.Sig("kind", "tenc-iv-size", "scheme", "cbcs"))
			if v, ok := s.feat["cpix-iv"]; ok {
				sig["cpix-iv"] = v
			}
			s.res.Violate("C10.init", s.sw(sig), "%s: cbcs without per-sample IV and constant IV of %d bytes", target, len(te.ConstIV))
		}
		s.res.Count(fmt.Sprintf("probe.cbcs-pattern-%d-%d", te.Crypt, te.Skip))
	}
	// the init with the protection removed describes the clear twin's track
	if te.Frma != cin.SampleType || in.Timescale != cin.Timescale || in.TrackID != cin.TrackID {
		s.violate("init", merge(c, core.Sig("kind", "track-differs-from-clear")), "%s: frma %q timescale %d track %d, clear twin %q %d %d",
			target, te.Frma, in.Timescale, in.TrackID, cin.SampleType, cin.Timescale, cin.TrackID)
	}
}

// segURL resolves the op's segment on the MPD of the session. ok=false: nothing to request.
func (s *c10Session) segURL(rp *c10Rep, back int) (string, bool) {
	ca := rp.CA
	if back < 0 {
		back = 0
	}
	if ca.Timeline {
		// the (last) period's list; periods are not used by this property
		i := len(ca.Segs) - 1 - back
		if i < 0 {
			return "", false
		}
		return ca.Segs[i].URL, true
	}
	if ca.Duration == 0 || ca.Timescale == 0 {
		return "", false
	}
	relNow := s.mpdT - s.cm.ASTms
	atoMS := int64(0)
	if !math.IsInf(ca.Ato, 1) {
		atoMS = int64(math.Round(ca.Ato * 1000))
	}
	kEdge := (relNow+atoMS)*int64(ca.Timescale)/(int64(ca.Duration)*1000) - 1
	k := kEdge - int64(back)
	if k < 0 {
		return "", false
	}
	return fillTemplate(ca.Media, ca.RepID, ca.StartNumber+k, uint64(k)*ca.Duration+ca.PTO), true
}

func segStructure(sg *hx.Seg) string {
	var b strings.Builder
	fmt.Fprintf(&b, "styp=%v", sg.HasStyp)
	for _, f := range sg.Frags {
		fmt.Fprintf(&b, " [seq=%d tfdt=%d n=%d emsg=%d]", f.Seq, f.Tfdt, len(f.Samples), f.NrEmsg)
	}
	return b.String()
}

func cloneBytes(b []byte) []byte { return append([]byte(nil), b...) }

// c10DecryptMp4ff decrypts a served segment with mp4ff, given the served init.
func c10DecryptMp4ff(initRaw, segRaw []byte, key []byte) (*hx.Seg, []byte, error) {
	f, err := mp4.DecodeFileSR(bits.NewFixedSliceReader(cloneBytes(initRaw)))
	if err != nil || f.Init == nil {
		return nil, nil, fmt.Errorf("init: %v", err)
	}
	di, err := mp4.DecryptInit(f.Init)
	if err != nil {
		return nil, nil, fmt.Errorf("DecryptInit: %w", err)
	}
	var trex *mp4.TrexBox
	if f.Init.Moov.Mvex != nil {
		trex = f.Init.Moov.Mvex.Trex
	}
	sg, err := hx.ParseSeg(cloneBytes(segRaw), trex)
	if err != nil {
		return nil, nil, err
	}
	// (mp4ff guesses the per-sample IV size when it decodes a segment without its init segment; re-read the senc
	// boxes with the size the served init declares)
	if len(di.TrackInfos) > 0 && di.TrackInfos[0].Sinf != nil && di.TrackInfos[0].Sinf.Schi != nil && di.TrackInfos[0].Sinf.Schi.Tenc != nil {
		if err := hx.ReparseSencFrags(sg.Mp4.Fragments, segRaw, di.TrackInfos[0].Sinf.Schi.Tenc.DefaultPerSampleIVSize); err != nil {
			return nil, nil, fmt.Errorf("senc: %w", err)
		}
	}
	if err := mp4.DecryptSegment(sg.Mp4, di, key); err != nil {
		return nil, nil, fmt.Errorf("DecryptSegment: %w", err)
	}
	// sample payloads alias the (now decrypted) mdat; read them again through the new offsets
	for i, fr := range sg.Mp4.Fragments {
		fss, err := fr.GetFullSamples(trex)
		if err != nil {
			return nil, nil, fmt.Errorf("samples after decryption: %w", err)
		}
		if len(fss) != len(sg.Frags[i].Samples) {
			return nil, nil, fmt.Errorf("sample count changed by decryption")
		}
		for j, fs := range fss {
			sg.Frags[i].Samples[j].Data = fs.Data
		}
	}
	var buf bytes.Buffer
	if err := sg.Mp4.Encode(&buf); err != nil {
		return sg, nil, nil
	}
	return sg, buf.Bytes(), nil
}

// compareClear compares decrypted (or unprotected) samples with the clear twin's segment.
func compareClear(got, clear *hx.Seg) string {
	if got.HasStyp != clear.HasStyp {
		return fmt.Sprintf("styp %v, clear %v", got.HasStyp, clear.HasStyp)
	}
	if len(got.Frags) != len(clear.Frags) {
		return fmt.Sprintf("%d fragments, clear %d", len(got.Frags), len(clear.Frags))
	}
	for i := range got.Frags {
		g, c := got.Frags[i], clear.Frags[i]
		if g.Seq != c.Seq {
			return fmt.Sprintf("fragment %d sequence number %d, clear %d", i, g.Seq, c.Seq)
		}
		if g.Tfdt != c.Tfdt {
			return fmt.Sprintf("fragment %d tfdt %d, clear %d", i, g.Tfdt, c.Tfdt)
		}
		if g.NrEmsg != c.NrEmsg {
			return fmt.Sprintf("fragment %d has %d emsg, clear %d", i, g.NrEmsg, c.NrEmsg)
		}
		if msg := hx.SameSamples(g.Samples, c.Samples, 0, true); msg != "" {
			return fmt.Sprintf("fragment %d: %s", i, msg)
		}
	}
	return ""
}

func diffKind(msg string) string {
	switch {
	case strings.Contains(msg, "payload"):
		return "payload"
	case strings.Contains(msg, "tfdt"), strings.Contains(msg, "decode time"):
		return "time"
	case strings.Contains(msg, "sequence number"):
		return "number"
	case strings.Contains(msg, "sample count"), strings.Contains(msg, "fragments"):
		return "sample-count"
	case strings.Contains(msg, "meta"):
		return "sample-meta"
	}
	return "structure"
}

func (s *c10Session) opSeg(op c10Op) {
	rp := s.rep(op)
	if rp == nil {
		s.res.Count("skip.seg")
		return
	}
	u, ok := s.segURL(rp, op.Back)
	if !ok {
		s.res.Count("skip.seg-none")
		return
	}
	t := s.mpdT + op.Delay
	s.touch(t)
	target := s.drmPx + "/" + u
	r := s.srv.GetAt(target, t)
	rc := s.twin.GetAt(s.clrPx+"/"+u, t)
	s.res.Event("seg %s t=%d -> %d len=%d %s clear=%d inst=%d", target, t, r.Status, len(r.Body), hx.ShortHash(r.Body), rc.Status, s.inst)
	c := s.contentSig(rp)
	if twinFailed(rc) {
		s.res.Count("probe.clear-twin-failed") // not this property's business
		return
	}
	if !s.served(r, "segment", rp, target) {
		return
	}
	if r.Status != rc.Status {
		s.violate("same-availability-as-clear", merge(c, core.Sig("kind", "status-differs", "status", fmt.Sprint(r.Status), "clear", fmt.Sprint(rc.Status))),
			"%s at %d: %d %q, clear twin %d", target, t, r.Status, trunc(string(r.Body), 80), rc.Status)
		return
	}
	if r.Status != 200 {
		s.res.Count("probe.both-unavailable")
		return
	}
	if op.Dup {
		r2 := s.srv.GetAt(target, t)
		s.res.Count("fault.duplicate")
		if r2.Status != r.Status || !bytes.Equal(r2.Body, r.Body) {
			s.violate("duplicate-same-answer", merge(c, core.Sig("kind", "segment-differs")), "%s at %d answered differently the second time", target, t)
		}
	}
	cp := s.cps[rp.CA.RepID]
	if rp.Content == "image" || cp == nil || !cp.Has {
		// nothing announced for this content: it must be what the clear twin serves
		if !bytes.Equal(r.Body, rc.Body) {
			s.violate("unprotected-as-clear", merge(c, core.Sig("kind", "segment-differs")), "%s at %d: no protection announced, but the body differs from the clear twin's", target, t)
		}
		s.res.Count("probe.unprotected-segment")
		return
	}
	obs := s.inits[rp.CA.RepID]
	if obs == nil {
		s.res.Count("skip.seg-no-init")
		return
	}
	te := obs.Tenc
	if !te.HasSinf || len(te.KID) == 0 {
		// reported by the init check; without a protection box nothing can be decrypted
		s.res.Count("skip.seg-init-not-protected")
		return
	}
	// the key is the one the licence gives for the id the MPD announces (the statement's chain:
	// MPD default_KID -> licence -> key -> decrypt with the served init)
	kid := cp.KID
	if len(kid) != 32 {
		kid = hex.EncodeToString(te.KID)
	}
	key, ok := s.keys[kid]
	if !ok {
		s.res.Count("skip.seg-no-key")
		return
	}
	clr, err := hx.ParseSeg(rc.Body, obs.ClearIn.Trex)
	if err != nil {
		panic("harness: clear twin segment unparsable: " + err.Error())
	}
	enc, err := hx.ParseSeg(r.Body, obs.In.Trex)
	if err != nil {
		s.violate("decrypts-to-clear", merge(c, core.Sig("kind", "segment-unparsable")), "%s: %v", target, err)
		return
	}
	// wrap probe: the loop index of this segment
	if ld := s.a.LoopDurMS; ld > 0 && obs.In.Timescale > 0 {
		wi := int64(clr.Tfdt()) * 1000 / int64(obs.In.Timescale) / ld
		if s.wrapSeen[rp.CA.RepID] == nil {
			s.wrapSeen[rp.CA.RepID] = map[int64]bool{}
		}
		if !s.wrapSeen[rp.CA.RepID][wi] && len(s.wrapSeen[rp.CA.RepID]) > 0 {
			s.res.Count("probe.loop-wrap-crossed")
		}
		s.wrapSeen[rp.CA.RepID][wi] = true
	}
	restarted := fmt.Sprint(obs.Instance != s.inst || s.keyInst[kid] != s.inst)
	if obs.Instance != s.inst {
		s.res.Count("probe.segment-from-other-instance-than-init")
	}
	if s.keyInst[kid] != s.inst {
		s.res.Count("probe.segment-from-other-instance-than-licence")
	}
	// (3a) mp4ff
	dec, decBytes, err := c10DecryptMp4ff(obs.Raw, r.Body, key)
	if err != nil {
		s.violate("decrypts-to-clear", merge(c, core.Sig("kind", "not-decryptable", "by", "mp4ff", "restarted", restarted)), "%s at %d: %v", target, t, err)
	} else if msg := compareClear(dec, clr); msg != "" {
		s.violate("decrypts-to-clear", merge(c, core.Sig("kind", "differs-"+diffKind(msg), "by", "mp4ff", "restarted", restarted)),
			"%s at %d decrypted with key %x (kid %s): %s; served %s, clear %s", target, t, key, kid, msg, segStructure(enc), segStructure(clr))
	} else {
		s.res.Count("probe.segment-decrypted")
		if decBytes != nil && bytes.Equal(decBytes, rc.Body) {
			s.res.Count("probe.decrypted-bytes-identical")
		}
	}
	// (3b) independent decryptor on the raw bytes
	s.indepCheck(target, t, c, restarted, r.Body, enc, clr, te, key)
	if len(enc.Frags) > 1 {
		s.res.Count("probe.multi-fragment-segment")
	}
	if rp.Content == "audio" {
		s.res.Count("probe.audio-segment-decrypted")
	}
}

// indepCheck decrypts every sample with the harness's own AES code and the auxiliary
// information read from the raw senc box, and checks saiz/saio against it.
func (s *c10Session) indepCheck(target string, t int64, c map[string]string, restarted string, body []byte, enc, clr *hx.Seg, te *c10Tenc, key []byte) {
	moofs, err := c10RawMoofs(body)
	if err != nil {
		s.violate("decrypts-to-clear", merge(c, core.Sig("kind", "not-decryptable", "by", "independent", "restarted", restarted)), "%s: %v", target, err)
		return
	}
	if len(moofs) != len(enc.Frags) || len(enc.Frags) != len(clr.Frags) {
		if len(enc.Frags) != len(clr.Frags) {
			return // reported by the mp4ff comparison
		}
		panic("harness: moof count")
	}
	for i, m := range moofs {
		fr := enc.Frags[i]
		if !m.HasSenc {
			s.violate("decrypts-to-clear", merge(c, core.Sig("kind", "no-senc", "by", "independent")), "%s: fragment %d has no senc box", target, i)
			return
		}
		if int(m.SencCount) != len(fr.Samples) {
			s.violate("decrypts-to-clear", merge(c, core.Sig("kind", "senc-sample-count", "by", "independent")), "%s: fragment %d: senc lists %d samples, trun %d", target, i, m.SencCount, len(fr.Samples))
			return
		}
		aux, err := c10ReadAux(body, m.SencDataPos, m.SencEnd, len(fr.Samples), te.IVSize, m.SencFlags&2 != 0)
		if err != nil {
			s.violate("decrypts-to-clear", merge(c, core.Sig("kind", "senc-unreadable", "by", "independent")), "%s: fragment %d: %v (IV size %d from the init)", target, i, err, te.IVSize)
			return
		}
		if len(fr.Samples) != len(clr.Frags[i].Samples) {
			return // reported by the mp4ff comparison
		}
		prot := 0
		for j, smp := range fr.Samples {
			plain, err := c10IndepDecryptSample(te, key, smp.Data, aux[j])
			if err != nil {
				s.violate("decrypts-to-clear", merge(c, core.Sig("kind", "not-decryptable", "by", "independent", "restarted", restarted)), "%s: fragment %d sample %d: %v", target, i, j, err)
				return
			}
			prot += protectedBytes(aux[j], len(smp.Data))
			if !bytes.Equal(plain, clr.Frags[i].Samples[j].Data) {
				s.violate("decrypts-to-clear", merge(c, core.Sig("kind", "differs-payload", "by", "independent", "restarted", restarted)),
					"%s at %d: fragment %d sample %d/%d decrypted with key %x iv %x/%x differs from the clear twin's sample (%d bytes, %d subsamples)",
					target, t, i, j, len(fr.Samples), key, aux[j].IV, te.ConstIV, len(smp.Data), len(aux[j].Subs))
				return
			}
			s.res.Count("probe.sample-decrypted-independently")
		}
		if prot > 0 {
			s.res.Count("probe.fragment-with-protected-bytes")
		} else {
			s.res.Count("probe.fragment-without-protected-bytes")
		}
		// sample auxiliary information boxes must describe the same bytes (a decryptor may use
		// saiz/saio instead of senc)
		auxBytes := 0
		for _, a := range aux {
			auxBytes += a.Size
		}
		if auxBytes == 0 {
			// constant IV, whole-sample protection: nothing to point to
			s.res.Count("probe.fragment-without-aux-data")
			continue
		}
		if m.HasSaio && len(m.SaioOffsets) == 1 {
			base := int64(m.Start)
			if m.BaseData >= 0 {
				base = m.BaseData
			}
			if int(base+m.SaioOffsets[0]) != m.SencDataPos {
				s.violate("aux-info-consistent", merge(c, core.Sig("kind", "saio-not-at-senc-data")), "%s: fragment %d: saio points to byte %d of the segment, the sample auxiliary data start at %d",
					target, i, base+m.SaioOffsets[0], m.SencDataPos)
			}
			s.res.Count("probe.saio-checked")
		}
		if m.HasSaiz {
			bad := ""
			if int(m.SaizCount) != len(aux) {
				bad = fmt.Sprintf("saiz lists %d samples, senc %d", m.SaizCount, len(aux))
			} else {
				for j, a := range aux {
					sz := m.SaizDefault
					if sz == 0 && j < len(m.SaizSizes) {
						sz = int(m.SaizSizes[j])
					}
					if sz != a.Size {
						bad = fmt.Sprintf("saiz size of sample %d is %d, its auxiliary data has %d bytes", j, sz, a.Size)
						break
					}
				}
			}
			if bad != "" {
				s.violate("aux-info-consistent", merge(c, core.Sig("kind", "saiz-differs-from-senc")), "%s: fragment %d: %s", target, i, bad)
			}
		}
	}
}

// ---------------------------------------------------------------------------------------
// Pre-encrypted asset (invariant 4).

func (s *c10Session) preMPD(op c10Op) {
	t := s.w.T0 + op.Delay
	s.touch(t)
	if op.DRM {
		target := s.drmPx + "/" + s.w.MPD
		r := s.srv.GetAt(target, t)
		s.res.Event("pre mpd-drm %s -> %d inst=%d", target, r.Status, s.inst)
		s.refused(r, "mpd", "-", target)
		return
	}
	target := s.clrPx + "/" + s.w.MPD
	r := s.srv.GetAt(target, t)
	s.res.Event("pre mpd %s -> %d len=%d inst=%d", target, r.Status, len(r.Body), s.inst)
	if !s.served(r, "mpd", nil, target) {
		return
	}
	if r.Status != 200 {
		s.violate("preenc-served-unchanged", core.Sig("kind", "mpd-not-200", "status", fmt.Sprint(r.Status)), "%s: %d %q", target, r.Status, trunc(string(r.Body), 120))
		return
	}
	cm, err := ParseClientMPD(r.Body)
	if err != nil {
		s.violate("preenc-served-unchanged", core.Sig("kind", "mpd-unparsable"), "%s: %v", target, err)
		return
	}
	cps, err := c10ParseCP(r.Body)
	if err != nil {
		s.violate("preenc-served-unchanged", core.Sig("kind", "mpd-protection-inconsistent"), "%s: %v", target, err)
		return
	}
	if s.cm != nil {
		return
	}
	s.cm, s.cps, s.reps, s.mpdT, s.mpdInst = cm, cps, s.sessionReps(cm), t, s.inst
	for _, rp := range s.reps {
		cp := cps[rp.CA.RepID]
		if s.w.PreEnc.AddCP {
			// the VoD MPD's own descriptors must survive
			if cp == nil || cp.KID != s.w.PreEnc.KID || cp.Scheme != s.w.PreEnc.Scheme {
				got := "none"
				if cp != nil {
					got = cp.KID + "/" + cp.Scheme
				}
				s.violate("preenc-served-unchanged", core.Sig("kind", "mpd-descriptor-lost", "content", rp.Content), "rep %s: live MPD announces %s, the VoD MPD %s/%s", rp.CA.RepID, got, s.w.PreEnc.KID, s.w.PreEnc.Scheme)
			}
			s.res.Count("probe.preenc-mpd-descriptor")
		} else if cp != nil && cp.Has {
			s.violate("preenc-served-unchanged", core.Sig("kind", "mpd-descriptor-invented", "content", rp.Content), "rep %s: live MPD announces %s although neither the VoD MPD nor the request asks for it", rp.CA.RepID, cp.KID)
		}
	}
}

// refused checks that a DRM request on the pre-encrypted asset is turned down properly.
func (s *c10Session) refused(r *hx.Resp, what, content, target string) {
	s.res.Count("probe.preenc-drm-request")
	fam := "clearkey"
	if s.kind == "cpix" {
		fam = "cpix"
	}
	sig := core.Sig("request", what, "drm-family", fam, "asset", "pre-encrypted")
	if r.Panic != "" {
		s.res.Violate("C10.preenc-refused", s.sw(merge(sig, core.Sig("kind", "panic", "frame", r.PanicFrame))),
			"%s (%s): handler panicked instead of refusing: %s (status %d)", target, content, r.Panic, r.Status)
		return
	}
	if r.Status >= 200 && r.Status < 300 {
		s.res.Violate("C10.preenc-refused", s.sw(merge(sig, core.Sig("kind", "not-refused", "status", fmt.Sprint(r.Status)))),
			"%s (%s): status %d, %d bytes", target, content, r.Status, len(r.Body))
		return
	}
	s.res.Count("probe.preenc-refused")
}

func (s *c10Session) preInit(op c10Op) {
	rp := s.rep(op)
	if rp == nil {
		s.res.Count("skip.init")
		return
	}
	t := s.mpdT + op.Delay
	s.touch(t)
	name := fillTemplate(rp.CA.Init, rp.CA.RepID, 0, 0)
	c := core.Sig("content", rp.Content)
	px := s.clrPx
	if op.DRM {
		px = s.drmPx
	}
	target := px + "/" + name
	r := s.srv.GetAt(target, t)
	s.res.Event("pre init %s -> %d %s inst=%d", target, r.Status, hx.ShortHash(r.Body), s.inst)
	file, err := os.ReadFile(s.opts.VodRoot + "/" + c10PreEncAsset + "/" + name)
	if err != nil {
		panic("harness: " + err.Error())
	}
	if op.DRM {
		// an init is the same with and without the parameter, or refused; never a second protection layer
		s.res.Count("probe.preenc-drm-request")
		if r.Panic != "" {
			s.refused(r, "init", rp.Content, target)
			return
		}
		if r.Status == 200 {
			if !s.sameInit(r.Body, file) {
				s.violate("preenc-refused", merge(c, core.Sig("kind", "init-changed-by-drm-parameter")), "%s: 200 with an init that is not the stored one", target)
			} else {
				s.res.Count("probe.preenc-init-unchanged-with-drm")
			}
		} else {
			s.res.Count("probe.preenc-refused")
		}
		return
	}
	if !s.served(r, "init", rp, target) {
		return
	}
	if r.Status != 200 {
		s.violate("preenc-served-unchanged", merge(c, core.Sig("kind", "init-not-200", "status", fmt.Sprint(r.Status))), "%s: %d", target, r.Status)
		return
	}
	if !s.sameInit(r.Body, file) {
		s.violate("preenc-served-unchanged", merge(c, core.Sig("kind", "init-changed")), "%s: served init does not carry the stored protection (kid/scheme/IV)", target)
		return
	}
	in, err := hx.ParseInit(r.Body)
	if err != nil {
		s.violate("preenc-served-unchanged", merge(c, core.Sig("kind", "init-unparsable")), "%s: %v", target, err)
		return
	}
	if old, ok := s.inits[rp.CA.RepID]; ok && !bytes.Equal(old.Raw, r.Body) {
		s.violate("stable-across-requests", merge(c, core.Sig("kind", "init-changed", "restarted", fmt.Sprint(old.Instance != s.inst))), "%s differs from the one fetched earlier", target)
	}
	srcRep := s.a.Reps[rp.CA.RepID]
	var cin *hx.Init
	if srcRep != nil {
		cin, _ = srcRep.Init()
	}
	s.inits[rp.CA.RepID] = &c10InitObs{Raw: r.Body, In: in, Tenc: c10TencOf(in), ClearIn: cin, Instance: s.inst}
	s.res.Count("probe.preenc-init-served")
}

// sameInit: identical bytes, or at least the same protection description and sample entry.
func (s *c10Session) sameInit(got, file []byte) bool {
	if bytes.Equal(got, file) {
		return true
	}
	a, err1 := hx.ParseInit(got)
	b, err2 := hx.ParseInit(file)
	if err1 != nil || err2 != nil {
		return false
	}
	ta, tb := c10TencOf(a), c10TencOf(b)
	return ta.SampleType == tb.SampleType && ta.Frma == tb.Frma && ta.Scheme == tb.Scheme && bytes.Equal(ta.KID, tb.KID) &&
		ta.IVSize == tb.IVSize && bytes.Equal(ta.ConstIV, tb.ConstIV) && ta.Crypt == tb.Crypt && ta.Skip == tb.Skip &&
		a.Timescale == b.Timescale && a.TrackID == b.TrackID
}

func (s *c10Session) preSeg(op c10Op) {
	rp := s.rep(op)
	if rp == nil {
		s.res.Count("skip.seg")
		return
	}
	back := op.Back
	if back < 1 {
		back = 1
	}
	u, ok := s.segURL(rp, back)
	if !ok {
		s.res.Count("skip.seg-none")
		return
	}
	t := s.mpdT + op.Delay
	s.touch(t)
	c := core.Sig("content", rp.Content)
	if op.DRM {
		target := s.drmPx + "/" + u
		r := s.srv.GetAt(target, t)
		s.res.Event("pre seg-drm %s -> %d inst=%d", target, r.Status, s.inst)
		s.refused(r, "segment", rp.Content, target)
		return
	}
	target := s.clrPx + "/" + u
	r := s.srv.GetAt(target, t)
	s.res.Event("pre seg %s t=%d -> %d len=%d %s inst=%d", target, t, r.Status, len(r.Body), hx.ShortHash(r.Body), s.inst)
	if !s.served(r, "segment", rp, target) {
		return
	}
	if r.Status != 200 {
		s.violate("preenc-served-unchanged", merge(c, core.Sig("kind", "segment-not-200", "status", fmt.Sprint(r.Status))), "%s at %d: %d %q", target, t, r.Status, trunc(string(r.Body), 80))
		return
	}
	if op.Dup {
		r2 := s.srv.GetAt(target, t)
		s.res.Count("fault.duplicate")
		if r2.Status != r.Status || !bytes.Equal(r2.Body, r.Body) {
			s.violate("duplicate-same-answer", merge(c, core.Sig("kind", "segment-differs")), "%s at %d answered differently the second time", target, t)
		}
	}
	obs := s.inits[rp.CA.RepID]
	srcRep := s.a.Reps[rp.CA.RepID]
	if obs == nil || srcRep == nil || obs.ClearIn == nil {
		s.res.Count("skip.seg-no-init")
		return
	}
	enc, err := hx.ParseSeg(r.Body, obs.In.Trex)
	if err != nil {
		s.violate("preenc-served-unchanged", merge(c, core.Sig("kind", "segment-unparsable")), "%s: %v", target, err)
		return
	}
	// which stored segment is it? number n of the live stream is stored segment n mod N.
	n := int64(enc.Seq()) - s.w.Cfg.StartNr()
	N := int64(len(srcRep.Segs))
	if n < 0 {
		s.violate("preenc-served-unchanged", merge(c, core.Sig("kind", "number")), "%s: sequence number %d below the start number", target, enc.Seq())
		return
	}
	vod := srcRep.Segs[n%N]
	raw, err := os.ReadFile(vod.File)
	if err != nil {
		panic("harness: " + err.Error())
	}
	src, err := hx.ParseSeg(raw, obs.ClearIn.Trex)
	if err != nil {
		panic("harness: " + err.Error())
	}
	ld := uint64(s.a.LoopDurMS) * srcRep.Timescale / 1000
	if enc.Tfdt() < vod.Start || (enc.Tfdt()-vod.Start)%ld != 0 {
		s.violate("preenc-served-unchanged", merge(c, core.Sig("kind", "time")), "%s: tfdt %d is not stored segment %d's start %d plus whole loops of %d", target, enc.Tfdt(), n%N, vod.Start, ld)
	}
	// bring the stored clear segment to the served position and compare after decryption
	shift := int64(enc.Tfdt()) - int64(src.Tfdt())
	for i := range src.Frags {
		src.Frags[i].Tfdt = uint64(int64(src.Frags[i].Tfdt) + shift)
		src.Frags[i].Seq = enc.Frags[0].Seq
		for j := range src.Frags[i].Samples {
			src.Frags[i].Samples[j].DecodeTime = uint64(int64(src.Frags[i].Samples[j].DecodeTime) + shift)
		}
	}
	key := mustHex(s.w.PreEnc.Key)
	dec, _, err := c10DecryptMp4ff(obs.Raw, r.Body, key)
	if err != nil {
		s.violate("preenc-served-unchanged", merge(c, core.Sig("kind", "not-decryptable", "by", "mp4ff")), "%s at %d: %v", target, t, err)
	} else if msg := compareClear(dec, src); msg != "" {
		s.violate("preenc-served-unchanged", merge(c, core.Sig("kind", "differs-"+diffKind(msg), "by", "mp4ff")),
			"%s at %d decrypted with the asset's key: %s; served %s, stored %s", target, t, msg, segStructure(enc), segStructure(src))
	} else {
		s.res.Count("probe.segment-decrypted")
		s.res.Count("probe.preenc-segment-decrypted")
	}
	s.indepCheck(target, t, c, "false", r.Body, enc, src, obs.Tenc, key)
}

// ShrinkCandidates proposes simpler worlds: URL features dropped one at a time, unused DRM
// packages dropped, duplicate flags cleared.
func (C10) ShrinkCandidates(sc *core.Scenario) []*core.Scenario {
	w, err := core.DecodeWorld[c10World](sc)
	if err != nil {
		return nil
	}
	var out []*core.Scenario
	with := func(f func(w *c10World) bool) {
		c := w
		c.Cfg.Extra = append([]string(nil), w.Cfg.Extra...)
		c.Pkgs = append([]c10Package(nil), w.Pkgs...)
		if !f(&c) {
			return
		}
		n := sc.Clone()
		n.World = core.MustJSON(c)
		out = append(out, n)
	}
	with(func(c *c10World) bool { ok := c.Cfg.Snr != nil; c.Cfg.Snr = nil; return ok })
	with(func(c *c10World) bool { ok := c.Cfg.Tsbd != nil; c.Cfg.Tsbd = nil; return ok })
	with(func(c *c10World) bool { ok := c.Cfg.StartS != nil; c.Cfg.StartS = nil; return ok })
	with(func(c *c10World) bool {
		ok := c.Cfg.ChunkDur != "" || c.Cfg.Ato != ""
		c.Cfg.ChunkDur, c.Cfg.Ato = "", ""
		return ok
	})
	with(func(c *c10World) bool {
		ok := c.Cfg.MPDType != "number" && c.Cfg.MPDType != ""
		c.Cfg.MPDType = "number"
		return ok
	})
	used := map[string]bool{}
	if uops, err := core.DecodeOps[c10Op](sc); err == nil {
		for _, op := range uops {
			if op.Op == "use" {
				used[op.Use] = true
			}
		}
	}
	with(func(c *c10World) bool {
		if !strings.HasPrefix(c.DRM, "drm_") && len(used) == 0 {
			ok := len(c.Pkgs) > 0
			c.Pkgs = nil
			return ok
		}
		var keep []c10Package
		for _, p := range c.Pkgs {
			if "drm_"+p.Name == c.DRM || used["drm_"+p.Name] {
				keep = append(keep, p)
			}
		}
		ok := len(keep) < len(c.Pkgs)
		c.Pkgs = keep
		return ok
	})
	// duplicate flags
	ops, err := core.DecodeOps[c10Op](sc)
	if err == nil {
		for i, op := range ops {
			if op.Dup {
				n := sc.Clone()
				op.Dup = false
				n.Ops[i] = core.MustJSON(op)
				out = append(out, n)
			}
		}
	}
	return out
}

package props

import (
	"encoding/binary"
	"fmt"
)

// Harness-side decoders for C13: the DASH `emsg` box (ISO/IEC 23009-1 5.10.3.3) and the SCTE-35
// splice_info_section with a splice_insert command (ANSI/SCTE 35, 9.6 / 9.7.3), written from the
// specifications. They share no code with mp4ff's emsg decoder or the gots library that
// produces the section in livesim2.

type c13Emsg struct {
	Version   byte
	Timescale uint32
	// PresTime is the absolute presentation time (version 1) or the delta relative to the
	// segment's earliest presentation time (version 0; Delta is true).
	PresTime uint64
	Delta    bool
	Duration uint32
	ID       uint32
	Scheme   string
	Value    string
	Data     []byte
}

// c13TopEmsgs returns the payloads (after the 8-byte box header) of all top-level emsg boxes,
// the top-level box order, and an error for a malformed box structure.
func c13TopEmsgs(body []byte) (emsgs [][]byte, order []string, err error) {
	pos := 0
	for pos < len(body) {
		if pos+8 > len(body) {
			return nil, order, fmt.Errorf("truncated box header at %d", pos)
		}
		size := uint64(binary.BigEndian.Uint32(body[pos:]))
		typ := string(body[pos+4 : pos+8])
		hdr := 8
		if size == 1 {
			if pos+16 > len(body) {
				return nil, order, fmt.Errorf("truncated largesize at %d", pos)
			}
			size = binary.BigEndian.Uint64(body[pos+8:])
			hdr = 16
		} else if size == 0 {
			size = uint64(len(body) - pos)
		}
		if size < uint64(hdr) || uint64(pos)+size > uint64(len(body)) {
			return nil, order, fmt.Errorf("bad box size %d at %d (%s)", size, pos, typ)
		}
		order = append(order, typ)
		if typ == "emsg" {
			emsgs = append(emsgs, body[pos+hdr:pos+int(size)])
		}
		pos += int(size)
	}
	return emsgs, order, nil
}

func c13CString(b []byte, pos int) (string, int, error) {
	for i := pos; i < len(b); i++ {
		if b[i] == 0 {
			return string(b[pos:i]), i + 1, nil
		}
	}
	return "", pos, fmt.Errorf("unterminated string at %d", pos)
}

func c13ParseEmsg(p []byte) (*c13Emsg, error) {
	if len(p) < 4 {
		return nil, fmt.Errorf("emsg payload of %d bytes", len(p))
	}
	e := &c13Emsg{Version: p[0]}
	pos := 4
	var err error
	switch e.Version {
	case 1:
		if len(p) < pos+20 {
			return nil, fmt.Errorf("emsg v1 too short (%d)", len(p))
		}
		e.Timescale = binary.BigEndian.Uint32(p[pos:])
		e.PresTime = binary.BigEndian.Uint64(p[pos+4:])
		e.Duration = binary.BigEndian.Uint32(p[pos+12:])
		e.ID = binary.BigEndian.Uint32(p[pos+16:])
		pos += 20
		if e.Scheme, pos, err = c13CString(p, pos); err != nil {
			return nil, err
		}
		if e.Value, pos, err = c13CString(p, pos); err != nil {
			return nil, err
		}
	case 0:
		if e.Scheme, pos, err = c13CString(p, pos); err != nil {
			return nil, err
		}
		if e.Value, pos, err = c13CString(p, pos); err != nil {
			return nil, err
		}
		if len(p) < pos+16 {
			return nil, fmt.Errorf("emsg v0 too short (%d)", len(p))
		}
		e.Timescale = binary.BigEndian.Uint32(p[pos:])
		e.PresTime = uint64(binary.BigEndian.Uint32(p[pos+4:]))
		e.Delta = true
		e.Duration = binary.BigEndian.Uint32(p[pos+8:])
		e.ID = binary.BigEndian.Uint32(p[pos+12:])
		pos += 16
	default:
		return nil, fmt.Errorf("emsg version %d", e.Version)
	}
	e.Data = p[pos:]
	return e, nil
}

// c13Splice is a decoded splice_info_section carrying one splice_insert.
type c13Splice struct {
	TableID        byte
	SectionLength  int
	Protocol       byte
	Encrypted      bool
	PtsAdjust      uint64
	Tier           uint16
	CmdLength      int
	CmdType        byte
	EventID        uint32
	Cancel         bool
	OutOfNetwork   bool
	ProgramSplice  bool
	DurationFlag   bool
	Immediate      bool
	TimeSpecified  bool
	PtsTime        uint64
	AutoReturn     bool
	BreakDuration  uint64
	UniqueProgram  uint16
	AvailNum       byte
	AvailsExpected byte
	DescLoopLen    int
	CRCStored      uint32
	CRCComputed    uint32
	CmdBytesParsed int
}

// c13CRC32MPEG2 is CRC-32/MPEG-2: polynomial 0x04C11DB7, initial value 0xFFFFFFFF, MSB first,
// no reflection, no final XOR (ISO/IEC 13818-1 Annex A).
func c13CRC32MPEG2(data []byte) uint32 {
	crc := uint32(0xFFFFFFFF)
	for _, b := range data {
		crc ^= uint32(b) << 24
		for i := 0; i < 8; i++ {
			if crc&0x80000000 != 0 {
				crc = crc<<1 ^ 0x04C11DB7
			} else {
				crc <<= 1
			}
		}
	}
	return crc
}

type c13Bits struct {
	b   []byte
	pos int // bit position
	err error
}

func (r *c13Bits) u(n int) uint64 {
	var v uint64
	for i := 0; i < n; i++ {
		byteIdx := r.pos >> 3
		if byteIdx >= len(r.b) {
			if r.err == nil {
				r.err = fmt.Errorf("section truncated at bit %d", r.pos)
			}
			return 0
		}
		bit := (r.b[byteIdx] >> (7 - uint(r.pos&7))) & 1
		v = v<<1 | uint64(bit)
		r.pos++
	}
	return v
}

// c13ParseSplice decodes a splice_info_section whose command is splice_insert (type 5).
// For other command types only the header and the CRC are decoded.
func c13ParseSplice(d []byte) (*c13Splice, error) {
	if len(d) < 3+11+4 {
		return nil, fmt.Errorf("section of %d bytes", len(d))
	}
	r := &c13Bits{b: d}
	s := &c13Splice{}
	s.TableID = byte(r.u(8))
	r.u(1) // section_syntax_indicator
	r.u(1) // private_indicator
	r.u(2) // sap_type / reserved
	s.SectionLength = int(r.u(12))
	if 3+s.SectionLength != len(d) {
		return s, fmt.Errorf("section_length %d does not match payload of %d bytes", s.SectionLength, len(d))
	}
	s.Protocol = byte(r.u(8))
	s.Encrypted = r.u(1) == 1
	r.u(6) // encryption_algorithm
	s.PtsAdjust = r.u(33)
	r.u(8) // cw_index
	s.Tier = uint16(r.u(12))
	s.CmdLength = int(r.u(12))
	s.CmdType = byte(r.u(8))
	s.CRCStored = binary.BigEndian.Uint32(d[len(d)-4:])
	s.CRCComputed = c13CRC32MPEG2(d[:len(d)-4])
	if r.err != nil {
		return s, r.err
	}
	if s.CmdType != 5 {
		return s, nil
	}
	cmdStart := r.pos
	s.EventID = uint32(r.u(32))
	s.Cancel = r.u(1) == 1
	r.u(7)
	if !s.Cancel {
		s.OutOfNetwork = r.u(1) == 1
		s.ProgramSplice = r.u(1) == 1
		s.DurationFlag = r.u(1) == 1
		s.Immediate = r.u(1) == 1
		r.u(4)
		if s.ProgramSplice && !s.Immediate {
			s.TimeSpecified = r.u(1) == 1
			if s.TimeSpecified {
				r.u(6)
				s.PtsTime = r.u(33)
			} else {
				r.u(7)
			}
		}
		if !s.ProgramSplice {
			n := int(r.u(8))
			for i := 0; i < n; i++ {
				r.u(8) // component_tag
				if !s.Immediate {
					if r.u(1) == 1 {
						r.u(6)
						r.u(33)
					} else {
						r.u(7)
					}
				}
			}
		}
		if s.DurationFlag {
			s.AutoReturn = r.u(1) == 1
			r.u(6)
			s.BreakDuration = r.u(33)
		}
		s.UniqueProgram = uint16(r.u(16))
		s.AvailNum = byte(r.u(8))
		s.AvailsExpected = byte(r.u(8))
	}
	s.CmdBytesParsed = (r.pos - cmdStart) / 8
	s.DescLoopLen = int(r.u(16))
	if r.err != nil {
		return s, r.err
	}
	// what follows: descriptors (DescLoopLen bytes), optional stuffing, CRC_32
	rest := len(d) - r.pos/8
	if rest < s.DescLoopLen+4 {
		return s, fmt.Errorf("descriptor_loop_length %d exceeds the section (%d bytes left incl. CRC)", s.DescLoopLen, rest)
	}
	return s, nil
}

package props

import (
	"encoding/binary"
	"encoding/xml"
	"fmt"
	"regexp"
	"strconv"
	"strings"
	"testing"
	"time"

	"verif/sim/core"
	"verif/sim/hx"
	"verif/sim/refmodel"
)

// C12 — generated time subtitles show the right UTC second at the right media time (engine T).
//
// Workload: simulated subtitle players walk segment indices n (consecutive runs over loop wraps,
// jumps, first segments after start_) of one asset under one URL configuration. For every op the
// player polls the MPD at an instant at which segment n is available, resolves the subtitle and the
// video URL of segment n from that MPD like a DASH client, and fetches both.
//
// Oracle (statement of C12 + DESIGN §7 C12; nothing of the implementation is mirrored):
//  (1) timing: mfhd number = snr + n; tfdt and duration, read in the subtitle track's own timescale and
//      converted to milliseconds, equal the reference video segment's start/duration in milliseconds.
//      The reference is refmodel.Asset.Live(ref, n) (own parse of the VoD files); the fetched video
//      segment is compared with the model first (a disagreement there is C01's business: probe only).
//      ROUNDING: when a video time is not a whole number of milliseconds the statement only says
//      "in milliseconds", so both neighbouring milliseconds (floor and ceil) are accepted; what is
//      asserted in addition is the relation the statement does make: segment and MPD must use the
//      same value (tfdt = declared S@t, duration = declared S@d of the entry the URL came from).
//  (2) cue schedule over [segStart, segEnd) := the served subtitle segment's own [tfdt, tfdt+dur) shifted
//      by availabilityStartTime: for every UTC second s with s*1000 < segEnd and (s+1)*1000 > segStart
//      exactly one cue, begin = max(s*1000, segStart), end = min(s*1000 + cueDur, next cue's begin, segEnd)
//      (DESIGN §7 C12 formula). Because the statement's wording "lasting the configured cue duration"
//      can also be read as counted from the clipped begin, end = min(begin + cueDur, next begin, segEnd)
//      is accepted as well. If the cue of second s is already over at segStart (s*1000+cueDur <= segStart)
//      the cue may be absent. Text: contains RFC 3339 of second s (and no other time stamp), the
//      language and the segment number as separate tokens.
//  (3) observed cues ordered, non-overlapping, begin <= end, inside the segment.
//  (4) wvtt: sample durations sum to the reference duration, cue samples are exactly one vttc box with
//      one payl, every other sample is exactly one empty vtte box.
//  (5) MPD: one text AdaptationSet per configured (format, language) with that language; SegmentTimeline:
//      same number of entries as the video AdaptationSet, same numbers, every (implied) t and every d equal
//      to the video value in ms (floor/ceil accepted when not whole); $Number$ template: same startNumber,
//      duration equal in ms (floor/ceil), same availabilityTimeOffset; MPD timescale = init timescale.

type c12World struct {
	VodRoot string   `json:"vodroot"` // "bundled" | "c12gen"
	Asset   string   `json:"asset"`
	MPD     string   `json:"mpd"`
	Cfg     URLCfg   `json:"cfg"`
	Stpp    []string `json:"stpp,omitempty"`
	Wvtt    []string `json:"wvtt,omitempty"`
	CueDur  int      `json:"cuedur"`            // 0 = parameter absent (documented default 900 ms)
	Region  int      `json:"region"`            // -1 = parameter absent (documented default 0)
	Periods int      `json:"periods,omitempty"` // > 0: the MPD is also requested as periods_N; every Period's subtitle sets must mirror its video set
}

type c12Op struct {
	Kind string `json:"kind"` // seg | regtwin
	N    int64  `json:"n"`    // segment index counted from availabilityStartTime
	Dt   int64  `json:"dt"`   // request instant = availability instant of n + Dt ms
	Fmt  string `json:"fmt"`  // stpp | wvtt
	Lang string `json:"lang"`
}

type C12 struct{}

func init() { core.Register(C12{}) }

func (C12) ID() string     { return "C12" }
func (C12) Engine() string { return "tlsim" }

var c12Bundled = []assetRef{
	{"testpic_2s", "Manifest.mpd"},
	{"testpic_6s", "Manifest.mpd"},
	{"testpic_8s", "Manifest.mpd"},
	{"testpic_alt_seg_dur_stl", "Manifest.mpd"},
	{"WAVE/vectors/cfhd_sets/12.5_25_50/t3/2022-10-17", "stream.mpd"},
	{"WAVE/vectors/cfhd_sets/14.985_29.97_59.94/t1/2022-10-17", "stream.mpd"},
}

const c12DefaultCueDur = 900 // urlgen page: "cue duration of generated subtitles (in milliseconds)", default 900

func c12Root(name string) string {
	if name == c12GenRootName {
		return c12GenRoot()
	}
	return vodRootOf(name)
}

func (C12) Gen(rng *core.Rng, tier string, idx int) *core.Scenario {
	w := c12World{VodRoot: "bundled", Region: -1}
	// assets: about 60 % with boundaries off whole seconds
	switch k := rng.Intn(20); {
	case k < 5: // 2.002 s, 1001-based
		w.Asset, w.MPD = c12Bundled[5].Asset, c12Bundled[5].MPD
	case k < 12:
		g := core.Pick(rng, c12GenAssets)
		w.VodRoot, w.Asset, w.MPD = c12GenRootName, g.Name, "Manifest.mpd"
	default:
		ar := c12Bundled[rng.Intn(5)]
		w.Asset, w.MPD = ar.Asset, ar.MPD
	}
	a := refAssets(c12Root(w.VodRoot))[w.Asset]
	if a == nil || a.Bad != "" {
		panic("harness: c12 asset unusable: " + w.Asset)
	}
	ref := a.Ref()
	base := int64(1_600_000_000_000) + rng.Int63n(300_000_000_000)
	if rng.Chance(0.15) {
		base = 100_000 + rng.Int63n(3_900_000_000_000)
	}
	cfg := URLCfg{MPDType: core.Pick(rng, []string{"number", "timeline", "timelinenr"})}
	switch rng.Intn(8) {
	case 0, 1: // stream started recently: first segments after start_
		cfg.StartS = p64(base/1000 - int64(rng.Range(0, 120)))
	case 2, 3: // arbitrary start, usually not a multiple of the segment duration
		cfg.StartS = p64(int64(rng.Range(1, 1000000)) * int64(rng.Range(1, 1500)))
	case 4: // a few loops before now
		cfg.StartS = p64(base/1000 - int64(rng.Range(0, 3))*a.LoopDurMS/1000 - int64(rng.Range(0, 30)))
	}
	if cfg.StartS != nil && (*cfg.StartS < 0 || *cfg.StartS*1000 > base) {
		cfg.StartS = p64(base / 1000)
	}
	if rng.Chance(0.3) {
		cfg.Snr = pint(core.Pick(rng, []int{1, 2, 7, 100, 4711}))
	}
	if rng.Chance(0.25) {
		cfg.Tsbd = pint(core.Pick(rng, []int{20, 30, 45, 90, 120, 300}))
	}
	w.Cfg = cfg
	if a.ConstSegDur && a.SegDurMS > 0 && rng.Chance(0.3) {
		var fit []int
		for _, n := range []int{20, 30, 60, 120, 180, 360} {
			if d := ref.Segs[0].End - ref.Segs[0].Start; 3600%n == 0 && d > 0 && (uint64(3600/n)*ref.Timescale)%d == 0 {
				fit = append(fit, n)
			}
		}
		if len(fit) > 0 {
			w.Periods = core.Pick(rng, fit)
		}
	}
	langSets := [][]string{{"en"}, {"sv"}, {"en", "sv"}, {"sv", "en"}, {"en", "sv", "de"}, {"fi", "no", "da", "en"}}
	switch rng.Intn(5) {
	case 0, 1:
		w.Stpp = core.Pick(rng, langSets)
	case 2, 3:
		w.Wvtt = core.Pick(rng, langSets)
	default:
		w.Stpp = core.Pick(rng, langSets)
		w.Wvtt = core.Pick(rng, langSets)
	}
	// cue durations: about one third above one second
	switch k := rng.Intn(12); {
	case k < 1:
		w.CueDur = 0 // absent -> default
	case k < 7:
		w.CueDur = core.Pick(rng, []int{1, 2, 100, 500, 900, 999, 1000})
	case k < 8:
		w.CueDur = rng.Range(1, 1000)
	case k < 11:
		w.CueDur = core.Pick(rng, []int{1001, 1500, 2000, 2500, 5000})
	default:
		w.CueDur = rng.Range(1001, 7000)
	}
	if rng.Chance(0.7) {
		w.Region = rng.Intn(2)
	}
	sc := core.NewScenario("C12", "tlsim", 0, tier, w)

	nOps := rng.Range(6, 14)
	if tier == "thorough" {
		nOps = rng.Range(16, 48)
	}
	N := int64(len(ref.Segs))
	astMS := cfg.AST() * 1000
	rel := base - astMS
	if rel < 0 {
		rel = 0
	}
	cur := a.IndexContaining(ref, uint64(rel)*ref.Timescale/1000)
	if cfg.StartS != nil && rng.Chance(0.5) && cur > 3 {
		cur = int64(rng.Range(0, 2)) // the very first segments of the stream
	}
	maxDt := cfg.TsbdS()*1000 - 2000
	if maxDt > 40000 {
		maxDt = 40000
	}
	type fl struct{ f, l string }
	var fls []fl
	for _, l := range w.Stpp {
		fls = append(fls, fl{"stpp", l})
	}
	for _, l := range w.Wvtt {
		fls = append(fls, fl{"wvtt", l})
	}
	maxN := (4_000_000_000_000-astMS)/a.LoopDurMS*N - 2*N
	if maxN > 4_200_000_000 {
		maxN = 4_200_000_000 // mfhd sequence numbers are 32 bits wide
	}
	for i := 0; i < nOps; i++ {
		switch k := rng.Intn(20); {
		case i == 0:
		case k < 13:
			cur++
		case k < 15: // to the last segment before the next wrap
			cur = (cur/N+1)*N - 1
		case k < 18:
			cur += int64(rng.Range(-40, 40)) * N / 2
		case k < 19:
			cur += rng.Int63n(50_000_000)
		default:
			cur = rng.Int63n(8)
		}
		if cur < 0 {
			cur = 0
		}
		if cur > maxN {
			cur = maxN - rng.Int63n(1000)
		}
		x := core.Pick(rng, fls)
		op := c12Op{Kind: "seg", N: cur, Fmt: x.f, Lang: x.l}
		switch rng.Intn(4) {
		case 0:
			op.Dt = 0
		case 1:
			op.Dt = int64(rng.Range(1, 3))
		default:
			op.Dt = rng.Int63n(maxDt + 1)
		}
		if rng.Chance(0.08) {
			op.Kind = "regtwin"
		}
		sc.AddOp(op)
	}
	return sc
}

// c12Cfg returns the URL configuration with the time-subtitle parameters; region -2 keeps the world's.
func c12Cfg(w c12World, region int) URLCfg {
	c := w.Cfg
	c.Extra = nil
	if len(w.Stpp) > 0 {
		c.Extra = append(c.Extra, "timesubsstpp_"+strings.Join(w.Stpp, ","))
	}
	if len(w.Wvtt) > 0 {
		c.Extra = append(c.Extra, "timesubswvtt_"+strings.Join(w.Wvtt, ","))
	}
	if w.CueDur > 0 {
		c.Extra = append(c.Extra, fmt.Sprintf("timesubsdur_%d", w.CueDur))
	}
	if region == -2 {
		region = w.Region
	}
	if region >= 0 {
		c.Extra = append(c.Extra, fmt.Sprintf("timesubsreg_%d", region))
	}
	return c
}

type c12Env struct {
	res   *core.Result
	srv   *hx.Srv
	a     *refmodel.Asset
	w     c12World
	feat  map[string]string
	inits map[string]*hx.Init
	lo    int64
	hi    int64
	seen  bool
	// cueDurClass is a feature of the cue invariants only
	cueDurClass string
	// cfgFeat (start, snr) is added to the serving and numbering invariants only
	cfgFeat map[string]string
}

func (C12) Run(t *testing.T, sc *core.Scenario, res *core.Result) {
	w, err := core.DecodeWorld[c12World](sc)
	if err != nil {
		panic(err)
	}
	ops, err := core.DecodeOps[c12Op](sc)
	if err != nil {
		panic(err)
	}
	root := c12Root(w.VodRoot)
	a := refAssets(root)[w.Asset]
	if a == nil {
		panic("harness: unknown asset " + w.Asset)
	}
	e := &c12Env{res: res, srv: sharedSrv(root), a: a, w: w, inits: map[string]*hx.Init{}}
	cueDur := w.CueDur
	if cueDur == 0 {
		cueDur = c12DefaultCueDur
	}
	e.feat = core.Sig("mpdtype", w.Cfg.MPDType, "bounds", c12Bounds(a))
	e.cfgFeat = core.Sig("start", "0", "snr", "default")
	e.cueDurClass = c12CueDurClass(cueDur)
	if w.Cfg.StartS != nil && *w.Cfg.StartS != 0 {
		e.cfgFeat["start"] = "nonzero"
		res.Count("probe.start-nonzero")
		if (*w.Cfg.StartS*1000)%a.SegDurMS != 0 {
			res.Count("probe.start-not-multiple-of-segdur")
		}
	}
	if w.Cfg.Snr != nil && *w.Cfg.Snr != 0 {
		e.cfgFeat["snr"] = "nonzero"
	}
	var prevN int64 = -10
	for _, op := range ops {
		if !c12Has(w, op.Fmt, op.Lang) || op.N < 0 {
			continue // precondition gone (shrunk world)
		}
		if op.N == prevN+1 {
			res.Count("probe.consecutive-pair")
			if op.N%int64(len(a.Ref().Segs)) == 0 {
				res.Count("probe.consecutive-over-wrap")
			}
		}
		if prevN >= 0 && op.N != prevN+1 && op.N != prevN {
			// the player's clock jumped (forward, backward, far from epoch, or back to the stream start)
			res.Count("fault.clock-jump")
			if op.N < prevN {
				res.Count("fault.clock-jump-backward")
			}
		}
		prevN = op.N
		switch op.Kind {
		case "regtwin":
			res.Count("op.regtwin")
			c12RegTwin(e, op)
		default:
			res.Count("op.seg")
			c12Observe(e, op, -2, true)
		}
	}
	if e.seen {
		res.SimMS += e.hi - e.lo
	}
	res.Nontrivial = res.Stats["probe.cue-checked"] > 0
}

func c12Has(w c12World, f, lang string) bool {
	ls := w.Stpp
	if f == "wvtt" {
		ls = w.Wvtt
	} else if f != "stpp" {
		return false
	}
	for _, l := range ls {
		if l == lang {
			return true
		}
	}
	return false
}

func c12CueDurClass(d int) string {
	if d > 1000 {
		return "gt1000"
	}
	return "le1000"
}

// c12Bounds classifies the asset: segment boundaries on whole seconds / whole ms only / not even whole ms.
func c12Bounds(a *refmodel.Asset) string {
	ref := a.Ref()
	cls := "whole-seconds"
	for _, s := range ref.Segs {
		if (s.End*1000)%ref.Timescale != 0 {
			return "non-ms"
		}
		if s.End%ref.Timescale != 0 {
			cls = "whole-ms"
		}
	}
	if a.LoopDurMS%1000 != 0 {
		cls = "whole-ms"
	}
	return cls
}

// c12MsFloorCeil converts t (timescale ts) to milliseconds: floor and ceil of the exact value.
func c12MsFloorCeil(t, ts uint64) (lo, hi int64) {
	x := t * 1000 // t < 2^44 for all generated instants and timescales <= 90000: no overflow
	lo = int64(x / ts)
	hi = lo
	if x%ts != 0 {
		hi++
	}
	return
}

func c12InMS(v int64, lo, hi int64) bool { return v >= lo && v <= hi }

// c12ToMS converts a value in timescale ts to whole milliseconds; ok=false if it is not whole.
func c12ToMS(v, ts uint64) (int64, bool) {
	if ts == 0 {
		return 0, false
	}
	x := v * 1000
	return int64(x / ts), x%ts == 0
}

type c12Cue struct {
	Begin, End int64 // media ms (relative to availabilityStartTime)
	Text       string
	Region     string // stpp: div@region, wvtt: sttg settings
}

type c12Obs struct {
	Cues   []c12Cue
	Region string
	Tfdt   int64
	Dur    int64
}

// c12Observe performs one player step. region -2 = the world's region setting. It returns nil when the
// subtitle segment could not be observed.
func c12Observe(e *c12Env, op c12Op, region int, checkMPD bool) *c12Obs {
	res, a, w := e.res, e.a, e.w
	cfg := c12Cfg(w, region)
	prefix := cfg.Prefix(w.Asset)
	ref := a.Ref()
	ls := a.Live(ref, op.N)
	astMS := cfg.AST() * 1000
	now := availMS(cfg.AST(), ls.End, ref.Timescale, 0) + op.Dt
	if !e.seen || now < e.lo {
		e.lo = now
	}
	if !e.seen || now > e.hi {
		e.hi = now
	}
	e.seen = true
	content := "gen-" + op.Fmt
	f := merge(e.feat, core.Sig("content", content))
	fs := merge(f, core.Sig("start", e.cfgFeat["start"]))
	repID := "time" + op.Fmt + "-" + op.Lang
	wantNr := cfg.StartNr() + op.N
	if ls.Idx == 0 && op.N > 0 {
		res.Count("probe.first-segment-of-a-wrap")
	}
	if op.N < int64(len(ref.Segs)) {
		res.Count("probe.first-loop-after-start")
	}

	// ---- MPD at the request instant
	r := e.srv.GetAt(prefix+"/"+w.MPD, now)
	res.Count("op.mpd")
	res.Event("mpd n=%d t=%d status=%d len=%d", op.N, now, r.Status, len(r.Body))
	if r.Panic != "" {
		res.Violate("C12.mpd-served", merge(fs, core.Sig("kind", "panic", "frame", r.PanicFrame)), "MPD %s at %d: panic %s", prefix, now, r.Panic)
		return nil
	}
	if r.Status != 200 {
		res.Violate("C12.mpd-served", merge(fs, core.Sig("kind", "mpd-not-200", "status", fmt.Sprint(r.Status))),
			"MPD %s/%s at %d: status %d %q", prefix, w.MPD, now, r.Status, trunc(string(r.Body), 120))
		return nil
	}
	cm, err := ParseClientMPD(r.Body)
	if err != nil && a.SegDurMS < 1000 {
		// Live MPDs of assets with sub-second segments carry an invalid minimumUpdatePeriod (dash-mpd
		// renders durations below one second as nanoseconds plus a stray byte). That attribute is not
		// C12's business; the player drops it and goes on so that short segments stay in the workload.
		cm, err = ParseClientMPD(c12MUP.ReplaceAll(r.Body, nil))
		res.Count("probe.invalid-minimumUpdatePeriod-dropped")
	}
	if err != nil || len(cm.Periods) != 1 {
		res.Violate("C12.mpd-served", merge(fs, core.Sig("kind", "mpd-unusable")), "MPD at %d: err=%v", now, err)
		return nil
	}
	if cm.ASTms != astMS {
		res.Violate("C12.mpd-served", merge(fs, core.Sig("kind", "ast-mismatch")), "AST %d != %d", cm.ASTms, astMS)
		return nil
	}
	var vAS, sAS *ClientAS
	sets := cm.Periods[0].Sets
	for i := range sets {
		if sets[i].ContentType == "video" && vAS == nil {
			vAS = &sets[i]
		}
		if sets[i].RepID == repID {
			sAS = &sets[i]
		}
	}
	if vAS == nil {
		panic("harness: no video adaptation set in live MPD of " + w.Asset)
	}
	if checkMPD {
		c12CheckMPD(e, cm.Periods[0].Sets, vAS, prefix, now)
		if w.Periods > 0 && cfg.StartS == nil {
			c12CheckMultiPeriodMPD(e, cfg, now)
		}
	}
	if sAS == nil {
		// reported by c12CheckMPD as as-missing
		return nil
	}

	// ---- resolve the URLs of segment n like a client
	var vURL, sURL string
	declT, declD := int64(-1), int64(-1)
	vts := vAS.Timescale
	if vAS.Timeline {
		vi := -1
		for i, s := range vAS.Segs {
			if vts == ref.Timescale && s.T == ls.Start+vAS.PTO {
				vi = i
				break
			}
		}
		if vi < 0 || !sAS.Timeline || len(sAS.Segs) != len(vAS.Segs) {
			// the video entry is C02's business; a differing subtitle list was reported by c12CheckMPD
			res.Count("probe.entry-not-resolvable")
			res.Event("unresolvable n=%d vi=%d", op.N, vi)
			return nil
		}
		vURL, sURL = vAS.Segs[vi].URL, sAS.Segs[vi].URL
		if t, ok := c12ToMS(sAS.Segs[vi].T, sAS.Timescale); ok {
			declT = t
		}
		if d, ok := c12ToMS(sAS.Segs[vi].D, sAS.Timescale); ok {
			declD = d
		}
		if sAS.UsesTime {
			res.Count("probe.requested-by-time")
		} else {
			res.Count("probe.requested-by-timeline-number")
		}
	} else {
		vURL = fillTemplate(vAS.Media, vAS.RepID, vAS.StartNumber+op.N, 0)
		sURL = fillTemplate(sAS.Media, sAS.RepID, sAS.StartNumber+op.N, 0)
		res.Count("probe.requested-by-number")
	}

	// ---- the video reference segment, as served
	vin := c12Init(e, prefix, vAS, now, fs)
	if vin != nil {
		vr := e.srv.GetAt(prefix+"/"+vURL, now)
		res.Count("op.video-segment")
		res.Event("video %s -> %d len=%d", vURL, vr.Status, len(vr.Body))
		ok := false
		if vr.Status == 200 && vr.Panic == "" {
			if vs, err := hx.ParseSeg(vr.Body, vin.Trex); err == nil {
				ok = uint64(vin.Timescale) == ref.Timescale && vs.Tfdt() == ls.Start && vs.Dur == ls.End-ls.Start && int64(vs.Seq()) == wantNr
			}
		}
		if !ok {
			// video differs from the reference model: C01/C02 report that; C12 keeps to the model
			res.Count("probe.video-differs-from-model")
		} else {
			res.Count("probe.video-agrees-with-model")
		}
	}

	// ---- the subtitle segment
	sin := c12Init(e, prefix, sAS, now, fs)
	if sin == nil {
		return nil
	}
	if sin.SampleType != op.Fmt {
		res.Violate("C12.segment-served", merge(fs, core.Sig("kind", "init-sample-entry")), "%s init has sample entry %q", repID, sin.SampleType)
	}
	if uint64(sin.Timescale) != sAS.Timescale && !sAS.Timeline {
		// $Number$ template: @timescale only scales @duration (ISO/IEC 23009-1 5.3.9.2: "may be any frequency");
		// the server uses the video timescale when the segment duration is not a whole number of milliseconds
		res.Count("probe.number-template-in-video-timescale")
	} else if uint64(sin.Timescale) != sAS.Timescale {
		res.Violate("C12.mpd-mirrors-video", merge(f, core.Sig("kind", "timescale-differs-from-init")),
			"%s: MPD timescale %d, init timescale %d", repID, sAS.Timescale, sin.Timescale)
		return nil
	}
	sr := e.srv.GetAt(prefix+"/"+sURL, now)
	res.Count("op.sub-segment")
	res.Event("sub %s -> %d len=%d %s", sURL, sr.Status, len(sr.Body), hx.ShortHash(sr.Body))
	if sr.Panic != "" {
		res.Violate("C12.segment-served", merge(fs, core.Sig("kind", "panic", "frame", sr.PanicFrame)), "%s%s at %d: panic %s", prefix, sURL, now, sr.Panic)
		return nil
	}
	if sr.Status != 200 {
		res.Violate("C12.segment-served", merge(fs, core.Sig("kind", "listed-segment-not-200", "status", fmt.Sprint(sr.Status))),
			"%s/%s at %d (n=%d, available since %d): status %d %q", prefix, sURL, now, op.N, now-op.Dt, sr.Status, trunc(string(sr.Body), 100))
		return nil
	}
	sg, err := hx.ParseSeg(sr.Body, sin.Trex)
	if err != nil {
		res.Violate("C12.segment-served", merge(fs, core.Sig("kind", "segment-unparsable")), "%s: %v", sURL, err)
		return nil
	}
	res.Count("probe.segment-checked")
	sts := uint64(sin.Timescale)
	tfdtMS, ok1 := c12ToMS(sg.Tfdt(), sts)
	durMS, ok2 := c12ToMS(sg.Dur, sts)
	if !ok1 || !ok2 {
		res.Violate("C12.segment-timing", merge(f, core.Sig("kind", "not-whole-ms")), "%s: tfdt %d dur %d timescale %d", sURL, sg.Tfdt(), sg.Dur, sts)
		return nil
	}
	// (1) number, decode time, duration
	if int64(sg.Seq()) != wantNr {
		res.Violate("C12.segment-timing", core.Sig("content", content, "mpdtype", e.feat["mpdtype"], "snr", e.cfgFeat["snr"], "kind", "number-mismatch"),
			"%s/%s: mfhd number %d, reference video segment n=%d has number %d", prefix, sURL, sg.Seq(), op.N, wantNr)
	}
	tLo, tHi := c12MsFloorCeil(ls.Start, ref.Timescale)
	dLo, dHi := c12MsFloorCeil(ls.End-ls.Start, ref.Timescale)
	if tLo != tHi || dLo != dHi {
		res.Count("probe.non-ms-reference-time")
	}
	if !c12InMS(tfdtMS, tLo, tHi) {
		res.Violate("C12.segment-timing", merge(f, core.Sig("kind", "tfdt-mismatch", "off", c12Off(tfdtMS, tLo, tHi))),
			"%s/%s: tfdt %d ms, reference video segment n=%d starts at %d/%d = %d..%d ms", prefix, sURL, tfdtMS, op.N, ls.Start, ref.Timescale, tLo, tHi)
	}
	wvttTiling := false
	if !c12InMS(durMS, dLo, dHi) {
		if op.Fmt == "wvtt" {
			wvttTiling = true // reported below as C12.wvtt-samples tiling
		} else {
			res.Violate("C12.segment-timing", merge(f, core.Sig("kind", "duration-mismatch", "off", c12Off(durMS, dLo, dHi))),
				"%s/%s: duration %d ms, reference video segment n=%d lasts %d/%d = %d..%d ms", prefix, sURL, durMS, op.N, ls.End-ls.Start, ref.Timescale, dLo, dHi)
		}
	}
	if declT >= 0 && tfdtMS != declT && c12InMS(tfdtMS, tLo, tHi) {
		res.Violate("C12.segment-timing", merge(f, core.Sig("kind", "tfdt-differs-from-mpd")),
			"%s/%s: tfdt %d ms, MPD declares t=%d", prefix, sURL, tfdtMS, declT)
	}
	if declD >= 0 && durMS != declD && c12InMS(durMS, dLo, dHi) {
		res.Violate("C12.segment-timing", merge(f, core.Sig("kind", "duration-differs-from-mpd")),
			"%s/%s: duration %d ms, MPD declares d=%d", prefix, sURL, durMS, declD)
	}

	// ---- cues
	obs := &c12Obs{Tfdt: tfdtMS, Dur: durMS}
	cueDur := w.CueDur
	if cueDur == 0 {
		cueDur = c12DefaultCueDur
	}
	segStart, segEnd := tfdtMS, tfdtMS+durMS
	if op.Fmt == "wvtt" {
		// for wvtt the observed duration is the sum of the sample durations; the cue model is evaluated
		// against the reference duration when tiling is broken (clipped to the floor value)
		if wvttTiling {
			segEnd = tfdtMS + dLo
		}
	}
	// features of the cue invariants: format, cue-duration class and how the segment's first second is cut
	firstCue := "starts-on-second"
	if (astMS+segStart)%1000 != 0 {
		firstCue = "clipped-at-segment-start"
		if (astMS+segStart)/1000*1000+int64(cueDur) <= astMS+segStart {
			firstCue = "already-over-at-segment-start"
		}
	}
	fc := core.Sig("content", content, "cuedur", e.cueDurClass, "firstcue", firstCue)
	switch op.Fmt {
	case "stpp":
		all := sg.AllSamples()
		if len(all) != 1 {
			res.Violate("C12.segment-served", merge(fs, core.Sig("kind", "stpp-sample-count")), "%s: %d samples", sURL, len(all))
			return nil
		}
		doc, err := c12ParseTTML(all[0].Data)
		if err != nil {
			res.Violate("C12.cue-schedule", merge(fc, core.Sig("kind", "ttml-unparsable", "what", doc.bad)),
				"%s/%s at %d: %v", prefix, sURL, now, err)
			return nil
		}
		if doc.Lang != op.Lang {
			res.Violate("C12.cue-schedule", merge(fc, core.Sig("kind", "cue-text-wrong", "what", "document-language")),
				"%s/%s: xml:lang=%q, want %q", prefix, sURL, doc.Lang, op.Lang)
		}
		if len(doc.DivRegions) != 1 || !doc.Regions[doc.DivRegions[0]] {
			res.Violate("C12.region", core.Sig("content", content, "kind", "undefined-region"),
				"%s/%s: div regions %v, defined %v", prefix, sURL, doc.DivRegions, sortedKeys(doc.Regions))
		} else {
			obs.Region = doc.DivRegions[0]
		}
		obs.Cues = doc.Cues
	case "wvtt":
		var cues []c12Cue
		var sum uint64
		regs := []string{}
		tcur := int64(sg.Tfdt())
		for i, s := range sg.AllSamples() {
			sum += uint64(s.Dur)
			boxes, err := c12Boxes(s.Data)
			switch {
			case err != nil:
				res.Violate("C12.wvtt-samples", merge(fc, core.Sig("kind", "sample-unparsable")), "%s sample %d: %v", sURL, i, err)
			case len(boxes) == 1 && boxes[0].typ == "vtte":
				res.Count("probe.wvtt-gap-sample")
				if len(boxes[0].body) != 0 {
					res.Violate("C12.wvtt-samples", merge(fc, core.Sig("kind", "gap-not-empty-vtte")), "%s sample %d: vtte with %d bytes", sURL, i, len(boxes[0].body))
				}
			case len(boxes) == 1 && boxes[0].typ == "vttc":
				inner, err := c12Boxes(boxes[0].body)
				var payl []string
				sttg := ""
				for _, b := range inner {
					switch b.typ {
					case "payl":
						payl = append(payl, string(b.body))
					case "sttg":
						sttg += string(b.body)
					}
				}
				if err != nil || len(payl) != 1 {
					res.Violate("C12.wvtt-samples", merge(fc, core.Sig("kind", "cue-sample-malformed")), "%s sample %d: vttc with %d payl (%v)", sURL, i, len(payl), err)
					break
				}
				b, _ := c12ToMS(uint64(tcur), sts)
				d := int64(s.Dur)
				if s.Dur >= 1<<31 {
					// a 32-bit sample duration this large is a negative length that wrapped around
					d = int64(int32(s.Dur))
					res.Count("probe.wvtt-negative-sample-duration")
				}
				en := b + d*1000/int64(sts)
				cues = append(cues, c12Cue{Begin: b, End: en, Text: payl[0], Region: sttg})
				regs = append(regs, sttg)
			default:
				var ts []string
				for _, b := range boxes {
					ts = append(ts, b.typ)
				}
				res.Violate("C12.wvtt-samples", merge(fc, core.Sig("kind", "sample-not-vttc-or-vtte")), "%s sample %d: boxes %v", sURL, i, ts)
			}
			tcur += int64(s.Dur)
		}
		sumMS, whole := c12ToMS(sum, sts)
		if !whole || !c12InMS(sumMS, dLo, dHi) {
			res.Violate("C12.wvtt-samples", merge(fc, core.Sig("kind", "samples-do-not-tile", "dir", dir(sumMS, dLo))),
				"%s/%s at %d: sample durations sum to %d ms, reference video segment n=%d lasts %d..%d ms (samples %s)",
				prefix, sURL, now, sumMS, op.N, dLo, dHi, c12SampleDurs(sg))
		}
		obs.Cues = cues
		obs.Region = strings.Join(regs, "|")
	}
	c12CheckCues(e, fc, obs.Cues, astMS, segStart, segEnd, int64(cueDur), op, wantNr, prefix+"/"+sURL, now)
	return obs
}

func c12SampleDurs(sg *hx.Seg) string {
	var p []string
	for _, s := range sg.AllSamples() {
		p = append(p, fmt.Sprint(s.Dur))
	}
	return strings.Join(p, ",")
}

func c12Off(v, lo, hi int64) string {
	d := v - lo
	if v > hi {
		d = v - hi
	}
	if d < 0 {
		d = -d
	}
	switch {
	case d <= 1:
		return "1ms"
	case d < 1000:
		return "lt1s"
	}
	return "ge1s"
}

func c12Init(e *c12Env, prefix string, ca *ClientAS, now int64, f map[string]string) *hx.Init {
	key := prefix + "|" + ca.RepID
	if in, ok := e.inits[key]; ok {
		return in
	}
	ir := e.srv.GetAt(prefix+"/"+fillTemplate(ca.Init, ca.RepID, 0, 0), now)
	e.res.Count("op.init")
	e.res.Event("init %s -> %d len=%d", ca.RepID, ir.Status, len(ir.Body))
	e.inits[key] = nil
	if ir.Status != 200 || ir.Panic != "" {
		if ca.ContentType != "video" {
			e.res.Violate("C12.segment-served", merge(f, core.Sig("kind", "init-not-200", "status", fmt.Sprint(ir.Status))), "init %s: %d %s", ca.RepID, ir.Status, ir.Panic)
		}
		return nil
	}
	in, err := hx.ParseInit(ir.Body)
	if err != nil {
		if ca.ContentType != "video" {
			e.res.Violate("C12.segment-served", merge(f, core.Sig("kind", "init-unparsable")), "init %s: %v", ca.RepID, err)
		}
		return nil
	}
	e.inits[key] = in
	return in
}

// ---------------------------------------------------------------------------------------
// (5) MPD mirrors the video timeline

// c12CheckMultiPeriodMPD requests the same configuration split into Periods and checks (5) inside every Period.
func c12CheckMultiPeriodMPD(e *c12Env, cfg URLCfg, now int64) {
	res, w := e.res, e.w
	cfg.Periods = pint(w.Periods)
	prefix := cfg.Prefix(w.Asset)
	r := e.srv.GetAt(prefix+"/"+w.MPD, now)
	res.Count("op.mpd-multiperiod")
	res.Event("mpd periods_%d t=%d status=%d len=%d", w.Periods, now, r.Status, len(r.Body))
	f := merge(e.feat, core.Sig("periods", "set"))
	if r.Panic != "" || r.Status != 200 {
		res.Violate("C12.mpd-served", merge(f, core.Sig("kind", "multi-period-mpd-not-200", "status", fmt.Sprint(r.Status), "frame", r.PanicFrame)),
			"MPD %s/%s at %d: status %d panic=%q %q", prefix, w.MPD, now, r.Status, r.Panic, trunc(string(r.Body), 120))
		return
	}
	cm, err := ParseClientMPD(r.Body)
	if err != nil || len(cm.Periods) == 0 {
		res.Violate("C12.mpd-served", merge(f, core.Sig("kind", "mpd-unusable")), "multi-period MPD at %d: err=%v", now, err)
		return
	}
	if len(cm.Periods) > 1 {
		res.Count("probe.multi-period-mpd-checked")
	}
	saved := e.feat
	e.feat = f
	defer func() { e.feat = saved }()
	for pi := range cm.Periods {
		sets := cm.Periods[pi].Sets
		var vAS *ClientAS
		for i := range sets {
			if sets[i].ContentType == "video" {
				vAS = &sets[i]
				break
			}
		}
		if vAS == nil {
			res.Violate("C12.mpd-served", merge(f, core.Sig("kind", "period-without-video")), "%s at %d: Period %s has no video AdaptationSet", prefix, now, cm.Periods[pi].ID)
			continue
		}
		c12CheckMPD(e, sets, vAS, prefix+" Period "+cm.Periods[pi].ID, now)
	}
}

func c12CheckMPD(e *c12Env, sets []ClientAS, vAS *ClientAS, prefix string, now int64) {
	res, w := e.res, e.w
	res.Count("probe.mpd-checked")
	type want struct{ f, l string }
	var wants []want
	for _, l := range w.Stpp {
		wants = append(wants, want{"stpp", l})
	}
	for _, l := range w.Wvtt {
		wants = append(wants, want{"wvtt", l})
	}
	nGen := 0
	for i := range sets {
		if strings.HasPrefix(sets[i].RepID, "timestpp-") || strings.HasPrefix(sets[i].RepID, "timewvtt-") {
			nGen++
		}
	}
	if nGen != len(wants) {
		res.Violate("C12.mpd-mirrors-video", merge(e.feat, core.Sig("kind", "adaptation-set-count")),
			"%s at %d: %d generated subtitle representations, %d configured", prefix, now, nGen, len(wants))
	}
	for _, wt := range wants {
		f := merge(e.feat, core.Sig("content", "gen-"+wt.f))
		id := "time" + wt.f + "-" + wt.l
		var sa *ClientAS
		cnt := 0
		for i := range sets {
			if sets[i].RepID == id {
				sa = &sets[i]
				cnt++
			}
		}
		if cnt != 1 {
			res.Violate("C12.mpd-mirrors-video", merge(f, core.Sig("kind", "as-missing-or-duplicated")), "%s at %d: %d representations %s", prefix, now, cnt, id)
			continue
		}
		if sa.Lang != wt.l {
			res.Violate("C12.mpd-mirrors-video", merge(f, core.Sig("kind", "as-language")), "%s: AdaptationSet of %s has lang %q", prefix, id, sa.Lang)
		}
		if sa.ContentType != "text" {
			res.Violate("C12.mpd-mirrors-video", merge(f, core.Sig("kind", "as-content-type")), "%s: AdaptationSet of %s has contentType %q", prefix, id, sa.ContentType)
		}
		if sa.Timeline != vAS.Timeline || (sa.Timeline && sa.UsesTime != vAS.UsesTime) {
			res.Violate("C12.mpd-mirrors-video", merge(f, core.Sig("kind", "addressing-differs")), "%s: %s timeline=%v time=%v, video timeline=%v time=%v",
				prefix, id, sa.Timeline, sa.UsesTime, vAS.Timeline, vAS.UsesTime)
			continue
		}
		if sa.Ato != vAS.Ato {
			res.Violate("C12.mpd-mirrors-video", merge(f, core.Sig("kind", "ato-differs")), "%s: %s ato %v, video %v", prefix, id, sa.Ato, vAS.Ato)
		}
		if sa.StartNumber != vAS.StartNumber {
			res.Violate("C12.mpd-mirrors-video", merge(f, e.cfgFeat, core.Sig("kind", "startnumber-differs")), "%s at %d: %s startNumber %d, video %d", prefix, now, id, sa.StartNumber, vAS.StartNumber)
		}
		if !sa.Timeline {
			d, whole := c12ToMS(sa.Duration, sa.Timescale)
			lo, hi := c12MsFloorCeil(vAS.Duration, vAS.Timescale)
			exact := sa.Duration*vAS.Timescale == vAS.Duration*sa.Timescale // e.g. the video's own duration and timescale
			if !exact && (!whole || !c12InMS(d, lo, hi)) {
				res.Violate("C12.mpd-mirrors-video", merge(f, core.Sig("kind", "template-duration-differs")),
					"%s: %s duration %d/%d, video %d/%d", prefix, id, sa.Duration, sa.Timescale, vAS.Duration, vAS.Timescale)
			}
			res.Count("probe.mpd-template-checked")
			continue
		}
		if len(sa.Segs) != len(vAS.Segs) {
			res.Violate("C12.mpd-mirrors-video", merge(f, core.Sig("kind", "entry-count-differs")),
				"%s at %d: %s lists %d segments, video %d", prefix, now, id, len(sa.Segs), len(vAS.Segs))
			continue
		}
		res.Add("probe.mpd-timeline-entries-checked", len(sa.Segs))
		for i := range sa.Segs {
			ss, vs := sa.Segs[i], vAS.Segs[i]
			if ss.Number != vs.Number {
				res.Violate("C12.mpd-mirrors-video", merge(f, core.Sig("kind", "entry-number-differs")),
					"%s at %d: %s entry %d number %d, video %d", prefix, now, id, i, ss.Number, vs.Number)
				break
			}
			t, wholeT := c12ToMS(ss.T-sa.PTO, sa.Timescale)
			d, wholeD := c12ToMS(ss.D, sa.Timescale)
			tLo, tHi := c12MsFloorCeil(vs.T-vAS.PTO, vAS.Timescale)
			dLo, dHi := c12MsFloorCeil(vs.D, vAS.Timescale)
			if !wholeT || !c12InMS(t, tLo, tHi) {
				res.Violate("C12.mpd-mirrors-video", merge(f, core.Sig("kind", "entry-time-differs", "off", c12Off(t, tLo, tHi))),
					"%s/%s at %d: %s entry %d of %d t=%d/%d, video t=%d/%d = %d..%d ms", prefix, w.MPD, now, id, i, len(sa.Segs), ss.T, sa.Timescale, vs.T, vAS.Timescale, tLo, tHi)
				break
			}
			if !wholeD || !c12InMS(d, dLo, dHi) {
				res.Violate("C12.mpd-mirrors-video", merge(f, core.Sig("kind", "entry-duration-differs", "off", c12Off(d, dLo, dHi))),
					"%s/%s at %d: %s entry %d d=%d/%d, video d=%d/%d = %d..%d ms", prefix, w.MPD, now, id, i, ss.D, sa.Timescale, vs.D, vAS.Timescale, dLo, dHi)
				break
			}
		}
	}
}

// ---------------------------------------------------------------------------------------
// (2) and (3): the cue schedule

type c12Want struct {
	S        int64 // UTC second
	Begin    int64 // UTC ms
	EndA     int64 // min(s*1000+cueDur, next begin, segEnd)
	EndB     int64 // min(begin+cueDur, next begin, segEnd)
	Optional bool
}

func c12Expected(utcStart, utcEnd, cueDur int64) []c12Want {
	var out []c12Want
	for s := utcStart / 1000; s*1000 < utcEnd; s++ {
		b := s * 1000
		if b < utcStart {
			b = utcStart
		}
		next := (s + 1) * 1000
		if next > utcEnd {
			next = utcEnd
		}
		ea := s*1000 + cueDur
		if ea > next {
			ea = next
		}
		eb := b + cueDur
		if eb > next {
			eb = next
		}
		out = append(out, c12Want{S: s, Begin: b, EndA: ea, EndB: eb, Optional: ea <= b})
	}
	return out
}

var c12MUP = regexp.MustCompile(` minimumUpdatePeriod="[^"]*"`)

var c12RFC3339 = regexp.MustCompile(`^\d{4}-\d\d-\d\dT\d\d:\d\d:\d\d(\.\d+)?(Z|[+-]\d\d:\d\d)$`)

func c12CheckCues(e *c12Env, fc map[string]string, cues []c12Cue, astMS, segStart, segEnd, cueDur int64,
	op c12Op, wantNr int64, url string, now int64) {
	res := e.res
	res.Count("probe.cue-checked")
	utcStart, utcEnd := astMS+segStart, astMS+segEnd
	wants := c12Expected(utcStart, utcEnd, cueDur)
	if len(wants) >= 2 {
		res.Count("probe.several-cues-in-segment")
	}
	if len(wants) == 1 && wants[0].Begin != wants[0].S*1000 && utcEnd < (wants[0].S+1)*1000 {
		res.Count("probe.segment-strictly-inside-one-second")
	}
	if utcStart%1000 != 0 {
		res.Count("probe.segment-starts-off-second")
	}
	if utcEnd%1000 != 0 {
		res.Count("probe.segment-ends-off-second")
	}
	for _, wt := range wants {
		if wt.Optional {
			res.Count("probe.cue-already-over-at-segment-start")
		}
		if wt.EndA == utcEnd && wt.S*1000+cueDur > utcEnd {
			res.Count("probe.cue-clipped-at-segment-end")
		}
		if cueDur > 1000 {
			res.Count("probe.cue-clipped-by-next-cue")
		}
		if wt.Begin != wt.S*1000 && !wt.Optional && wt.EndA != wt.EndB {
			res.Count("probe.first-cue-two-readings")
		}
	}
	desc := func() string {
		var p []string
		for _, c := range cues {
			p = append(p, fmt.Sprintf("[%d,%d)%q", c.Begin+astMS, c.End+astMS, c.Text))
		}
		var q []string
		for _, wt := range wants {
			if wt.Optional {
				q = append(q, fmt.Sprintf("(none | [%d,%d))", wt.Begin, wt.EndB))
				continue
			}
			q = append(q, fmt.Sprintf("[%d,%d)", wt.Begin, wt.EndA))
		}
		return fmt.Sprintf("%s at nowMS=%d: segment UTC [%d,%d) cueDur %d: observed (UTC ms) %s; expected %s",
			url, now, utcStart, utcEnd, cueDur, strings.Join(p, " "), strings.Join(q, " "))
	}
	// (3) structure of the observed cues
	for i, c := range cues {
		kind := ""
		switch {
		case c.End < c.Begin:
			kind = "end-before-begin"
		case c.Begin < segStart:
			kind = "begins-before-segment"
		case c.End > segEnd:
			kind = "ends-after-segment"
		case i > 0 && c.Begin < cues[i-1].Begin:
			kind = "not-ordered"
		case i > 0 && c.Begin < cues[i-1].End:
			kind = "overlap"
		}
		if kind != "" {
			res.Violate("C12.cues-ordered-inside", merge(fc, core.Sig("kind", kind, "cue", c12Pos(i))), "cue %d: %s", i, desc())
			// structurally broken cues cannot be paired with the schedule in a meaningful way
			return
		}
	}
	// (2) schedule: pair observed with expected
	j := 0
	for wi, wt := range wants {
		pos := c12Pos(wi)
		if j < len(cues) && cues[j].Begin+astMS == wt.Begin {
			c := cues[j]
			j++
			end := c.End + astMS
			if end != wt.EndA && end != wt.EndB {
				sub := "other"
				switch {
				case end < wt.Begin:
					sub = "before-begin"
				case end > utcEnd:
					sub = "beyond-segment-end"
				case end > (wt.S+1)*1000:
					sub = "beyond-next-cue"
				case end > wt.EndA && end > wt.EndB:
					sub = "too-long"
				case end < wt.EndA && end < wt.EndB:
					sub = "too-short"
				}
				res.Violate("C12.cue-schedule", merge(fc, core.Sig("kind", "cue-end-wrong", "how", sub, "cue", pos)),
					"cue for UTC second %d: end %d, want %d (or %d): %s", wt.S, end, wt.EndA, wt.EndB, desc())
				return
			}
			if what := c12TextWrong(c.Text, wt.S, op.Lang, wantNr); what != "" {
				res.Violate("C12.cue-schedule", merge(fc, core.Sig("kind", "cue-text-wrong", "what", what, "cue", pos)),
					"cue for UTC second %d (%s), lang %s, number %d has text %q: %s", wt.S,
					time.Unix(wt.S, 0).UTC().Format(time.RFC3339), op.Lang, wantNr, c.Text, desc())
				return
			}
			continue
		}
		if wt.Optional {
			continue
		}
		kind := "cue-missing"
		if j < len(cues) && cues[j].Begin+astMS < (wt.S+1)*1000 && cues[j].Begin+astMS > wt.Begin {
			kind = "cue-begin-wrong"
		} else if j < len(cues) && cues[j].Begin+astMS < wt.Begin {
			kind = "cue-extra"
		}
		res.Violate("C12.cue-schedule", merge(fc, core.Sig("kind", kind, "cue", pos)), "UTC second %d: %s", wt.S, desc())
		return
	}
	if j < len(cues) {
		res.Violate("C12.cue-schedule", merge(fc, core.Sig("kind", "cue-extra", "cue", "after-last")), "%d cues beyond the expected ones: %s", len(cues)-j, desc())
	}
}

func c12Pos(i int) string {
	if i == 0 {
		return "first"
	}
	return "later"
}

// c12TextWrong checks that the text shows exactly UTC second s, the language and the number.
func c12TextWrong(text string, s int64, lang string, nr int64) string {
	want := time.Unix(s, 0).UTC().Format(time.RFC3339)
	fields := strings.Fields(text)
	nUTC, hasLang, hasNr := 0, false, false
	for _, fld := range fields {
		switch {
		case fld == want:
			nUTC++
		case c12RFC3339.MatchString(fld):
			return "utc-second"
		case fld == lang:
			hasLang = true
		case fld == strconv.FormatInt(nr, 10):
			hasNr = true
		}
	}
	// language and number may coincide textually only if lang is numeric, which is never generated
	switch {
	case nUTC != 1:
		return "utc-second"
	case !hasLang:
		return "language"
	case !hasNr:
		return "segment-number"
	}
	return ""
}

// ---------------------------------------------------------------------------------------
// region twin: the same segment under timesubsreg_0 and timesubsreg_1

func c12RegTwin(e *c12Env, op c12Op) {
	o0 := c12Observe(e, op, 0, false)
	o1 := c12Observe(e, op, 1, false)
	if o0 == nil || o1 == nil {
		return
	}
	f := core.Sig("content", "gen-"+op.Fmt)
	same := len(o0.Cues) == len(o1.Cues) && o0.Tfdt == o1.Tfdt && o0.Dur == o1.Dur
	if same {
		for i := range o0.Cues {
			a, b := o0.Cues[i], o1.Cues[i]
			if a.Begin != b.Begin || a.End != b.End || a.Text != b.Text {
				same = false
			}
		}
	}
	if !same {
		e.res.Violate("C12.region", merge(f, core.Sig("kind", "region-changes-cues")), "n=%d %s-%s: cues differ between region 0 and 1", op.N, op.Fmt, op.Lang)
	}
	if len(o0.Cues) > 0 && o0.Region == o1.Region {
		e.res.Violate("C12.region", merge(f, core.Sig("kind", "region-without-effect")), "n=%d %s-%s: region 0 -> %q, region 1 -> %q", op.N, op.Fmt, op.Lang, o0.Region, o1.Region)
	}
	e.res.Count("probe.region-twin-compared")
}

// ---------------------------------------------------------------------------------------
// parsers (harness side)

type c12TTML struct {
	Lang       string
	Regions    map[string]bool
	DivRegions []string
	Cues       []c12Cue
	bad        string
}

var c12ClockTime = regexp.MustCompile(`^(\d{2,}):(\d\d):(\d\d)\.(\d{3})$`)

func c12ParseClock(s string) (int64, bool) {
	m := c12ClockTime.FindStringSubmatch(s)
	if m == nil {
		return 0, false
	}
	h, _ := strconv.ParseInt(m[1], 10, 64)
	mi, _ := strconv.ParseInt(m[2], 10, 64)
	se, _ := strconv.ParseInt(m[3], 10, 64)
	ms, _ := strconv.ParseInt(m[4], 10, 64)
	if mi > 59 || se > 59 {
		return 0, false
	}
	return ((h*60+mi)*60+se)*1000 + ms, true
}

func c12Attr(se xml.StartElement, local string) (string, bool) {
	for _, a := range se.Attr {
		if a.Name.Local == local {
			return a.Value, true
		}
	}
	return "", false
}

func c12ParseTTML(data []byte) (c12TTML, error) {
	doc := c12TTML{Regions: map[string]bool{}}
	dec := xml.NewDecoder(strings.NewReader(string(data)))
	var stack []string
	var cur *c12Cue
	var text strings.Builder
	for {
		tok, err := dec.Token()
		if err != nil {
			if err.Error() == "EOF" {
				break
			}
			doc.bad = "xml"
			return doc, fmt.Errorf("TTML: %v", err)
		}
		switch t := tok.(type) {
		case xml.StartElement:
			name := t.Name.Local
			stack = append(stack, name)
			switch name {
			case "tt":
				doc.Lang, _ = c12Attr(t, "lang")
			case "region":
				if id, ok := c12Attr(t, "id"); ok && len(stack) >= 2 && stack[len(stack)-2] == "layout" {
					doc.Regions[id] = true
				}
			case "div":
				r, _ := c12Attr(t, "region")
				doc.DivRegions = append(doc.DivRegions, r)
			case "p":
				b, _ := c12Attr(t, "begin")
				en, _ := c12Attr(t, "end")
				bm, ok1 := c12ParseClock(b)
				em, ok2 := c12ParseClock(en)
				if !ok1 || !ok2 {
					doc.bad = "clock-time"
					return doc, fmt.Errorf("TTML: p begin=%q end=%q is not hh:mm:ss.mmm", b, en)
				}
				cur = &c12Cue{Begin: bm, End: em}
				if len(doc.DivRegions) > 0 {
					cur.Region = doc.DivRegions[len(doc.DivRegions)-1]
				}
				text.Reset()
			case "br":
				if cur != nil {
					text.WriteString("\n")
				}
			}
		case xml.EndElement:
			if len(stack) > 0 {
				stack = stack[:len(stack)-1]
			}
			if t.Name.Local == "p" && cur != nil {
				cur.Text = text.String()
				doc.Cues = append(doc.Cues, *cur)
				cur = nil
			}
		case xml.CharData:
			if cur != nil {
				text.Write(t)
			}
		}
	}
	if doc.Lang == "" && len(doc.Regions) == 0 {
		doc.bad = "not-ttml"
		return doc, fmt.Errorf("TTML: no tt element")
	}
	return doc, nil
}

type c12Box struct {
	typ  string
	body []byte
}

func c12Boxes(data []byte) ([]c12Box, error) {
	var out []c12Box
	pos := 0
	for pos < len(data) {
		if pos+8 > len(data) {
			return out, fmt.Errorf("truncated box header at %d", pos)
		}
		size := int(binary.BigEndian.Uint32(data[pos:]))
		if size < 8 || pos+size > len(data) {
			return out, fmt.Errorf("bad box size %d at %d", size, pos)
		}
		out = append(out, c12Box{typ: string(data[pos+4 : pos+8]), body: data[pos+8 : pos+size]})
		pos += size
	}
	return out, nil
}

// ShrinkCandidates proposes simpler worlds: only the languages the remaining ops use, no tsbd, no snr,
// no explicit region. The shrinker keeps a candidate only if it reproduces the same violation key.
func (C12) ShrinkCandidates(sc *core.Scenario) []*core.Scenario {
	w, err := core.DecodeWorld[c12World](sc)
	if err != nil {
		return nil
	}
	ops, err := core.DecodeOps[c12Op](sc)
	if err != nil {
		return nil
	}
	var out []*core.Scenario
	add := func(nw c12World) {
		c := sc.Clone()
		c.World = core.MustJSON(nw)
		out = append(out, c)
	}
	used := map[string]bool{}
	for _, op := range ops {
		used[op.Fmt+"-"+op.Lang] = true
	}
	keep := func(f string, ls []string) []string {
		var o []string
		for _, l := range ls {
			if used[f+"-"+l] {
				o = append(o, l)
			}
		}
		return o
	}
	if s, v := keep("stpp", w.Stpp), keep("wvtt", w.Wvtt); len(s) != len(w.Stpp) || len(v) != len(w.Wvtt) {
		nw := w
		nw.Stpp, nw.Wvtt = s, v
		add(nw)
	}
	if w.Cfg.Tsbd != nil {
		nw := w
		nw.Cfg.Tsbd = nil
		add(nw)
	}
	if w.Cfg.Snr != nil {
		nw := w
		nw.Cfg.Snr = nil
		add(nw)
	}
	if w.Region != -1 {
		nw := w
		nw.Region = -1
		add(nw)
	}
	for i := range ops {
		if ops[i].Dt != 0 {
			c := sc.Clone()
			no := ops[i]
			no.Dt = 0
			c.Ops[i] = core.MustJSON(no)
			out = append(out, c)
		}
	}
	return out
}

package props

import (
	"bytes"
	"fmt"
	"sort"
	"testing"

	"verif/sim/core"
	"verif/sim/hx"
)

// C05 — the MPD only moves forward, and publishTime identifies its content (engine T).

type c05World struct {
	Gen     *GenWorld `json:"gen,omitempty"` // generated VoD world instead of the bundled assets
	VodRoot string    `json:"vodroot"`
	Asset   string    `json:"asset"`
	MPD     string    `json:"mpd"`
	Cfg     URLCfg    `json:"cfg"`
}

type c05Op struct {
	T      int64 `json:"t"`
	Inst   int   `json:"inst,omitempty"`
	Bisect bool  `json:"bisect,omitempty"` // locate the most recent change instant before T by bisection
}

type C05 struct{}

func init() { core.Register(C05{}) }

func (C05) ID() string     { return "C05" }
func (C05) Engine() string { return "tlsim" }

func (C05) Gen(rng *core.Rng, tier string, idx int) *core.Scenario {
	label, gen, assetName, mpdName, a := pickMPDWorld(rng)
	ar := assetRef{Asset: assetName, MPD: mpdName}
	base := int64(1_600_000_000_000) + rng.Int63n(300_000_000_000)
	if rng.Chance(0.15) {
		base = rng.Int63n(3_000_000_000_000)
	}
	cfg := genTimelineCfg(rng, a, base)
	if cfg.Ato == "inf" {
		cfg.Ato = ""
	}
	if rng.Chance(0.2) {
		// periods whose duration is a multiple of the segment duration (others are rejected: C06)
		var ok []int
		ref := a.Ref()
		refSegMS := int64(float64(ref.TotalDur())*1000/float64(ref.Timescale*uint64(len(ref.Segs))) + 0.5)
		for _, n := range []int{1, 2, 3, 4, 5, 6, 10, 12, 15, 20, 30, 60, 120} {
			// the period must be a multiple of the reference (video) segment duration (C06), and of the
			// shortest average over all representations (what the server required before the C06 fix)
			if (3600_000/int64(n))%refSegMS == 0 && (3600_000/int64(n))%a.SegDurMS == 0 && a.ConstSegDur {
				ok = append(ok, n)
			}
		}
		if len(ok) > 0 {
			cfg.Periods = pint(core.Pick(rng, ok))
			cfg.StartS = nil // periods with a non-zero start time are C06's business
		}
	}
	span := int64(rng.Range(2, 12)) * a.SegDurMS
	if cfg.Periods != nil && rng.Bool() {
		// straddle a period boundary
		pd := 3600_000 / int64(*cfg.Periods)
		base = (base/pd+1)*pd - span/2
	}
	if rng.Chance(0.15) {
		st := base/1000 + int64(rng.Range(-5, 20))
		if st <= cfg.AST() { // a stop time before the start is hostile input (C08), not a configuration
			st = cfg.AST() + int64(rng.Range(1, 600))
		}
		cfg.StopS = p64(st)
	}
	if rng.Chance(0.15) { // UTCTiming variants: nothing in the MPD may depend on the request instant but through publishTime
		cfg.Extra = append(cfg.Extra, core.Pick(rng, []string{"utc_direct", "utc_direct-ntp", "utc_httpiso", "utc_head-sntp", "utc_none"}))
	}
	w := c05World{VodRoot: label, Gen: gen, Asset: ar.Asset, MPD: ar.MPD, Cfg: cfg}
	sc := core.NewScenario("C05", "tlsim", 0, tier, w)
	nOps := rng.Range(5, 12)
	if tier == "thorough" {
		nOps = rng.Range(8, 30)
	}
	ts := targetedInstants(rng, a, cfg, base, nOps/2)
	for len(ts) < nOps {
		ts = append(ts, base+rng.Int63n(span+1))
	}
	// a second player replays the same instants (shuffled): duplicates are intended
	if rng.Chance(0.3) {
		ts = append(ts, ts[:len(ts)/2]...)
	}
	rng.Shuffle(len(ts), func(i, j int) { ts[i], ts[j] = ts[j], ts[i] })
	nb := 0
	for _, t := range ts {
		op := c05Op{T: t}
		if rng.Chance(0.2) {
			op.Inst = 1
		}
		if nb < 2 && rng.Chance(0.3) {
			op.Bisect = true
			nb++
		}
		sc.AddOp(op)
	}
	return sc
}

type c05Obs struct {
	t       int64
	status  int
	body    []byte
	pub     int64
	hasPub  bool
	typ     string
	first   map[string]uint64 // per representation: media time (absolute, incl. period offsets) of first listed segment
	last    map[string]uint64
	mediaMS int64
	hasDur  bool
}

func c05Observe(r *hx.Resp, t int64) (*c05Obs, error) {
	o := &c05Obs{t: t, status: r.Status, body: r.Body, first: map[string]uint64{}, last: map[string]uint64{}}
	if r.Status != 200 {
		return o, nil
	}
	cm, err := ParseClientMPD(r.Body)
	if err != nil {
		return o, err
	}
	o.pub, o.hasPub, o.typ = cm.PublishMS, cm.HasPublish, cm.Type
	if cm.HasMediaDur {
		o.mediaMS, o.hasDur = int64(cm.MediaDurS*1000+0.5), true
	}
	for _, p := range cm.Periods {
		for _, ca := range p.Sets {
			if !ca.Timeline || len(ca.Segs) == 0 {
				continue
			}
			// absolute presentation time in the rep timescale: t - pto + periodStart*timescale
			abs := func(t uint64) uint64 { return t - ca.PTO + uint64(p.StartS*float64(ca.Timescale)+0.5) }
			f, l := abs(ca.Segs[0].T), abs(ca.Segs[len(ca.Segs)-1].T)
			if v, ok := o.first[ca.RepID]; !ok || f < v {
				o.first[ca.RepID] = f
			}
			if v, ok := o.last[ca.RepID]; !ok || l > v {
				o.last[ca.RepID] = l
			}
		}
	}
	return o, nil
}

func (C05) Run(t *testing.T, sc *core.Scenario, res *core.Result) {
	w, err := core.DecodeWorld[c05World](sc)
	if err != nil {
		panic(err)
	}
	ops, err := core.DecodeOps[c05Op](sc)
	if err != nil {
		panic(err)
	}
	root := vodRootOf(w.VodRoot)
	if w.Gen != nil {
		root = genRoot(*w.Gen)
	}
	a := refAssets(root)[w.Asset]
	if a == nil {
		panic("harness: unknown asset")
	}
	cfg := w.Cfg
	feat := merge(cfg.Features(a), assetTraits(a))
	if cfg.StopS != nil {
		feat["stop"] = "set"
	}
	url := cfg.Prefix(w.Asset) + "/" + w.MPD
	astMS := cfg.AST() * 1000
	get := func(tt int64, inst int) *hx.Resp {
		s := sharedSrv(root)
		if inst == 1 {
			s = altSrv(root)
		}
		return s.GetAt(url, tt)
	}
	var hist []*c05Obs
	for _, op := range ops {
		if op.T < astMS {
			continue
		}
		r := get(op.T, op.Inst)
		res.Count("op.mpd")
		if op.Inst == 1 {
			res.Count("fault.other-instance")
		}
		res.Event("mpd t=%d inst=%d -> %d %s", op.T, op.Inst, r.Status, hx.ShortHash(r.Body))
		if r.Panic != "" {
			res.Violate("C05.mpd-served", merge(feat, core.Sig("kind", "panic", "frame", r.PanicFrame)), "MPD at %d: panic %s", op.T, r.Panic)
			continue
		}
		if r.Status != 200 {
			res.Violate("C05.mpd-served", merge(feat, core.Sig("kind", "not-200", "status", fmt.Sprint(r.Status))), "MPD at %d: %d %q", op.T, r.Status, trunc(string(r.Body), 120))
			continue
		}
		o, err := c05Observe(r, op.T)
		if err != nil {
			res.Violate("C05.mpd-served", merge(feat, core.Sig("kind", "unparsable")), "MPD at %d: %v", op.T, err)
			continue
		}
		hist = append(hist, o)
		afterStop := cfg.StopS != nil && op.T > *cfg.StopS*1000
		if cfg.StopS != nil && op.T == *cfg.StopS*1000 && o.typ == "static" {
			// The statement leaves the type at the stop instant itself open. A static MPD there is treated as "after stop"
			// (its publishTime is the stop time, so the change instant is the stop instant).
			afterStop = true
		}
		if afterStop {
			res.Count("probe.after-stop")
			// (8) static with duration stop-start
			if o.typ != "static" {
				res.Violate("C05.static-after-stop", merge(feat, core.Sig("kind", "not-static")), "MPD at %d (stop %d): type %q", op.T, *cfg.StopS*1000, o.typ)
			} else if !o.hasDur || o.mediaMS != (*cfg.StopS-cfg.AST())*1000 {
				res.Violate("C05.static-after-stop", merge(feat, core.Sig("kind", "wrong-duration")),
					"static MPD: mediaPresentationDuration %d ms, expected %d ms", o.mediaMS, (*cfg.StopS-cfg.AST())*1000)
			}
		} else if o.typ != "dynamic" {
			res.Violate("C05.dynamic-before-stop", merge(feat, core.Sig("kind", "not-dynamic")), "MPD at %d: type %q", op.T, o.typ)
		}
		// (3) publishTime never later than the request instant
		if o.hasPub && o.pub > op.T {
			res.Violate("C05.publish-not-in-future", merge(feat, core.Sig("kind", "publish-after-now")),
				"MPD at %d has publishTime %d (+%d ms)", op.T, o.pub, o.pub-op.T)
		}
		if !o.hasPub && !afterStop {
			res.Violate("C05.publish-present", merge(feat, core.Sig("kind", "no-publishTime")), "dynamic MPD at %d without publishTime", op.T)
		}
		// (6) publishTime equals the instant of the most recent change (measured by bisection)
		if op.Bisect && o.hasPub && !afterStop {
			c, ok := c05Bisect(func(x int64) []byte { res.Count("op.mpd-bisect"); return get(x, 0).Body }, o.body, op.T, astMS, a.SegDurMS)
			if ok {
				res.Count("probe.bisected")
				d := o.pub - c
				if d < -1 || d > 1 {
					k := "publish-before-change"
					if d > 0 {
						k = "publish-after-change"
					}
					what := "stream-start"
					if c > astMS {
						if prev, err := c05Observe(get(c-1, 0), c-1); err == nil && prev.status == 200 {
							what = c05DiffKind(prev, o)
						}
					}
					res.Violate("C05.publish-is-change-instant", merge(feat, core.Sig("kind", k, "what", what)),
						"MPD at %d: content unchanged since %d, publishTime %d (%+d ms)", op.T, c, o.pub, d)
				}
			} else {
				res.Count("probe.bisect-no-change-found")
			}
		}
	}
	// history relations over all ordered pairs
	sort.SliceStable(hist, func(i, j int) bool { return hist[i].t < hist[j].t })
	number1 := (cfg.MPDType == "number" || cfg.MPDType == "") && cfg.Periods == nil
	for i := 0; i < len(hist); i++ {
		for j := i + 1; j < len(hist); j++ {
			x, y := hist[i], hist[j]
			same := bytes.Equal(x.body, y.body)
			res.Count("probe.pairs")
			if x.t == y.t {
				if !same {
					res.Violate("C05.same-instant-same-mpd", merge(feat, core.Sig("kind", "same-instant-differs")), "two MPDs for instant %d differ", x.t)
				}
				continue
			}
			// (4) publishTime non-decreasing
			if x.hasPub && y.hasPub && y.pub < x.pub {
				res.Violate("C05.publish-monotone", merge(feat, core.Sig("kind", "publish-decreases")),
					"publishTime %d at %d, then %d at %d", x.pub, x.t, y.pub, y.t)
			}
			// (5) publishTime identifies content
			if x.hasPub && y.hasPub {
				if x.pub == y.pub && !same {
					res.Violate("C05.publish-identifies-content", merge(feat, core.Sig("kind", "same-publish-different-mpd", "what", c05DiffKind(x, y), "types", x.typ+"-"+y.typ)),
						"MPDs at %d and %d differ but share publishTime %d", x.t, y.t, x.pub)
				}
				if x.pub != y.pub && same {
					res.Violate("C05.publish-identifies-content", merge(feat, core.Sig("kind", "same-mpd-different-publish")), "identical MPDs at %d and %d?!", x.t, y.t)
				}
			}
			// (1) first and last listed segment never move backwards
			for _, rep := range sortedKeys(x.last) {
				if yl, ok := y.last[rep]; ok && yl < x.last[rep] {
					res.Violate("C05.edge-monotone", merge(feat, core.Sig("kind", "last-moves-back")), "%s: last listed %d at %d, %d at %d", rep, x.last[rep], x.t, yl, y.t)
				}
				if yf, ok := y.first[rep]; ok && yf < x.first[rep] {
					res.Violate("C05.edge-monotone", merge(feat, core.Sig("kind", "first-moves-back")), "%s: first listed %d at %d, %d at %d", rep, x.first[rep], x.t, yf, y.t)
				}
			}
			// (7) plain $Number$, one period: the MPD does not change at all (before any stop time)
			stopMS := int64(1) << 62
			if cfg.StopS != nil {
				stopMS = *cfg.StopS * 1000
			}
			if number1 && y.t < stopMS && !same { // the type at the stop instant itself is left open
				res.Violate("C05.number-mpd-constant", merge(feat, core.Sig("kind", "number-mpd-changes")), "Number MPDs at %d and %d differ", x.t, y.t)
			}
			// (8) no further change after stop
			if x.t > stopMS && !same {
				res.Violate("C05.static-after-stop", merge(feat, core.Sig("kind", "changes-after-stop")), "MPDs at %d and %d (after stop %d) differ", x.t, y.t, stopMS)
			}
		}
	}
	if len(hist) > 0 {
		res.SimMS += hist[len(hist)-1].t - hist[0].t
	}
	res.Nontrivial = len(hist) >= 3
}

func c05DiffKind(x, y *c05Obs) string {
	firstMoved, lastMoved := false, false
	reps := map[string]bool{}
	for r := range x.first {
		reps[r] = true
	}
	for r := range y.first {
		reps[r] = true
	}
	for _, rep := range sortedKeys(reps) {
		_, inX := x.first[rep]
		_, inY := y.first[rep]
		switch {
		case inX && !inY: // everything listed before has left the window, nothing new listed
			firstMoved = true
		case !inX && inY:
			lastMoved = true
		default:
			if y.first[rep] != x.first[rep] {
				firstMoved = true
			}
			if y.last[rep] != x.last[rep] {
				lastMoved = true
			}
		}
	}
	switch {
	case firstMoved && !lastMoved:
		return "window-start-only"
	case lastMoved:
		return "edge"
	}
	return "other"
}

// c05Bisect finds the first instant c <= t such that MPD(x) == body for all sampled x in [c, t].
// It assumes piecewise-constant behaviour; ok=false if no differing MPD is found nearby.
func c05Bisect(get func(int64) []byte, body []byte, t, astMS, segMS int64) (int64, bool) {
	lo := int64(-1)
	for _, back := range []int64{segMS/2 + 1, segMS + 1, 2*segMS + 1, 4*segMS + 1, 16*segMS + 1} {
		x := t - back
		if x < astMS {
			x = astMS
		}
		if !bytes.Equal(get(x), body) {
			lo = x
			break
		}
		if x == astMS {
			return astMS, true // unchanged since the stream start
		}
	}
	if lo < 0 {
		return 0, false
	}
	hi := t // MPD(hi) == body, MPD(lo) != body
	for hi-lo > 1 {
		mid := lo + (hi-lo)/2
		if bytes.Equal(get(mid), body) {
			hi = mid
		} else {
			lo = mid
		}
	}
	return hi, true
}

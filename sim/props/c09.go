package props

import (
	"bytes"
	"context"
	"encoding/base64"
	"encoding/hex"
	"encoding/json"
	"fmt"
	"math/big"
	"net/http"
	"regexp"
	"strings"
	"testing"
	"testing/synctest"
	"time"

	"github.com/Eyevinn/mp4ff/bits"
	"github.com/Eyevinn/mp4ff/mp4"
	"github.com/go-chi/chi/v5/middleware"

	"verif/sim/core"
	"verif/sim/hx"
	"verif/sim/refmodel"
)

// C09 — low-latency chunked delivery is the same media, never delivered early (engine B).
//
// Every scenario runs in one testing/synctest bubble with a fresh real server inside it. A
// simulated player issues chunked requests (`ato_X/chunkdur_Y`) whose responses are written
// to a simulated ResponseWriter that time-stamps every Write and Flush with the bubble's fake
// clock. The oracle relates the chunked response to (a) the whole-segment response of the same
// configuration (twin), (b) the clock, through the DASH rule "a sample with presentation time t
// exists at AST + t", and (c) the availability time the MPD advertises.
//
// All time comparisons are done in exact rational arithmetic (math/big); the only tolerance is
// "< 1 ms" where the statement's quantities have millisecond resolution (nowMS).

// bubbleEpochS is where the fake clock of every synctest bubble starts (2000-01-01T00:00:00Z).
const bubbleEpochS = 946684800

type c09World struct {
	VodRoot string `json:"vodroot"`
	Asset   string `json:"asset"`
	MPD     string `json:"mpd"`
}

type c09Op struct {
	Rep      string `json:"rep"`
	MPDType  string `json:"mpdtype"` // number | timeline | timelinenr
	Ato      string `json:"ato"`     // decimal seconds, "" = none
	ChunkDur string `json:"chunkdur"`
	DRM      string `json:"drm,omitempty"` // "", cenc, cbcs
	Snr      *int   `json:"snr,omitempty"`
	Clock    string `json:"clock"` // nowms | fake
	StartS   int64  `json:"start"` // availabilityStartTime (s)
	// N: nowms clock: segment index counted from AST. fake clock: number of extra segments to skip
	// beyond the first one whose request instant is still in the future of the fake clock.
	N int64 `json:"n"`
	// Off is the request instant in ms relative to the first whole millisecond at which the
	// segment is available as advertised (AST + segment end - ato, rounded up).
	Off int64 `json:"off"`
	// CancelUS > 0: the client cancels the request this many microseconds (fake) after issuing it.
	CancelUS int64 `json:"cancel_us,omitempty"`
	// SlowUS > 0: a slow client: every Flush of the response takes this many microseconds (fake), so that further
	// chunks become due while the server is still delivering earlier ones.
	SlowUS int64 `json:"slow_us,omitempty"`
}

type C09 struct{}

func init() { core.Register(C09{}) }

func (C09) ID() string     { return "C09" }
func (C09) Engine() string { return "bubble" }

var c09Assets = []assetRef{
	{"testpic_2s", "Manifest.mpd"},
	{"testpic_2s", "Manifest.mpd"},
	{"testpic_6s", "Manifest.mpd"},
	{"testpic_8s", "Manifest.mpd"},
	{"WAVE/vectors/cfhd_sets/14.985_29.97_59.94/t1/2022-10-17", "stream_w_beeps.mpd"},
	{"WAVE/vectors/cfhd_sets/14.985_29.97_59.94/t1/2022-10-17", "stream_w_beeps.mpd"},
	{"WAVE/vectors/cfhd_sets/12.5_25_50/t3/2022-10-17", "stream.mpd"},
	{"bbb_hevc_ac3_8s", "manifest.mpd"},
}

// ---------------------------------------------------------------------------------------
// Generator

func c09FmtDec(ms int64, microsRem int64) string {
	// seconds with up to 6 decimals from ms + micros, trailing zeros trimmed
	us := ms*1000 + microsRem
	s := fmt.Sprintf("%d.%06d", us/1_000_000, us%1_000_000)
	s = strings.TrimRight(s, "0")
	s = strings.TrimSuffix(s, ".")
	if s == "" {
		s = "0"
	}
	return s
}

func (C09) Gen(rng *core.Rng, tier string, idx int) *core.Scenario {
	ar := core.Pick(rng, c09Assets)
	assets := refAssets(hx.BundledAssets)
	a := assets[ar.Asset]
	if a == nil {
		panic("harness: asset missing in reference scan: " + ar.Asset)
	}
	w := c09World{VodRoot: "bundled", Asset: ar.Asset, MPD: ar.MPD}
	sc := core.NewScenario("C09", "bubble", 0, tier, w)
	ref := a.Ref()
	var reps []string
	for _, as := range a.ASets[ar.MPD] {
		if as.ContentType == "video" || as.ContentType == "audio" {
			reps = append(reps, as.RepIDs...)
		}
	}
	for _, as := range a.ASets[ar.MPD] { // thumbnails: far fewer operations, checked against normal delivery only
		if as.ContentType == "image" && len(reps) > 0 && rng.Chance(0.5) {
			reps = append(reps, as.RepIDs[0])
		}
	}
	if len(reps) == 0 {
		panic("harness: no video/audio representation in " + ar.Asset + "/" + ar.MPD)
	}
	nOps := rng.Range(4, 9)
	if tier == "thorough" {
		nOps = rng.Range(8, 20)
	}
	for i := 0; i < nOps; i++ {
		op := c09Op{Rep: core.Pick(rng, reps)}
		rep := a.Reps[op.Rep]
		switch rng.Intn(10) {
		case 0, 1, 2:
			op.MPDType = "timeline"
		case 3:
			op.MPDType = "timelinenr"
		default:
			op.MPDType = "number"
		}
		// on-the-fly encryption is prepared for AVC and AAC only (C10 deals with the rest)
		if rng.Chance(0.3) && (strings.HasPrefix(rep.Codecs, "avc") || strings.HasPrefix(rep.Codecs, "mp4a")) {
			op.DRM = core.Pick(rng, []string{"cenc", "cbcs"})
		}
		if op.MPDType == "number" && rng.Chance(0.2) {
			op.Snr = pint(core.Pick(rng, []int{1, 7, 100}))
		}
		op.ChunkDur = core.Pick(rng, []string{"0.04", "0.1", "0.2", "0.25", "0.5", "1", "2", "0.333", "1000"})
		// nominal segment duration (video grid) in microseconds and sample duration of the rep
		segUS := int64(ref.Segs[0].Dur()) * 1_000_000 / int64(ref.Timescale)
		vFrameUS := int64(ref.FrameDur) * 1_000_000 / int64(ref.Timescale)
		if vFrameUS <= 0 {
			vFrameUS = 40_000
		}
		var atoUS int64
		switch rng.Intn(9) {
		case 0, 1: // k video samples short of a segment (k = 1: "one sample short")
			k := int64(core.Pick(rng, []int{1, 1, 2, 3, 5, 10, 15, 30}))
			atoUS = segUS - k*int64(ref.FrameDur)*1_000_000/int64(ref.Timescale)
		case 2: // k samples of the requested representation short of a segment
			k := int64(core.Pick(rng, []int{1, 2, 3, 7, 24, 47}))
			atoUS = segUS - k*int64(rep.FrameDur)*1_000_000/int64(rep.Timescale)
		case 3, 4: // a fraction of the segment
			atoUS = segUS * int64(core.Pick(rng, []int{5, 10, 25, 50, 75, 85, 90, 95})) / 100
		case 5: // chunk of a round duration
			atoUS = segUS - int64(core.Pick(rng, []int{100, 200, 250, 300, 400, 500, 700, 1000, 1500}))*1000
		case 6: // small fraction
			atoUS = int64(rng.Range(1, 50)) * 1000
		case 7: // arbitrary, millisecond resolution
			atoUS = int64(rng.Range(1, int(segUS/1000)-1)) * 1000
		default: // arbitrary, sub-millisecond digits
			atoUS = rng.Range64(1000, segUS-2000)
		}
		if atoUS >= segUS-1000 { // keep at least one whole millisecond of chunk
			atoUS = segUS - 1000 - int64(rng.Range(0, 40))*1000
		}
		if atoUS < 0 {
			atoUS = segUS / 2
		}
		if rng.Chance(0.04) {
			atoUS = 0 // chunked mode without an offset: one chunk, written at the segment's end
		}
		if atoUS > 0 {
			op.Ato = c09FmtDec(0, atoUS)
		}
		chunkMS := (segUS - atoUS) / 1000
		if chunkMS < 1 {
			chunkMS = 1
		}
		nChunks := segUS / 1000 / chunkMS
		segMS := segUS / 1000
		// request instant relative to the advertised availability time
		switch rng.Intn(20) {
		case 0, 1, 2:
			op.Off = 0
		case 3, 4:
			op.Off = -1
		case 5:
			op.Off = 1
		case 6, 7:
			op.Off = -int64(rng.Range(2, 3000))
		case 8, 9, 10, 11, 12: // around a chunk boundary
			j := int64(rng.Range(1, int(nChunks)))
			op.Off = j*chunkMS + int64(rng.Range(-1, 1))
		case 13, 14, 15: // somewhere inside the segment's remaining time
			op.Off = rng.Range64(0, atoUS/1000)
		case 16, 17: // around the segment's end
			op.Off = atoUS/1000 + int64(rng.Range(-1, 24))
		default: // after the end
			op.Off = atoUS/1000 + int64(rng.Range(1, 30000))
		}
		if rng.Chance(0.5) {
			op.Clock = "fake"
			switch rng.Intn(4) {
			case 0:
				op.StartS = bubbleEpochS
			case 1:
				op.StartS = bubbleEpochS - int64(rng.Range(1, 30))
			case 2:
				op.StartS = bubbleEpochS - a.LoopDurMS/1000*int64(rng.Range(1, 3)) - int64(rng.Range(0, 9))
			default:
				op.StartS = bubbleEpochS - int64(rng.Range(100, 100_000_000))
			}
			op.N = int64(core.Pick(rng, []int{0, 0, 0, 1, 2}))
		} else {
			op.Clock = "nowms"
			switch rng.Intn(4) {
			case 0:
				op.StartS = 0
			case 1:
				op.StartS = int64(rng.Range(1, 2_000_000_000))
			case 2:
				op.StartS = 1_600_000_000 + int64(rng.Range(0, 200_000_000))
			default:
				op.StartS = bubbleEpochS - int64(rng.Range(0, 1000))
			}
			switch rng.Intn(4) {
			case 0:
				op.N = int64(rng.Range(0, 3*len(ref.Segs)+1))
			case 1:
				op.N = int64(rng.Range(0, 200))
			case 2: // "today" when the stream started at the epoch
				op.N = (1_700_000_000_000 + rng.Int63n(100_000_000_000)) / segMS
			default:
				op.N = int64(rng.Range(0, 2_000_000))
			}
			if op.N > 2_000_000_000 {
				op.N = 2_000_000_000
			}
		}
		// fault: client goes away between two chunks
		if op.Off >= 0 && op.Off < atoUS/1000 && rng.Chance(0.3) {
			remain := atoUS/1000 - op.Off
			op.CancelUS = rng.Range64(0, remain)*1000 + 500
		}
		if op.CancelUS == 0 && rng.Chance(0.15) {
			op.SlowUS = core.Pick(rng, []int64{1_000, 20_000, 120_000, 300_000, 700_000})
		}
		sc.AddOp(op)
	}
	return sc
}

// ---------------------------------------------------------------------------------------
// Simulated response writer (engine B): time-stamps every Write / Flush with the fake clock.

type c09Stamp struct {
	At  time.Duration // fake time since the request was issued
	Off int           // body offset before the call
	N   int
}

type c09Writer struct {
	hdr     http.Header
	status  int
	body    []byte
	writes  []c09Stamp
	flushes []c09Stamp
	t0      time.Time
	slow    time.Duration // fault: time every Flush takes (slow client)
}

func (w *c09Writer) Header() http.Header { return w.hdr }
func (w *c09Writer) WriteHeader(s int) {
	if w.status == 0 {
		w.status = s
	}
}
func (w *c09Writer) Write(b []byte) (int, error) {
	if w.status == 0 {
		w.status = 200
	}
	w.writes = append(w.writes, c09Stamp{At: time.Since(w.t0), Off: len(w.body), N: len(b)})
	w.body = append(w.body, b...)
	return len(b), nil
}
func (w *c09Writer) Flush() {
	w.flushes = append(w.flushes, c09Stamp{At: time.Since(w.t0), Off: len(w.body)})
	if w.slow > 0 {
		time.Sleep(w.slow) // fake time: the bubble's clock moves on while the handler is held up
	}
}

// writeTimeOf returns the instant of the Write that delivered body offset off.
func (w *c09Writer) writeTimeOf(off int) time.Duration {
	for _, s := range w.writes {
		if off >= s.Off && off < s.Off+s.N {
			return s.At
		}
	}
	panic("harness: offset not covered by any write")
}

// flushTimeAfter returns the instant of the first Flush at or after body offset end
// (ok=false: never flushed before the handler returned).
func (w *c09Writer) flushTimeAfter(end int) (time.Duration, bool) {
	for _, s := range w.flushes {
		if s.Off >= end {
			return s.At, true
		}
	}
	return 0, false
}

type c09Served struct {
	w        *c09Writer
	returned bool
	retAt    time.Duration
	cancelAt time.Duration // -1: not cancelled
	fired    bool          // cancel happened while the handler was still running
	panicVal string
	panicFr  string
	done     chan time.Duration
}

// drain lets a handler that overran the guard run out (its sleeps cost nothing in the bubble):
// once the bubble's root goroutine exits, the fake clock stops and a sleeping handler would
// dead-lock the bubble.
func (s *c09Served) drain() {
	if s.returned {
		return
	}
	t := time.NewTimer(200 * 365 * 24 * time.Hour)
	defer t.Stop()
	select {
	case <-s.done:
	case <-t.C:
	}
}

type c09Panic struct {
	val, stack string
}

func (p *c09Panic) Write(status, bytes int, header http.Header, elapsed time.Duration, extra interface{}) {
}
func (p *c09Panic) Panic(v interface{}, stack []byte) { p.val = fmt.Sprint(v); p.stack = string(stack) }

// c09Serve issues one GET through the real router inside the bubble. cancelUS > 0 cancels the
// request context at that fake offset. The handler runs in its own goroutine of the bubble.
func c09Serve(srv *hx.Srv, target string, cancelUS, slowUS int64, maxWait time.Duration) *c09Served {
	ctx, cancel := context.WithCancel(context.Background())
	defer cancel()
	req, err := http.NewRequestWithContext(ctx, "GET", "http://sim.test"+target, nil)
	if err != nil {
		panic("harness: " + err.Error())
	}
	req.RequestURI = target
	req.RemoteAddr = "192.0.2.1:1234"
	pe := &c09Panic{}
	req = middleware.WithLogEntry(req, pe)
	w := &c09Writer{hdr: http.Header{}, t0: time.Now(), slow: time.Duration(slowUS) * time.Microsecond}
	done := make(chan time.Duration, 1)
	out := &c09Served{w: w, cancelAt: -1, done: done}
	go func() {
		defer func() {
			if r := recover(); r != nil {
				pe.Panic(r, nil)
			}
			done <- time.Since(w.t0)
		}()
		srv.S.Router.ServeHTTP(w, req)
	}()
	guard := time.NewTimer(maxWait)
	defer guard.Stop()
	if cancelUS > 0 {
		ct := time.NewTimer(time.Duration(cancelUS) * time.Microsecond)
		select {
		case d := <-done:
			ct.Stop()
			out.returned, out.retAt = true, d
		case <-ct.C:
			out.cancelAt = time.Since(w.t0)
			out.fired = true
			cancel()
		}
	}
	if !out.returned {
		select {
		case d := <-done:
			out.returned, out.retAt = true, d
		case <-guard.C:
		}
	}
	if pe.val != "" {
		out.panicVal = pe.val
		out.panicFr = hx.TopAppFrame(pe.stack)
	}
	return out
}

// ---------------------------------------------------------------------------------------
// Exact arithmetic helpers (milliseconds as rationals).

func c09Rat(num, den int64) *big.Rat { return new(big.Rat).SetFrac64(num, den) }

func c09DecRat(s string) *big.Rat {
	if s == "" {
		return new(big.Rat)
	}
	r, ok := new(big.Rat).SetString(s)
	if !ok {
		panic("harness: bad decimal " + s)
	}
	return r
}

// mediaMS returns t*1000/ts as a rational.
func c09MediaMS(t uint64, ts uint64) *big.Rat {
	r := new(big.Rat).SetFrac(new(big.Int).SetUint64(t), new(big.Int).SetUint64(ts))
	return r.Mul(r, c09Rat(1000, 1))
}

func c09Ceil(r *big.Rat) int64 {
	q, m := new(big.Int).DivMod(r.Num(), r.Denom(), new(big.Int))
	if m.Sign() != 0 {
		q.Add(q, big.NewInt(1))
	}
	return q.Int64()
}

func c09Add(a, b *big.Rat) *big.Rat { return new(big.Rat).Add(a, b) }
func c09Sub(a, b *big.Rat) *big.Rat { return new(big.Rat).Sub(a, b) }

func c09F(r *big.Rat) string { return r.FloatString(4) }

// ---------------------------------------------------------------------------------------
// Parsing of a (possibly encrypted, possibly partial) chunked body.

type c09Chunk struct {
	Start, End int // byte range in the body (styp included for the first)
	HasStyp    bool
	Seq        uint32
	Tfdt       uint64
	Dur        uint64
	MaxSample  uint32
	Samples    []hx.Sample
}

type c09Body struct {
	Boxes    []string
	Chunks   []c09Chunk
	StypIdx  []int // indices of styp boxes among the top-level boxes
	Brands   []string
	Problems string // structural anomaly (first one)
}

type c09Keys struct {
	di  *mp4.DecryptInfo
	key []byte
}

func c09ParseBody(data []byte, trex *mp4.TrexBox, keys *c09Keys) (*c09Body, error) {
	types, sizes, err := hx.TopBoxes(data)
	if err != nil {
		return nil, err
	}
	b := &c09Body{Boxes: types}
	// chunk byte ranges from the top-level box sequence: [styp] moof mdat
	pos := 0
	type rng struct {
		s, e    int
		hasStyp bool
	}
	var ranges []rng
	cur := -1
	pendingStyp := -1
	for i, typ := range types {
		switch typ {
		case "styp":
			b.StypIdx = append(b.StypIdx, i)
			pendingStyp = pos
		case "moof":
			r := rng{s: pos}
			if pendingStyp >= 0 {
				r.s = pendingStyp
				r.hasStyp = true
				pendingStyp = -1
			}
			ranges = append(ranges, r)
			cur = len(ranges) - 1
		case "mdat":
			if cur < 0 || ranges[cur].e != 0 {
				if b.Problems == "" {
					b.Problems = "mdat without preceding moof"
				}
			} else {
				ranges[cur].e = pos + sizes[i]
			}
		default:
			if b.Problems == "" {
				b.Problems = "unexpected top-level box " + typ
			}
		}
		pos += sizes[i]
	}
	for _, r := range ranges {
		if r.e == 0 && b.Problems == "" {
			b.Problems = "moof without mdat"
		}
	}
	f, err := mp4.DecodeFileSR(bits.NewFixedSliceReader(data))
	if err != nil {
		return nil, err
	}
	if err := c09FixSenc(f, data, keys); err != nil {
		return nil, err
	}
	var frags []*mp4.Fragment
	for si, ms := range f.Segments {
		if si == 0 && ms.Styp != nil {
			b.Brands = append([]string{ms.Styp.MajorBrand()}, ms.Styp.CompatibleBrands()...)
		}
		frags = append(frags, ms.Fragments...)
	}
	if len(frags) != len(ranges) {
		return nil, fmt.Errorf("%d fragments decoded but %d moof boxes at top level", len(frags), len(ranges))
	}
	for i, fr := range frags {
		if fr.Moof == nil || fr.Moof.Traf == nil || fr.Moof.Traf.Tfdt == nil || fr.Mdat == nil {
			return nil, fmt.Errorf("chunk %d: incomplete fragment", i)
		}
		if keys != nil {
			if err := c09Decrypt(fr, keys); err != nil {
				return nil, fmt.Errorf("chunk %d: decrypt: %w", i, err)
			}
		}
		fss, err := fr.GetFullSamples(trex)
		if err != nil {
			return nil, fmt.Errorf("chunk %d: GetFullSamples: %w", i, err)
		}
		c := c09Chunk{Start: ranges[i].s, End: ranges[i].e, HasStyp: ranges[i].hasStyp,
			Seq: fr.Moof.Mfhd.SequenceNumber, Tfdt: fr.Moof.Traf.Tfdt.BaseMediaDecodeTime()}
		for _, fs := range fss {
			c.Samples = append(c.Samples, hx.Sample{DecodeTime: fs.DecodeTime, Dur: fs.Dur, Size: fs.Size,
				Flags: fs.Flags, Cto: fs.CompositionTimeOffset, Data: fs.Data})
			c.Dur += uint64(fs.Dur)
			if fs.Dur > c.MaxSample {
				c.MaxSample = fs.Dur
			}
		}
		b.Chunks = append(b.Chunks, c)
	}
	return b, nil
}

// c09ParseWhole parses a whole-segment response (decrypting when keys are given).
func c09ParseWhole(data []byte, trex *mp4.TrexBox, keys *c09Keys) (samples []hx.Sample, seq uint32, tfdt uint64, dur uint64, hasStyp bool, brands []string, err error) {
	b, err := c09ParseBody(data, trex, keys)
	if err != nil {
		return nil, 0, 0, 0, false, nil, err
	}
	if len(b.Chunks) == 0 {
		return nil, 0, 0, 0, false, nil, fmt.Errorf("no fragments")
	}
	for _, c := range b.Chunks {
		samples = append(samples, c.Samples...)
		dur += c.Dur
	}
	return samples, b.Chunks[0].Seq, b.Chunks[0].Tfdt, dur, len(b.StypIdx) > 0 && b.StypIdx[0] == 0, b.Brands, nil
}

// ---------------------------------------------------------------------------------------
// Executor

var c09AtoRe = regexp.MustCompile(`availabilityTimeOffset="([^"]*)"`)

type c09Ctx struct {
	res    *core.Result
	srv    *hx.Srv
	a      *refmodel.Asset
	w      c09World
	mpds   map[string]*ClientMPD
	inits  map[string]*hx.Init
	rawIn  map[string][]byte
	keys   map[string][]byte
	epoch  time.Time
	paced  int
	faults int
}

func (C09) Run(t *testing.T, sc *core.Scenario, res *core.Result) {
	w, err := core.DecodeWorld[c09World](sc)
	if err != nil {
		panic(err)
	}
	ops, err := core.DecodeOps[c09Op](sc)
	if err != nil {
		panic(err)
	}
	root := vodRootOf(w.VodRoot)
	a := refAssets(root)[w.Asset]
	if a == nil {
		panic("harness: unknown asset " + w.Asset)
	}
	defer func() {
		// a handler goroutine that never returns leaves the bubble dead-locked at its end
		if r := recover(); r != nil {
			msg := fmt.Sprint(r)
			if strings.Contains(msg, "deadlock") {
				res.Violate("C09.handler-returns", core.Sig("kind", "bubble-deadlock"), "%s", msg)
				return
			}
			panic(r)
		}
	}()
	synctest.Test(t, func(t *testing.T) {
		srv, err := hx.NewSrv(hx.SrvOpts{VodRoot: root})
		if err != nil {
			panic(fmt.Sprintf("harness: cannot set up server: %v", err))
		}
		c := &c09Ctx{res: res, srv: srv, a: a, w: w, mpds: map[string]*ClientMPD{}, inits: map[string]*hx.Init{},
			rawIn: map[string][]byte{}, keys: map[string][]byte{}, epoch: time.Now()}
		if c.epoch.Unix() != bubbleEpochS {
			panic(fmt.Sprintf("harness: bubble clock starts at %v", c.epoch))
		}
		for i, op := range ops {
			c.runOp(i, op)
		}
		res.SimMS += time.Since(c.epoch).Milliseconds()
		res.Nontrivial = len(ops) >= 3 && (c.paced > 0 || c.faults > 0)
	})
}

func (op c09Op) urlCfg(chunked, drm bool) URLCfg {
	c := URLCfg{MPDType: op.MPDType, Snr: op.Snr, Ato: op.Ato}
	if op.StartS != 0 {
		c.StartS = p64(op.StartS)
	}
	if chunked {
		c.ChunkDur = op.ChunkDur
	}
	if drm && op.DRM != "" {
		c.Extra = []string{"eccp_" + op.DRM}
	}
	return c
}

func (c *c09Ctx) sig(op c09Op, content string, aligned string, kv ...string) map[string]string {
	drm := op.DRM
	if drm == "" {
		drm = "none"
	}
	mt := op.MPDType
	if mt == "" {
		mt = "number"
	}
	return merge(core.Sig("content", content, "mpdtype", mt, "drm", drm, "grid", aligned), core.Sig(kv...))
}

// fetchInit returns the parsed init segment served under prefix for rep (cached per run).
func (c *c09Ctx) fetchInit(prefix string, rep *refmodel.Rep, nowMS int64) (*hx.Init, []byte) {
	key := prefix + "|" + rep.ID
	if in, ok := c.inits[key]; ok {
		return in, c.rawIn[key]
	}
	r := c.srv.GetAt(prefix+"/"+rep.InitURI, nowMS)
	c.res.Count("op.init")
	var in *hx.Init
	if r.Status == 200 {
		if pi, err := hx.ParseInit(r.Body); err == nil && pi.Trex != nil {
			in = pi
		}
	}
	c.inits[key] = in
	c.rawIn[key] = r.Body
	return in, r.Body
}

// licence obtains the content key the way a ClearKey client does: POST the key id to the
// licence URL below the content prefix.
func (c *c09Ctx) licence(prefix string, kidHex string) []byte {
	ck := prefix + "|" + kidHex
	if k, ok := c.keys[ck]; ok {
		return k
	}
	kid, err := hex.DecodeString(kidHex)
	if err != nil || len(kid) != 16 {
		c.keys[ck] = nil
		return nil
	}
	body := fmt.Sprintf(`{"kids":["%s"],"type":"temporary"}`, base64.RawURLEncoding.EncodeToString(kid))
	r := c.srv.Do("POST", prefix+"/eccp.json", []byte(body), map[string]string{"Content-Type": "application/json"})
	c.res.Count("op.licence")
	var resp struct {
		Keys []struct {
			K   string `json:"k"`
			Kid string `json:"kid"`
		} `json:"keys"`
	}
	var key []byte
	if r.Status == 200 && json.Unmarshal(r.Body, &resp) == nil && len(resp.Keys) == 1 {
		if k, err := base64.RawURLEncoding.DecodeString(strings.TrimRight(resp.Keys[0].K, "=")); err == nil && len(k) == 16 {
			key = k
		}
	}
	c.keys[ck] = key
	return key
}

func (c *c09Ctx) keysFor(prefix string, rep *refmodel.Rep, nowMS int64) (*c09Keys, *mp4.TrexBox, string) {
	in, raw := c.fetchInit(prefix, rep, nowMS)
	if in == nil {
		return nil, nil, "encrypted init not served"
	}
	if in.KID == "" {
		return nil, nil, "init carries no key id"
	}
	key := c.licence(prefix, in.KID)
	if key == nil {
		return nil, nil, "licence request failed"
	}
	// DecryptInit rewrites the init in place: work on a private parse
	f, err := mp4.DecodeFileSR(bits.NewFixedSliceReader(raw))
	if err != nil || f.Init == nil {
		return nil, nil, "init unparsable"
	}
	di, err := mp4.DecryptInit(f.Init)
	if err != nil {
		return nil, nil, "DecryptInit: " + err.Error()
	}
	return &c09Keys{di: &di, key: key}, f.Init.Moov.Mvex.Trex, ""
}

// runImageOp: a thumbnail is not media that can be chunked; in low-latency mode it must be answered exactly as in
// normal mode at an instant at which it is available in both.
func (c *c09Ctx) runImageOp(i int, op c09Op, rep *refmodel.Rep) {
	res := c.res
	cfgC := op.urlCfg(true, false)
	cfgW := op.urlCfg(false, false)
	astMS := op.StartS * 1000
	tg, ok := modelTarget(c.a, cfgW, rep.ID, op.N)
	if !ok {
		return
	}
	at := astMS + (op.N+2)*c.a.SegDurMS + 10
	rw := c.srv.GetAt(cfgW.Prefix(c.w.Asset)+"/"+tg.URL, at)
	rc := c.srv.GetAt(cfgC.Prefix(c.w.Asset)+"/"+tg.URL, at)
	res.Count("op.thumbnail-request")
	res.Event("op%d thumb %s -> whole %d chunked-mode %d", i, tg.URL, rw.Status, rc.Status)
	if rw.Status != 200 {
		res.Count("probe.thumbnail-not-available")
		return
	}
	sig := core.Sig("content", "image", "kind", "thumbnail-differs-in-low-latency-mode", "status", fmt.Sprint(rc.Status))
	if rc.Panic != "" {
		res.Violate("C09.served", merge(sig, core.Sig("kind", "panic", "frame", rc.PanicFrame)), "%s: panic %s", tg.URL, rc.Panic)
		return
	}
	if rc.Status != 200 || !bytes.Equal(rc.Body, rw.Body) {
		res.Violate("C09.same-media", sig, "%s at %d: low-latency mode answers %d (%d bytes), normal mode 200 (%d bytes)", tg.URL, at, rc.Status, len(rc.Body), len(rw.Body))
	}
}

// c09FixSenc re-reads the senc boxes with the IV size of the init segment (see hx.ReparseSenc).
func c09FixSenc(f *mp4.File, raw []byte, keys *c09Keys) error {
	if keys == nil || keys.di == nil || len(keys.di.TrackInfos) == 0 {
		return nil
	}
	ti := keys.di.TrackInfos[0]
	if ti.Sinf == nil || ti.Sinf.Schi == nil || ti.Sinf.Schi.Tenc == nil {
		return nil
	}
	return hx.ReparseSenc(f, raw, ti.Sinf.Schi.Tenc.DefaultPerSampleIVSize)
}

// c09Decrypt decrypts one served fragment. Encryption data that does not fit the samples (e.g. a subsample
// pattern larger than the sample) makes the decryptor panic: that is a property of what was served.
func c09Decrypt(fr *mp4.Fragment, keys *c09Keys) (err error) {
	defer func() {
		if r := recover(); r != nil {
			err = fmt.Errorf("decryptor panicked on the served fragment: %v", r)
		}
	}()
	return mp4.DecryptFragment(fr, *keys.di, keys.key)
}

func (c *c09Ctx) runOp(i int, op c09Op) {
	res, a := c.res, c.a
	rep := a.Reps[op.Rep]
	ref := a.Ref()
	if rep != nil && ref != nil && rep.ContentType == "image" {
		c.runImageOp(i, op, rep)
		return
	}
	if rep == nil || ref == nil || (rep.ContentType != "video" && rep.ContentType != "audio") {
		return
	}
	// keep the fake clock on whole milliseconds between operations (a cancellation is scheduled at
	// a half millisecond so that it can never coincide with a write; a handler that returns right at
	// the cancellation leaves the clock there)
	if ns := time.Now().Nanosecond() % 1_000_000; ns != 0 {
		time.Sleep(time.Duration(1_000_000 - ns))
	}
	content := rep.ContentType
	cfgC := op.urlCfg(true, true)
	cfgW := op.urlCfg(false, true)
	cfgClear := op.urlCfg(false, false)
	prefixC, prefixW, prefixClear := cfgC.Prefix(c.w.Asset), cfgW.Prefix(c.w.Asset), cfgClear.Prefix(c.w.Asset)
	astMS := op.StartS * 1000
	ato := c09DecRat(op.Ato)
	atoMS := new(big.Rat).Mul(ato, c09Rat(1000, 1))
	res.Count("op.chunked-request")

	// ---- what the MPD advertises (client view) ----
	mpdNow := astMS + 3_600_000
	cm, ok := c.mpds[prefixC]
	if !ok {
		r := c.srv.GetAt(prefixC+"/"+c.w.MPD, mpdNow)
		res.Count("op.mpd")
		if r.Status == 200 {
			if m, err := ParseClientMPD(r.Body); err == nil {
				cm = m
			}
		}
		c.mpds[prefixC] = cm
		res.Event("op%d mpd %s -> %d", i, prefixC, r.Status)
	}
	if cm == nil || len(cm.Periods) != 1 {
		res.Count("probe.mpd-unavailable")
		return
	}
	var ca *ClientAS
	for k := range cm.Periods[0].Sets {
		if cm.Periods[0].Sets[k].RepID == rep.ID {
			ca = &cm.Periods[0].Sets[k]
		}
	}
	if ca == nil {
		res.Count("probe.mpd-unavailable")
		return
	}
	// grid: does the chunk duration the MPD leaves (segment - ato) fall on the sample grid?
	refSegDur := ref.Segs[0].Dur()
	chunkNom := c09Sub(c09MediaMS(refSegDur, ref.Timescale), atoMS) // ms
	grid := "unaligned"
	if rep.FrameDur > 0 {
		q := new(big.Rat).Quo(chunkNom, c09MediaMS(uint64(rep.FrameDur), rep.Timescale))
		if q.IsInt() {
			grid = "aligned"
		}
	}
	sig := func(kv ...string) map[string]string { return c.sig(op, content, grid, kv...) }

	// (0) low-latency signalling: the MPD advertises exactly the configured offset, incomplete availability
	advAto := new(big.Rat)
	nAdv := 0
	for _, m := range c09AtoRe.FindAllStringSubmatch(cm.Raw, -1) {
		v, ok := new(big.Rat).SetString(m[1])
		if !ok {
			res.Violate("C09.mpd-signalling", sig("kind", "ato-unparsable"), "availabilityTimeOffset=%q", m[1])
			return
		}
		if nAdv > 0 && v.Cmp(advAto) != 0 {
			res.Violate("C09.mpd-signalling", sig("kind", "ato-differs-between-sets"), "%s vs %s", c09F(v), c09F(advAto))
		}
		advAto = v
		nAdv++
	}
	if advAto.Cmp(ato) != 0 {
		res.Violate("C09.mpd-signalling", sig("kind", "ato-not-as-configured"), "MPD advertises availabilityTimeOffset %s, URL says ato_%s (%s)",
			c09F(advAto), op.Ato, prefixC)
	}
	if st := ca.AS.SegmentTemplate; st == nil || st.AvailabilityTimeComplete == nil || *st.AvailabilityTimeComplete {
		res.Violate("C09.mpd-signalling", sig("kind", "availabilityTimeComplete-not-false"), "%s", prefixC)
	}
	// the advertised offset is what the timing oracle uses from here on
	atoMS = new(big.Rat).Mul(advAto, c09Rat(1000, 1))
	mpdAST := c09Rat(cm.ASTms, 1)

	// ---- segment n, its advertised availability time ----
	segOf := func(n int64) (ls refmodel.LiveSeg, avail *big.Rat, endWall *big.Rat) {
		ls = a.Live(ref, n) // audio follows the reference (video) segment grid
		endWall = c09Add(mpdAST, c09MediaMS(ls.End, ref.Timescale))
		avail = c09Sub(endWall, atoMS)
		return
	}
	n := op.N
	if op.Clock == "fake" {
		// first segment whose request instant is not in the past of the fake clock, plus op.N
		nowMS := time.Now().UnixMilli()
		segMS := c09Ceil(c09MediaMS(refSegDur, ref.Timescale))
		est := (nowMS-cm.ASTms-op.Off)/segMS - int64(len(ref.Segs)) - 2
		if est < 0 {
			est = 0
		}
		for k := est; ; k++ {
			_, av, _ := segOf(k)
			if c09Ceil(av)+op.Off >= nowMS {
				n = k + op.N
				break
			}
			if k > est+int64(4*len(ref.Segs))+16 {
				panic("harness: cannot find a future segment")
			}
		}
	}
	if n < 0 {
		return
	}
	ls, avail, endWall := segOf(n)
	base := c09Ceil(avail)
	reqMS := base + op.Off
	if reqMS < 0 {
		return
	}
	if op.Clock == "fake" {
		d := time.Duration(reqMS-time.Now().UnixMilli()) * time.Millisecond
		if d < 0 {
			panic("harness: fake-clock request instant in the past")
		}
		time.Sleep(d)
		if time.Now().UnixMilli() != reqMS {
			panic("harness: fake clock not at request instant")
		}
		res.Count("probe.clock-fake")
	} else {
		res.Count("probe.clock-nowms")
	}
	if ls.Wrap > 0 {
		res.Count("probe.loop-wrapped")
	}
	// URL of the segment as a client forms it from the MPD template
	urlOf := func(k int64) (string, int64) {
		nr := cfgC.StartNr() + k
		l := a.Live(ref, k)
		var mt uint64
		if rep.ContentType == "audio" {
			mt = refmodel.AudioGrid(l.Start, ref.Timescale, rep.Timescale, uint64(rep.FrameDur))
		} else {
			mt = a.Live(rep, k).Start
		}
		return fillTemplate(ca.Media, rep.ID, nr, mt), nr
	}
	segURL, number := urlOf(n)
	if number > 4_000_000_000 {
		return
	}
	target := prefixC + "/" + segURL
	if op.Clock == "nowms" {
		target += fmt.Sprintf("?nowMS=%d", reqMS)
	}

	// ---- the chunked request ----
	segDurMS := c09Ceil(c09MediaMS(refSegDur, ref.Timescale))
	maxWait := time.Duration(3*segDurMS+60_000) * time.Millisecond
	if op.SlowUS > 0 {
		maxWait += 400 * time.Duration(op.SlowUS) * time.Microsecond
		res.Count("fault.slow-client")
	}
	sv := c09Serve(c.srv, target, op.CancelUS, op.SlowUS, maxWait)
	wr := sv.w
	res.Event("op%d %s t=%d off=%d -> %d bytes=%d writes=%d ret=%v cancel=%v", i, target, reqMS, op.Off, wr.status, len(wr.body),
		len(wr.writes), sv.retAt, sv.cancelAt)
	if !sv.returned {
		res.Violate("C09.handler-returns", sig("kind", "no-return", "cancelled", fmt.Sprint(sv.fired)),
			"%s at %d: handler still running %v (fake) after the request", target, reqMS, maxWait)
		sv.drain()
		return
	}
	if sv.panicVal != "" {
		// does whole-segment mode of the same configuration crash alike? then it is not about chunking
		tw := c.srv.GetAt(prefixW+"/"+segURL, reqMS)
		res.Count("op.twin-same-instant")
		if tw.Panic != "" && tw.PanicFrame == sv.panicFr {
			res.Count("probe.panic-in-both-modes")
			return
		}
		res.Violate("C09.served", sig("kind", "panic", "frame", sv.panicFr), "%s at %d: panic %s (whole-segment mode: status %d, panic %q)",
			target, reqMS, sv.panicVal, tw.Status, tw.Panic)
		return
	}
	if sv.fired {
		res.Count("fault.client-cancel")
		c.faults++
		if wr.status == 0 && len(wr.body) == 0 && len(wr.flushes) == 0 {
			// the client went away before anything was due: the handler may leave silently
			res.Count("probe.cancel-before-first-chunk")
			if sv.retAt > sv.cancelAt+time.Duration(segDurMS)*time.Millisecond {
				res.Violate("C09.handler-returns", sig("kind", "late-return-after-cancel"),
					"%s: cancelled at +%v, returned at +%v", target, sv.cancelAt, sv.retAt)
			}
			return
		}
	}
	// server wall clock (ms, rational) at fake offset d after the request
	wallAt := func(d time.Duration) *big.Rat {
		return c09Add(c09Rat(reqMS, 1), c09Rat(int64(d), int64(time.Millisecond)))
	}

	before := c09Rat(reqMS, 1).Cmp(avail) < 0
	// The statement's instants have millisecond resolution. A request that misses the advertised
	// instant by less than 2 microseconds without hitting it (possible only when that instant is
	// not a whole millisecond) is not claimed either way.
	if gap := c09Sub(c09Rat(reqMS, 1), avail); gap.Sign() != 0 && new(big.Rat).Abs(gap).Cmp(c09Rat(2, 1000)) < 0 {
		res.Count("probe.request-within-2us-of-avail")
		return
	}
	// twin at the same instant: whole-segment mode, same configuration
	sameInstant := func() int {
		r := c.srv.GetAt(prefixW+"/"+segURL, reqMS)
		res.Count("op.twin-same-instant")
		return r.Status
	}

	// (5) before the advertised availability time: 425, nothing else, at once
	if before {
		res.Count("probe.request-before-avail")
		if op.Off == -1 {
			res.Count("probe.request-1ms-before-avail")
		}
		if wr.status != 425 {
			res.Violate("C09.too-early-refused", sig("kind", "early-request-not-425", "status", fmt.Sprint(wr.status)),
				"%s at %d, advertised availability %s ms (AST %d + end %s - ato %s): status %d, %d bytes", target, reqMS, c09F(avail),
				cm.ASTms, c09F(c09MediaMS(ls.End, ref.Timescale)), c09F(atoMS), wr.status, len(wr.body))
		} else {
			if bytes.Contains(wr.body, []byte("moof")) || bytes.Contains(wr.body, []byte("mdat")) || len(wr.flushes) > 0 {
				res.Violate("C09.too-early-refused", sig("kind", "media-with-425"), "%s at %d: %d bytes with media boxes", target, reqMS, len(wr.body))
			}
			if sv.retAt != 0 {
				res.Violate("C09.too-early-refused", sig("kind", "425-delayed"), "%s at %d: refused after %v", target, reqMS, sv.retAt)
			}
		}
		if wr.status != 200 {
			return
		}
		// fall through: a 200 body before availability is examined by the never-early check as well
	}
	if !before {
		if op.Off == 0 {
			res.Count("probe.request-at-avail")
		}
		if wr.status != 200 {
			ts := sameInstant()
			res.Event("op%d twin-same-instant -> %d", i, ts)
			if atExact := c09Rat(reqMS, 1).Cmp(avail) == 0; atExact && wr.status == 425 {
				// the statement's own case: "a request made at the advertised availability time can be
				// answered at once". Is it served one millisecond later (boundary effect) or not at all?
				later := c.srv.GetAt(prefixW+"/"+segURL, reqMS+1).Status
				// control group: is every request at an advertised instant refused (a boundary defect), or
				// only this one (a rounding accident)? Same representation and offset, stream started at
				// the epoch, three early segments, each asked for exactly at its advertised instant.
				ctl := op
				ctl.StartS = 0
				prefixCtl := ctl.urlCfg(false, true).Prefix(c.w.Asset)
				tested, refused := 0, 0
				for _, k := range []int64{1, 3, 6} {
					av := c09Sub(c09MediaMS(a.Live(ref, k).End, ref.Timescale), atoMS)
					if !av.IsInt() || av.Sign() < 0 {
						continue
					}
					u, _ := urlOf(k)
					tested++
					if c.srv.GetAt(prefixCtl+"/"+u, av.Num().Int64()).Status == 425 {
						refused++
					}
				}
				systematic := "unknown"
				if tested > 0 {
					systematic = fmt.Sprint(refused == tested)
				}
				res.Violate("C09.available-served", core.Sig("kind", "refused-at-advertised-time", "status", "425",
					"whole", fmt.Sprint(ts), "one-ms-later", fmt.Sprint(later), "systematic", systematic),
					"%s at %d = advertised availability time exactly (AST %d ms + segment end %s ms - ato %s ms): status 425 %q; whole-segment mode at the same instant: %d, at +1 ms: %d; control requests at their advertised instants refused: %d of %d",
					target, reqMS, cm.ASTms, c09F(c09MediaMS(ls.End, ref.Timescale)), c09F(atoMS), trunc(string(wr.body), 40), ts, later, refused, tested)
				return
			}
			if ts == wr.status {
				// whole-segment mode answers alike: not a matter of chunked delivery (C02/C04 territory)
				res.Count("probe.unavailable-in-both-modes")
				return
			}
			kind := "refused-after-avail"
			res.Violate("C09.available-served", sig("kind", kind, "status", fmt.Sprint(wr.status), "whole", fmt.Sprint(ts)),
				"%s at %d (advertised availability %s ms): status %d %q, whole-segment mode gives %d", target, reqMS, c09F(avail), wr.status,
				trunc(string(wr.body), 60), ts)
			return
		}
	}

	// ---- twin: whole segment at an instant where it is complete ----
	twinNow := c09Ceil(endWall) + 100
	if twinNow < reqMS {
		twinNow = reqMS
	}
	tw := c.srv.GetAt(prefixClear+"/"+segURL, twinNow)
	res.Count("op.twin")
	if tw.Status != 200 {
		res.Count("probe.twin-unavailable")
		res.Event("op%d twin %d", i, tw.Status)
		return
	}
	inClear, _ := c.fetchInit(prefixClear, rep, twinNow)
	if inClear == nil {
		res.Count("probe.twin-unavailable")
		return
	}
	tSamples, tSeq, tTfdt, tDur, tStyp, tBrands, err := c09ParseWhole(tw.Body, inClear.Trex, nil)
	if err != nil {
		res.Count("probe.twin-unavailable")
		res.Event("op%d twin unparsable", i)
		return
	}
	ts := uint64(inClear.Timescale)
	var keys *c09Keys
	trex := inClear.Trex
	if op.DRM != "" {
		var why string
		keys, trex, why = c.keysFor(prefixC, rep, twinNow)
		if keys == nil {
			res.Count("probe.drm-setup-failed")
			res.Event("op%d drm setup: %s", i, why)
			return
		}
		res.Count("probe.drm-" + op.DRM)
	}

	// ---- split what was written before / after the cancellation ----
	body := wr.body
	if sv.fired {
		cut := len(body)
		for _, s := range wr.writes {
			if s.At > sv.cancelAt {
				cut = s.Off
				break
			}
		}
		after := body[cut:]
		body = body[:cut]
		lateFlush := false
		for _, s := range wr.flushes {
			if s.At > sv.cancelAt {
				lateFlush = true
			}
		}
		// (6) after cancellation no further bytes are written
		if len(after) > 0 || lateFlush {
			types, sizes, _ := hx.TopBoxes(after)
			mediaBytes := 0
			for _, sz := range sizes {
				mediaBytes += sz
			}
			if mediaBytes > 0 || (lateFlush && len(after) == 0) {
				res.Violate("C09.cancel-stops-writes", core.Sig("kind", "media-chunk-after-cancel"),
					"%s at %d: client cancelled at +%v, then %d bytes of boxes %v written (last write at +%v)", target, reqMS, sv.cancelAt,
					mediaBytes, types, wr.writes[len(wr.writes)-1].At)
			}
			if tail := after[mediaBytes:]; len(tail) > 0 {
				res.Violate("C09.cancel-stops-writes", core.Sig("kind", "text-after-cancel"),
					"%s at %d: client cancelled at +%v, then %q written", target, reqMS, sv.cancelAt, trunc(string(tail), 40))
			}
		}
		// bounded return: no later than one nominal segment after the cancellation
		if sv.retAt > sv.cancelAt+time.Duration(segDurMS)*time.Millisecond {
			res.Violate("C09.handler-returns", sig("kind", "late-return-after-cancel"),
				"%s: cancelled at +%v, returned at +%v", target, sv.cancelAt, sv.retAt)
		}
		if len(body) == 0 {
			res.Count("probe.cancel-before-first-chunk")
			return
		}
	} else if sv.fired == false && op.CancelUS > 0 {
		res.Count("probe.cancel-after-completion")
	}
	// an error text appended to a started response (status is already 200) makes the body unparsable
	body = c09StripTrailingText(body, sv.fired)

	cb, err := c09ParseBody(body, trex, keys)
	if err != nil {
		extra := ""
		if op.DRM != "" {
			// is whole-segment mode with the same DRM configuration decryptable?
			wd := c.srv.GetAt(prefixW+"/"+segURL, twinNow)
			if wd.Status == 200 {
				k2, trex2, _ := c.keysFor(prefixC, rep, twinNow)
				if k2 != nil {
					if _, _, _, _, _, _, e2 := c09ParseWhole(wd.Body, trex2, k2); e2 != nil {
						extra = "whole-drm-also-fails"
					} else {
						extra = "whole-drm-ok"
					}
				}
			}
		}
		res.Violate("C09.same-media", sig("kind", "chunked-body-unparsable", "whole", extra),
			"%s at %d: %v (%d bytes)", target, reqMS, err, len(body))
		return
	}
	res.Add("probe.chunks", len(cb.Chunks))
	if len(cb.Chunks) == 0 {
		res.Violate("C09.same-media", sig("kind", "no-chunks"), "%s at %d: 200 with %d bytes and no fragment", target, reqMS, len(body))
		return
	}

	// (2) structure: styp first and only there; number; order and contiguity
	if cb.Problems != "" {
		res.Violate("C09.chunk-structure", sig("kind", "box-sequence"), "%s: %s (boxes %v)", target, cb.Problems, trunc(fmt.Sprint(cb.Boxes), 120))
	}
	if tStyp {
		switch {
		case len(cb.StypIdx) == 0:
			res.Violate("C09.chunk-structure", sig("kind", "styp-missing"), "%s: no styp (boxes %v)", target, trunc(fmt.Sprint(cb.Boxes), 80))
		case cb.StypIdx[0] != 0:
			res.Violate("C09.chunk-structure", sig("kind", "styp-not-first"), "%s: boxes %v", target, trunc(fmt.Sprint(cb.Boxes), 80))
		case fmt.Sprint(cb.Brands) != fmt.Sprint(tBrands):
			res.Violate("C09.chunk-structure", sig("kind", "styp-brands-differ"), "%s: %v vs whole %v", target, cb.Brands, tBrands)
		}
	} else {
		res.Count("probe.twin-without-styp")
	}
	if len(cb.StypIdx) > 1 {
		res.Violate("C09.chunk-structure", sig("kind", "styp-repeated"), "%s: %d styp boxes in %d chunks", target, len(cb.StypIdx), len(cb.Chunks))
	}
	if cb.Chunks[0].Tfdt != tTfdt {
		res.Violate("C09.chunk-structure", sig("kind", "first-tfdt-differs"), "%s: first chunk tfdt %d, whole segment %d", target, cb.Chunks[0].Tfdt, tTfdt)
	}
	var total uint64
	for k, ch := range cb.Chunks {
		if ch.Seq != tSeq {
			res.Violate("C09.chunk-structure", sig("kind", "sequence-number"), "%s: chunk %d mfhd %d, whole segment %d", target, k, ch.Seq, tSeq)
			break
		}
	}
	if !ca.UsesTime && int64(tSeq) != number {
		res.Count("probe.number-differs-from-url")
	}
	for k, ch := range cb.Chunks {
		if k > 0 {
			prev := cb.Chunks[k-1]
			if ch.Tfdt != prev.Tfdt+prev.Dur {
				res.Violate("C09.chunk-structure", sig("kind", "not-contiguous", "dir", dir(int64(ch.Tfdt), int64(prev.Tfdt+prev.Dur))),
					"%s: chunk %d tfdt %d, previous chunk ends at %d", target, k, ch.Tfdt, prev.Tfdt+prev.Dur)
				break
			}
		}
		if len(ch.Samples) == 0 {
			res.Violate("C09.chunk-structure", sig("kind", "empty-chunk"), "%s: chunk %d has no samples", target, k)
		}
		total += ch.Dur
	}

	// (1) same samples as the whole segment
	var cs []hx.Sample
	for _, ch := range cb.Chunks {
		cs = append(cs, ch.Samples...)
	}
	want := tSamples
	if sv.fired {
		if len(cs) > len(want) {
			res.Violate("C09.same-media", sig("kind", "more-samples-than-whole"), "%s: %d samples, whole %d", target, len(cs), len(want))
			return
		}
		want = want[:len(cs)]
		res.Count("probe.partial-body-compared")
	}
	if msg := hx.SameSamples(want, cs, 0, true); msg != "" {
		kind := "samples-differ"
		switch {
		case strings.HasPrefix(msg, "sample count"):
			kind = "sample-count"
		case strings.Contains(msg, "payload"):
			kind = "payload"
		case strings.Contains(msg, "decode time"):
			kind = "decode-time"
		case strings.Contains(msg, "meta"):
			kind = "sample-meta"
		}
		res.Violate("C09.same-media", sig("kind", kind), "%s at %d vs whole segment at %d: %s", target, reqMS, twinNow, msg)
	} else {
		res.Count("probe.same-media-checked")
	}
	if !sv.fired && total != tDur {
		res.Violate("C09.same-media", sig("kind", "duration"), "%s: chunks cover %d, whole segment %d", target, total, tDur)
	}

	// (3) no chunk spans more than segment duration - ato, plus one sample (+ < 1 ms: the
	// configuration has millisecond resolution)
	for k, ch := range cb.Chunks {
		span := c09MediaMS(ch.Dur, ts)
		bound := c09Add(chunkNomFrom(ls, ref, atoMS), c09MediaMS(uint64(ch.MaxSample), ts))
		if c09Sub(span, bound).Cmp(c09Rat(1, 1)) >= 0 {
			res.Violate("C09.chunk-span", sig("kind", "chunk-too-long"),
				"%s: chunk %d spans %s ms; segment duration - ato = %s ms, one sample = %s ms", target, k, c09F(span),
				c09F(chunkNomFrom(ls, ref, atoMS)), c09F(c09MediaMS(uint64(ch.MaxSample), ts)))
			break
		}
	}
	if len(cb.Chunks) >= 2 {
		last := cb.Chunks[len(cb.Chunks)-1]
		if last.Dur < cb.Chunks[0].Dur && !sv.fired {
			res.Count("probe.partial-last-chunk")
		}
	}

	// (4) never early: server wall clock at the chunk's first byte >= AST + chunk end (within < 1 ms)
	pto := ca.PTO
	distinct := map[time.Duration]bool{}
	for k, ch := range cb.Chunks {
		at := wr.writeTimeOf(ch.Start)
		distinct[at] = true
		wall := wallAt(at)
		endMedia := ch.Tfdt + ch.Dur
		if endMedia < pto {
			continue
		}
		endW := c09Add(mpdAST, c09MediaMS(endMedia-pto, ts))
		// violation iff wall + 1 ms <= end
		if c09Add(wall, c09Rat(1, 1)).Cmp(endW) <= 0 {
			early := c09Sub(endW, wall)
			mag := "lt-one-chunk"
			if early.Cmp(c09MediaMS(ch.Dur, ts)) >= 0 {
				mag = "ge-one-chunk"
			}
			pos := "later"
			if k == 0 {
				pos = "first"
			}
			res.Violate("C09.never-early", sig("kind", "chunk-written-early", "by", mag, "chunk", pos),
				"%s at %d: chunk %d/%d (media %d..%d, timescale %d) ends at wall %s ms but its first byte is written at %s ms (%s ms early)",
				target, reqMS, k, len(cb.Chunks), ch.Tfdt, endMedia, ts, c09F(endW), c09F(wall), c09F(early))
			break
		}
		// lateness is not part of the statement: probes only
		if c09Sub(wall, endW).Cmp(c09Rat(1, 1)) > 0 && wall.Cmp(c09Rat(reqMS, 1)) > 0 {
			res.Count("probe.chunk-later-than-its-end")
			if k == len(cb.Chunks)-1 {
				res.Count("probe.last-chunk-later-than-its-end")
			}
		}
	}
	if len(distinct) >= 2 {
		res.Count("probe.paced-response")
		c.paced++
	} else if !sv.fired {
		res.Count("probe.all-at-once")
	}

	// "can be answered at once": the first chunk is flushed as soon as its end has been reached
	if !before {
		c0 := cb.Chunks[0]
		fl, flushed := wr.flushTimeAfter(c0.End)
		if !flushed {
			fl = sv.retAt
		}
		end0 := c09Add(mpdAST, c09MediaMS(c0.Tfdt+c0.Dur-pto, ts))
		allowed := c09Ceil(end0) - reqMS
		if allowed < 0 {
			allowed = 0
		}
		// Claimed only when the chunk's end had been reached when the request arrived (then "at once"
		// = zero fake delay). When its end lies after the request, the statement only forbids
		// writing it earlier; a later delivery is counted, not reported.
		if end0.Cmp(c09Rat(reqMS, 1)) <= 0 {
			res.Count("probe.first-chunk-due-at-request")
			if fl != 0 {
				cause := "delayed"
				if !flushed {
					cause = "not-flushed"
				}
				nch := "several-chunks"
				if len(cb.Chunks) == 1 {
					nch = "single-chunk"
				}
				short := "false"
				if c09MediaMS(c0.Dur, ts).Cmp(chunkNomFrom(ls, ref, atoMS)) < 0 {
					short = "true" // the chunk is shorter than segment duration - ato
				}
				res.Violate("C09.answered-at-once", core.Sig("kind", "first-chunk-"+cause, "chunks", nch, "content", content, "short-chunk", short),
					"%s at %d (advertised availability %s ms): first chunk (media %d..%d, timescale %d) ended at wall %s ms <= request, but is delivered %v after the request",
					target, reqMS, c09F(avail), c0.Tfdt, c0.Tfdt+c0.Dur, ts, c09F(end0), fl)
			}
		} else if c09Sub(wallAt(fl), c09Rat(reqMS+allowed, 1)).Sign() > 0 {
			res.Count("probe.first-chunk-later-than-its-end")
		}
		if op.Off == 0 {
			if fl == 0 {
				res.Count("probe.zero-delay-at-avail")
			} else {
				res.Count("probe.sample-grid-delay-at-avail")
			}
		}
		// every chunk must be flushed at the instant it is written (delivery = write)
		for k, ch := range cb.Chunks {
			f, ok := wr.flushTimeAfter(ch.End)
			if !ok && !sv.fired {
				res.Violate("C09.answered-at-once", sig("kind", "chunk-not-flushed"), "%s: chunk %d never flushed", target, k)
				break
			}
			if ok && f != wr.writeTimeOf(ch.Start) {
				res.Violate("C09.answered-at-once", sig("kind", "flush-later-than-write"), "%s: chunk %d written +%v flushed +%v", target, k,
					wr.writeTimeOf(ch.Start), f)
				break
			}
		}
	}

	// bounded completion (DESIGN 5.3): done no later than one nominal segment after max(request, segment end)
	if !sv.fired {
		limit := c09Ceil(endWall)
		if reqMS > limit {
			limit = reqMS
		}
		limit += segDurMS
		// a slow client holds the handler for as long as its flushes take
		limit += (int64(len(wr.flushes))*op.SlowUS + 999) / 1000
		if c09Sub(wallAt(sv.retAt), c09Rat(limit, 1)).Sign() > 0 {
			res.Violate("C09.handler-returns", sig("kind", "completion-unbounded"),
				"%s at %d: segment ends at %s ms, response finished at %s ms", target, reqMS, c09F(endWall), c09F(wallAt(sv.retAt)))
		}
	}
}

// chunkNomFrom: segment duration (reference grid) minus the advertised offset, in ms.
func chunkNomFrom(ls refmodel.LiveSeg, ref *refmodel.Rep, atoMS *big.Rat) *big.Rat {
	return c09Sub(c09MediaMS(ls.End-ls.Start, ref.Timescale), atoMS)
}

// c09TrailingText returns trailing bytes after the last complete top-level box, if any.
func c09TrailingText(b []byte) string {
	_, sizes, err := hx.TopBoxes(b)
	if err == nil {
		return ""
	}
	n := 0
	for _, s := range sizes {
		n += s
	}
	return trunc(string(b[n:]), 40)
}

// c09StripTrailingText leaves the body untouched unless the request was cancelled (then what
// follows the last complete box before the cancellation is not media anyway).
func c09StripTrailingText(b []byte, cancelled bool) []byte {
	if !cancelled {
		return b
	}
	_, sizes, err := hx.TopBoxes(b)
	if err == nil {
		return b
	}
	n := 0
	for _, s := range sizes {
		n += s
	}
	return b[:n]
}

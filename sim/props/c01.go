package props

import (
	"bytes"
	"fmt"
	"os"
	"regexp"
	"strconv"
	"sync"
	"testing"

	"verif/sim/core"
	"verif/sim/hx"
	"verif/sim/refmodel"
)

// C01 — looped output is one gap-free, wall-clock-anchored media timeline (engine T).

type c01World struct {
	VodRoot string    `json:"vodroot"`
	Gen     *GenWorld `json:"gen,omitempty"` // generated VoD world instead of the bundled assets
	Asset   string    `json:"asset"`
	Cfg     URLCfg    `json:"cfg"`
	Rep     string    `json:"rep"`
}

// root returns the VoD root of the world (generating it if necessary).
func (w c01World) root() string {
	if w.Gen != nil {
		return genRoot(*w.Gen)
	}
	return vodRootOf(w.VodRoot)
}

// c01PickWorld draws a bundled or generated asset that has a representation accepted by want.
func c01PickWorld(rng *core.Rng, want func(a *refmodel.Asset, r *refmodel.Rep) bool) (c01World, *refmodel.Asset, []string) {
	for {
		var w c01World
		var a *refmodel.Asset
		if rng.Chance(0.08) { // bundled asset (with thumbnails) re-declared with endNumber below the number of files
			g := &GenWorld{Derived: &DerivedSpec{Kind: "endnumber", EndNumber: rng.Range(2, 3)}}
			w = c01World{VodRoot: "derived", Gen: g, Asset: derivedAsset}
			a = refAssets(genRoot(*g))[derivedAsset]
		} else if rng.Chance(0.4) {
			g := pickGenWorld(rng)
			w = c01World{VodRoot: "generated", Gen: g, Asset: g.Spec.Name}
			a = refAssets(genRoot(*g))[g.Spec.Name]
		} else {
			ar := core.Pick(rng, bundledMPDs)
			w = c01World{VodRoot: "bundled", Asset: ar.Asset}
			a = refAssets(hx.BundledAssets)[ar.Asset]
		}
		if a == nil || a.Bad != "" {
			continue
		}
		var reps []string
		for _, id := range a.RepIDs() {
			if want(a, a.Reps[id]) {
				reps = append(reps, id)
			}
		}
		if len(reps) > 0 {
			return w, a, reps
		}
	}
}

type c01Op struct {
	N    int64 `json:"n"`              // live segment index counted from AST
	Dt   int64 `json:"dt"`             // fetch this many ms after the availability instant
	Inst int   `json:"inst,omitempty"` // server instance (restart fault)
	Alt  bool  `json:"alt,omitempty"`  // also fetch through the other addressing mode and compare
	Dup  bool  `json:"dup,omitempty"`  // fetch twice (duplicate request) and compare
}

type C01 struct{}

func init() { core.Register(C01{}) }

func (C01) ID() string     { return "C01" }
func (C01) Engine() string { return "tlsim" }

func (C01) Gen(rng *core.Rng, tier string, idx int) *core.Scenario {
	w, a, reps := c01PickWorld(rng, func(a *refmodel.Asset, r *refmodel.Rep) bool { return r.ContentType != "audio" })
	repID := core.Pick(rng, reps)
	rep := a.Reps[repID]
	base := int64(1_600_000_000_000) + rng.Int63n(300_000_000_000)
	switch rng.Intn(6) {
	case 0:
		base = rng.Int63n(4_000_000_000_000)
	case 1: // far from epoch: tfdt needs many bits
		// far from epoch, but segment numbers must still fit the 32-bit mfhd sequence number
		base = int64(1)<<40 + rng.Int63n(int64(1)<<41)
	}
	// segment numbers must fit the 32-bit mfhd sequence number (short generated segments!)
	if maxBase := int64(1<<31) * a.SegDurMS; base > maxBase {
		base = rng.Int63n(maxBase)
	}
	cfg := genTimelineCfg(rng, a, base)
	cfg.Ato = "" // availability instants are C04's business
	if rep.ContentType == "image" && cfg.MPDType == "timeline" && rng.Bool() {
		cfg.MPDType = "timelinenr"
	}
	w.Cfg, w.Rep = cfg, repID
	sc := core.NewScenario("C01", "tlsim", 0, tier, w)
	N := int64(len(rep.Segs))
	rel := base - cfg.AST()*1000
	if rel < 0 {
		rel = 0
	}
	n := a.IndexContaining(rep, uint64(rel)*rep.Timescale/1000)
	if rng.Chance(0.25) {
		n = int64(rng.Range(0, int(2*N))) // right after stream start
	}
	nOps := rng.Range(4, 14)
	if tier == "thorough" {
		nOps = rng.Range(8, 40)
	}
	for i := 0; i < nOps; i++ {
		op := c01Op{N: n, Dt: int64(rng.Range(0, int(cfg.TsbdS()*1000)))}
		if rng.Chance(0.15) {
			op.Inst = 1
		}
		op.Alt = rng.Chance(0.3)
		op.Dup = rng.Chance(0.1)
		sc.AddOp(op)
		switch rng.Intn(10) {
		case 0: // jump to just before a wrap
			n = (n/N+int64(rng.Range(1, 3)))*N - 1
		case 1:
			n += int64(rng.Range(2, int(3*N)))
		case 2:
			if n > 0 {
				n--
			}
		default:
			n++
		}
	}
	return sc
}

// vodSegCache: parsed VoD segments (harness-side reference), keyed by file path.
var (
	vodSegMu    sync.Mutex
	vodSegCache = map[string]*hx.Seg{}
	vodRawCache = map[string][]byte{}
)

func vodRaw(file string) []byte {
	vodSegMu.Lock()
	defer vodSegMu.Unlock()
	if b, ok := vodRawCache[file]; ok {
		return b
	}
	b, err := os.ReadFile(file)
	if err != nil {
		panic("harness: " + err.Error())
	}
	vodRawCache[file] = b
	return b
}

func vodSeg(rep *refmodel.Rep, file string) *hx.Seg {
	raw := vodRaw(file)
	vodSegMu.Lock()
	defer vodSegMu.Unlock()
	if s, ok := vodSegCache[file]; ok {
		return s
	}
	in, err := rep.Init()
	if err != nil {
		panic("harness: " + err.Error())
	}
	s, err := hx.ParseSeg(raw, in.Trex)
	if err != nil {
		panic("harness: " + err.Error())
	}
	vodSegCache[file] = s
	return s
}

var ttmlTimeRe = regexp.MustCompile(`(?:begin|end)="(\d\d+):(\d\d):(\d\d)(\.\d\d\d)?"`)

// anyTimeRe is every hh:mm:ss[.mmm] pattern: the server documents that it shifts all of them (cue text
// that looks like a time included), so they are masked before comparing the rest of the document.
var anyTimeRe = regexp.MustCompile(`\d\d+:\d\d:\d\d(\.\d\d\d)?`)

func ttmlTimes(data []byte) ([]int64, []byte) {
	var out []int64
	for _, m := range ttmlTimeRe.FindAllSubmatch(data, -1) {
		h, _ := strconv.ParseInt(string(m[1]), 10, 64)
		mi, _ := strconv.ParseInt(string(m[2]), 10, 64)
		s, _ := strconv.ParseInt(string(m[3]), 10, 64)
		ms := int64(0)
		if len(m[4]) > 0 {
			ms, _ = strconv.ParseInt(string(m[4][1:]), 10, 64)
		}
		out = append(out, ((h*60+mi)*60+s)*1000+ms)
	}
	return out, anyTimeRe.ReplaceAll(data, []byte("@T@"))
}

// otherAddressing returns cfg switched between Number and Time addressing.
func otherAddressing(c URLCfg) URLCfg {
	o := c
	if c.MPDType == "timeline" {
		o.MPDType = "timelinenr"
		if c.Snr == nil {
			o.MPDType = "number"
		}
	} else {
		o.MPDType = "timeline"
	}
	return o
}

func (C01) Run(t *testing.T, sc *core.Scenario, res *core.Result) {
	w, err := core.DecodeWorld[c01World](sc)
	if err != nil {
		panic(err)
	}
	ops, err := core.DecodeOps[c01Op](sc)
	if err != nil {
		panic(err)
	}
	root := w.root()
	a := refAssets(root)[w.Asset]
	if a == nil || a.Reps[w.Rep] == nil {
		panic("harness: unknown asset/rep")
	}
	rep := a.Reps[w.Rep]
	cfg := w.Cfg
	feat := merge(cfg.Features(a), assetTraits(a), core.Sig("content", rep.ContentType, "world", w.VodRoot))
	N := int64(len(rep.Segs))
	var in *hx.Init
	if rep.ContentType != "image" {
		in, err = rep.Init()
		if err != nil {
			panic("harness: " + err.Error())
		}
	}
	type seen struct {
		tfdt, dur uint64
	}
	hist := map[int64]seen{}
	var simLo, simHi int64
	fetch := func(c URLCfg, n int64, dt int64, inst int) (*hx.Resp, segTarget, int64) {
		tg, ok := modelTarget(a, c, w.Rep, n)
		if !ok {
			panic("harness: no target")
		}
		now := tg.AvailMS + dt
		s := sharedSrv(root)
		if inst == 1 {
			s = altSrv(root)
		}
		return s.GetAt(c.Prefix(w.Asset)+"/"+tg.URL, now), tg, now
	}
	for i, op := range ops {
		if op.N < 0 {
			continue
		}
		r, tg, now := fetch(cfg, op.N, op.Dt, op.Inst)
		if i == 0 || now < simLo {
			simLo = now
		}
		if i == 0 || now > simHi {
			simHi = now
		}
		if op.Inst == 1 {
			res.Count("fault.other-instance")
		}
		res.Count("op.segment")
		res.Event("seg n=%d dt=%d inst=%d -> %d len=%d", op.N, op.Dt, op.Inst, r.Status, len(r.Body))
		if r.Panic != "" {
			res.Violate("C01.served", merge(feat, core.Sig("kind", "panic", "frame", r.PanicFrame)), "%s: panic %s", tg.URL, r.Panic)
			continue
		}
		if r.Status != 200 {
			res.Violate("C01.served", merge(feat, core.Sig("kind", "not-200", "status", fmt.Sprint(r.Status))),
				"%s at avail%+d ms: status %d", tg.URL, op.Dt, r.Status)
			continue
		}
		ls := a.Live(rep, op.N)
		if ls.Wrap > 0 {
			res.Count("probe.after-first-wrap")
		}
		if ls.Idx == 0 && ls.Wrap > 0 {
			res.Count("probe.first-of-loop")
		}
		if ls.Idx == int(N-1) {
			res.Count("probe.last-of-loop")
		}
		if op.Dup {
			r2, _, _ := fetch(cfg, op.N, op.Dt, op.Inst)
			res.Count("fault.duplicate-request")
			if r2.Status != r.Status || !bytes.Equal(r2.Body, r.Body) {
				res.Violate("C01.same-request-same-bytes", merge(feat, core.Sig("kind", "duplicate-differs")), "%s: duplicate request differs", tg.URL)
			}
		}
		if rep.ContentType == "image" {
			// thumbnails byte-identical
			if !bytes.Equal(r.Body, vodRaw(ls.Vod.File)) {
				res.Violate("C01.samples-unchanged", merge(feat, core.Sig("kind", "thumbnail-bytes")), "%s: bytes differ from VoD %s", tg.URL, ls.Vod.File)
			}
			res.Count("probe.checked")
			continue
		}
		sg, err := hx.ParseSeg(r.Body, in.Trex)
		if err != nil {
			res.Violate("C01.served", merge(feat, core.Sig("kind", "unparsable")), "%s: %v", tg.URL, err)
			continue
		}
		res.Count("probe.checked")
		if sg.Tfdt() >= 1<<32 {
			res.Count("probe.tfdt-64bit")
		}
		// (2) number
		if int64(sg.Seq()) != cfg.StartNr()+op.N {
			res.Violate("C01.number", merge(feat, core.Sig("kind", "wrong-number")), "%s: mfhd %d, expected %d", tg.URL, sg.Seq(), cfg.StartNr()+op.N)
		}
		// (3) tfdt = floor(n/N)*loopDuration + VoD start
		if sg.Tfdt() != ls.Start {
			res.Violate("C01.decode-time", merge(feat, core.Sig("kind", "wrong-tfdt", "dir", dir(int64(sg.Tfdt()), int64(ls.Start)))),
				"%s: tfdt %d, expected %d (wrap %d idx %d)", tg.URL, sg.Tfdt(), ls.Start, ls.Wrap, ls.Idx)
		}
		// (1) samples unchanged
		vs := vodSeg(rep, ls.Vod.File)
		got, want := sg.AllSamples(), vs.AllSamples()
		isStpp := len(rep.Codecs) >= 4 && rep.Codecs[:4] == "stpp"
		if isStpp {
			shiftMS := (int64(sg.Tfdt()) - int64(vs.Tfdt())) * 1000 / int64(rep.Timescale)
			if len(got) != len(want) {
				res.Violate("C01.samples-unchanged", merge(feat, core.Sig("kind", "sample-count")), "%s: %d samples, VoD %d", tg.URL, len(got), len(want))
			} else {
				for k := range got {
					gt, gn := ttmlTimes(got[k].Data)
					wt, wn := ttmlTimes(want[k].Data)
					if !bytes.Equal(gn, wn) {
						res.Violate("C01.samples-unchanged", merge(feat, core.Sig("kind", "ttml-text-changed")), "%s sample %d: text differs beyond timestamps", tg.URL, k)
					}
					if got[k].Dur != want[k].Dur || got[k].Flags != want[k].Flags {
						res.Violate("C01.samples-unchanged", merge(feat, core.Sig("kind", "sample-meta")), "%s sample %d: dur/flags differ", tg.URL, k)
					}
					if len(gt) != len(wt) {
						res.Violate("C01.ttml-offset", merge(feat, core.Sig("kind", "timestamp-count")), "%s: %d timestamps, VoD %d", tg.URL, len(gt), len(wt))
						continue
					}
					for j := range gt {
						if gt[j]-wt[j] != shiftMS {
							res.Violate("C01.ttml-offset", merge(feat, core.Sig("kind", "timestamp-shift")),
								"%s: TTML time %d -> %d (shift %d), decode time shift is %d ms", tg.URL, wt[j], gt[j], gt[j]-wt[j], shiftMS)
							break
						}
					}
					res.Add("probe.ttml-timestamps", len(gt))
				}
			}
		} else if msg := hx.SameSamples(want, got, int64(ls.Start)-int64(vs.Tfdt()), true); msg != "" {
			res.Violate("C01.samples-unchanged", merge(feat, core.Sig("kind", "samples-differ")), "%s vs VoD %s: %s", tg.URL, ls.Vod.File, msg)
		}
		// (4) continuity over every consecutive pair observed (also across wraps and instances)
		hist[op.N] = seen{sg.Tfdt(), sg.Dur}
		if p, ok := hist[op.N-1]; ok {
			if p.tfdt+p.dur != sg.Tfdt() {
				res.Violate("C01.gap-free", merge(feat, core.Sig("kind", "gap", "at-wrap", fmt.Sprint(ls.Idx == 0))),
					"segment %d ends at %d, segment %d starts at %d", op.N-1, p.tfdt+p.dur, op.N, sg.Tfdt())
			}
			res.Count("probe.pair-checked")
			if ls.Idx == 0 {
				res.Count("probe.pair-across-wrap")
			}
		}
		if nx, ok := hist[op.N+1]; ok {
			if sg.Tfdt()+sg.Dur != nx.tfdt {
				res.Violate("C01.gap-free", merge(feat, core.Sig("kind", "gap", "at-wrap", fmt.Sprint((op.N+1)%N == 0))),
					"segment %d ends at %d, segment %d starts at %d", op.N, sg.Tfdt()+sg.Dur, op.N+1, nx.tfdt)
			}
			res.Count("probe.pair-checked")
		}
		// (5) same segment through the other addressing mode
		if op.Alt {
			oc := otherAddressing(cfg)
			r2, tg2, _ := fetch(oc, op.N, op.Dt, op.Inst)
			res.Count("op.segment-alt")
			if r2.Status != 200 {
				res.Violate("C01.addressing-agrees", merge(feat, core.Sig("kind", "alt-not-200", "status", fmt.Sprint(r2.Status), "alt", oc.MPDType)),
					"%s (as %s): status %d", tg2.URL, oc.MPDType, r2.Status)
			} else if sg2, err := hx.ParseSeg(r2.Body, in.Trex); err != nil {
				res.Violate("C01.addressing-agrees", merge(feat, core.Sig("kind", "alt-unparsable", "alt", oc.MPDType)), "%s: %v", tg2.URL, err)
			} else {
				if sg2.Seq() != sg.Seq() || sg2.Tfdt() != sg.Tfdt() {
					res.Violate("C01.addressing-agrees", merge(feat, core.Sig("kind", "alt-differs", "alt", oc.MPDType)),
						"%s: nr/tfdt %d/%d, through %s %d/%d", tg.URL, sg.Seq(), sg.Tfdt(), tg2.URL, sg2.Seq(), sg2.Tfdt())
				} else if msg := hx.SameSamples(sg.AllSamples(), sg2.AllSamples(), 0, true); msg != "" {
					res.Violate("C01.addressing-agrees", merge(feat, core.Sig("kind", "alt-samples-differ", "alt", oc.MPDType)), "%s vs %s: %s", tg.URL, tg2.URL, msg)
				}
				res.Count("probe.alt-checked")
			}
		}
	}
	res.SimMS += simHi - simLo
	res.Nontrivial = res.Stats["probe.checked"] >= 2
}

package props

import (
	"bytes"
	"fmt"
	"os"
	"path/filepath"

	"github.com/Eyevinn/mp4ff/mp4"

	"verif/sim/hx"
)

// Generated VoD assets for C12 (DESIGN §3.1 "generated assets"): video-only assets whose segment
// boundaries are off whole seconds and, for three of them, off whole milliseconds, while the loop
// duration stays a whole number of milliseconds (otherwise livesim2 rightly refuses the asset).
// They are written with mp4ff into a content-versioned directory below os.TempDir() which is
// created atomically (build in a private directory, rename) and then shared by all workers.
// The init segments are the bundled ones (timescale kept), the samples are small dummy payloads.

const c12GenRootName = "c12gen"

type c12GenAsset struct {
	Name    string
	InitSrc string     // bundled init segment (relative to hx.BundledAssets)
	TS      uint32     // must equal the init's mdhd timescale
	Segs    [][]uint32 // sample durations per segment
}

func c12RepeatDur(n int, d uint32) []uint32 {
	out := make([]uint32, n)
	for i := range out {
		out[i] = d
	}
	return out
}

var c12GenAssets = []c12GenAsset{
	// 30000/1001 fps, 48-frame GOPs: 1601.6 ms segments, loop 8008 ms (boundaries x.6, x.2, x.8, x.4, x.0)
	{Name: "c12_1601", InitSrc: "WAVE/vectors/cfhd_sets/14.985_29.97_59.94/t1/2022-10-17/1/init.mp4", TS: 30000,
		Segs: [][]uint32{c12RepeatDur(48, 1001), c12RepeatDur(48, 1001), c12RepeatDur(48, 1001), c12RepeatDur(48, 1001), c12RepeatDur(48, 1001)}},
	// 45-frame GOPs: 1501.5 ms segments, loop 6006 ms (boundaries on half milliseconds)
	{Name: "c12_1501", InitSrc: "WAVE/vectors/cfhd_sets/14.985_29.97_59.94/t1/2022-10-17/1/init.mp4", TS: 30000,
		Segs: [][]uint32{c12RepeatDur(45, 1001), c12RepeatDur(45, 1001), c12RepeatDur(45, 1001), c12RepeatDur(45, 1001)}},
	// 25 fps, 48-frame GOPs: 1920 ms segments (whole ms, off whole seconds), loop 9600 ms
	{Name: "c12_1920", InitSrc: "WAVE/vectors/cfhd_sets/12.5_25_50/t3/2022-10-17/1/init.mp4", TS: 12800,
		Segs: [][]uint32{c12RepeatDur(48, 512), c12RepeatDur(48, 512), c12RepeatDur(48, 512), c12RepeatDur(48, 512), c12RepeatDur(48, 512)}},
	// 25 fps, 12-frame GOPs: 480 ms segments, loop 2400 ms: several segments inside one UTC second
	{Name: "c12_480", InitSrc: "WAVE/vectors/cfhd_sets/12.5_25_50/t3/2022-10-17/1/init.mp4", TS: 12800,
		Segs: [][]uint32{c12RepeatDur(12, 512), c12RepeatDur(12, 512), c12RepeatDur(12, 512), c12RepeatDur(12, 512), c12RepeatDur(12, 512)}},
	// variable durations 1500.333 / 2499.667 / 2000.5 / 1999.5 ms, loop 8000 ms
	{Name: "c12_mix", InitSrc: "testpic_2s/V300/init.mp4", TS: 90000,
		Segs: [][]uint32{{90000, 45030}, {90000, 134970}, {90000, 90045}, {90000, 89955}}},
}

var c12GenNames = func() map[string]bool {
	m := map[string]bool{}
	for _, g := range c12GenAssets {
		m[g.Name] = true
	}
	return m
}()

// c12GenRoot returns the VoD root holding the generated assets, building it when missing.
func c12GenRoot() string {
	final := filepath.Join(os.TempDir(), "verif-c12-vod-v3")
	if _, err := os.Stat(filepath.Join(final, ".complete")); err == nil {
		return final
	}
	tmp, err := os.MkdirTemp(os.TempDir(), "verif-c12-build-")
	if err != nil {
		panic(fmt.Sprintf("harness: c12 gen root: %v", err))
	}
	for _, g := range c12GenAssets {
		if err := c12WriteAsset(tmp, g); err != nil {
			_ = os.RemoveAll(tmp)
			panic(fmt.Sprintf("harness: c12 gen asset %s: %v", g.Name, err))
		}
	}
	if err := os.WriteFile(filepath.Join(tmp, ".complete"), []byte("ok\n"), 0o644); err != nil {
		panic(fmt.Sprintf("harness: c12 gen root: %v", err))
	}
	if err := os.Rename(tmp, final); err != nil {
		// another worker won the race (or a stale incomplete directory exists)
		_ = os.RemoveAll(tmp)
		if _, err2 := os.Stat(filepath.Join(final, ".complete")); err2 != nil {
			panic(fmt.Sprintf("harness: c12 gen root: rename: %v, and %s is incomplete", err, final))
		}
	}
	return final
}

func c12WriteAsset(root string, g c12GenAsset) error {
	dir := filepath.Join(root, g.Name, "V1")
	if err := os.MkdirAll(dir, 0o755); err != nil {
		return err
	}
	initData, err := os.ReadFile(filepath.Join(hx.BundledAssets, filepath.FromSlash(g.InitSrc)))
	if err != nil {
		return err
	}
	in, err := hx.ParseInit(initData)
	if err != nil {
		return err
	}
	if in.Timescale != g.TS {
		return fmt.Errorf("init timescale %d != %d", in.Timescale, g.TS)
	}
	if err := os.WriteFile(filepath.Join(dir, "init.mp4"), initData, 0o644); err != nil {
		return err
	}
	var t uint64
	var total uint64
	for i, durs := range g.Segs {
		seg := mp4.NewMediaSegment()
		frag, err := mp4.CreateFragment(uint32(i+1), in.TrackID)
		if err != nil {
			return err
		}
		seg.AddFragment(frag)
		for j, d := range durs {
			flags := mp4.NonSyncSampleFlags
			if j == 0 {
				flags = mp4.SyncSampleFlags
			}
			data := []byte(fmt.Sprintf("%s/%d/%d........", g.Name, i, j))[:16]
			frag.AddFullSample(mp4.FullSample{
				Sample:     mp4.Sample{Flags: flags, Dur: d, Size: uint32(len(data))},
				DecodeTime: t,
				Data:       data,
			})
			t += uint64(d)
		}
		var buf bytes.Buffer
		if err := seg.Encode(&buf); err != nil {
			return err
		}
		if err := os.WriteFile(filepath.Join(dir, fmt.Sprintf("%d.m4s", i+1)), buf.Bytes(), 0o644); err != nil {
			return err
		}
	}
	total = t
	if (total*1000)%uint64(g.TS) != 0 {
		return fmt.Errorf("loop duration not whole ms")
	}
	var nominal uint64
	for _, d := range g.Segs[0] {
		nominal += uint64(d)
	}
	durS := float64(total) / float64(g.TS)
	mpd := fmt.Sprintf(`<?xml version="1.0"?>
<MPD xmlns="urn:mpeg:dash:schema:mpd:2011" minBufferTime="PT1S" type="static" mediaPresentationDuration="PT%.3fS" maxSegmentDuration="PT3S" profiles="urn:mpeg:dash:profile:isoff-live:2011">
 <ProgramInformation><Title>%s (verif C12 generated)</Title></ProgramInformation>
 <Period id="p0">
  <AdaptationSet contentType="video" mimeType="video/mp4" segmentAlignment="true" startWithSAP="1">
   <SegmentTemplate timescale="%d" media="$RepresentationID$/$Number$.m4s" startNumber="1" duration="%d" initialization="$RepresentationID$/init.mp4"/>
   <Representation id="V1" codecs="avc1.64001e" width="640" height="360" bandwidth="100000"/>
  </AdaptationSet>
 </Period>
</MPD>
`, durS, g.Name, g.TS, nominal)
	return os.WriteFile(filepath.Join(root, g.Name, "Manifest.mpd"), []byte(mpd), 0o644)
}

package props

import (
	"bytes"
	"context"
	"encoding/base64"
	"encoding/json"
	"fmt"
	"io"
	"net/http"
	"net/http/httptest"
	"os"
	"path"
	"sort"
	"strconv"
	"strings"
	"sync"
	"testing/synctest"
	"time"

	ingest "github.com/Dash-Industry-Forum/livesim2/cmd/cmaf-ingest-receiver/app"
	"github.com/Dash-Industry-Forum/livesim2/cmd/livesim2/app"

	"verif/sim/core"
	"verif/sim/hx"
	"verif/sim/refmodel"
)

// ---------------------------------------------------------------------------------------
// Simulated transport = scripted receiver.

type c16Req struct {
	Sess      int // -1: outside every session's destination
	Rep       string
	Seq       int // per (session, representation)
	G         int // global arrival number (never logged: parallel sends make it schedule dependent)
	Method    string
	Path      string
	File      string // "init", "<number or time>", "" for Streams()
	Ext       string
	Streams   bool
	Hdr       http.Header
	Body      []byte
	StartMS   int64
	BodyEndMS int64
	DoneMS    int64
	Status    int
	Fault     string // "", status, delay
	Done      bool   // a response was returned
	Canceled  bool   // the request context ended while the request was in flight
}

type c16Transport struct {
	mu       sync.Mutex
	prefixes []string              // per session: path prefix of its destination, with trailing "/"
	queue    map[string][]c16Fault // armed faults per session|rep, consumed in order
	seqs     map[string]int
	reqs     []*c16Req
	gseq     int
	refused  int // requests not sent because their context had ended already
	real     bool
	recvs    map[int]*ingest.Receiver
	recvCtx  context.Context
	cancel   context.CancelFunc
	storage  string
	cleanup  func()
}

func c16DestRoot(i int) string { return fmt.Sprintf("http://recv.test/r%d", i) }

func newC16Transport(w *c16World) *c16Transport {
	tr := &c16Transport{queue: map[string][]c16Fault{}, seqs: map[string]int{}, real: w.Receiver == "real"}
	for i, s := range w.Sessions {
		p := fmt.Sprintf("/r%d/", i)
		if s.DestName != "" {
			p += s.DestName + "/"
		}
		tr.prefixes = append(tr.prefixes, p)
	}
	if tr.real {
		tr.storage = hx.TempDir("c16-recv")
		tr.recvs = map[int]*ingest.Receiver{}
		tr.cleanup = func() { os.RemoveAll(tr.storage) }
	}
	return tr
}

func c16Key(sess int, rep string) string { return strconv.Itoa(sess) + "|" + rep }

// classify splits a request path into session, representation, file token and extension.
func (tr *c16Transport) classify(p string) (sess int, rep, file, ext string, streams bool) {
	sess = -1
	rest := ""
	for i, pre := range tr.prefixes {
		if strings.HasPrefix(p, pre) {
			// longest prefix wins (a session without destName has a prefix that is a prefix of nothing else)
			if sess < 0 || len(pre) > len(tr.prefixes[sess]) {
				sess, rest = i, p[len(pre):]
			}
		}
	}
	if sess < 0 {
		return -1, "", "", "", false
	}
	if strings.HasPrefix(rest, "Streams(") && strings.HasSuffix(rest, ")") {
		inner := rest[len("Streams(") : len(rest)-1]
		e := path.Ext(inner)
		return sess, strings.TrimSuffix(inner, e), "", e, true
	}
	i := strings.LastIndex(rest, "/")
	if i < 0 {
		return sess, "", rest, path.Ext(rest), false
	}
	f := rest[i+1:]
	e := path.Ext(f)
	return sess, rest[:i], strings.TrimSuffix(f, e), e, false
}

func c16NowMS() int64 { return time.Now().UnixMilli() }

func (tr *c16Transport) arm(sess int, rep string, f c16Fault, count int) {
	tr.mu.Lock()
	k := c16Key(sess, rep)
	for i := 0; i < count; i++ {
		tr.queue[k] = append(tr.queue[k], f)
	}
	tr.mu.Unlock()
}

func (tr *c16Transport) snapshot() (reqs []*c16Req, gseq int) {
	tr.mu.Lock()
	reqs = append(reqs, tr.reqs...)
	gseq = tr.gseq
	tr.mu.Unlock()
	return
}

func (tr *c16Transport) inflight(sess int) int {
	tr.mu.Lock()
	defer tr.mu.Unlock()
	n := 0
	for _, q := range tr.reqs {
		if q.Sess == sess && !q.Done && !q.Canceled {
			n++
		}
	}
	return n
}

func (tr *c16Transport) receiver(sess int) *ingest.Receiver {
	tr.mu.Lock()
	defer tr.mu.Unlock()
	if r, ok := tr.recvs[sess]; ok {
		return r
	}
	if tr.recvCtx == nil {
		tr.recvCtx, tr.cancel = context.WithCancel(context.Background())
	}
	dir := fmt.Sprintf("%s/s%d", tr.storage, sess)
	if err := os.MkdirAll(dir, 0o755); err != nil {
		panic("harness: " + err.Error())
	}
	opts := ingest.NewOptionsForVerif(fmt.Sprintf("/r%d", sess), dir, 60, 0)
	r, err := ingest.NewReceiver(tr.recvCtx, opts, ingest.GetEmptyConfig())
	if err != nil {
		panic("harness: receiver: " + err.Error())
	}
	tr.recvs[sess] = r
	return r
}

// RoundTrip behaves like net/http's transport as far as the sender can tell: a request whose
// context has ended is not sent; the body is read to EOF; the answer follows the script.
func (tr *c16Transport) RoundTrip(req *http.Request) (*http.Response, error) {
	ctx := req.Context()
	if err := ctx.Err(); err != nil {
		if req.Body != nil {
			req.Body.Close()
		}
		tr.mu.Lock()
		tr.refused++
		tr.mu.Unlock()
		return nil, err
	}
	sess, rep, file, ext, streams := tr.classify(req.URL.Path)
	r := &c16Req{Sess: sess, Rep: rep, Method: req.Method, Path: req.URL.Path, File: file, Ext: ext, Streams: streams,
		Hdr: req.Header.Clone(), StartMS: c16NowMS()}
	var f *c16Fault
	tr.mu.Lock()
	k := c16Key(sess, rep)
	r.Seq = tr.seqs[k]
	tr.seqs[k]++
	r.G = tr.gseq
	tr.gseq++
	if q := tr.queue[k]; len(q) > 0 {
		ff := q[0]
		f = &ff
		tr.queue[k] = q[1:]
		r.Fault = ff.Kind
	}
	tr.reqs = append(tr.reqs, r)
	tr.mu.Unlock()

	if req.Body != nil {
		type rd struct {
			b   []byte
			err error
		}
		ch := make(chan rd, 1)
		go func() {
			b, err := io.ReadAll(req.Body)
			req.Body.Close()
			ch <- rd{b, err}
		}()
		select {
		case x := <-ch:
			r.Body = x.b
		case <-ctx.Done():
			r.Canceled = true
			r.DoneMS = c16NowMS()
			return nil, ctx.Err()
		}
	}
	r.BodyEndMS = c16NowMS()
	status := http.StatusOK
	switch {
	case f != nil && f.Kind == "delay":
		tm := time.NewTimer(time.Duration(f.DelayMS) * time.Millisecond)
		select {
		case <-tm.C:
		case <-ctx.Done():
			tm.Stop()
			r.Canceled = true
			r.DoneMS = c16NowMS()
			return nil, ctx.Err()
		}
	case f != nil && f.Kind == "status":
		status = f.Status
	case tr.real && sess >= 0:
		rec := httptest.NewRecorder()
		rr, err := http.NewRequest(req.Method, req.URL.String(), bytes.NewReader(r.Body))
		if err != nil {
			panic("harness: " + err.Error())
		}
		rr.Header = req.Header.Clone()
		if req.ContentLength > 0 {
			rr.Header.Set("Content-Length", strconv.FormatInt(req.ContentLength, 10))
		}
		tr.receiver(sess).SegmentHandlerFunc(rec, rr)
		status = rec.Code
	}
	r.Status = status
	r.DoneMS = c16NowMS()
	r.Done = true
	return &http.Response{Status: fmt.Sprintf("%d %s", status, http.StatusText(status)), StatusCode: status,
		Proto: "HTTP/1.1", ProtoMajor: 1, ProtoMinor: 1, Header: http.Header{}, Body: http.NoBody, Request: req}, nil
}

// ---------------------------------------------------------------------------------------
// Scenario execution inside the bubble.

type c16Rep struct {
	ID          string
	ContentType string
	Media       string
	Init        string
	Generated   bool // generated subtitle track (not in the VoD asset)
	reqs        []*c16Req
	init        *hx.Init
	media       []*c16Media
	cutShort    int // media requests ended by the DELETE before they could be read (they count as sent)
}

func (r *c16Rep) content() string {
	if r.Generated {
		return "gen-" + r.ContentType
	}
	return r.ContentType
}

type c16Media struct {
	servedLmsg bool // the segment as served by livesim2 itself already carries lmsg (VoD source)
	req        *c16Req
	seg        *hx.Seg
	startS     float64
	endS       float64
	idx        int64 // index (from availabilityStartTime) of the reference segment this one belongs to
	lmsg       bool
}

type c16SessState struct {
	i        int
	cfg      c16Sess
	f        c16Cfg
	ra       *refmodel.Asset
	created  bool // create op executed
	accepted bool
	status   int
	id       string
	createMS int64
	reps     []*c16Rep
	repsOK   bool
	mpdTried bool

	acceptedSteps int
	racySteps     int
	initPending   bool    // an init upload was never answered (receiver delay outlasted the run)
	stepTimes     []int64 // fake-clock instants (ms) of the accepted steps
	pendDelayMS   int64   // sum of delay x count of the delay faults armed for this session
	stepHung      bool
	hungSkipped   int
	deleted       bool
	deleteMS      int64
	deleteG       int
	delNoted      bool
	inflightAtDel int
	lastFault     string
	initFailed    bool
}

type c16Run struct {
	w   *c16World
	ops []c16Op
	tr  *c16Transport
	res *core.Result
	srv *hx.Srv
	ss  []*c16SessState
}

func (s *c16SessState) mode() string {
	if s.cfg.stepMode() {
		return "step"
	}
	return "realtime"
}

func b2s(b bool) string {
	if b {
		return "true"
	}
	return "false"
}

// gridFeat tells whether the reference segments end on whole seconds.
func (s *c16SessState) gridFeat() string {
	ref := s.ra.Ref()
	for _, sg := range ref.Segs {
		if sg.End%ref.Timescale != 0 {
			return "fractional-seconds"
		}
	}
	return "whole-seconds"
}

func (s *c16SessState) snrFeat() string {
	if s.f.Snr != 0 {
		return "nonzero"
	}
	return "default"
}

// loadReps fetches the session's MPD at instant nowMS and lists the representations a client would see.
func (r *c16Run) loadReps(s *c16SessState, nowMS int64) {
	if s.mpdTried {
		return
	}
	s.mpdTried = true
	resp := r.srv.GetAt(s.cfg.url(), nowMS)
	if resp.Status != 200 {
		r.res.Event("s%d mpd status %d", s.i, resp.Status)
		r.res.Count("probe.mpd-not-served")
		return
	}
	m, err := ParseClientMPD(resp.Body)
	if err != nil || len(m.Periods) == 0 {
		r.res.Event("s%d mpd unparsable", s.i)
		return
	}
	for _, as := range m.Periods[0].Sets {
		rep := &c16Rep{ID: as.RepID, ContentType: as.ContentType, Media: as.Media, Init: as.Init}
		if _, ok := s.ra.Reps[as.RepID]; !ok {
			rep.Generated = true
		}
		s.reps = append(s.reps, rep)
	}
	sort.Slice(s.reps, func(a, b int) bool { return s.reps[a].ID < s.reps[b].ID })
	s.repsOK = len(s.reps) > 0
}

func (s *c16SessState) startInstant() int64 {
	if s.cfg.StepNow != nil {
		return *s.cfg.StepNow
	}
	return c16NowMS()
}

type c16RestResult struct {
	resp *hx.Resp
	g    int   // number of requests the transport had seen when the call returned
	ms   int64 // fake instant at which the call returned
}

type c16Pending struct {
	call c16Call
	ch   chan *c16RestResult
}

func (r *c16Run) launch(method, target string, body []byte) chan *c16RestResult {
	ch := make(chan *c16RestResult, 1)
	var hdr map[string]string
	if body != nil {
		hdr = map[string]string{"Content-Type": "application/json"}
	}
	go func() {
		resp := r.srv.Do(method, target, body, hdr)
		_, g := r.tr.snapshot()
		ch <- &c16RestResult{resp: resp, g: g, ms: c16NowMS()}
	}()
	return ch
}

// await returns nil if the call has not returned within the fake-time bound.
func (r *c16Run) await(ch chan *c16RestResult, boundMS int64) *c16RestResult {
	tm := time.NewTimer(time.Duration(boundMS) * time.Millisecond)
	defer tm.Stop()
	select {
	case rr := <-ch:
		return rr
	case <-tm.C:
		return nil
	}
}

func (r *c16Run) rest(method, target string, body []byte) *c16RestResult {
	return r.await(r.launch(method, target, body), r.restTimeoutMS())
}

// restTimeoutMS: a REST call (a step waits for the session to take it) may legitimately wait as long as the
// receiver delays that the scenario has armed keep the sessions busy, plus the fixed bound.
func (r *c16Run) restTimeoutMS() int64 {
	d := int64(c16RestTimeoutMS)
	for _, s := range r.ss {
		d += s.pendDelayMS
	}
	return d
}

func (r *c16Run) segMS(s *c16SessState) int64 {
	if s.ra.SegDurMS > 0 {
		return s.ra.SegDurMS
	}
	return 2000
}

func (r *c16Run) callTarget(c c16Call) (method, target string) {
	s := r.ss[c.S]
	switch c.Op {
	case "step":
		return "GET", "/api/cmaf-ingests/" + s.id + "/step"
	case "delete":
		return "DELETE", "/api/cmaf-ingests/" + s.id
	default:
		return "GET", "/api/cmaf-ingests/" + s.id
	}
}

// hangState names, from what the harness knows, the state of a session on which a REST call hung.
func (r *c16Run) hangState(s *c16SessState) string {
	switch {
	case s.deleted:
		return "deleted"
	case s.initFailedNow(r):
		return "init-failed"
	case s.cfg.Duration != nil && !s.chunkedErrNow(r):
		return "with-duration"
	default:
		return "running"
	}
}

// chunkedErrNow: a chunked upload of a media segment of this session has been answered with an error.
func (s *c16SessState) chunkedErrNow(r *c16Run) bool {
	if !s.f.Chunked {
		return false
	}
	reqs, _ := r.tr.snapshot()
	for _, q := range reqs {
		if q.Sess == s.i && q.Seq > 0 && q.Done && q.Status >= 300 {
			return true
		}
	}
	return false
}

func (s *c16SessState) initFailedNow(r *c16Run) bool {
	reqs, _ := r.tr.snapshot()
	for _, q := range reqs {
		if q.Sess == s.i && q.Seq == 0 && q.Done && q.Status >= 300 {
			return true
		}
	}
	return false
}

func (r *c16Run) noteResult(c c16Call, rr *c16RestResult, racy bool) {
	s := r.ss[c.S]
	res := r.res
	if rr == nil {
		res.Event("%s s%d HUNG", c.Op, c.S)
		res.Count("probe.rest-hang")
		if c.Op == "step" {
			s.stepHung = true
		}
		sig := core.Sig("call", c.Op, "session", r.hangState(s))
		if sig["session"] == "running" {
			sig["chunked"], sig["fault"] = b2s(s.f.Chunked), orNone(s.lastFault)
			if s.chunkedErrNow(r) {
				sig["fault"] = "status"
			}
		}
		res.Violate("C16.rest-call-returns", sig,
			"%s of session %s (%s) did not return within %d s of fake time", c.Op, s.id, s.cfg.url(), r.restTimeoutMS()/1000)
		return
	}
	resp := rr.resp
	res.Event("%s s%d -> %d", c.Op, c.S, resp.Status)
	if resp.Panic != "" {
		res.Violate("C16.rest-call-returns", core.Sig("call", c.Op, "kind", "panic", "frame", resp.PanicFrame), "panic: %s", resp.Panic)
	}
	switch c.Op {
	case "step":
		if resp.Status == 200 {
			s.acceptedSteps++
			s.stepTimes = append(s.stepTimes, rr.ms)
			if racy {
				s.racySteps++
			}
		}
	case "delete":
		if resp.Status == 200 && !s.deleted {
			s.deleted = true
			s.deleteMS = rr.ms
			s.deleteG = rr.g
		}
	case "info":
		if resp.Status == 200 {
			var body struct {
				DestRoot string `json:"destRoot"`
				DestName string `json:"destName"`
				URL      string `json:"livesim-url"`
				ID       string `json:"id"`
			}
			_ = json.Unmarshal(resp.Body, &body)
			if body.ID != s.id || body.URL != s.cfg.url() || body.DestName != s.cfg.DestName || body.DestRoot != c16DestRoot(s.i) {
				res.Violate("C16.info-matches-session", core.Sig("kind", "info-differs"),
					"info of session %s returned id=%q url=%q dest=%q/%q", s.id, body.ID, body.URL, body.DestRoot, body.DestName)
			}
		}
	}
}

func orNone(s string) string {
	if s == "" {
		return "none"
	}
	return s
}

func (r *c16Run) markDeleteQuiescent(s *c16SessState) {
	if !s.deleted || s.delNoted {
		return
	}
	s.delNoted = true
	reqs, _ := r.tr.snapshot()
	for _, q := range reqs {
		if q.Sess == s.i && q.Canceled {
			s.inflightAtDel++
		}
	}
	if s.inflightAtDel > 0 {
		r.res.Count("probe.delete-with-request-in-flight")
	}
}

func (r *c16Run) run() {
	res := r.res
	w := r.w
	assets := refAssets(hx.BundledAssets)
	if w.StartOffMS > 0 {
		time.Sleep(time.Duration(w.StartOffMS) * time.Millisecond)
	}
	t0 := c16NowMS()
	if t0 != c16Epoch+w.StartOffMS {
		panic(fmt.Sprintf("harness: bubble clock is %d, expected %d", t0, c16Epoch+w.StartOffMS))
	}
	srv, err := hx.NewSrv(hx.SrvOpts{})
	if err != nil {
		panic("harness: cannot set up server: " + err.Error())
	}
	r.srv = srv
	for i, sc := range w.Sessions {
		ra := assets[sc.Asset]
		if ra == nil {
			panic("harness: unknown asset " + sc.Asset)
		}
		r.ss = append(r.ss, &c16SessState{i: i, cfg: sc, f: c16ParseParts(sc.Parts), ra: ra, deleteG: -1})
	}
	var maxDelay int64
	for _, op := range r.ops {
		if op.Fault != nil && op.Fault.DelayMS > maxDelay {
			maxDelay = op.Fault.DelayMS
		}
	}
	for _, op := range r.ops {
		if op.Op != "conc" && (op.S < 0 || op.S >= len(r.ss)) {
			continue
		}
		res.Count("op." + op.Op)
		switch op.Op {
		case "create":
			s := r.ss[op.S]
			if s.created {
				continue
			}
			s.created = true
			r.loadReps(s, s.startInstant())
			body := map[string]any{"destRoot": c16DestRoot(s.i), "destName": s.cfg.DestName, "livesimURL": s.cfg.url()}
			if s.cfg.User != "" {
				body["user"], body["password"] = s.cfg.User, s.cfg.Pass
			}
			if s.cfg.StepNow != nil {
				body["testNowMS"] = *s.cfg.StepNow
			}
			if s.cfg.Duration != nil {
				body["duration"] = *s.cfg.Duration
			}
			if s.cfg.Streams {
				body["streamsURLs"] = true
			}
			s.createMS = c16NowMS()
			rr := r.rest("POST", "/api/cmaf-ingests", core.MustJSON(body))
			if rr == nil {
				res.Event("create s%d HUNG", s.i)
				res.Violate("C16.rest-call-returns", core.Sig("call", "create"), "create of %s did not return", s.cfg.url())
				continue
			}
			resp := rr.resp
			s.status = resp.Status
			if resp.Panic != "" {
				res.Violate("C16.rest-call-returns", core.Sig("call", "create", "kind", "panic", "frame", resp.PanicFrame), "panic: %s", resp.Panic)
			}
			if resp.Status == 201 {
				var cr struct {
					ID string `json:"id"`
				}
				_ = json.Unmarshal(resp.Body, &cr)
				s.id = cr.ID
				s.accepted = s.id != ""
			} else {
				res.Count("probe.create-refused")
			}
			res.Event("create s%d %s -> %d id=%s", s.i, s.cfg.url(), resp.Status, s.id)
			synctest.Wait()
		case "step", "info", "delete":
			s := r.ss[op.S]
			if !s.accepted {
				continue
			}
			if op.Op == "step" && (!s.cfg.stepMode() || s.stepHung) {
				continue
			}
			if op.Op == "delete" && s.cfg.stepMode() && !s.deleted {
				// let accepted steps finish (chunk pacing, scripted delays) before the session is stopped
				time.Sleep(time.Duration(maxDelay+2*r.segMS(s)) * time.Millisecond)
				synctest.Wait()
			}
			c := c16Call{Op: op.Op, S: op.S}
			m, target := r.callTarget(c)
			r.noteResult(c, r.rest(m, target, nil), false)
			if op.Op == "step" && op.MS > 0 {
				time.Sleep(time.Duration(op.MS) * time.Millisecond)
			}
			synctest.Wait()
			r.markDeleteQuiescent(s)
		case "sleep":
			if op.MS > 0 {
				time.Sleep(time.Duration(op.MS) * time.Millisecond)
			}
			synctest.Wait()
		case "fault":
			s := r.ss[op.S]
			if op.Fault == nil || op.Count <= 0 {
				continue
			}
			if s.created && !s.accepted {
				continue
			}
			r.loadReps(s, s.startInstant())
			if !s.repsOK {
				continue
			}
			s.lastFault = op.Fault.Kind
			if op.Fault.Kind == "delay" {
				s.pendDelayMS += op.Fault.DelayMS * int64(op.Count)
			}
			if op.Rep < 0 {
				for _, rep := range s.reps {
					r.tr.arm(s.i, rep.ID, *op.Fault, op.Count)
				}
				res.Event("fault s%d all %s %d/%d x%d", s.i, op.Fault.Kind, op.Fault.Status, op.Fault.DelayMS, op.Count)
			} else {
				rep := s.reps[op.Rep%len(s.reps)]
				r.tr.arm(s.i, rep.ID, *op.Fault, op.Count)
				res.Event("fault s%d %s %s %d/%d x%d", s.i, rep.ID, op.Fault.Kind, op.Fault.Status, op.Fault.DelayMS, op.Count)
			}
		case "conc":
			var pend []c16Pending
			delOn := map[int]bool{}
			for _, c := range op.Calls {
				if c.Op == "delete" {
					delOn[c.S] = true
				}
			}
			for _, c := range op.Calls {
				if c.S < 0 || c.S >= len(r.ss) {
					continue
				}
				s := r.ss[c.S]
				if !s.accepted || (c.Op == "step" && (!s.cfg.stepMode() || s.stepHung || delOn[c.S])) {
					continue
				}
				m, target := r.callTarget(c)
				pend = append(pend, c16Pending{c, r.launch(m, target, nil)})
				synctest.Wait() // one release at a time: the overlap is real, the order is the scenario's
			}
			res.Event("conc %d calls", len(pend))
			deadline := r.restTimeoutMS()
			for _, p := range pend {
				start := c16NowMS()
				r.noteResult(p.call, r.await(p.ch, deadline), false)
				deadline -= c16NowMS() - start
				if deadline < 1000 {
					deadline = 1000
				}
			}
			synctest.Wait()
			for _, s := range r.ss {
				r.markDeleteQuiescent(s)
			}
		}
	}
	if w.TailMS > 0 {
		time.Sleep(time.Duration(w.TailMS) * time.Millisecond)
	}
	synctest.Wait()
	endMS := c16NowMS()
	// stop what is still running (harness cleanup, not part of the scenario)
	for _, s := range r.ss {
		if s.accepted && !s.deleted {
			// the harness itself stops a session only while none of its uploads is in flight
			for i := 0; i < 200 && r.tr.inflight(s.i) > 0; i++ {
				time.Sleep(50 * time.Millisecond)
				synctest.Wait()
			}
			r.rest("DELETE", "/api/cmaf-ingests/"+s.id, nil)
			synctest.Wait()
		}
	}
	synctest.Wait()
	time.Sleep(time.Duration(maxDelay+1000) * time.Millisecond)
	synctest.Wait()
	if r.tr.cancel != nil {
		r.tr.cancel()
		synctest.Wait()
	}
	res.SimMS += endMS - t0
	if os.Getenv(c16ChildEnv) != "" {
		res.Add("meta.sim-ms", int(endMS-t0))
	}
	r.checkAll(endMS)
}

// ---------------------------------------------------------------------------------------
// Oracle.

var c16Ext = map[string]string{"video": ".cmfv", "audio": ".cmfa", "text": ".cmft"}
var c16Mime = map[string]string{"video": "video/mp4", "audio": "audio/mp4", "text": "application/mp4"}

// c16TolMS: a segment counts as "sent at its availability instant" within this many ms (chunked
// audio starts a few ms late because its first chunk ends on the audio frame grid).
const c16TolMS = 100

func (r *c16Run) checkAll(endMS int64) {
	res := r.res
	reqs, _ := r.tr.snapshot()
	if r.tr.refused > 0 {
		res.Add("probe.request-refused-after-cancel", r.tr.refused)
	}
	// unique ids
	ids := map[string]int{}
	for _, s := range r.ss {
		if s.accepted {
			if j, dup := ids[s.id]; dup {
				res.Violate("C16.unique-ids", core.Sig("kind", "duplicate-id"), "sessions %d and %d both got id %s", j, s.i, s.id)
			}
			ids[s.id] = s.i
		}
	}
	bySess := map[int][]*c16Req{}
	for _, q := range reqs {
		bySess[q.Sess] = append(bySess[q.Sess], q)
	}
	for _, q := range bySess[-1] {
		res.Event("stray %s %s", q.Method, q.Path)
		res.Violate("C16.destination", core.Sig("kind", "outside-session"), "request %s %s is under no session's destination", q.Method, q.Path)
	}
	for _, s := range r.ss {
		qs := bySess[s.i]
		sort.Slice(qs, func(a, b int) bool {
			if qs[a].Rep != qs[b].Rep {
				return qs[a].Rep < qs[b].Rep
			}
			return qs[a].Seq < qs[b].Seq
		})
		for _, q := range qs {
			res.Event("s%d %s #%d %s %s t=%d/%d/%d len=%d %s st=%d %s%s", s.i, q.Rep, q.Seq, q.Method, q.Path,
				q.StartMS-c16Epoch, q.BodyEndMS-c16Epoch, q.DoneMS-c16Epoch, len(q.Body), hx.ShortHash(q.Body), q.Status, q.Fault,
				map[bool]string{true: " canceled", false: ""}[q.Canceled])
			if q.Done && q.Fault != "" {
				res.Count("fault." + q.Fault)
			}
			if q.Canceled {
				res.Count("fault.canceled-by-delete")
			}
			if r.tr.real && q.Done && q.Fault == "" {
				if q.Status < 300 {
					res.Count("probe.real-receiver-accepted")
				} else {
					res.Count("probe.real-receiver-refused")
				}
			}
		}
		if !s.created {
			continue
		}
		if !s.accepted {
			if len(qs) > 0 {
				res.Violate("C16.destination", core.Sig("kind", "refused-session-sends"), "create answered %d but %d requests were sent", s.status, len(qs))
			}
			continue
		}
		r.checkSession(s, qs, endMS)
	}
}

func (r *c16Run) sessProbes(s *c16SessState) {
	res := r.res
	res.Count("probe.session-" + s.mode())
	if s.f.Chunked {
		res.Count("probe.session-chunked")
	}
	if s.cfg.Streams {
		res.Count("probe.session-streams-urls")
	}
	if s.f.GenSubs != "" {
		res.Count("probe.session-generated-subs")
	}
	if s.cfg.User != "" {
		res.Count("probe.session-credentials")
	}
	if s.f.MPDType != "number" {
		res.Count("probe.session-" + s.f.MPDType)
	}
	if s.f.Snr != 0 {
		res.Count("probe.session-snr")
	}
	if s.cfg.Duration != nil {
		res.Count("probe.session-duration")
	}
}

func (r *c16Run) refEndMS(s *c16SessState, idx int64) int64 {
	ref := s.ra.Ref()
	ls := s.ra.Live(ref, idx)
	return s.f.AstS*1000 + int64(ls.End)*1000/int64(ref.Timescale)
}

func (r *c16Run) availMS(s *c16SessState, idx int64) int64 {
	if s.f.AtoInf {
		return s.f.AstS * 1000
	}
	v := r.refEndMS(s, idx) - s.f.AtoMS
	if v < s.f.AstS*1000 {
		v = s.f.AstS * 1000
	}
	return v
}

func (r *c16Run) checkSession(s *c16SessState, qs []*c16Req, endMS int64) {
	res := r.res
	r.sessProbes(s)
	if !s.repsOK {
		// the server does not serve this MPD itself: nothing to compare with
		res.Count("probe.session-without-reference")
		return
	}
	res.Nontrivial = true
	ref := s.ra.Ref()
	refTs := float64(ref.Timescale)
	repByID := map[string]*c16Rep{}
	for _, rep := range s.reps {
		repByID[rep.ID] = rep
	}
	feat := core.Sig("mode", s.mode(), "mpdtype", s.f.MPDType, "chunked", b2s(s.f.Chunked), "streams", b2s(s.cfg.Streams))
	nearStart := "false"
	for _, q := range qs {
		rep, ok := repByID[q.Rep]
		if !ok {
			res.Violate("C16.destination", core.Sig("kind", "unknown-representation"), "request %s %s: %q is not a representation of %s",
				q.Method, q.Path, q.Rep, s.cfg.url())
			continue
		}
		rep.reqs = append(rep.reqs, q)
	}
	// (7) nothing is sent after the DELETE has returned
	if s.deleted && s.deleteG >= 0 {
		for _, q := range qs {
			if q.G >= s.deleteG {
				res.Violate("C16.delete-stops", core.Sig("kind", "sent-after-delete", "mode", s.mode(), "chunked", b2s(s.f.Chunked)),
					"%s %s sent at +%d ms, DELETE returned at +%d ms", q.Method, q.Path, q.StartMS-c16Epoch, s.deleteMS-c16Epoch)
				break
			}
		}
	}
	// (4) attributes of every request
	wantAuth := ""
	if s.cfg.User != "" && s.cfg.Pass != "" {
		wantAuth = "Basic " + base64.StdEncoding.EncodeToString([]byte(s.cfg.User+":"+s.cfg.Pass))
	}
	for _, rep := range s.reps {
		for _, q := range rep.reqs {
			c := rep.content()
			if want := c16Ext[rep.ContentType]; q.Ext != want {
				res.Violate("C16.request-attributes", core.Sig("kind", "extension", "content", c), "%s: extension %q, want %q", q.Path, q.Ext, want)
			}
			if got, want := q.Hdr.Get("Content-Type"), c16Mime[rep.ContentType]; got != want {
				res.Violate("C16.request-attributes", core.Sig("kind", "content-type", "content", c), "%s: Content-Type %q, want %q", q.Path, got, want)
			}
			if got := q.Hdr.Get("DASH-IF-Ingest"); got != app.CMAFIngestVersion {
				res.Violate("C16.request-attributes", core.Sig("kind", "ingest-version-header", "content", c), "%s: DASH-IF-Ingest %q, want %q", q.Path, got, app.CMAFIngestVersion)
			}
			if got := q.Hdr.Get("Authorization"); got != wantAuth {
				what := "wrong"
				if got == "" {
					what = "missing"
				} else if wantAuth == "" {
					what = "unexpected"
				}
				res.Violate("C16.request-attributes", core.Sig("kind", "credentials", "what", what), "%s: Authorization %q, want %q", q.Path, got, wantAuth)
			}
			if q.Streams != s.cfg.Streams {
				res.Violate("C16.request-attributes", core.Sig("kind", "url-style", "streams", b2s(s.cfg.Streams)), "%s: Streams() style %v, configured %v", q.Path, q.Streams, s.cfg.Streams)
			}
		}
	}
	// (1) init first; parse media
	t0 := s.createMS
	if s.cfg.StepNow != nil {
		t0 = *s.cfg.StepNow
	}
	seqBad := false
	anyMedia := false
	for _, rep := range s.reps {
		c := rep.content()
		if len(rep.reqs) == 0 {
			if !s.deleted {
				res.Violate("C16.init-first", core.Sig("kind", "representation-without-requests", "content", c), "nothing was sent for %s of %s", rep.ID, s.cfg.url())
			}
			seqBad = true
			continue
		}
		first := rep.reqs[0]
		if first.Done && first.Status >= 300 {
			s.initFailed = true
		}
		if first.Canceled || !first.Done {
			// the init upload was still held back by the receiver when the run (or the session) ended: the session
			// never left its start-up phase, so there is no media timing to judge
			s.initPending = true
			if first.Canceled {
				continue
			}
		}
		in, err := hx.ParseInit(first.Body)
		if err != nil {
			kind := "first-is-not-init"
			if _, e2 := hx.ParseSeg(first.Body, nil); e2 != nil {
				kind = "first-unparsable"
			}
			res.Violate("C16.init-first", merge(core.Sig("kind", kind, "content", c), feat), "first request for %s is %s (%d bytes): %v", rep.ID, first.Path, len(first.Body), err)
			seqBad = true
			continue
		}
		rep.init = in
		if !s.cfg.Streams && first.File != "init" {
			res.Violate("C16.init-first", merge(core.Sig("kind", "init-name", "content", c), feat), "init segment of %s sent as %s", rep.ID, first.Path)
		}
		if s.cfg.StepNow == nil && first.DoneMS > t0 {
			t0 = first.DoneMS
		}
		// the init segment describes the same track as the one livesim2 serves
		g := r.srv.GetAt(path.Dir(s.cfg.url())+"/"+fillTemplate(rep.Init, rep.ID, 0, 0), s.startRefMS())
		if g.Status == 200 {
			if gi, err := hx.ParseInit(g.Body); err == nil {
				if gi.Timescale != in.Timescale || gi.SampleType != in.SampleType {
					res.Violate("C16.init-first", core.Sig("kind", "init-differs", "content", c),
						"%s: sent init has timescale %d / %s, served init %d / %s", rep.ID, in.Timescale, in.SampleType, gi.Timescale, gi.SampleType)
				}
			}
		}
		for _, q := range rep.reqs[1:] {
			if (q.Canceled && len(q.Body) == 0) || (!q.Done && !q.Canceled) {
				// ended by the DELETE, or still in flight when the observation ended
				rep.cutShort++
				continue
			}
			if _, err := hx.ParseInit(q.Body); err == nil {
				res.Violate("C16.init-first", merge(core.Sig("kind", "init-repeated", "content", c), feat), "%s: init segment sent again as request #%d", rep.ID, q.Seq)
				seqBad = true
				continue
			}
			seg, err := hx.ParseSeg(q.Body, in.Trex)
			if err != nil {
				if q.Canceled {
					rep.cutShort++
					continue // cut short by the DELETE
				}
				res.Violate("C16.body-as-served", core.Sig("kind", "unparsable-media", "content", c, "chunked", b2s(s.f.Chunked)), "%s (%d bytes): %v", q.Path, len(q.Body), err)
				seqBad = true
				continue
			}
			m := &c16Media{req: q, seg: seg}
			ts := float64(in.Timescale)
			m.startS = float64(seg.Tfdt()) / ts
			m.endS = float64(seg.Tfdt()+seg.Dur) / ts
			for _, b := range seg.Brands {
				if b == "lmsg" {
					m.lmsg = true
				}
			}
			tokNr, tokErr := strconv.ParseInt(q.File, 10, 64)
			if !s.cfg.Streams && tokErr != nil {
				res.Violate("C16.request-attributes", core.Sig("kind", "segment-name", "content", c), "%s: %q is neither a number nor a time", q.Path, q.File)
				seqBad = true
				continue
			}
			if s.f.MPDType != "timeline" && !s.cfg.Streams {
				m.idx = tokNr - s.f.Snr
			} else {
				mid := (m.startS + m.endS) / 2
				if mid < 0 {
					mid = 0
				}
				m.idx = s.ra.IndexContaining(ref, uint64(mid*refTs))
			}
			if m.idx < 0 {
				res.Violate("C16.starts-after-live-edge", core.Sig("kind", "before-stream-start", "snr", s.snrFeat()),
					"%s: %s lies before the first segment of the stream (index %d, snr %d)", rep.ID, q.Path, m.idx, s.f.Snr)
				seqBad = true
				continue
			}
			rep.media = append(rep.media, m)
			anyMedia = true
		}
	}
	if s.initFailed {
		res.Count("probe.init-refused-session-ends")
	}
	// (2) numbering: first right after the live edge, then consecutive
	rel := t0 - s.f.AstS*1000
	edge := s.ra.LastEndedBy(ref, rel)
	n0 := edge + 1
	if n0 < 3 {
		res.Count("probe.session-near-stream-start")
		nearStart = "true"
	}
	if edge >= 0 && r.refEndMS(s, edge) == t0 {
		res.Count("probe.session-starts-on-segment-boundary")
	}
	nSegs := int64(len(ref.Segs))
	for _, rep := range s.reps {
		for k, m := range rep.media {
			if k == 0 {
				if m.idx != n0 && !(s.f.StatusCode && m.idx > n0) {
					dir := "ahead"
					if m.idx < n0 {
						dir = "behind"
					}
					res.Violate("C16.starts-after-live-edge", core.Sig("kind", "first-segment", "dir", dir, "snr", s.snrFeat(), "near-stream-start", nearStart, "mode", s.mode()),
						"%s: first media segment %s is segment index %d (t=%.3f s), the live edge at session start (+%d ms) is index %d so %d is expected (number %d)",
						rep.ID, m.req.Path, m.idx, m.startS, t0-c16Epoch, edge, n0, n0+s.f.Snr)
					seqBad = true
				}
				continue
			}
			prev := rep.media[k-1]
			if m.idx/nSegs != prev.idx/nSegs {
				res.Count("probe.loop-wrap-crossed")
			}
			if m.idx != prev.idx+1 && !(s.f.StatusCode && m.idx > prev.idx+1) {
				kind := "gap"
				switch {
				case m.idx == prev.idx:
					kind = "duplicate"
				case m.idx < prev.idx:
					kind = "backwards"
				}
				res.Violate("C16.consecutive", core.Sig("kind", kind, "after", orNone(prev.req.Fault), "chunked", b2s(s.f.Chunked), "segment-ends", s.gridFeat()),
					"%s: %s (index %d) follows %s (index %d)", rep.ID, m.req.Path, m.idx, prev.req.Path, prev.idx)
				seqBad = true
			}
		}
	}
	// (3) each media body is what the server itself serves for that segment
	dir := path.Dir(s.cfg.url())
	for _, rep := range s.reps {
		c := rep.content()
		for _, m := range rep.media {
			if m.req.Canceled && m.req.BodyEndMS == 0 {
				continue
			}
			var target string
			if s.f.MPDType == "timeline" {
				tm := m.seg.Tfdt()
				if !s.cfg.Streams {
					v, _ := strconv.ParseUint(m.req.File, 10, 64)
					tm = v
				}
				target = dir + "/" + fillTemplate(rep.Media, rep.ID, 0, tm)
			} else {
				target = dir + "/" + fillTemplate(rep.Media, rep.ID, m.idx+s.f.Snr, 0)
			}
			at := r.refEndMS(s, m.idx) + 2
			g := r.srv.GetAt(target, at)
			res.Count("probe.body-compared")
			if g.Status != 200 {
				res.Violate("C16.body-as-served", core.Sig("kind", "not-served", "status", strconv.Itoa(g.Status), "content", c, "mpdtype", s.f.MPDType, "chunked", b2s(s.f.Chunked)),
					"%s was sent, but GET %s at its availability instant answers %d", m.req.Path, target, g.Status)
				continue
			}
			if m.lmsg && bytes.Contains(g.Body[:c16Min(len(g.Body), 64)], []byte("lmsg")) {
				m.servedLmsg = true
			}
			if d := c16CompareBodies(m.req.Body, g.Body, m.lmsg); d != "" {
				res.Violate("C16.body-as-served", core.Sig("kind", "differs", "content", c, "lmsg", b2s(m.lmsg), "mpdtype", s.f.MPDType, "chunked", b2s(s.f.Chunked)),
					"%s differs from GET %s: %s", m.req.Path, target, d)
			}
		}
	}
	// (5) step mode: one segment per representation and accepted step
	if s.cfg.stepMode() && !s.initFailed && !seqBad && !s.f.StatusCode {
		for _, rep := range s.reps {
			n := len(rep.media)
			lo, hi := s.acceptedSteps-s.racySteps, s.acceptedSteps
			if s.deleted && (s.pendDelayMS > 0 || s.f.Chunked) {
				// a receiver that holds uploads back, or chunked uploads that are paced over the segment duration,
				// keep the sender behind its steps; DELETE stops the session with those segments unsent
				// ("nothing after DELETE" wins over "one segment per step")
				behind := s.pendDelayMS + 1000
				if s.f.Chunked {
					behind += 2 * r.segMS(s)
				}
				lo = 0
				for _, t := range s.stepTimes {
					if t+behind < s.deleteMS {
						lo++
					}
				}
				if d := s.acceptedSteps - s.racySteps; d < lo {
					lo = d
				}
			}
			if n < lo || n > hi {
				kind := "fewer"
				if n > hi {
					kind = "more"
				}
				sig := core.Sig("kind", kind, "chunked", b2s(s.f.Chunked))
				if kind == "fewer" {
					sig = merge(sig, core.Sig("fault", orNone(s.lastFault), "segment-ends", s.gridFeat(), "near-stream-start", nearStart))
				}
				res.Violate("C16.one-segment-per-step", sig,
					"%s: %d accepted steps, %d media segments", rep.ID, s.acceptedSteps, n)
			}
		}
	}
	// (6) duration (a session that starts at the wrong segment is reported once, not per consequence)
	if !seqBad && !s.f.StatusCode {
		r.checkDuration(s, n0, endMS, anyMedia)
	}
	// (8) real-time mode: not before availability; on time when nothing holds the sender back
	if !s.cfg.stepMode() && !s.initFailed && !s.initPending {
		r.checkTiming(s, n0, t0, endMS, seqBad || s.f.StatusCode)
	}
}

func c16Min(a, b int) int {
	if a < b {
		return a
	}
	return b
}

func (s *c16SessState) startRefMS() int64 {
	if s.cfg.StepNow != nil {
		return *s.cfg.StepNow
	}
	return s.createMS
}

// c16CompareBodies compares a sent media body with the served one. When the sent one carries the
// lmsg brand the styp boxes are compared brand-wise and the rest byte-wise.
func c16CompareBodies(sent, served []byte, lmsg bool) string {
	if bytes.Equal(sent, served) {
		return ""
	}
	if lmsg {
		st, ss, err1 := hx.TopBoxes(sent)
		gt, gs, err2 := hx.TopBoxes(served)
		if err1 == nil && err2 == nil && len(st) > 0 && len(gt) > 0 && st[0] == "styp" && gt[0] == "styp" &&
			bytes.Equal(sent[ss[0]:], served[gs[0]:]) {
			a, b := c16StypBrands(sent[:ss[0]]), c16StypBrands(served[:gs[0]])
			if strings.Join(a, ",") == strings.Join(b, ",") {
				return ""
			}
			return fmt.Sprintf("styp brands (without lmsg) %v, served %v", a, b)
		}
	}
	n := c16Min(len(sent), len(served))
	off := n
	for i := 0; i < n; i++ {
		if sent[i] != served[i] {
			off = i
			break
		}
	}
	return fmt.Sprintf("sent %d bytes, served %d bytes, first difference at offset %d", len(sent), len(served), off)
}

// c16StypBrands lists major brand, minor version and compatible brands of a styp box, lmsg left out.
func c16StypBrands(box []byte) []string {
	var out []string
	if len(box) < 16 {
		return out
	}
	out = append(out, string(box[8:12]), fmt.Sprintf("%x", box[12:16]))
	for i := 16; i+4 <= len(box); i += 4 {
		if b := string(box[i : i+4]); b != "lmsg" {
			out = append(out, b)
		}
	}
	return out
}

func (r *c16Run) checkDuration(s *c16SessState, n0 int64, endMS int64, anyMedia bool) {
	res := r.res
	if s.initFailed || s.chunkedErrNow(r) {
		// the session has ended (init refused) or hangs (chunked upload answered with an error: reported
		// by the liveness checks); how it would have ended cannot be told
		return
	}
	if s.cfg.Duration == nil {
		for _, rep := range s.reps {
			for _, m := range rep.media {
				if m.lmsg && !m.servedLmsg {
					res.Violate("C16.duration-respected", core.Sig("kind", "lmsg-without-duration", "mode", s.mode()), "%s carries lmsg but the session has no duration", m.req.Path)
					return
				}
			}
		}
		return
	}
	ref := s.ra.Ref()
	dTs := uint64(*s.cfg.Duration) * ref.Timescale
	var acc uint64
	floorCnt := 0
	for {
		ls := s.ra.Live(ref, n0+int64(floorCnt))
		d := ls.End - ls.Start
		if acc+d > dTs {
			break
		}
		acc += d
		floorCnt++
	}
	multiple := acc == dTs
	ceilCnt := floorCnt
	if !multiple {
		ceilCnt++
	}
	for _, rep := range s.reps {
		n := len(rep.media)
		for k, m := range rep.media {
			if m.lmsg && !m.servedLmsg {
				res.Count("probe.lmsg-seen")
				if k != n-1 {
					res.Violate("C16.duration-respected", core.Sig("kind", "lmsg-not-last", "catch-up", b2s(r.caughtUp(s))), "%s: %s carries lmsg but %d more segments follow", rep.ID, m.req.Path, n-1-k)
				}
			}
		}
		if n > ceilCnt {
			excess := "one"
			if n > ceilCnt+1 {
				excess = "several"
			}
			res.Violate("C16.duration-respected", core.Sig("kind", "count", "dir", "more", "excess", excess, "catch-up", b2s(r.caughtUp(s))),
				"%s: duration %d s corresponds to %d segments (%d..%d), %d were sent", rep.ID, *s.cfg.Duration, ceilCnt, floorCnt, ceilCnt, n)
		}
		// evidence that the session has stopped by itself
		stopped := false
		if s.cfg.stepMode() {
			stopped = s.stepHung && !s.deleted && n >= floorCnt
			if s.stepHung && !s.deleted && n < floorCnt && s.lastFault == "" {
				res.Violate("C16.duration-respected", core.Sig("kind", "count", "dir", "fewer", "multiple", b2s(multiple), "mode", s.mode()),
					"%s: duration %d s corresponds to %d..%d segments, the session stopped taking steps after %d", rep.ID, *s.cfg.Duration, floorCnt, ceilCnt, n)
			}
		} else if n > 0 && !s.deleted {
			last := rep.media[n-1]
			if last.req.Done && r.availMS(s, last.idx+1)+c16TolMS < endMS && last.req.DoneMS+c16TolMS < endMS && n >= floorCnt {
				stopped = true
			}
		}
		if stopped {
			res.Count("probe.duration-ended")
			if n > 0 && !rep.media[n-1].lmsg {
				res.Violate("C16.duration-respected", core.Sig("kind", "lmsg-missing", "catch-up", b2s(r.caughtUp(s))),
					"%s: the session stopped after %s, which does not carry the lmsg brand (brands %v)", rep.ID, rep.media[n-1].req.Path, rep.media[n-1].seg.Brands)
			}
		}
	}
}

// caughtUp tells whether a real-time session has sent a segment late (after a slow receiver or a late start).
func (r *c16Run) caughtUp(s *c16SessState) bool {
	if s.cfg.stepMode() {
		return false
	}
	for _, rep := range s.reps {
		for _, m := range rep.media {
			if m.req.StartMS > r.availMS(s, m.idx)+c16TolMS {
				return true
			}
		}
	}
	return false
}

func (r *c16Run) checkTiming(s *c16SessState, n0, t0, endMS int64, seqBad bool) {
	res := r.res
	atoFeat := "zero"
	if s.f.AtoMS > 0 {
		atoFeat = "finite"
	}
	for _, rep := range s.reps {
		for _, m := range rep.media {
			av := r.availMS(s, m.idx)
			if m.req.StartMS < av {
				res.Violate("C16.not-before-availability", core.Sig("kind", "early", "chunked", b2s(s.f.Chunked), "ato", atoFeat),
					"%s sent at +%d ms, its availability instant is +%d ms", m.req.Path, m.req.StartMS-c16Epoch, av-c16Epoch)
			}
		}
	}
	if seqBad {
		return
	}
	sessEnd := endMS
	if s.deleted {
		sessEnd = s.deleteMS
	}
	// expected count when a duration ends the session (never more than the statement allows)
	maxK := int64(-1)
	if s.cfg.Duration != nil {
		ref := s.ra.Ref()
		dTs := uint64(*s.cfg.Duration) * ref.Timescale
		var acc uint64
		k := int64(0)
		for {
			ls := s.ra.Live(ref, n0+k)
			if acc+(ls.End-ls.Start) > dTs {
				break
			}
			acc += ls.End - ls.Start
			k++
		}
		maxK = k // floor: below it the session must still be running
	}
	prevDone := t0
	after := "none"
	for k := int64(0); ; k++ {
		av := r.availMS(s, n0+k)
		deadline := av
		if prevDone > deadline {
			deadline = prevDone
		}
		deadline += c16TolMS
		if maxK >= 0 && k >= maxK {
			return
		}
		allThere := true
		var done int64
		nextAfter := "none"
		complete := true
		firstStart := int64(-1)
		var firstReq *c16Req
		for _, rep := range s.reps {
			if int64(len(rep.media)) <= k {
				if int64(len(rep.media)+rep.cutShort) <= k {
					allThere = false
				} else {
					complete = false
				}
				continue
			}
			m := rep.media[k]
			if firstStart < 0 || m.req.StartMS < firstStart {
				firstStart, firstReq = m.req.StartMS, m.req
			}
			if !m.req.Done {
				complete = false
			} else if m.req.DoneMS > done {
				done = m.req.DoneMS
			}
			if m.req.Fault != "" {
				nextAfter = m.req.Fault
			}
		}
		// the segment counts as sent when the first of its parallel uploads starts (a chunked upload of a
		// one-sample subtitle segment cannot start before the segment is complete)
		if firstReq != nil {
			if firstStart > deadline {
				res.Violate("C16.next-segment-on-time", core.Sig("kind", "late", "after", after, "chunked", b2s(s.f.Chunked)),
					"%s sent at +%d ms; available at +%d ms, previous segment answered at +%d ms", firstReq.Path, firstStart-c16Epoch, av-c16Epoch, prevDone-c16Epoch)
			} else if firstStart > av+c16TolMS {
				res.Count("probe.catch-up-after-slow-receiver")
			}
		}
		if !allThere {
			// (a chunked upload of a one-sample subtitle segment starts when the segment is complete)
			presence := deadline
			if s.f.Chunked {
				presence += s.f.AtoMS
			}
			if presence < sessEnd {
				var missing []string
				cont := map[string]bool{}
				for _, rep := range s.reps {
					if int64(len(rep.media)+rep.cutShort) <= k {
						missing = append(missing, rep.ID)
						cont[rep.content()] = true
					}
				}
				what := "all"
				if len(missing) < len(s.reps) {
					what = strings.Join(sortedKeys(cont), "+")
				}
				res.Violate("C16.next-segment-on-time", core.Sig("kind", "stalled", "after", after, "chunked", b2s(s.f.Chunked), "segment-ends", s.gridFeat(), "near-stream-start", b2s(n0 < 3), "missing", what),
					"segment index %d (number %d) of %v was due at +%d ms (previous answered at +%d ms) but was not sent by +%d ms",
					n0+k, n0+k+s.f.Snr, missing, deadline-c16TolMS-c16Epoch, prevDone-c16Epoch, sessEnd-c16Epoch)
			}
			return
		}
		if !complete {
			return
		}
		if after != "none" && nextAfter == "none" {
			res.Count("probe.progress-after-fault")
		}
		prevDone, after = done, nextAfter
	}
}

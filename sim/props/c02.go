package props

import (
	"fmt"
	"math"
	"strings"
	"testing"

	"verif/sim/core"
	"verif/sim/hx"
	"verif/sim/refmodel"
)

// C02 — the live MPD and the segment server agree on what is available (engine T).

type c02World struct {
	VodRoot string    `json:"vodroot"`
	Gen     *GenWorld `json:"gen,omitempty"` // generated VoD world instead of the bundled assets
	Asset   string    `json:"asset"`
	MPD     string    `json:"mpd"`
	Cfg     URLCfg    `json:"cfg"`
}

func (w c02World) root() string {
	if w.Gen != nil {
		return genRoot(*w.Gen)
	}
	return vodRootOf(w.VodRoot)
}

// pickMPDWorld draws a bundled MPD or (35 %) a generated asset: (vodroot label, gen, asset, mpd, model).
func pickMPDWorld(rng *core.Rng) (string, *GenWorld, string, string, *refmodel.Asset) {
	for {
		if rng.Chance(0.06) { // bundled asset re-declared with endNumber below the number of files
			g := &GenWorld{Derived: &DerivedSpec{Kind: "endnumber", EndNumber: rng.Range(2, 3)}}
			a := refAssets(genRoot(*g))[derivedAsset]
			if a == nil || a.Bad != "" {
				panic("harness: derived asset not usable")
			}
			return "derived", g, derivedAsset, "Manifest.mpd", a
		}
		if rng.Chance(0.35) {
			g := pickGenWorld(rng)
			a := refAssets(genRoot(*g))[g.Spec.Name]
			if a == nil || a.Bad != "" {
				continue
			}
			return "generated", g, g.Spec.Name, g.Spec.MPD, a
		}
		ar := core.Pick(rng, bundledMPDs)
		return "bundled", nil, ar.Asset, ar.MPD, refAssets(hx.BundledAssets)[ar.Asset]
	}
}

type c02Op struct {
	T    int64 `json:"t"`              // poll instant (ms)
	Skew int64 `json:"skew,omitempty"` // client clock skew fault: segments are fetched at T+Skew
}

type C02 struct{}

func init() { core.Register(C02{}) }

func (C02) ID() string     { return "C02" }
func (C02) Engine() string { return "tlsim" }

// genTimelineCfg draws a URL configuration for the timeline family of properties.
func genTimelineCfg(rng *core.Rng, a *refmodel.Asset, nowBase int64) URLCfg {
	c := URLCfg{MPDType: core.Pick(rng, []string{"number", "timeline", "timelinenr"})}
	switch rng.Intn(5) {
	case 0: // stream started recently
		c.StartS = p64(nowBase/1000 - int64(rng.Range(0, 200)))
	case 1:
		c.StartS = p64(int64(rng.Range(1, 1000000)) * int64(rng.Range(1, 1700)))
	case 2:
		c.StartS = p64(nowBase/1000 - int64(rng.Range(0, 3))*a.LoopDurMS/1000 - int64(rng.Range(0, 30)))
	}
	if c.StartS != nil && *c.StartS < 0 {
		c.StartS = p64(0)
	}
	if rng.Chance(0.3) {
		c.Snr = pint(core.Pick(rng, []int{1, 2, 7, 100, 4711, -1}))
	}
	if rng.Chance(0.5) {
		c.Tsbd = pint(core.Pick(rng, []int{0, 1, 5, 6, 7, 10, 13, 20, 30, 45, 90, 120, 300}))
	}
	if rng.Chance(0.3) {
		segS := float64(a.SegDurMS) / 1000
		opts := []string{"0.5", "1", "1.5", fmt.Sprintf("%.3f", segS/2), fmt.Sprintf("%.3f", segS*1.5), fmt.Sprintf("%.0f", segS*3)}
		if c.MPDType == "number" {
			opts = append(opts, "inf")
		}
		if rng.Chance(0.15) {
			opts = []string{"-0.5", "-1", fmt.Sprintf("-%.3f", segS/2), fmt.Sprintf("-%.0f", segS*2)} // segments announced (and served) later
		}
		c.Ato = core.Pick(rng, opts)
	}
	return c
}

// targetedInstants returns instants around the breakpoints of the piecewise-constant
// behaviour near base: segment availability instants and window-edge instants, both sides.
func targetedInstants(rng *core.Rng, a *refmodel.Asset, c URLCfg, base int64, n int) []int64 {
	ref := a.Ref()
	ast := c.AST() * 1000
	var out []int64
	atoMS := int64(0)
	if !math.IsInf(c.AtoS(), 1) {
		atoMS = int64(math.Round(c.AtoS() * 1000))
	}
	for len(out) < n {
		rel := base - ast + int64(rng.Range(-3, 30))*a.SegDurMS
		if rel < 0 {
			rel = int64(rng.Range(0, 5000))
		}
		k := a.IndexContaining(ref, uint64(rel)*ref.Timescale/1000)
		ls := a.Live(ref, k)
		b := availMS(c.AST(), ls.End, ref.Timescale, 0) - atoMS
		switch rng.Intn(8) {
		case 0:
			out = append(out, b-1)
		case 1:
			out = append(out, b)
		case 2:
			out = append(out, b+1)
		case 3:
			out = append(out, b+c.TsbdS()*1000+int64(rng.Range(-1, 1)))
		case 4:
			out = append(out, b+c.TsbdS()*1000+10000+int64(rng.Range(-1, 1)))
		case 5:
			out = append(out, ast+int64(rng.Range(0, int(3*a.LoopDurMS))))
		default:
			out = append(out, ast+rel+int64(rng.Range(0, 999)))
		}
	}
	for i := range out {
		if out[i] < 0 {
			out[i] = 0
		}
	}
	return out
}

func (C02) Gen(rng *core.Rng, tier string, idx int) *core.Scenario {
	label, gen, assetName, mpdName, a := pickMPDWorld(rng)
	base := int64(1_600_000_000_000) + rng.Int63n(300_000_000_000)
	if rng.Chance(0.15) {
		base = rng.Int63n(4_000_000_000_000)
	}
	if maxBase := int64(1<<31) * a.SegDurMS; base > maxBase { // numbers must fit 32 bits (short generated segments)
		base = rng.Int63n(maxBase)
	}
	cfg := genTimelineCfg(rng, a, base)
	if rng.Chance(0.25) && a.Ref().ContentType == "video" { // generated subtitles follow the video track
		langs := core.Pick(rng, []string{"en", "sv", "en,sv"})
		cfg.Extra = append(cfg.Extra, core.Pick(rng, []string{"timesubsstpp_", "timesubswvtt_"})+langs)
	}
	w := c02World{VodRoot: label, Gen: gen, Asset: assetName, MPD: mpdName, Cfg: cfg}
	sc := core.NewScenario("C02", "tlsim", 0, tier, w)
	nPolls := rng.Range(3, 8)
	if tier == "thorough" {
		nPolls = rng.Range(4, 14)
	}
	for _, t := range targetedInstants(rng, a, cfg, base, nPolls) {
		op := c02Op{T: t}
		if rng.Chance(0.1) {
			op.Skew = int64(rng.Range(-5000, 5000))
		}
		sc.AddOp(op)
	}
	return sc
}

func vodRootOf(name string) string {
	if name == "" || name == "bundled" {
		return hx.BundledAssets
	}
	return name
}

func contentKind(ca ClientAS) string {
	switch {
	case strings.HasPrefix(ca.RepID, "timestpp-"):
		return "gen-stpp"
	case strings.HasPrefix(ca.RepID, "timewvtt-"):
		return "gen-wvtt"
	}
	return ca.ContentType
}

func assetTraits(a *refmodel.Asset) map[string]string {
	t := map[string]string{"segdur": "const"}
	if !a.ConstSegDur {
		t["segdur"] = "variable"
	}
	return t
}

func (C02) Run(t *testing.T, sc *core.Scenario, res *core.Result) {
	w, err := core.DecodeWorld[c02World](sc)
	if err != nil {
		panic(err)
	}
	ops, err := core.DecodeOps[c02Op](sc)
	if err != nil {
		panic(err)
	}
	root := w.root()
	srv := sharedSrv(root)
	a := refAssets(root)[w.Asset]
	if a == nil {
		panic("unknown asset " + w.Asset)
	}
	cfg := w.Cfg
	prefix := cfg.Prefix(w.Asset)
	feat := merge(cfg.Features(a), assetTraits(a), core.Sig("world", w.VodRoot))
	inits := map[string]*hx.Init{}
	var lo, hi int64
	for i, op := range ops {
		if i == 0 || op.T < lo {
			lo = op.T
		}
		if i == 0 || op.T > hi {
			hi = op.T
		}
		c02Poll(res, srv, a, w, cfg, prefix, feat, inits, op)
	}
	res.SimMS += hi - lo
	res.Nontrivial = res.Stats["probe.segment-checked"] > 0 && len(ops) >= 2
}

func c02Poll(res *core.Result, srv *hx.Srv, a *refmodel.Asset, w c02World, cfg URLCfg, prefix string,
	feat map[string]string, inits map[string]*hx.Init, op c02Op) {
	now := op.T
	segNow := op.T + op.Skew
	if segNow < 0 {
		segNow = 0
	}
	r := srv.GetAt(prefix+"/"+w.MPD, now)
	res.Event("mpd t=%d status=%d len=%d", now, r.Status, len(r.Body))
	res.Count("op.mpd")
	if op.Skew != 0 {
		res.Count("fault.clock-skew")
	}
	astMS := cfg.AST() * 1000
	if now < astMS {
		if r.Status != 425 {
			res.Violate("C02.before-start-425", merge(feat, core.Sig("kind", "mpd-before-start", "status", fmt.Sprint(r.Status))),
				"MPD at %d before AST %d: status %d", now, astMS, r.Status)
		}
		res.Count("probe.before-start")
		return
	}
	if r.Panic != "" {
		res.Violate("C02.mpd-served", merge(feat, core.Sig("kind", "panic", "frame", r.PanicFrame)), "MPD panic: %s", r.Panic)
		return
	}
	if r.Status != 200 {
		// infinite ato with a timeline is rejected deliberately; anything else is unexpected here
		res.Violate("C02.mpd-served", merge(feat, core.Sig("kind", "mpd-not-200", "status", fmt.Sprint(r.Status))),
			"MPD at %d: status %d body %q", now, r.Status, trunc(string(r.Body), 200))
		return
	}
	cm, err := ParseClientMPD(r.Body)
	if err != nil {
		res.Violate("C02.mpd-served", merge(feat, core.Sig("kind", "mpd-unparsable")), "MPD at %d: %v", now, err)
		return
	}
	if cm.InvalidMUP {
		sub := "false"
		if a.SegDurMS < 1000 {
			sub = "true"
		}
		res.Violate("C02.mpd-wellformed", core.Sig("kind", "invalid-duration-attribute", "segment-below-1s", sub), "MPD at %d: minimumUpdatePeriod / maxSegmentDuration is not an xs:duration", now)
	}
	if cm.ASTms != astMS {
		res.Violate("C02.ast", merge(feat, core.Sig("kind", "ast-mismatch")), "AST %d != configured %d", cm.ASTms, astMS)
	}
	if len(cm.Periods) != 1 {
		res.Violate("C02.mpd-served", merge(feat, core.Sig("kind", "period-count")), "%d periods", len(cm.Periods))
		return
	}
	tsbdMS := int64(cm.TsbdS * 1000)
	ref := a.Ref()
	for _, ca := range cm.Periods[0].Sets {
		kind := contentKind(ca)
		f := merge(feat, core.Sig("content", kind))
		// init segment (once per rep and run)
		var in *hx.Init
		if ca.ContentType != "image" {
			key := ca.RepID
			if _, ok := inits[key]; !ok {
				ir := srv.GetAt(prefix+"/"+fillTemplate(ca.Init, ca.RepID, 0, 0), now)
				res.Count("op.init")
				if ir.Status != 200 {
					res.Violate("C02.init-served", merge(f, core.Sig("kind", "init-not-200", "status", fmt.Sprint(ir.Status))),
						"init %s: %d", ca.RepID, ir.Status)
					inits[key] = nil
				} else if pi, err := hx.ParseInit(ir.Body); err != nil {
					res.Violate("C02.init-served", merge(f, core.Sig("kind", "init-unparsable")), "init %s: %v", ca.RepID, err)
					inits[key] = nil
				} else {
					inits[key] = pi
					if uint64(pi.Timescale) != ca.Timescale && ca.Timeline {
						res.Violate("C02.timescale", merge(f, core.Sig("kind", "timescale-mismatch")),
							"init timescale %d != MPD timescale %d", pi.Timescale, ca.Timescale)
					}
				}
			}
			in = inits[key]
			if in == nil {
				continue
			}
		}
		atoMS := int64(0)
		atoInf := math.IsInf(ca.Ato, 1)
		if !atoInf {
			atoMS = int64(math.Round(ca.Ato * 1000))
		}
		relNow := now - astMS
		if ca.Timeline {
			if msg := TimelineContiguous(ca.AS); msg != "" {
				res.Violate("C02.timeline-contiguous", merge(f, core.Sig("kind", "gap")), "%s: %s", ca.RepID, msg)
			}
			segs := ca.Segs
			res.Add("probe.timeline-entries", len(segs))
			if len(segs) == 0 {
				res.Count("probe.empty-timeline")
				// Model: no segment may have ended yet.
				if kind == "video" || kind == "text" || kind == "image" {
					rep := a.Reps[ca.RepID]
					if rep != nil && a.LastEndedBy(rep, relNow+atoMS) >= 0 {
						res.Violate("C02.edge-is-newest", merge(f, core.Sig("kind", "empty-but-segment-ended")),
							"%s: empty timeline at rel %d ms", ca.RepID, relNow)
					}
				}
				continue
			}
			// (4) last entry is the newest ended segment per model
			last := segs[len(segs)-1]
			first := segs[0]
			switch kind {
			case "video", "text":
				rep := a.Reps[ca.RepID]
				if rep != nil {
					nl := a.LastEndedBy(rep, relNow+atoMS)
					if nl < 0 {
						res.Violate("C02.edge-is-newest", merge(f, core.Sig("kind", "listed-before-any-ended")),
							"%s lists %d entries but no segment has ended", ca.RepID, len(segs))
					} else {
						ls := a.Live(rep, nl)
						if ls.Start != last.T || ls.End-ls.Start != last.D {
							res.Violate("C02.edge-is-newest", merge(f, core.Sig("kind", "wrong-edge", "dir", dir(int64(last.T), int64(ls.Start)))),
								"%s: last entry t=%d d=%d, model newest n=%d t=%d d=%d (now rel %d ms)", ca.RepID, last.T, last.D, nl, ls.Start, ls.End-ls.Start, relNow)
						}
						if !ca.UsesTime && last.Number != cfg.StartNr()+nl {
							res.Violate("C02.edge-is-newest", merge(f, core.Sig("kind", "wrong-edge-number")),
								"%s: last number %d, model %d", ca.RepID, last.Number, cfg.StartNr()+nl)
						}
					}
				}
			case "audio":
				rep := a.Reps[ca.RepID]
				if rep != nil && rep.FrameDur > 0 {
					nl := a.LastEndedBy(ref, relNow+atoMS)
					if nl >= 0 {
						ls := a.Live(ref, nl)
						es := refmodel.AudioGrid(ls.Start, ref.Timescale, rep.Timescale, uint64(rep.FrameDur))
						ee := refmodel.AudioGrid(ls.End, ref.Timescale, rep.Timescale, uint64(rep.FrameDur))
						if es != last.T || ee-es != last.D {
							res.Violate("C02.edge-is-newest", merge(f, core.Sig("kind", "wrong-edge", "dir", dir(int64(last.T), int64(es)))),
								"%s: last entry t=%d d=%d, model t=%d d=%d", ca.RepID, last.T, last.D, es, ee-es)
						}
					}
				}
			}
			// (5) first entry not older than the window allows (one segment of slack)
			firstEndMS := int64((first.T + first.D) * 1000 / ca.Timescale)
			var maxD uint64
			for _, sgm := range segs {
				if sgm.D > maxD {
					maxD = sgm.D
				}
			}
			// one segment of slack: the longest segment of the asset (the segment that straddles the
			// window start may be longer than any listed one)
			for _, vs := range ref.Segs {
				if d := vs.Dur() * ca.Timescale / ref.Timescale; d > maxD {
					maxD = d
				}
			}
			slack := ceilDiv(int64(maxD)*1000, int64(ca.Timescale))
			if kind == "audio" {
				if rep := a.Reps[ca.RepID]; rep != nil {
					slack += ceilDiv(int64(rep.FrameDur)*1000, int64(rep.Timescale)) + 1
				}
			}
			if atoMS < 0 {
				slack -= atoMS // a negative offset: available later, and listed for tsbd from then on
			}
			if firstEndMS < relNow-tsbdMS-slack-1 {
				res.Violate("C02.window-start", merge(f, core.Sig("kind", "first-too-old")),
					"%s: first entry ends at rel %d ms, window starts at %d ms (tsbd %d, slack %d)", ca.RepID, firstEndMS, relNow-tsbdMS, tsbdMS, slack)
			}
			// (1) every declared segment
			for _, di := range sampleIdx(len(segs), 48) {
				ds := segs[di]
				c02CheckSeg(res, srv, prefix, ca, in, ds, segNow, op, f, a, cfg, true, 0)
			}
			// (2) the segment just after the edge is too early
			next := DeclSeg{Number: last.Number, T: last.T + last.D}
			if !ca.UsesTime {
				next.Number = last.Number + 1
			}
			next.URL = fillTemplate(ca.Media, ca.RepID, next.Number, next.T)
			if op.Skew == 0 {
				nr := srv.GetAt(prefix+"/"+next.URL, segNow)
				res.Count("op.segment")
				res.Event("next %s -> %d", next.URL, nr.Status)
				if nr.Status != 425 {
					res.Violate("C02.after-edge-425", merge(f, core.Sig("kind", "after-edge-not-425", "status", fmt.Sprint(nr.Status))),
						"%s at %d: status %d", next.URL, segNow, nr.Status)
				}
				res.Count("probe.after-edge-checked")
			}
			continue
		}
		// $Number$ template with @duration: availability by the DASH formula.
		if ca.Duration == 0 {
			continue
		}
		if atoInf {
			res.Count("probe.ato-inf")
		}
		d := int64(ca.Duration)
		ts := int64(ca.Timescale)
		// nominal: segment k available at (k+1)*d/ts - ato ; ended k's: (k+1)*d*1000 <= (relNow+ato)*ts
		kEdge := (relNow+atoMS)*ts/(d*1000) - 1 // newest nominally available index
		if atoInf {
			kEdge = relNow*ts/(d*1000) + 3
		}
		if kEdge < 0 {
			res.Count("probe.number-none-available")
		}
		// window: nominal end >= now - tsbd
		// The window is counted from the availability instant (C04: "stays available for at least
		// timeShiftBufferDepth"), i.e. it is shifted by a finite availabilityTimeOffset as well.
		winStart := relNow - tsbdMS
		if !atoInf {
			winStart += atoMS
		}
		kFirst := ceilDiv(winStart*ts, d*1000) - 1
		if kFirst < 0 || winStart < 0 {
			kFirst = 0
		}
		var ks []int64
		for k := kFirst; k <= kEdge; k++ {
			ks = append(ks, k)
		}
		constDur := a.ConstSegDur
		for _, i := range sampleIdx(len(ks), 24) {
			k := ks[i]
			ds := DeclSeg{Number: ca.StartNumber + k, T: uint64(k*d) + ca.PTO, D: uint64(d)}
			ds.URL = fillTemplate(ca.Media, ca.RepID, ds.Number, ds.T)
			if !constDur {
				// claim only outside the disagreement band between nominal and actual segment end
				if !c02ModelAvailable(a, ca, cfg, k, relNow, atoMS, tsbdMS, atoInf) {
					res.Count("probe.number-band-skipped")
					continue
				}
			}
			tol := uint64(0)
			if kind == "audio" {
				if rep := a.Reps[ca.RepID]; rep != nil {
					tol = uint64(rep.FrameDur)
				}
			}
			c02CheckSeg(res, srv, prefix, ca, in, ds, segNow, op, f, a, cfg, constDur, tol)
		}
		if op.Skew == 0 && !atoInf && kEdge >= -1 {
			k := kEdge + 1
			skip := false
			if !constDur {
				// only when the model also says "not yet"
				skip = c02ModelEnded(a, ca, k, relNow, atoMS)
			}
			if !skip {
				u := fillTemplate(ca.Media, ca.RepID, ca.StartNumber+k, uint64(k*d))
				nr := srv.GetAt(prefix+"/"+u, segNow)
				res.Count("op.segment")
				res.Event("next %s -> %d", u, nr.Status)
				if nr.Status != 425 {
					res.Violate("C02.after-edge-425", merge(f, core.Sig("kind", "after-edge-not-425", "status", fmt.Sprint(nr.Status))),
						"%s at %d: status %d", u, segNow, nr.Status)
				}
				res.Count("probe.after-edge-checked")
			}
		}
	}
}

// c02ModelEnded: has live segment k of the AS's timing reference ended (minus ato) by relNow?
func c02ModelEnded(a *refmodel.Asset, ca ClientAS, k int64, relNow, atoMS int64) bool {
	rep := a.Reps[ca.RepID]
	if rep == nil || ca.ContentType == "audio" {
		rep = a.Ref()
	}
	ls := a.Live(rep, k)
	return int64(ls.End)*1000 <= (relNow+atoMS)*int64(rep.Timescale)
}

func c02ModelAvailable(a *refmodel.Asset, ca ClientAS, cfg URLCfg, k int64, relNow, atoMS, tsbdMS int64, atoInf bool) bool {
	rep := a.Reps[ca.RepID]
	if rep == nil || ca.ContentType == "audio" {
		rep = a.Ref()
	}
	ls := a.Live(rep, k)
	endMS := ceilDiv(int64(ls.End)*1000, int64(rep.Timescale))
	if atoInf {
		return endMS >= relNow-tsbdMS
	}
	if endMS-atoMS > relNow {
		return false
	}
	return endMS-atoMS >= relNow-tsbdMS
}

func dir(got, want int64) string {
	switch {
	case got < want:
		return "early"
	case got > want:
		return "late"
	}
	return "same"
}

func sampleIdx(n, max int) []int {
	if n <= max {
		out := make([]int, n)
		for i := range out {
			out[i] = i
		}
		return out
	}
	if max < 6 { // first, last and evenly spread ones in between
		var out []int
		for k := 0; k < max; k++ {
			out = append(out, k*(n-1)/(max-1))
		}
		return out
	}
	seen := map[int]bool{}
	var out []int
	add := func(i int) {
		if i >= 0 && i < n && !seen[i] {
			seen[i] = true
			out = append(out, i)
		}
	}
	add(0)
	add(1)
	add(n - 1)
	add(n - 2)
	step := float64(n) / float64(max-4)
	for x := 0.0; x < float64(n); x += step {
		add(int(x))
	}
	return out
}

func trunc(s string, n int) string {
	if len(s) > n {
		return s[:n] + "..."
	}
	return s
}

// c02CheckSeg fetches a declared segment and compares it with the declaration.
func c02CheckSeg(res *core.Result, srv *hx.Srv, prefix string, ca ClientAS, in *hx.Init, ds DeclSeg, segNow int64,
	op c02Op, f map[string]string, a *refmodel.Asset, cfg URLCfg, checkTD bool, tolT uint64) {
	r := srv.GetAt(prefix+"/"+ds.URL, segNow)
	res.Count("op.segment")
	res.Event("seg %s -> %d len=%d", ds.URL, r.Status, len(r.Body))
	if r.Panic != "" {
		res.Violate("C02.listed-served", merge(f, core.Sig("kind", "panic", "frame", r.PanicFrame)), "%s: panic %s", ds.URL, r.Panic)
		return
	}
	if op.Skew != 0 {
		// skewed client: extra 425 (client ahead... behind the server) and 410 are legal; only 200/425/410 allowed
		if r.Status != 200 && r.Status != 425 && r.Status != 410 {
			res.Violate("C02.listed-served", merge(f, core.Sig("kind", "skewed-bad-status", "status", fmt.Sprint(r.Status))),
				"%s at skew %d: status %d", ds.URL, op.Skew, r.Status)
		}
		if r.Status != 200 {
			return
		}
	}
	if r.Status != 200 {
		res.Violate("C02.listed-served", merge(f, core.Sig("kind", "listed-segment-not-200", "status", fmt.Sprint(r.Status))),
			"%s at %d: status %d %q", ds.URL, segNow, r.Status, trunc(string(r.Body), 80))
		return
	}
	res.Count("probe.segment-checked")
	if ca.ContentType == "image" {
		return
	}
	sg, err := hx.ParseSeg(r.Body, in.Trex)
	if err != nil {
		res.Violate("C02.listed-served", merge(f, core.Sig("kind", "segment-unparsable")), "%s: %v", ds.URL, err)
		return
	}
	if !checkTD {
		return
	}
	// declared values are in the MPD timescale, observed ones in the media timescale
	mts, dts := uint64(in.Timescale), ca.Timescale
	if mts == 0 || dts == 0 {
		return
	}
	// A declared value that is not a whole number of media ticks cannot be met exactly:
	// the served one must then be within one media tick of it.
	subTickT, subTickD := (ds.T*mts)%dts != 0, (ds.D*mts)%dts != 0
	dt := absDiff(sg.Tfdt()*dts, ds.T*mts)
	if (tolT == 0 && dt != 0 && !(subTickT && dt < dts)) || (tolT > 0 && dt >= tolT*dts) {
		res.Violate("C02.declared-time", merge(f, core.Sig("kind", "tfdt-mismatch", "dir", dir(int64(sg.Tfdt()*dts), int64(ds.T*mts)))),
			"%s: tfdt %d (timescale %d), declared %d (timescale %d)", ds.URL, sg.Tfdt(), mts, ds.T, dts)
	}
	dd := absDiff(sg.Dur*dts, ds.D*mts)
	if (tolT == 0 && dd != 0 && !((subTickT || subTickD) && dd < dts)) || (tolT > 0 && dd >= tolT*dts) {
		res.Violate("C02.declared-duration", merge(f, core.Sig("kind", "duration-mismatch")),
			"%s: duration %d (timescale %d), declared %d (timescale %d)", ds.URL, sg.Dur, mts, ds.D, dts)
	}
	if ds.Number >= 0 && int64(sg.Seq()) != ds.Number {
		res.Violate("C02.declared-number", merge(f, core.Sig("kind", "number-mismatch")),
			"%s: mfhd %d, declared %d", ds.URL, sg.Seq(), ds.Number)
	}
}

func absDiff(a, b uint64) uint64 {
	if a > b {
		return a - b
	}
	return b - a
}

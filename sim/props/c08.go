package props

import (
	"bytes"
	"context"
	"encoding/binary"
	"fmt"
	"github.com/Eyevinn/mp4ff/mp4"
	"net/http"
	"os"
	"path/filepath"
	"strconv"
	"strings"
	"testing"
	"time"

	rapp "github.com/Dash-Industry-Forum/livesim2/cmd/cmaf-ingest-receiver/app"

	"verif/sim/core"
	"verif/sim/hx"
)

// C08 — no request can crash a handler or make it spin (engines T and S).
//
// The simulator supplies the live context (a valid URL at a valid simulated instant) and the chaos
// actor mutates the message. Every request is served by the guard child (hx.GuardDo): the very same
// real server in a child process whose CPU time is watched, so that a spinning handler is detected
// and killed instead of wedging the worker. Uploads go to the real ingest receiver handler in the
// same child.

type c08World struct {
	VodRoot string `json:"vodroot"`
	Asset   string `json:"asset"`
	MPD     string `json:"mpd"`
	NowMS   int64  `json:"now"`
}

type c08Op struct {
	Kind   string            `json:"kind"`             // param | segname | method | endpoint | upload
	Method string            `json:"method,omitempty"` // default GET
	Target string            `json:"target"`
	Body   []byte            `json:"body,omitempty"`
	Hdr    map[string]string `json:"hdr,omitempty"`
	Expect string            `json:"expect"`          // any | 4xx | 404
	What   string            `json:"what,omitempty"`  // categorical description of the mutation (for signatures)
	Key    string            `json:"key,omitempty"`   // mutated parameter key
	Class  string            `json:"class,omitempty"` // value class
}

type C08 struct{}

const c08RecvHandler = "ingest-receiver"

func init() {
	core.Register(C08{})
	hx.GuardRegister(c08RecvHandler, func() http.Handler {
		dir, err := os.MkdirTemp("", "verif-c08-recv-")
		if err != nil {
			panic(err)
		}
		r, err := rapp.NewReceiver(context.Background(), rapp.NewOptionsForVerif("/upload", filepath.Join(dir, "s", "t", "u"), 30, 0), rapp.GetEmptyConfig())
		if err != nil {
			panic(err)
		}
		return http.HandlerFunc(r.SegmentHandlerFunc)
	})
}

func (C08) ID() string     { return "C08" }
func (C08) Engine() string { return "tlsim" }

type c08Val struct{ v, class string }

var c08Hostile = []c08Val{
	{"", "empty"}, {"0", "zero"}, {"-1", "negative"}, {"1", "one"}, {"7", "small"}, {"99999999999999999999", "huge"},
	{"9223372036854775807", "maxint"}, {"9223372036854775808", "overflow"}, {"-9223372036854775808", "minint"}, {"4294967296", "2^32"},
	{"1.5", "fraction"}, {"1e3", "exponent"}, {"inf", "inf"}, {"-inf", "neg-inf"}, {"NaN", "nan"}, {"abc", "non-numeric"}, {"1,2", "comma"},
	{"1-2", "hyphen"}, {"1_2", "underscore"}, {"%00", "nul"}, {"0x10", "hex"}, {" 5", "space"}, {"5000000000", "5e9"},
}

type c08Key struct {
	key  string
	typ  string // int | float | floatinf | posfloat | flag | list | special
	lo   int64  // documented range for ints (lo..hi) when ranged
	hi   int64
	rng  bool
	good string
}

var c08Keys = []c08Key{
	{key: "start", typ: "int", good: "1700000000"}, {key: "ast", typ: "int", good: "1700000000"}, {key: "stop", typ: "int", good: "1800000000"},
	{key: "startrel", typ: "int", good: "-20"}, {key: "stoprel", typ: "int", good: "20"}, {key: "dur", typ: "int", good: "60"},
	{key: "timeoffset", typ: "float", good: "1.5"}, {key: "init", typ: "int", good: "10"},
	{key: "tsbd", typ: "int", rng: true, lo: 0, hi: 172800, good: "30"}, {key: "mup", typ: "int", rng: true, lo: 1, hi: 1<<63 - 1, good: "2"},
	{key: "periods", typ: "int", good: "60"}, {key: "xlink", typ: "int", good: "60"}, {key: "etp", typ: "int", good: "60"}, {key: "etpDuration", typ: "int", good: "10"},
	{key: "peroff", typ: "int", good: "1"}, {key: "scte35", typ: "int", rng: true, lo: 1, hi: 3, good: "2"}, {key: "snr", typ: "int", good: "5"},
	{key: "ato", typ: "floatinf", good: "1"}, {key: "ltgt", typ: "int", good: "3000"}, {key: "spd", typ: "int", good: "10"},
	{key: "chunkdur", typ: "posfloat", good: "0.5"}, {key: "timesubsdur", typ: "int", good: "900"}, {key: "timesubsreg", typ: "int", rng: true, lo: 0, hi: 1, good: "1"},
	{key: "patch", typ: "int", good: "60"}, {key: "timesubsstpp", typ: "list", good: "en,sv"}, {key: "timesubswvtt", typ: "list", good: "en"},
	{key: "statuscode", typ: "special", good: "[{cycle:30,rsq:0,code:404}]"}, {key: "traffic", typ: "special", good: "u20d10,u5d5"},
	{key: "drm", typ: "special", good: "nosuch"}, {key: "eccp", typ: "special", good: "cenc"}, {key: "annexI", typ: "special", good: "a=1,b=2"},
	{key: "utc", typ: "special", good: "direct-ntp"}, {key: "segtimeline", typ: "flag", good: "1"}, {key: "segtimelinenr", typ: "flag", good: "1"},
	{key: "continuous", typ: "flag", good: "1"}, {key: "tfdt", typ: "flag", good: "32"}, {key: "cont", typ: "flag", good: "1"}, {key: "sidx", typ: "flag", good: "1"},
	{key: "insertad", typ: "flag", good: "1"}, {key: "segtimelineloss", typ: "flag", good: "1"}, {key: "modulo", typ: "special", good: "10"},
}

var c08Special = map[string][]c08Val{
	"statuscode": {{"[]", "empty-list"}, {"[{}]", "empty-obj"}, {"[{cycle:0,rsq:0,code:404}]", "cycle-zero"}, {"[{cycle:30,rsq:-1,code:404}]", "rsq-negative"},
		{"[{cycle:30,rsq:0,code:99}]", "code-low"}, {"[{cycle:30,rsq:0,code:404,rep:}]", "rep-empty"}, {"[{cycle:30}", "unbalanced"}, {"x", "garbage"},
		{"[{cycle:30,rsq:0,code:404},{cycle:1,rsq:99999,code:500}]", "two"}, {"[{cycle:9999999999,rsq:0,code:404}]", "cycle-huge"}, {"[{cycle:1,rsq:0,code:404}]", "cycle-one"},
		// cycle x media timescale wraps around 64 bits (to 0 for 2^60 x 90000; negative / small for the others)
		{"[{cycle:1152921504606846976,rsq:0,code:404}]", "cycle-2^60"}, {"[{cycle:4611686018427387904,rsq:0,code:404}]", "cycle-2^62"},
		{"[{cycle:9223372036854775807,rsq:0,code:404}]", "cycle-maxint"}, {"[{cycle:204963823041217,rsq:1,code:404}]", "cycle-wraps-small"}},
	"traffic": {{"", "empty"}, {",", "empty-element"}, {"u20,", "trailing-comma"}, {"u0", "zero-dur"}, {"u", "no-dur"}, {"x5", "bad-letter"}, {"20", "no-letter"},
		{"u99999999999999999999", "huge"}, {"u20d10,", "empty-last"}, {",u5", "empty-first"}, {"u1d1s1h1", "all-states-1s"},
		// valid durations whose sum wraps around 64 bits (to 0, to a negative and to a small positive cycle)
		{"u9223372036854775807d9223372036854775807u2", "sum-wraps-to-zero"}, {"u4611686018427387904d4611686018427387904s4611686018427387904h4611686018427387904", "sum-wraps-to-zero-4"},
		{"u9223372036854775807d5", "sum-wraps-negative"}, {"u9223372036854775807d9223372036854775807u7", "sum-wraps-small"}},
	"drm":    {{"", "empty"}, {"nosuch", "unknown"}, {"eccp-cenc", "eccp-name"}, {"../x", "path"}},
	"eccp":   {{"", "empty"}, {"cenc", "cenc"}, {"cbcs", "cbcs"}, {"cbc1", "unknown-scheme"}, {"CENC", "upper"}},
	"annexI": {{"", "empty"}, {"a", "no-equals"}, {"a=1", "one"}, {"a=1=2", "two-equals"}, {"=", "only-equals"}, {"a=1,,b=2", "empty-pair"}, {",", "comma"}},
	"utc":    {{"", "empty"}, {"keep", "keep"}, {"keep-direct", "keep-plus"}, {"nosuch", "unknown"}, {"none", "none"}, {"direct-head-ntp-sntp-httpxsdate-httpiso", "many"}, {"-", "hyphen"}},
	"modulo": {{"10", "set"}},
}

func c08Join(parts []string, tail string) string {
	s := "/livesim2"
	for _, p := range parts {
		s += "/" + p
	}
	return s + "/" + tail
}

func (C08) Gen(rng *core.Rng, tier string, idx int) *core.Scenario {
	ar := core.Pick(rng, bundledMPDs)
	a := refAssets(hx.BundledAssets)[ar.Asset]
	now := int64(1_600_000_000_000) + rng.Int63n(300_000_000_000)
	if rng.Chance(0.1) {
		now = rng.Int63n(100_000)
	}
	w := c08World{VodRoot: "bundled", Asset: ar.Asset, MPD: ar.MPD, NowMS: now}
	sc := core.NewScenario("C08", "tlsim", 0, tier, w)
	ref := a.Ref()
	n := a.IndexContaining(ref, uint64(now)*ref.Timescale/1000)
	if n > 2 {
		n -= 2
	}
	segName := func(repID string, nr int64) string {
		rep := a.Reps[repID]
		return mediaURL(rep.MediaURI, nr)
	}
	reps := a.RepIDs()
	nOps := rng.Range(6, 14)
	if tier == "thorough" {
		nOps = rng.Range(12, 40)
	}
	q := func(target string) string {
		sep := "?"
		if strings.Contains(target, "?") {
			sep = "&"
		}
		return fmt.Sprintf("%s%snowMS=%d", target, sep, now)
	}
	for i := 0; i < nOps; i++ {
		var op c08Op
		switch rng.Intn(10) {
		case 0, 1, 2, 3: // URL parameter with a hostile value, singly or pairwise
			k := core.Pick(rng, c08Keys)
			var v c08Val
			if sp, ok := c08Special[k.key]; ok && rng.Chance(0.7) {
				v = core.Pick(rng, sp)
			} else {
				v = core.Pick(rng, c08Hostile)
			}
			parts := []string{k.key + "_" + v.v}
			op = c08Op{Kind: "param", Key: k.key, Class: v.class, Expect: "any"}
			if rng.Chance(0.35) { // pairwise: a second (valid or hostile) parameter
				k2 := core.Pick(rng, c08Keys)
				v2 := c08Val{k2.good, "valid"}
				if rng.Chance(0.4) {
					v2 = core.Pick(rng, c08Hostile)
				}
				if rng.Bool() {
					parts = append(parts, k2.key+"_"+v2.v)
				} else {
					parts = append([]string{k2.key + "_" + v2.v}, parts...)
				}
				op.What = "pair"
			} else {
				op.What = "single"
				op.Expect = c08Expect(k, v)
			}
			tail := ar.Asset + "/" + ar.MPD
			if rng.Chance(0.5) {
				rep := core.Pick(rng, reps)
				tail = ar.Asset + "/" + segName(rep, n)
				if k.key == "traffic" && rng.Chance(0.7) {
					tail = ar.Asset + "/bu0/" + segName(rep, n) // below the first BaseURL of the pattern: its state is looked up
				}
				if rng.Chance(0.15) && a.Reps[rep].ContentType != "image" {
					tail = ar.Asset + "/" + a.Reps[rep].InitURI
				}
			}
			op.Target = q(c08Join(parts, tail))
		case 4, 5: // segment-name shapes
			rep := core.Pick(rng, reps)
			parts := []string{}
			if rng.Chance(0.5) {
				parts = append(parts, core.Pick(rng, []string{"segtimeline_1", "segtimelinenr_1", "snr_5", "start_1600000000", "traffic_u20d10,u5d5", "timesubsstpp_en", "timesubswvtt_en", "eccp_cenc", "chunkdur_0.5/ato_1", "statuscode_[{cycle:30,rsq:0,code:404}]", "scte35_1", "periods_60"}))
			}
			shapes := []struct{ name, what, expect string }{
				{segName(rep, 0), "nr-zero", "any"}, {segName(rep, -1), "nr-negative", "any"}, {segName(rep, 4294967296), "nr-2^32", "any"},
				{segName(rep, 9223372036854775807), "nr-maxint", "any"}, {strings.Replace(segName(rep, n), ".m4s", ".xyz", 1), "wrong-extension", "any"},
				{"nosuchrep/" + fmt.Sprint(n) + ".m4s", "unknown-rep", "404"}, {"bu9/" + segName(rep, n), "baseurl-out-of-range", "any"}, {"bu0/" + segName(rep, n), "baseurl-0", "any"},
				{"bu-1/" + segName(rep, n), "baseurl-negative", "any"}, {"bux/" + segName(rep, n), "baseurl-garbage", "any"}, {"timestpp-xx/" + fmt.Sprint(n) + ".m4s", "unknown-language", "any"},
				{"timestpp-en/init.mp4", "subs-init-not-configured", "any"}, {"timewvtt-/" + fmt.Sprint(n) + ".m4s", "empty-language", "any"}, {"", "no-segment", "any"},
				{"99999999999999999999.m4s", "nr-overflow", "any"}, {segName(rep, n) + "/extra", "extra-path", "any"}, {"../" + segName(rep, n), "dotdot", "any"},
				{"init.mp4", "bare-init", "any"}, {".m4s", "only-extension", "any"}, {"thumbs/0.jpg", "thumb-zero", "any"}, {strings.Repeat("a", 3000) + ".m4s", "long-name", "any"},
			}
			sh := core.Pick(rng, shapes)
			op = c08Op{Kind: "segname", What: sh.what, Expect: sh.expect, Target: q(c08Join(parts, ar.Asset+"/"+sh.name))}
			if rng.Chance(0.08) && a.Reps[rep].ContentType != "image" { // (thumbnails keep $Number$ addressing)
				// $Time$ addressing with a time that is no segment start (one tick after one): there is no such segment
				if tg, ok := modelTarget(a, URLCfg{MPDType: "timeline"}, rep, n); ok {
					if i, j := strings.LastIndex(tg.URL, "/"), strings.LastIndex(tg.URL, "."); i >= 0 && j > i {
						if t, err := strconv.ParseInt(tg.URL[i+1:j], 10, 64); err == nil {
							name := fmt.Sprintf("%s%d%s", tg.URL[:i+1], t+1, tg.URL[j:])
							op = c08Op{Kind: "segname", What: "time-not-a-segment-start", Expect: "404", Target: q(c08Join([]string{"segtimeline_1"}, ar.Asset+"/"+name))}
						}
					}
				}
			}
			if sh.what == "unknown-rep" && len(parts) > 0 {
				op.Expect = "any"
			}
			if rng.Chance(0.1) { // path shorter than the asset / unknown asset
				op = c08Op{Kind: "segname", What: "unknown-asset", Expect: "404", Target: q(c08Join(parts, "nosuchasset/"+core.Pick(rng, []string{"Manifest.mpd", "V300/1.m4s", ""})))}
				if strings.HasSuffix(op.Target[:strings.Index(op.Target, "?")], "/") || len(parts) > 0 {
					op.Expect = "any" // e.g. a start time after now answers 425 before the asset is looked up
				}
			}
		case 6: // methods
			m := core.Pick(rng, []string{"GET", "HEAD", "POST", "OPTIONS", "PUT", "DELETE", "PATCH", "TRACE"})
			tgt := core.Pick(rng, []string{q("/livesim2/" + ar.Asset + "/" + ar.MPD), q("/livesim2/" + ar.Asset + "/" + segName(core.Pick(rng, reps), n)), "/assets", "/vod/" + ar.Asset + "/" + ar.MPD,
				"/urlgen/", "/api/cmaf-ingests", "/api/cmaf-ingests/1", "/reqcount", "/", "/healthz", "/config", "/version", "/static/time.txt", "/patch/livesim2/" + ar.Asset + "/Manifest.mpp", "/loglevel", "/favicon.ico"})
			op = c08Op{Kind: "method", Method: m, Target: tgt, What: m, Expect: "any"}
			if m == "POST" || m == "PUT" || m == "PATCH" {
				op.Body = []byte(core.Pick(rng, []string{"", "{}", "[]", "null", `{"kids":["AAAA"],"type":"temporary"}`, "\x00\x01\x02", `{"body":{}}`}))
				op.Hdr = map[string]string{"Content-Type": core.Pick(rng, []string{"application/json", "text/plain", ""})}
			}
		case 7: // other endpoints
			type ep struct{ m, t, body, what string }
			pt := "2026-01-01T00:00:00Z"
			ptNow := time.UnixMilli(now).UTC().Format("2006-01-02T15:04:05Z") // an instant at which segment n is available
			eps := []ep{
				{"GET", "/patch/livesim2/segtimeline_1/patch_60/" + ar.Asset + "/" + strings.Replace(ar.MPD, ".mpd", ".mpp", 1), "", "patch-no-publishtime"},
				{"GET", "/patch/livesim2/segtimeline_1/patch_60/" + ar.Asset + "/" + strings.Replace(ar.MPD, ".mpd", ".mpp", 1) + "?publishTime=garbage", "", "patch-garbled-publishtime"},
				{"GET", "/patch/livesim2/segtimeline_1/patch_60/" + ar.Asset + "/" + strings.Replace(ar.MPD, ".mpd", ".mpp", 1) + "?publishTime=" + pt + fmt.Sprintf("&nowMS=%d", now), "", "patch-old-publishtime"},
				{"GET", "/patch/livesim2/" + ar.Asset + "/" + strings.Replace(ar.MPD, ".mpd", ".mpp", 1) + "?publishTime=" + pt, "", "patch-without-patch-param"},
				{"GET", "/patch/livesim2/chunkdur_0.5/ato_1.5/" + ar.Asset + "/" + segName(core.Pick(rng, reps), n) + "?publishTime=" + ptNow + fmt.Sprintf("&nowMS=%d", now), "", "patch-media-segment"},
				{"GET", "/patch/livesim2/" + ar.Asset + "/" + segName(core.Pick(rng, reps), n) + "?publishTime=" + ptNow + fmt.Sprintf("&nowMS=%d", now), "", "patch-media-segment"},
				{"GET", "/patch/livesim2/" + ar.Asset + "/" + ar.MPD + "?publishTime=" + pt + fmt.Sprintf("&nowMS=%d", now), "", "patch-mpd-instead-of-mpp"},
				{"GET", "/patch/assets?publishTime=" + pt, "", "patch-other-endpoint"},
				{"GET", "/patch/", "", "patch-empty"}, {"GET", "/patch/livesim2/nosuch/x.mpp?publishTime=" + pt, "", "patch-unknown-asset"},
				{"GET", "/urlgen/create?url=/livesim2/" + ar.Asset + "/" + ar.MPD, "", "urlgen-create"}, {"GET", "/urlgen/create", "", "urlgen-create-empty"},
				{"GET", "/urlgen/create?url=%25zz&tsbd=abc&ato=inf&periods=0", "", "urlgen-create-garbage"}, {"GET", "/urlgen/mpds?asset=" + ar.Asset, "", "urlgen-mpds"},
				{"GET", "/urlgen/mpds?asset=nosuch", "", "urlgen-mpds-unknown"}, {"GET", "/urlgen/mpds", "", "urlgen-mpds-empty"}, {"GET", "/urlgen/drms?asset=" + ar.Asset, "", "urlgen-drms"},
				{"GET", "/urlgen/drms?asset=nosuch", "", "urlgen-drms-unknown"}, {"GET", "/urlgen/drms", "", "urlgen-drms-empty"}, {"GET", "/urlgen/nosuch", "", "urlgen-unknown"},
				{"GET", "/urlgen/create?asset=" + ar.Asset + "&mpd=" + ar.MPD + "&stl=tlt&tsbd=-1&drm=nosuch&scte35=9&statuscode=x&traffic=,&annexI=a", "", "urlgen-create-hostile"},
				{"POST", "/livesim2/eccp_cenc/" + ar.Asset + "/eccp.json", `{"kids":["AAAAAAAAAAAAAAAAAAAAAA"],"type":"temporary"}`, "laurl-foreign-kid"},
				{"POST", "/livesim2/eccp_cenc/" + ar.Asset + "/eccp.json", `{"kids":[],"type":"temporary"}`, "laurl-no-kids"},
				{"POST", "/livesim2/eccp_cenc/" + ar.Asset + "/eccp.json", `{"kids":["!!"],"type":"x"}`, "laurl-bad-base64"},
				{"POST", "/livesim2/eccp_cenc/" + ar.Asset + "/eccp.json", `not json`, "laurl-not-json"}, {"POST", "/livesim2/eccp_cenc/" + ar.Asset + "/eccp.json", ``, "laurl-empty"},
				{"POST", "/eccp.json", `{"kids":["KID"]}`, "laurl-root"}, {"POST", "/livesim2/" + ar.Asset + "/other.json", `{}`, "post-other"},
				{"POST", "/api/cmaf-ingests", `{}`, "api-create-empty"}, {"POST", "/api/cmaf-ingests", `{"destRoot":"","destName":"","livesimURL":""}`, "api-create-blank"},
				{"POST", "/api/cmaf-ingests", `{"destRoot":"http://sim.invalid/upload","destName":"x","livesimURL":"/livesim2/nosuch/Manifest.mpd","testNowMS":1000}`, "api-create-unknown-asset"},
				{"POST", "/api/cmaf-ingests", `{"destRoot":"http://sim.invalid/upload","destName":"x","livesimURL":"garbage","testNowMS":-5,"duration":-1}`, "api-create-garbage"},
				{"POST", "/api/cmaf-ingests", `[1,2,3]`, "api-create-array"}, {"GET", "/api/cmaf-ingests/999999", "", "api-get-unknown"}, {"GET", "/api/cmaf-ingests/abc", "", "api-get-garbage"},
				{"GET", "/api/cmaf-ingests/-1", "", "api-get-negative"}, {"GET", "/api/cmaf-ingests/99999999999999999999", "", "api-get-overflow"}, {"DELETE", "/api/cmaf-ingests/999999", "", "api-delete-unknown"},
				{"GET", "/api/cmaf-ingests/999999/step", "", "api-step-unknown"}, {"GET", "/api/cmaf-ingests/0/step", "", "api-step-zero"}, {"GET", "/api/nosuch", "", "api-unknown"},
				{"GET", "/vod/nosuch/Manifest.mpd", "", "vod-unknown"}, {"GET", "/vod/" + ar.Asset + "/../../../../etc/passwd", "", "vod-traversal"}, {"GET", "/vod/", "", "vod-empty"},
				{"GET", "/reqcount", "", "reqcount"}, {"GET", "/assets", "", "assets"}, {"GET", "/static/nosuch", "", "static-unknown"},
				{"GET", "/livesim/" + ar.Asset + "/" + ar.MPD, "", "redirect-livesim"}, {"GET", "/dash/vod/" + ar.Asset + "/" + ar.MPD, "", "redirect-vod"},
				{"GET", "/livesim2/" + ar.Asset + "/" + ar.MPD + "?nowMS=abc", "", "nowms-garbage"}, {"GET", "/livesim2/" + ar.Asset + "/" + ar.MPD + "?nowMS=-5", "", "nowms-negative"},
				{"GET", "/livesim2/" + ar.Asset + "/" + ar.MPD + "?nowMS=99999999999999999999", "", "nowms-overflow"}, {"GET", "/livesim2/" + ar.Asset + "/" + ar.MPD + "?nowDate=garbage", "", "nowdate-garbage"},
				{"GET", "/livesim2/" + ar.Asset + "/" + ar.MPD + "?publishTime=0000", "", "publishtime-garbage"}, {"GET", "/livesim2/", "", "livesim-empty"}, {"GET", "/livesim2", "", "livesim-bare"},
				{"GET", "/livesim2//", "", "livesim-slashes"}, {"GET", "/livesim2/" + ar.Asset, "", "asset-dir"}, {"GET", "/livesim2/" + ar.Asset + "/", "", "asset-dir-slash"},
				{"GET", "/livesim2/start_5/stop_3/" + ar.Asset + "/" + ar.MPD + fmt.Sprintf("?nowMS=%d", now), "", "stop-before-start"},
				{"GET", "/livesim2/segtimeline_1/start_1600000000/stop_1500000000/" + ar.Asset + "/" + ar.MPD + "?nowMS=1600000005000", "", "stop-before-start-timeline"},
			}
			e := core.Pick(rng, eps)
			op = c08Op{Kind: "endpoint", Method: e.m, Target: e.t, What: e.what, Expect: "any"}
			if e.body != "" || e.m == "POST" {
				op.Body = []byte(e.body)
				op.Hdr = map[string]string{"Content-Type": "application/json"}
			}
		case 8: // individually valid parameters in unusual combinations, against small and current segment numbers
			pool := []string{"snr_10", "snr_0", "timesubsstpp_en", "timesubswvtt_en,sv", "chunkdur_0.5", "chunkdur_2", "ato_2", "ato_8", "ato_1.5", "ato_inf", "segtimeline_1", "segtimelinenr_1",
				"tsbd_1", "tsbd_0", "periods_60", "continuous_1", "start_1", "startrel_-20", "stoprel_1", "ltgt_2000", "timesubsdur_300", "timesubsreg_1", "scte35_2", "eccp_cbcs", "mup_1", "timeoffset_-5",
				"utc_none", "tfdt_32", "patch_60", "subsstppfmt_1", "dur_4", "init_1", "cont_1", "insertad_1"}
			rng.Shuffle(len(pool), func(i, j int) { pool[i], pool[j] = pool[j], pool[i] })
			parts := append([]string{}, pool[:rng.Range(2, 4)]...)
			nr := core.Pick(rng, []int64{0, 1, 3, 9, 10, 11, n, n + 1})
			var name string
			if rng.Chance(0.3) {
				parts = append(parts, "snr_10")
			}
			switch rng.Intn(4) {
			case 0:
				name = fmt.Sprintf("timestpp-en/%d.m4s", nr)
				parts = append(parts, "timesubsstpp_en")
			case 1:
				name = fmt.Sprintf("timewvtt-en/%d.m4s", nr)
				parts = append(parts, "timesubswvtt_en")
			case 2:
				name = ar.MPD
			default:
				name = segName(core.Pick(rng, reps), nr)
			}
			at := now
			if rng.Chance(0.4) { // an instant at which small numbers are inside the window
				at = int64(rng.Range(0, 40_000))
			}
			op = c08Op{Kind: "segname", What: "valid-combination", Expect: "any", Target: fmt.Sprintf("%s?nowMS=%d", c08Join(parts, ar.Asset+"/"+name), at)}
		default: // uploads to the receiver with hostile bodies (engine S material)
			if rng.Chance(0.06) {
				for _, o := range c08UploadZeroDur(rng) {
					sc.AddOp(o)
				}
				continue
			}
			if rng.Chance(0.35) {
				// a valid CMAF track in which one box is missing: the init segment first, then a media segment
				for _, o := range c08UploadDamaged(rng) {
					sc.AddOp(o)
				}
				continue
			}
			op = c08Upload(rng)
		}
		sc.AddOp(op)
	}
	return sc
}

// c08Expect classifies a single mutated typed parameter per the statement: malformed or out-of-range
// values give a 4xx with a message.
func c08Expect(k c08Key, v c08Val) string {
	isInt := func(s string) (int64, bool) {
		n, err := strconv.ParseInt(s, 10, 64)
		return n, err == nil
	}
	switch k.typ {
	case "int":
		n, ok := isInt(v.v)
		if strings.ContainsAny(v.v, "%") {
			return "any" // URL escaping changes the value before it is parsed
		}
		if !ok {
			return "4xx"
		}
		if k.rng && (n < k.lo || n > k.hi) {
			return "4xx"
		}
	case "float", "floatinf", "posfloat":
		switch v.class {
		case "empty", "non-numeric", "comma", "hyphen", "space": // "1_2" is a valid Go float literal (12)
			return "4xx"
		}
	}
	return "any"
}

func c08Box(size uint32, typ string, payload []byte) []byte {
	b := make([]byte, 8)
	binary.BigEndian.PutUint32(b, size)
	copy(b[4:], typ)
	return append(b, payload...)
}

func c08Upload(rng *core.Rng) c08Op {
	paths := []string{"/upload/ch1/video/1.cmfv", "/upload/ch1/video/init.cmfv", "/upload/ch1/Streams(video.cmfv)", "/upload/ch1/audio/7.cmfa", "/upload/x.mpd", "/upload/ch1/x.mpd",
		"/upload/", "/upload", "/upload/ch1/video/1.mp4", "/upload/ch1/video/.cmfv", "/upload/../../x/video/1.cmfv", "/other/ch1/video/1.cmfv", "/upload/ch1/Streams(.cmfv)", "/upload/ch1/Streams()"}
	var body []byte
	what := ""
	switch rng.Intn(15) {
	case 12: // declared size that makes a 32-bit offset wrap around
		body, what = append(c08Box(16, "free", []byte("12345678")), c08Box(0xFFFFFFF0, "free", []byte("xxxx"))...), "offset-wrap"
	case 13:
		body, what = c08Box(0xFFFFFFFF, "mdat", []byte("short")), "size-4GiB"
	case 14:
		body, what = append(c08Box(16, "styp", []byte("cmfscmfs")), c08Box(0x7FFFFFFF, "moof", bytes.Repeat([]byte{0}, 40))...), "size-2GiB-moof"
	case 0:
		what = "empty-body"
	case 1:
		body, what = c08Box(uint32(rng.Intn(8)), "moof", nil), "box-size-lt8"
	case 2:
		body, what = c08Box(0, "mdat", []byte("xxxx")), "box-size-zero"
	case 3:
		body, what = c08Box(1<<20, "mdat", []byte("short")), "size-beyond-body"
	case 4:
		body, what = []byte{0, 0, 0}, "truncated-header"
	case 5:
		body, what = []byte("\x00\x00\x10\x00 not mp4 at all, just bytes that are longer than a header"), "no-boxes"
	case 6:
		body, what = c08Box(8, "moov", nil), "empty-moov"
	case 7:
		body, what = append(c08Box(8, "moof", nil), c08Box(8, "mdat", nil)...), "empty-moof-mdat"
	case 8:
		body, what = append(c08Box(16, "styp", []byte("cmfscmfs")), c08Box(16, "moof", []byte{0, 0, 0, 0, 0, 0, 0, 0})...), "garbage-moof"
	case 9:
		body, what = append([]byte{0x00, 0xff, 0xff, 0xff}, bytes.Repeat([]byte{0xff}, 60)...), "all-ff-16MiB"
	case 10:
		body, what = c08Box(16<<20, "free", nil), "huge-declared-size"
	default:
		body, what = c08Box(16, "ftyp", []byte("isom\x00\x00\x00\x00")), "ftyp-only"
	}
	op := c08Op{Kind: "upload", Method: core.Pick(rng, []string{"PUT", "POST", "GET", "DELETE"}), Target: core.Pick(rng, paths), Body: body, What: what, Expect: "any"}
	if rng.Chance(0.3) {
		op.Hdr = map[string]string{"Content-Length": core.Pick(rng, []string{"0", "-1", "abc", "99999999999", fmt.Sprint(len(body))})}
	}
	return op
}

func (C08) Run(t *testing.T, sc *core.Scenario, res *core.Result) {
	w, err := core.DecodeWorld[c08World](sc)
	if err != nil {
		panic(err)
	}
	ops, err := core.DecodeOps[c08Op](sc)
	if err != nil {
		panic(err)
	}
	root := vodRootOf(w.VodRoot)
	for _, op := range ops {
		handler := ""
		if op.Kind == "upload" {
			handler = c08RecvHandler
		}
		m := op.Method
		if m == "" {
			m = "GET"
		}
		g := hx.GuardDo(root, handler, m, op.Target, op.Body, op.Hdr)
		res.Count("op." + op.Kind)
		res.Count("fault.hostile-" + op.Kind)
		res.Event("%s %s %s -> %d len=%d hung=%v died=%v", op.Kind, m, trunc(op.Target, 160), g.Status, g.Len, g.Hung, g.Died)
		sig := core.Sig("request", op.Kind, "what", op.What)
		if op.Kind == "param" {
			sig = core.Sig("request", "param", "what", op.What, "key", op.Key, "class", op.Class)
			if op.What == "pair" {
				sig = core.Sig("request", "param", "what", "pair") // the frame identifies the cause
			}
		}
		if op.Kind == "upload" && !g.Hung && !g.Died {
			// what an upload hands to the channel goroutine is worked on after the handler has returned: a death of the
			// process in that goroutine belongs to this upload, not to whatever request comes next
			for k := 0; k < 2 && !g.Died; k++ {
				if p := hx.GuardDo(root, handler, "GET", "/upload/settle", nil, nil); p.Died {
					g.Died, g.PanicFrame, g.Note = true, p.PanicFrame, p.Note
				}
			}
		}
		switch {
		case g.Hung:
			res.Violate("C08.terminates", merge(sig, core.Sig("kind", "hang")), "%s %s never returned (%s)", m, trunc(op.Target, 300), g.Note)
			continue
		case g.Died:
			res.Violate("C08.no-crash", merge(sig, core.Sig("kind", "process-died", "frame", g.PanicFrame)), "%s %s killed the server process (%s)", m, trunc(op.Target, 300), g.Note)
			continue
		case g.Panic != "":
			res.Violate("C08.no-crash", merge(sig, core.Sig("kind", "panic", "frame", g.PanicFrame)), "%s %s: panic %s", m, trunc(op.Target, 300), g.Panic)
			continue
		}
		res.Count("probe.answered")
		switch {
		case g.Status >= 500 && g.Len == 0:
			res.Violate("C08.deliberate-response", merge(sig, core.Sig("kind", "empty-5xx", "status", fmt.Sprint(g.Status))), "%s %s: %d without message", m, trunc(op.Target, 300), g.Status)
		case g.Status < 100 || g.Status > 599:
			res.Violate("C08.deliberate-response", merge(sig, core.Sig("kind", "no-status", "status", fmt.Sprint(g.Status))), "%s %s: status %d", m, trunc(op.Target, 300), g.Status)
		}
		switch op.Expect {
		case "4xx":
			res.Count("probe.expect-4xx")
			if g.Status < 400 || g.Status > 499 || g.Len == 0 {
				res.Violate("C08.malformed-parameter-4xx", merge(sig, core.Sig("kind", "not-4xx", "status", fmt.Sprint(g.Status))),
					"%s %s: status %d (%q), expected 4xx with a message", m, trunc(op.Target, 300), g.Status, trunc(g.Head, 60))
			}
		case "404":
			res.Count("probe.expect-404")
			if g.Status != 404 {
				res.Violate("C08.unknown-404", merge(sig, core.Sig("kind", "not-404", "status", fmt.Sprint(g.Status))),
					"%s %s: status %d (%q), expected 404", m, trunc(op.Target, 300), g.Status, trunc(g.Head, 60))
			}
		}
	}
	res.Nontrivial = res.Stats["probe.answered"] >= 2
}

// ---- structurally damaged CMAF uploads ------------------------------------------------------

var c08Containers = map[string]bool{"moov": true, "trak": true, "mdia": true, "minf": true, "stbl": true, "mvex": true, "moof": true, "traf": true, "dinf": true, "edts": true}

// c08DropBox removes the first box of the given type (searched depth-first through the plain container boxes, and the
// sample entries of stsd) and corrects the sizes of its ancestors. ok=false when there is no such box.
func c08DropBox(b []byte, typ string) (out []byte, ok bool) {
	pos := 0
	for pos+8 <= len(b) {
		size := int(binary.BigEndian.Uint32(b[pos:]))
		t := string(b[pos+4 : pos+8])
		if size < 8 || pos+size > len(b) {
			return b, false
		}
		if t == typ {
			return append(append([]byte{}, b[:pos]...), b[pos+size:]...), true
		}
		hdr := 0
		switch {
		case c08Containers[t]:
			hdr = 8
		case t == "stsd":
			hdr = 16 // full box header + entry count (left as it is: the count then promises an entry that is not there)
		case t == "avc1" || t == "encv":
			hdr = 8 + 78
		}
		if hdr > 0 && size >= hdr {
			if inner, done := c08DropBox(b[pos+hdr:pos+size], typ); done {
				nb := append([]byte{}, b[:pos+hdr]...)
				nb = append(nb, inner...)
				nb = append(nb, b[pos+size:]...)
				binary.BigEndian.PutUint32(nb[pos:], uint32(hdr+len(inner)))
				return nb, true
			}
		}
		pos += size
	}
	return b, false
}

// c08ZeroDur rewrites an init or media segment so that every sample has duration zero.
func c08ZeroDur(b []byte) []byte {
	f, err := mp4.DecodeFile(bytes.NewReader(b))
	if err != nil {
		panic("harness: " + err.Error())
	}
	if f.Init != nil && f.Init.Moov != nil && f.Init.Moov.Mvex != nil && f.Init.Moov.Mvex.Trex != nil {
		f.Init.Moov.Mvex.Trex.DefaultSampleDuration = 0
	}
	for _, sg := range f.Segments {
		for _, fr := range sg.Fragments {
			tr := fr.Moof.Traf
			tr.Tfhd.DefaultSampleDuration = 0
			for i := range tr.Trun.Samples {
				tr.Trun.Samples[i].Dur = 0
			}
		}
	}
	var out bytes.Buffer
	if err := f.Encode(&out); err != nil {
		panic("harness: " + err.Error())
	}
	return out.Bytes()
}

// c08UploadZeroDur: a text track whose samples all have duration zero, next to an audio track that starts the channel.
func c08UploadZeroDur(rng *core.Rng) []c08Op {
	ch := fmt.Sprintf("zd%d", rng.Intn(1_000_000))
	up := func(tr, name string, body []byte) c08Op {
		return c08Op{Kind: "upload", Method: "PUT", Target: "/upload/" + ch + "/" + tr + "/" + name, Body: body, What: "zero-duration-samples", Expect: "any"}
	}
	txt, aud := "text-nor-0", "audio-nor-128Kbps"
	ops := []c08Op{up(txt, "init.cmft", c08ZeroDur(recvInitBody("zero", txt, false)))}
	t0, _ := recvSegBody("zero", txt, 0, 0)
	ops = append(ops, up(txt, "0.cmft", c08ZeroDur(t0)), up(aud, "init.cmfa", recvInitBody("zero", aud, false)))
	for i := 0; i < 3; i++ {
		a, _ := recvSegBody("zero", aud, 0, i)
		ops = append(ops, up(aud, fmt.Sprintf("%d.cmfa", i), a))
		if i == 1 && rng.Bool() {
			t1, _ := recvSegBody("zero", txt, 0, 1)
			ops = append(ops, up(txt, "1.cmft", c08ZeroDur(t1)))
		}
	}
	return ops
}

// c08UploadDamaged: init and first media segment of a small real track (receiver test vectors), one of them with a box removed.
func c08UploadDamaged(rng *core.Rng) []c08Op {
	type trk struct{ src, ext string }
	tr := core.Pick(rng, []trk{{"text-nor-0", ".cmft"}, {"audio-nor-128Kbps", ".cmfa"}, {"video-500Kbps", ".cmfv"}})
	initB := recvInitBody("zero", tr.src, false)
	segB, _ := recvSegBody("zero", tr.src, 0, 0)
	if tr.src == "video-500Kbps" {
		segB = nil // init only: the video segments are large
	}
	initBoxes := []string{"mvex", "trex", "mvhd", "trak", "tkhd", "mdia", "mdhd", "hdlr", "minf", "stbl", "stsd", "avc1", "avcC", "stpp", "mp4a", "esds", "dinf", "ftyp"}
	segBoxes := []string{"mfhd", "traf", "tfhd", "tfdt", "trun", "mdat", "styp", "moof"}
	what := ""
	damageInit := segB == nil || rng.Bool()
	for try := 0; try < 20 && what == ""; try++ {
		if damageInit {
			bx := core.Pick(rng, initBoxes)
			if nb, ok := c08DropBox(initB, bx); ok {
				initB, what = nb, "init-without-"+bx
			}
		} else {
			bx := core.Pick(rng, segBoxes)
			if nb, ok := c08DropBox(segB, bx); ok {
				segB, what = nb, "segment-without-"+bx
			}
		}
	}
	if what == "" {
		what = "undamaged-track"
	}
	ch := fmt.Sprintf("dmg%d", rng.Intn(1_000_000))
	ops := []c08Op{{Kind: "upload", Method: "PUT", Target: "/upload/" + ch + "/" + tr.src + "/init" + tr.ext, Body: initB, What: what, Expect: "any"}}
	if segB != nil {
		ops = append(ops, c08Op{Kind: "upload", Method: "PUT", Target: "/upload/" + ch + "/" + tr.src + "/0" + tr.ext, Body: segB, What: what, Expect: "any"})
		if rng.Bool() { // a second segment: the channel goroutine works on what the first left behind
			if s2, ok := recvSegBody("zero", tr.src, 0, 1); ok {
				ops = append(ops, c08Op{Kind: "upload", Method: "PUT", Target: "/upload/" + ch + "/" + tr.src + "/1" + tr.ext, Body: s2, What: what, Expect: "any"})
			}
		}
	}
	return ops
}

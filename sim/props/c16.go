package props

import (
	"bytes"
	"encoding/json"
	"fmt"
	"net/http"
	"os"
	"os/exec"
	"strconv"
	"strings"
	"testing"
	"testing/synctest"
	"time"

	"verif/sim/core"
	"verif/sim/hx"
	"verif/sim/refmodel"
)

// C16 — the CMAF-ingest sender emits a complete, ordered and faithful stream (engine B).
//
// One scenario = one synctest bubble holding the real livesim2 server (app.SetupServer), the
// sender sessions created through the REST API, a scripted receiver behind
// http.DefaultClient.Transport, and the scenario goroutine which acts only at quiescent points.
// See c16_check.go for the transport and the oracle.

// c16Epoch is the instant at which every synctest bubble starts (2000-01-01T00:00:00Z), ms.
const c16Epoch int64 = 946684800000

// c16RestTimeoutMS is the fake time after which a REST call is declared hung.
const c16RestTimeoutMS = 60000

const c16ChildEnv = "VERIF_C16_CHILD"

type c16Sess struct {
	Asset    string   `json:"asset"`
	MPD      string   `json:"mpd"`
	Parts    []string `json:"parts,omitempty"` // livesim2 URL options, in order
	Streams  bool     `json:"streams,omitempty"`
	User     string   `json:"user,omitempty"`
	Pass     string   `json:"pass,omitempty"`
	Duration *int     `json:"duration,omitempty"`
	StepNow  *int64   `json:"testNowMS,omitempty"` // set = step mode
	DestName string   `json:"destName"`            // may be empty (destination = destRoot)
}

type c16World struct {
	Kind       string    `json:"kind"` // step | realtime | mixed | timeline-subs | chunked-subs
	Isolate    bool      `json:"isolate,omitempty"`
	StartOffMS int64     `json:"startOffMS"` // fake time slept before the server is created
	Receiver   string    `json:"receiver"`   // stub | real
	Sessions   []c16Sess `json:"sessions"`
	TailMS     int64     `json:"tailMS"` // observation time after the last op
}

type c16Fault struct {
	Kind    string `json:"kind"` // status | delay
	Status  int    `json:"status,omitempty"`
	DelayMS int64  `json:"delayMS,omitempty"`
}

type c16Call struct {
	Op string `json:"op"` // step | info | delete
	S  int    `json:"s"`
}

type c16Op struct {
	Op    string    `json:"op"` // create | step | info | delete | sleep | fault | conc
	S     int       `json:"s,omitempty"`
	MS    int64     `json:"ms,omitempty"`    // sleep: duration; step: settle time after the call
	Rep   int       `json:"rep,omitempty"`   // fault: index into the sorted representation list, -1 = all
	Count int       `json:"count,omitempty"` // fault: number of consecutive requests hit
	Fault *c16Fault `json:"fault,omitempty"`
	Calls []c16Call `json:"calls,omitempty"` // conc: overlapping REST calls
}

// c16Cfg is what the harness understands of the URL options (for the oracle and signatures).
type c16Cfg struct {
	MPDType string // number | timeline | timelinenr
	Snr     int64
	AstS    int64
	AtoMS   int64
	AtoInf  bool
	Chunked bool
	GenSubs string // "", stpp, wvtt, both
	// StatusCode: the URL carries a statuscode_ pattern: livesim2 itself answers the scheduled segments with an error
	// code, so there is no body "as served" for them; gaps are not judged for such a session (everything else is)
	StatusCode bool
}

func c16ParseParts(parts []string) c16Cfg {
	c := c16Cfg{MPDType: "number"}
	stpp, wvtt := false, false
	for _, p := range parts {
		i := strings.LastIndex(p, "_")
		if i < 0 {
			continue
		}
		k, v := p[:i], p[i+1:]
		switch k {
		case "segtimeline":
			c.MPDType = "timeline"
		case "segtimelinenr":
			c.MPDType = "timelinenr"
		case "snr":
			n, _ := strconv.ParseInt(v, 10, 64)
			c.Snr = n
		case "start":
			n, _ := strconv.ParseInt(v, 10, 64)
			c.AstS = n
		case "ato":
			if v == "inf" {
				c.AtoInf = true
			} else {
				f, _ := strconv.ParseFloat(v, 64)
				c.AtoMS = int64(f*1000 + 0.5)
			}
		case "chunkdur":
			c.Chunked = true
		case "timesubsstpp":
			stpp = true
		case "timesubswvtt":
			wvtt = true
		case "statuscode":
			c.StatusCode = true
		}
	}
	switch {
	case stpp && wvtt:
		c.GenSubs = "both"
	case stpp:
		c.GenSubs = "stpp"
	case wvtt:
		c.GenSubs = "wvtt"
	}
	return c
}

func (s c16Sess) url() string {
	u := "/livesim2"
	for _, p := range s.Parts {
		u += "/" + p
	}
	return u + "/" + s.Asset + "/" + s.MPD
}

func (s c16Sess) stepMode() bool { return s.StepNow != nil }

type C16 struct{}

func init() { core.Register(C16{}) }

func (C16) ID() string     { return "C16" }
func (C16) Engine() string { return "bubble" }

// ---------------------------------------------------------------------------------------
// Generator.

type c16AssetChoice struct {
	asset, mpd string
	weight     int
}

var c16Assets = []c16AssetChoice{
	{"testpic_2s", "Manifest.mpd", 40},
	{"testpic_2s", "Manifest_imsc1.mpd", 10},
	{"bbb_hevc_ac3_8s", "manifest.mpd", 12},
	{"testpic_alt_seg_dur_stl", "Manifest.mpd", 10},
	{"testpic_6s", "Manifest.mpd", 8},
	{"testpic_8s", "Manifest.mpd", 5},
	{"WAVE/vectors/cfhd_sets/12.5_25_50/t3/2022-10-17", "stream.mpd", 2},
	{"WAVE/vectors/cfhd_sets/14.985_29.97_59.94/t1/2022-10-17", "stream.mpd", 2},
	{"testpic_2s", "Manifest_thumbs.mpd", 1}, // image adaptation set: the create call is refused
}

func c16PickAsset(rng *core.Rng, only2s bool) c16AssetChoice {
	if only2s {
		return c16Assets[0]
	}
	tot := 0
	for _, a := range c16Assets {
		tot += a.weight
	}
	x := rng.Intn(tot)
	for _, a := range c16Assets {
		if x < a.weight {
			return a
		}
		x -= a.weight
	}
	return c16Assets[0]
}

func c16FmtS(ms int64) string {
	s := strconv.FormatFloat(float64(ms)/1000, 'f', 3, 64)
	s = strings.TrimRight(s, "0")
	return strings.TrimRight(s, ".")
}

// c16GenParts draws the URL options of one session. nowMS is the (fake or test) instant at which
// the session will start; crashKind forces one of the two known process-killing combinations.
func c16GenParts(rng *core.Rng, a *refmodel.Asset, nowMS int64, realtime bool, kind string) []string {
	var parts []string
	mpdType := core.Pick(rng, []string{"number", "number", "timeline", "timelinenr"})
	chunked := false
	subs := rng.Chance(0.25)
	switch kind {
	case "timeline-subs":
		mpdType, subs = "timeline", true
	case "chunked-subs":
		chunked, subs = true, true
		if mpdType == "timeline" {
			mpdType = "number"
		}
	case "chunked":
		chunked, subs = true, false
	case "snr-near-start":
		subs = false
		// (with SegmentTimeline $Time$ this combination spins for minutes instead of crashing: the
		// watchdog of the isolated run reports it, but it costs 20 s of real time, so it is drawn less often)
		if mpdType == "timeline" && rng.Chance(0.75) {
			mpdType = "timelinenr"
		}
	default:
		// keep the known process-killing combination out of the ordinary kinds
		if subs && mpdType == "timeline" {
			if rng.Bool() {
				subs = false
			} else {
				mpdType = "timelinenr"
			}
		}
	}
	switch mpdType {
	case "timeline":
		parts = append(parts, "segtimeline_1")
	case "timelinenr":
		parts = append(parts, "segtimelinenr_1")
	}
	nearStart := false
	if kind == "near-start" {
		subs = false
		if realtime {
			st := nowMS/1000 - int64(rng.Range(0, int(3*a.SegDurMS/1000)))
			parts = append(parts, fmt.Sprintf("start_%d", st))
		}
		nearStart = true
	} else if kind == "snr-near-start" {
		// the stream has started fewer segments ago than the start number: known to kill the process
		st := nowMS/1000 - int64(rng.Range(0, int(3*a.SegDurMS/1000)+1))
		if st < 0 {
			st = 0
		}
		parts = append(parts, fmt.Sprintf("start_%d", st), fmt.Sprintf("snr_%d", core.Pick(rng, []int{7, 100, 4711})))
		nearStart = true
	} else if rng.Chance(0.12) {
		nearStart = true
		// stream started a few segments or some loops ago (never fewer than four segments: own kind)
		back := int64(rng.Range(0, 3))*a.LoopDurMS/1000 + 4*a.SegDurMS/1000 + int64(rng.Range(1, 40))
		st := nowMS/1000 - back
		if st < 0 {
			st = 0
		}
		parts = append(parts, fmt.Sprintf("start_%d", st))
	}
	if !nearStart && nowMS > 10000*a.SegDurMS && rng.Chance(0.2) {
		// (a start number larger than the number of segments since the stream start kills the process:
		// that combination is its own, isolated kind)
		if realtime {
			parts = append(parts, fmt.Sprintf("snr_%d", core.Pick(rng, []int{1, 2, 7})))
		} else {
			parts = append(parts, fmt.Sprintf("snr_%d", core.Pick(rng, []int{1, 2, 7, 100, 4711})))
		}
	}
	if rng.Chance(0.25) {
		parts = append(parts, fmt.Sprintf("tsbd_%d", core.Pick(rng, []int{10, 20, 30, 90, 300})))
	}
	segMS := a.SegDurMS
	if chunked {
		cd := core.Pick(rng, []int64{250, 500, 1000})
		if cd >= segMS {
			cd = segMS / 2
		}
		ato := segMS - cd
		if rng.Chance(0.25) && ato > 500 {
			ato -= 500 // less head start than the chunking allows
		}
		parts = append(parts, "ato_"+c16FmtS(ato), "chunkdur_"+c16FmtS(cd))
	} else if rng.Chance(0.1) {
		// availabilityTimeOffset without chunking
		if !realtime && mpdType == "number" && rng.Chance(0.3) {
			parts = append(parts, "ato_inf")
		} else {
			parts = append(parts, "ato_"+c16FmtS(core.Pick(rng, []int64{500, 1000, segMS / 2})))
		}
	}
	if subs {
		switch rng.Intn(3) {
		case 0:
			parts = append(parts, "timesubsstpp_"+core.Pick(rng, []string{"en", "en,sv"}))
		case 1:
			parts = append(parts, "timesubswvtt_"+core.Pick(rng, []string{"en", "de,fi"}))
		default:
			parts = append(parts, "timesubsstpp_en", "timesubswvtt_sv")
		}
	}
	if rng.Chance(0.08) {
		parts = append(parts, fmt.Sprintf("scte35_%d", core.Pick(rng, []int{1, 2, 3})))
	}
	if kind == "statuscode" {
		parts = append(parts, fmt.Sprintf("statuscode_[{cycle:%d,rsq:%d,code:%d}]", core.Pick(rng, []int{4, 10, 30}), rng.Intn(2), core.Pick(rng, []int{404, 410, 503})))
	}
	return parts
}

func c16GenFault(rng *core.Rng, segMS int64) *c16Fault {
	if rng.Bool() {
		return &c16Fault{Kind: "status", Status: core.Pick(rng, []int{400, 403, 404, 409, 500, 502, 503})}
	}
	mult := core.Pick(rng, []float64{0.3, 0.9, 1.0, 1.5, 2.5, 3.2})
	return &c16Fault{Kind: "delay", DelayMS: int64(float64(segMS) * mult)}
}

func (C16) Gen(rng *core.Rng, tier string, idx int) *core.Scenario {
	assets := refAssets(hx.BundledAssets)
	thorough := tier == "thorough"
	w := c16World{Receiver: "stub"}
	// Kinds. Everything that is known to be able to kill the process runs in a child process
	// (Isolate): chunked low-latency sessions (a DELETE or a receiver error while a chunked upload
	// is in flight), SegmentTimeline + generated subtitles, chunked + generated subtitles.
	x := rng.Intn(100)
	modeOf := ""
	switch {
	case x < 28:
		w.Kind, modeOf = "step", "step"
	case x < 60:
		w.Kind, modeOf = "realtime", "realtime"
	case x < 65:
		w.Kind = "mixed"
	case x < 70:
		w.Kind = "near-start" // the session starts within the first three segments of the stream
	case x < 88:
		w.Kind, w.Isolate = "chunked", true
	case x < 91:
		w.Kind, w.Isolate = "statuscode", true // URL with a statuscode_ pattern: known to be able to kill the process
	case x < 94:
		w.Kind, w.Isolate = "timeline-subs", true
	case x < 98:
		w.Kind, w.Isolate = "chunked-subs", true
	default:
		w.Kind, w.Isolate = "snr-near-start", true
	}
	crashKind := w.Kind
	small := w.Kind == "timeline-subs" || w.Kind == "chunked-subs" || w.Kind == "snr-near-start" || w.Kind == "near-start" || w.Kind == "statuscode"
	// where on the time axis the bubble works: at the bubble epoch, a bit later, or far later
	switch rng.Intn(4) {
	case 0:
		w.StartOffMS = 0
	case 1:
		w.StartOffMS = rng.Range64(0, 600000)
	case 2:
		w.StartOffMS = rng.Range64(0, 400) * 86400000 // days
	default:
		w.StartOffMS = rng.Range64(0, 20*365) * 86400000
	}
	w.StartOffMS += rng.Range64(0, 16000)
	nSess := 1
	if !small {
		nSess = core.Pick(rng, []int{1, 1, 1, 2, 2, 3})
	}
	faulty := rng.Chance(0.55) && !small
	sc := core.NewScenario("C16", "bubble", 0, tier, nil)
	var ops []c16Op
	add := func(o c16Op) { ops = append(ops, o) }
	now := c16Epoch + w.StartOffMS // fake instant of the generator's cursor
	var maxSegMS int64 = 2000
	type sessGen struct {
		a       *refmodel.Asset
		step    bool
		chunked bool
		maxDly  int64
		steps   int
		deleted bool
		created bool
	}
	sg := make([]*sessGen, nSess)
	for i := 0; i < nSess; i++ {
		ch := c16PickAsset(rng, (small && w.Kind != "near-start") || (nSess > 1 && rng.Chance(0.5)))
		a := assets[ch.asset]
		if a == nil {
			panic("harness: asset " + ch.asset + " not in the reference model")
		}
		for w.Kind == "chunked" && !a.ConstSegDur {
			// availabilityTimeOffset = segment duration - chunk duration needs one segment duration
			ch = c16PickAsset(rng, false)
			a = assets[ch.asset]
		}
		s := c16Sess{Asset: ch.asset, MPD: ch.mpd, DestName: fmt.Sprintf("ch%d", i)}
		if rng.Chance(0.1) {
			s.DestName = ""
		}
		step := modeOf == "step" || (modeOf == "" && rng.Bool())
		startAt := now
		if step {
			var tn int64
			switch rng.Intn(5) {
			case 0: // early in the stream
				tn = rng.Range64(4*a.SegDurMS, 40*a.SegDurMS)
			case 1: // around a loop wrap
				tn = int64(rng.Range(1, 5))*a.LoopDurMS + rng.Range64(-2*a.SegDurMS, a.SegDurMS)
			case 2:
				tn = now + rng.Range64(0, 100000)
			default:
				tn = rng.Range64(0, 1<<41)
			}
			// targeted: on a nominal segment boundary, one ms before, one ms after
			if rng.Chance(0.4) && a.SegDurMS > 0 {
				tn = tn/a.SegDurMS*a.SegDurMS + int64(rng.Range(-1, 1))
			}
			if tn < 4*a.SegDurMS {
				tn += 4 * a.SegDurMS
			}
			if w.Kind == "near-start" {
				tn = rng.Range64(0, 3*a.SegDurMS)
				if rng.Chance(0.4) {
					tn = tn / a.SegDurMS * a.SegDurMS
				}
			}
			s.StepNow = &tn
			startAt = tn
		}
		s.Parts = c16GenParts(rng, a, startAt, !step, crashKind)
		cfg := c16ParseParts(s.Parts)
		if cfg.AstS*1000 > startAt {
			// never before availabilityStartTime
			s.Parts = nil
			cfg = c16ParseParts(nil)
		}
		s.Streams = rng.Chance(0.3)
		if rng.Chance(0.3) {
			s.User, s.Pass = core.Pick(rng, []string{"u", "livesim", "a b"}), core.Pick(rng, []string{"p", "s3cr:et", "x"})
		}
		if rng.Chance(0.35) {
			segS := int(a.SegDurMS / 1000)
			if segS < 1 {
				segS = 1
			}
			d := core.Pick(rng, []int{segS, 2 * segS, 3 * segS, 2*segS + 1, 3*segS - 1, segS + 1, 4 * segS})
			if d < 1 {
				d = 1
			}
			s.Duration = &d
		}
		w.Sessions = append(w.Sessions, s)
		sg[i] = &sessGen{a: a, step: step, chunked: cfg.Chunked}
		if a.SegDurMS > maxSegMS {
			maxSegMS = a.SegDurMS
		}
	}
	// op list
	armFault := func(i int) {
		g := sg[i]
		f := c16GenFault(rng, g.a.SegDurMS)
		if f.Kind == "delay" && f.DelayMS > g.maxDly {
			g.maxDly = f.DelayMS
		}
		rep := -1
		if rng.Bool() {
			rep = rng.Intn(4)
		}
		add(c16Op{Op: "fault", S: i, Rep: rep, Count: rng.Range(1, 3), Fault: f})
	}
	// creates (a rare fault before the create hits the init segments)
	for i := 0; i < nSess; i++ {
		if i > 0 && rng.Chance(0.6) {
			ms := rng.Range64(0, 2*maxSegMS)
			add(c16Op{Op: "sleep", MS: ms})
			now += ms
		}
		if faulty && rng.Chance(0.08) {
			armFault(i)
		}
		add(c16Op{Op: "create", S: i})
		sg[i].created = true
	}
	nSteps := rng.Range(3, 9)
	if thorough {
		nSteps = rng.Range(5, 30)
	}
	if small {
		nSteps = rng.Range(2, 4)
	}
	for k := 0; k < nSteps; k++ {
		i := rng.Intn(nSess)
		g := sg[i]
		r := rng.Intn(100)
		switch {
		case faulty && r < 14:
			armFault(i)
		case r < 22:
			add(c16Op{Op: "info", S: i})
		case r < 25 && k > 1 && !g.deleted:
			add(c16Op{Op: "delete", S: i})
			g.deleted = true
		case r < 33 && !small:
			// overlapping REST calls; never a delete together with a step of the same session
			n := rng.Range(2, 4)
			var calls []c16Call
			stepped := map[int]bool{}
			deleted := map[int]bool{}
			for c := 0; c < n; c++ {
				j := rng.Intn(nSess)
				switch {
				case sg[j].step && !deleted[j] && !sg[j].deleted && rng.Chance(0.6):
					calls = append(calls, c16Call{Op: "step", S: j})
					stepped[j] = true
					sg[j].steps++
				case !stepped[j] && !sg[j].deleted && rng.Chance(0.1):
					calls = append(calls, c16Call{Op: "delete", S: j})
					deleted[j] = true
					sg[j].deleted = true
				default:
					calls = append(calls, c16Call{Op: "info", S: j})
				}
			}
			add(c16Op{Op: "conc", Calls: calls})
		default:
			if g.step {
				// settle time after the step: none, or enough for a chunked / delayed segment
				var ms int64
				if g.chunked || rng.Chance(0.3) {
					ms = g.a.SegDurMS + rng.Range64(0, g.a.SegDurMS)
				}
				if rng.Chance(0.5) {
					ms += g.maxDly
				}
				add(c16Op{Op: "step", S: i, MS: ms})
				g.steps++
				now += ms
			} else {
				// real time passes: a fraction of a segment, several segments, or up to a boundary
				var ms int64
				switch rng.Intn(4) {
				case 0:
					ms = rng.Range64(1, g.a.SegDurMS)
				case 1:
					ms = g.a.SegDurMS * int64(rng.Range(1, 3))
				case 2:
					ms = g.a.SegDurMS - (now-c16Epoch)%g.a.SegDurMS + int64(rng.Range(-1, 1))
					if ms <= 0 {
						ms = 1
					}
				default:
					ms = rng.Range64(1, 3*g.a.SegDurMS)
				}
				add(c16Op{Op: "sleep", MS: ms})
				now += ms
			}
		}
	}
	// a step session with a duration gets enough steps to run past its end in most cases
	for i, g := range sg {
		s := w.Sessions[i]
		if g.step && s.Duration != nil && !g.deleted && rng.Chance(0.8) {
			want := int(int64(*s.Duration)*1000/g.a.SegDurMS) + 3
			for g.steps < want {
				var ms int64
				if g.chunked {
					ms = 2 * g.a.SegDurMS
				}
				add(c16Op{Op: "step", S: i, MS: ms + g.maxDly})
				g.steps++
			}
		}
	}
	// observation tail: long enough for delays to drain and for a duration to end
	w.TailMS = maxSegMS * int64(rng.Range(1, 3))
	for i, g := range sg {
		s := w.Sessions[i]
		if !g.step && s.Duration != nil && rng.Chance(0.8) {
			need := int64(*s.Duration)*1000 + 3*g.a.SegDurMS - (now - c16Epoch - w.StartOffMS)
			if need > w.TailMS {
				w.TailMS = need
			}
		}
		if g.maxDly+g.a.SegDurMS > w.TailMS {
			w.TailMS = g.maxDly + g.a.SegDurMS
		}
	}
	if !small && !faulty && rng.Chance(0.15) {
		// variant (b): the real cmaf-ingest-receiver handler behind the transport (it needs a channel name)
		w.Receiver = "real"
		for i := range w.Sessions {
			if w.Sessions[i].DestName == "" {
				w.Sessions[i].DestName = fmt.Sprintf("ch%d", i)
			}
		}
	}
	sc.World = core.MustJSON(w)
	for _, o := range ops {
		sc.AddOp(o)
	}
	return sc
}

// ShrinkCandidates proposes simpler worlds: fewer URL options, no credentials, no duration, stub receiver.
func (C16) ShrinkCandidates(sc *core.Scenario) []*core.Scenario {
	w, err := core.DecodeWorld[c16World](sc)
	if err != nil {
		return nil
	}
	var out []*core.Scenario
	emit := func(mod func(w *c16World)) {
		var c c16World
		b, _ := json.Marshal(w)
		_ = json.Unmarshal(b, &c)
		mod(&c)
		nb := core.MustJSON(c)
		if bytes.Equal(nb, sc.World) {
			return
		}
		cand := sc.Clone()
		cand.World = nb
		out = append(out, cand)
	}
	if w.StartOffMS != 0 {
		emit(func(c *c16World) { c.StartOffMS = 0 })
	}
	if w.Receiver != "stub" {
		emit(func(c *c16World) { c.Receiver = "stub" })
	}
	for i, s := range w.Sessions {
		i := i
		for j := range s.Parts {
			j := j
			emit(func(c *c16World) {
				p := c.Sessions[i].Parts
				c.Sessions[i].Parts = append(append([]string(nil), p[:j]...), p[j+1:]...)
			})
		}
		if s.User != "" {
			emit(func(c *c16World) { c.Sessions[i].User, c.Sessions[i].Pass = "", "" })
		}
		if s.Streams {
			emit(func(c *c16World) { c.Sessions[i].Streams = false })
		}
		if s.Duration != nil {
			emit(func(c *c16World) { c.Sessions[i].Duration = nil })
		}
		if s.Asset != "testpic_2s" || s.MPD != "Manifest.mpd" {
			emit(func(c *c16World) { c.Sessions[i].Asset, c.Sessions[i].MPD = "testpic_2s", "Manifest.mpd" })
		}
	}
	return out
}

// ---------------------------------------------------------------------------------------
// Executor.

func (C16) Run(t *testing.T, sc *core.Scenario, res *core.Result) {
	w, err := core.DecodeWorld[c16World](sc)
	if err != nil {
		panic("harness: C16 world: " + err.Error())
	}
	ops, err := core.DecodeOps[c16Op](sc)
	if err != nil {
		panic("harness: C16 ops: " + err.Error())
	}
	res.Count("kind." + w.Kind)
	if w.Isolate && os.Getenv(c16ChildEnv) == "" {
		c16RunIsolated(sc, res)
		return
	}
	// hx's real-time watchdog is a timer: inside the bubble it would run on the fake clock. The bubble
	// has its own bound (c16RestTimeoutMS of fake time per REST call; a spinning goroutine is caught by
	// the isolated run's real-time watchdog and by the orchestrator's budget).
	oldWd := hx.Watchdog
	hx.Watchdog = 0
	defer func() { hx.Watchdog = oldWd }()
	tr := newC16Transport(&w)
	old := http.DefaultClient.Transport
	http.DefaultClient.Transport = tr
	defer func() { http.DefaultClient.Transport = old }()
	if tr.cleanup != nil {
		defer tr.cleanup()
	}
	func() {
		defer func() {
			if r := recover(); r != nil {
				msg := fmt.Sprint(r)
				if strings.HasPrefix(msg, "deadlock:") {
					// goroutines of the system under test that are blocked for ever (a REST call or a
					// session that hangs has been reported by the checks already); the bubble cannot end.
					res.Count("probe.bubble-ended-with-blocked-goroutines")
					return
				}
				panic(r)
			}
		}()
		synctest.Test(t, func(t *testing.T) {
			r := &c16Run{w: &w, ops: ops, tr: tr, res: res}
			r.run()
		})
	}()
}

// c16RunIsolated executes a scenario of a kind that is known to be able to kill the process in a
// child process (the same test binary in replay mode), so that the batch survives. A dead child is
// reported exactly like the orchestrator reports a dead worker.
func c16RunIsolated(sc *core.Scenario, res *core.Result) {
	dir := hx.TempDir("c16-child")
	defer os.RemoveAll(dir)
	in, out := dir+"/scenario.json", dir+"/out.json"
	c := sc.Clone()
	b, _ := json.Marshal(c)
	if err := os.WriteFile(in, b, 0o644); err != nil {
		panic("harness: " + err.Error())
	}
	cmd := exec.Command(os.Args[0], "-test.run", "^TestSim$", "-test.timeout", "0")
	// TMPDIR: whatever the child leaves behind when it dies is removed with dir
	cmd.Env = append(os.Environ(), "VERIF_MODE=replay", "VERIF_REPLAY="+in, "VERIF_OUT="+out, c16ChildEnv+"=1", "TMPDIR="+dir)
	var stderr bytes.Buffer
	cmd.Stdout = &stderr
	cmd.Stderr = &stderr
	done := make(chan error, 1)
	go func() { done <- cmd.Run() }()
	select {
	case <-done:
	case <-time.After(20 * time.Second): // real time: watchdog of DESIGN §5.3
		_ = cmd.Process.Kill()
		<-done
		res.Event("child hang")
		res.Violate("C16.terminates", core.Sig("kind", "hang"), "isolated scenario did not end within 20 s of real time")
		return
	}
	res.Nontrivial = true
	data, _ := os.ReadFile(out)
	if len(bytes.TrimSpace(data)) == 0 {
		es := stderr.String()
		if strings.Contains(es, "harness:") || strings.Contains(es, "HARNESS-ERROR") {
			panic("harness: isolated child failed: " + tail(es, 2000))
		}
		kind, frame, msg := c16DeathInfo(es)
		res.Event("child died kind=%s frame=%s", kind, frame)
		res.Count("probe.child-died")
		res.Violate("C16.process-survives", core.Sig("kind", kind, "frame", frame), "%s", msg)
		return
	}
	var ro struct {
		Violations []core.Violation `json:"violations"`
		Finger     string           `json:"finger"`
		Stats      map[string]int   `json:"stats"`
	}
	if err := json.Unmarshal(data, &ro); err != nil {
		panic("harness: isolated child output: " + err.Error())
	}
	res.Event("child finger=%s", ro.Finger)
	for _, k := range sortedKeys(ro.Stats) {
		switch {
		case k == "meta.sim-ms":
			res.SimMS += int64(ro.Stats[k])
		case !strings.HasPrefix(k, "kind."):
			res.Add(k, ro.Stats[k])
		}
	}
	for _, v := range ro.Violations {
		res.Violate(v.Invariant, v.Signature, "%s", v.Detail)
	}
}

func tail(s string, n int) string {
	if len(s) > n {
		return s[len(s)-n:]
	}
	return s
}

// c16DeathInfo mirrors bin/check's death_violation so that both routes give the same signature.
func c16DeathInfo(stderr string) (kind, frame, msg string) {
	kind, frame, msg = "process-death", "unknown", "process died"
	const pfx = "github.com/Dash-Industry-Forum/livesim2/"
	lines := strings.Split(stderr, "\n")
	for _, l := range lines {
		if strings.HasPrefix(l, "panic:") || strings.HasPrefix(l, "fatal error:") {
			msg = l
			if len(msg) > 300 {
				msg = msg[:300]
			}
			break
		}
	}
	for _, l := range lines {
		if strings.HasPrefix(l, "fatal error:") {
			kind = "fatal-error"
		}
		if strings.HasPrefix(l, pfx) {
			fn := l
			if i := strings.LastIndex(fn, "("); i >= 0 {
				fn = fn[:i]
			}
			fn = strings.Replace(fn, pfx, "", 1)
			if i := strings.LastIndex(fn, "/"); i >= 0 {
				fn = fn[i+1:]
			}
			frame = fn
			break
		}
	}
	return
}

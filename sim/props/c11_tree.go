package props

import (
	"encoding/json"
	"fmt"
	"hash/crc32"
	"runtime/debug"
	"strings"
	"time"

	"github.com/Dash-Industry-Forum/livesim2/pkg/patch"
	"github.com/beevik/etree"

	"verif/sim/core"
	"verif/sim/hx"
)

// C11 supplement ("treediff"): plain seeded generation of pairs of id-carrying MPD-like trees;
// patch.MPDDiff(a, b) applied to a by the harness's applier must reproduce b.
// This is not simulation (no clock, no history): it covers the statement's last sentence.

type tnode struct {
	Tag   string
	Attrs [][2]string
	Text  string
	Kids  []*tnode
}

func (n *tnode) attr(k string) (string, bool) {
	for _, a := range n.Attrs {
		if a[0] == k {
			return a[1], true
		}
	}
	return "", false
}

func (n *tnode) setAttr(k, v string) {
	for i := range n.Attrs {
		if n.Attrs[i][0] == k {
			n.Attrs[i][1] = v
			return
		}
	}
	n.Attrs = append(n.Attrs, [2]string{k, v})
}

func (n *tnode) delAttr(k string) {
	for i := range n.Attrs {
		if n.Attrs[i][0] == k {
			n.Attrs = append(n.Attrs[:i:i], n.Attrs[i+1:]...)
			return
		}
	}
}

func (n *tnode) clone() *tnode {
	c := &tnode{Tag: n.Tag, Text: n.Text, Attrs: append([][2]string(nil), n.Attrs...)}
	for _, k := range n.Kids {
		c.Kids = append(c.Kids, k.clone())
	}
	return c
}

func (n *tnode) toElem() *etree.Element {
	e := etree.NewElement(n.Tag)
	for _, a := range n.Attrs {
		e.CreateAttr(a[0], a[1])
	}
	if n.Text != "" {
		e.SetText(n.Text)
	}
	for _, k := range n.Kids {
		e.AddChild(k.toElem())
	}
	return e
}

func (n *tnode) xml() string {
	d := etree.NewDocument()
	d.CreateProcInst("xml", `version="1.0" encoding="UTF-8"`)
	d.SetRoot(n.toElem())
	d.Indent(2)
	s, err := d.WriteToString()
	if err != nil {
		panic(err)
	}
	return s
}

func (n *tnode) walk(f func(n, parent *tnode)) {
	var rec func(n, p *tnode)
	rec = func(n, p *tnode) {
		f(n, p)
		for _, k := range n.Kids {
			rec(k, n)
		}
	}
	rec(n, nil)
}

// schema order of children per parent (insertion keeps documents MPD-like).
var c11ChildOrder = map[string][]string{
	"MPD":            {"ProgramInformation", "BaseURL", "Location", "PatchLocation", "Period", "Metrics", "UTCTiming"},
	"Period":         {"BaseURL", "EventStream", "AdaptationSet", "SupplementalProperty"},
	"AdaptationSet":  {"ContentProtection", "Role", "EssentialProperty", "SupplementalProperty", "Label", "SegmentTemplate", "Representation"},
	"Representation": {"BaseURL", "AudioChannelConfiguration", "SupplementalProperty"},
	"EventStream":    {"Event"},
}

var c11Schemes = map[string][]string{
	"Role":                      {"urn:mpeg:dash:role:2011"},
	"ContentProtection":         {"urn:mpeg:dash:mp4protection:2011", "urn:uuid:e2719d58-a985-b3c9-781a-b030af78d30e", "urn:uuid:edef8ba9-79d6-4ace-a3c8-27dcd51d21ed", "urn:uuid:9a04f079-9840-4286-ab92-e65be0885f95"},
	"EssentialProperty":         {"urn:mpeg:dash:urlparam:2014", "http://dashif.org/guidelines/trickmode", "urn:mpeg:mpegB:cicp:MatrixCoefficients"},
	"SupplementalProperty":      {"urn:mpeg:dash:period-continuity:2015", "urn:mpeg:dash:chaining:2016", "urn:mpeg:dash:fallback:2016", "urn:scte:dash:utc-time"},
	"UTCTiming":                 {"urn:mpeg:dash:utc:http-xsdate:2014", "urn:mpeg:dash:utc:http-iso:2014", "urn:mpeg:dash:utc:ntp:2014", "urn:mpeg:dash:utc:direct:2014"},
	"AudioChannelConfiguration": {"urn:mpeg:dash:23003:3:audio_channel_configuration:2011", "urn:mpeg:mpegB:cicp:ChannelConfiguration"},
	"EventStream":               {"urn:scte:scte35:2013:xml", "urn:mpeg:dash:event:2012", "urn:example:events"},
}

type treeGen struct {
	rng    *core.Rng
	nextID int
	// dupScheme allows sibling descriptors of one tag to share a schemeIdUri (e.g. two Role
	// elements of the DASH role scheme); positional allows several id-less, scheme-less
	// siblings of one tag (BaseURL, Label).
	dupScheme  bool
	positional bool
	// long makes S lists and Period lists long, and bulk edits big (list-diff stress)
	long bool
}

func (g *treeGen) id(prefix string) string {
	g.nextID++
	return fmt.Sprintf("%s%d", prefix, g.nextID)
}

func (g *treeGen) word() string {
	return core.Pick(g.rng, []string{"alpha", "beta", "gamma", "delta", "main", "alternate", "en", "sv", "1", "2", "640", "a&b", "x y", "48000"})
}

// newChild makes a fresh child of the given tag for parent; used is the set of schemeIdUri
// values already taken among same-tag siblings.
func (g *treeGen) newChild(tag string, used map[string]bool) *tnode {
	r := g.rng
	switch tag {
	case "ProgramInformation":
		return &tnode{Tag: tag, Kids: []*tnode{{Tag: "Title", Text: "title " + g.word()}}}
	case "BaseURL", "Location":
		return &tnode{Tag: tag, Text: "https://cdn" + g.id("") + ".example.com/" + g.word() + "/"}
	case "Label":
		return &tnode{Tag: tag, Text: "label " + g.word()}
	case "PatchLocation":
		return &tnode{Tag: tag, Attrs: [][2]string{{"ttl", "60"}}, Text: "/patch/x.mpp?publishTime=" + g.id("")}
	case "Metrics":
		return &tnode{Tag: tag, Attrs: [][2]string{{"metrics", "BufferLevel"}}, Kids: []*tnode{{Tag: "Reporting", Attrs: [][2]string{{"schemeIdUri", "urn:example:report"}, {"value", g.word()}}}}}
	case "Period":
		p := &tnode{Tag: tag, Attrs: [][2]string{{"id", g.id("p")}, {"start", fmt.Sprintf("PT%dS", r.Range(0, 3600))}}}
		if r.Chance(0.3) {
			p.Kids = append(p.Kids, g.newChild("BaseURL", nil))
			if g.positional && r.Chance(0.5) {
				p.Kids = append(p.Kids, g.newChild("BaseURL", nil))
			}
		}
		if r.Chance(0.25) {
			p.Kids = append(p.Kids, g.newChild("EventStream", map[string]bool{}))
		}
		for i, n := 0, r.Range(1, 3); i < n; i++ {
			p.Kids = append(p.Kids, g.newChild("AdaptationSet", nil))
		}
		return p
	case "EventStream":
		es := g.descriptor(tag, used)
		es.Attrs = append(es.Attrs, [2]string{"timescale", "1000"})
		for i, n := 0, r.Range(0, 3); i < n; i++ {
			es.Kids = append(es.Kids, g.newChild("Event", nil))
		}
		return es
	case "Event":
		return &tnode{Tag: tag, Attrs: [][2]string{{"id", g.id("")}, {"presentationTime", fmt.Sprint(r.Range(0, 100000))}, {"duration", fmt.Sprint(r.Range(1, 10000))}}}
	case "AdaptationSet":
		as := &tnode{Tag: tag, Attrs: [][2]string{{"id", g.id("")}, {"contentType", core.Pick(r, []string{"video", "audio", "text"})}}}
		if r.Chance(0.5) {
			as.Attrs = append(as.Attrs, [2]string{"lang", core.Pick(r, []string{"en", "sv", "de"})})
		}
		if r.Chance(0.5) {
			as.Attrs = append(as.Attrs, [2]string{"segmentAlignment", "true"})
		}
		for _, sub := range []string{"ContentProtection", "Role", "EssentialProperty", "SupplementalProperty"} {
			u := map[string]bool{}
			for i, n := 0, core.Pick(r, []int{0, 0, 1, 1, 2}); i < n; i++ {
				if c := g.newChild(sub, u); c != nil {
					as.Kids = append(as.Kids, c)
				}
			}
		}
		if r.Chance(0.3) {
			as.Kids = append(as.Kids, g.newChild("Label", nil))
			if g.positional && r.Chance(0.5) {
				as.Kids = append(as.Kids, g.newChild("Label", nil))
			}
		}
		if r.Chance(0.85) {
			as.Kids = append(as.Kids, g.newChild("SegmentTemplate", nil))
		}
		for i, n := 0, r.Range(1, 3); i < n; i++ {
			as.Kids = append(as.Kids, g.newChild("Representation", nil))
		}
		return as
	case "SegmentTemplate":
		st := &tnode{Tag: tag, Attrs: [][2]string{{"media", "$RepresentationID$/$Time$.m4s"}, {"initialization", "$RepresentationID$/init.mp4"}, {"timescale", core.Pick(r, []string{"1000", "48000", "90000"})}}}
		if r.Chance(0.4) {
			st.Attrs = append(st.Attrs, [2]string{"startNumber", fmt.Sprint(r.Range(0, 100000))})
		}
		tl := &tnode{Tag: "SegmentTimeline"}
		t := uint64(r.Range(0, 1000000)) * 1000
		nS := r.Range(0, 5)
		if g.long {
			nS = r.Range(5, 40)
		}
		for i := 0; i < nS; i++ {
			tl.Kids = append(tl.Kids, g.newS(i == 0, t))
		}
		st.Kids = append(st.Kids, tl)
		return st
	case "Representation":
		rep := &tnode{Tag: tag, Attrs: [][2]string{{"id", g.id("r")}, {"bandwidth", fmt.Sprint(r.Range(1, 90) * 10000)}}}
		if r.Chance(0.5) {
			rep.Attrs = append(rep.Attrs, [2]string{"codecs", core.Pick(r, []string{"avc1.64001e", "mp4a.40.2", "stpp"})})
		}
		if r.Chance(0.3) {
			rep.Kids = append(rep.Kids, g.newChild("BaseURL", nil))
		}
		if r.Chance(0.4) {
			rep.Kids = append(rep.Kids, g.newChild("AudioChannelConfiguration", map[string]bool{}))
		}
		return rep
	case "Role", "ContentProtection", "EssentialProperty", "SupplementalProperty", "UTCTiming", "AudioChannelConfiguration":
		return g.descriptor(tag, used)
	}
	panic("harness: no generator for <" + tag + ">")
}

func (g *treeGen) descriptor(tag string, used map[string]bool) *tnode {
	schemes := c11Schemes[tag]
	var free []string
	for _, s := range schemes {
		if !used[s] {
			free = append(free, s)
		}
	}
	var s string
	switch {
	case g.dupScheme:
		s = core.Pick(g.rng, schemes)
	case len(free) > 0:
		s = core.Pick(g.rng, free)
	default:
		return nil
	}
	if used != nil {
		used[s] = true
	}
	return &tnode{Tag: tag, Attrs: [][2]string{{"schemeIdUri", s}, {"value", g.word()}}}
}

func (g *treeGen) newS(first bool, t uint64) *tnode {
	r := g.rng
	s := &tnode{Tag: "S"}
	if first {
		s.Attrs = append(s.Attrs, [2]string{"t", fmt.Sprint(t)})
	}
	s.Attrs = append(s.Attrs, [2]string{"d", core.Pick(r, []string{"96256", "95232", "180000", "2002", "360000", "720000"})})
	if r.Chance(0.5) {
		s.Attrs = append(s.Attrs, [2]string{"r", fmt.Sprint(r.Range(1, 30))})
	}
	return s
}

func (g *treeGen) baseTree() *tnode {
	r := g.rng
	pt := time.Unix(int64(1_600_000_000+r.Intn(300_000_000)), 0).UTC()
	m := &tnode{Tag: "MPD", Attrs: [][2]string{
		{"xmlns", "urn:mpeg:dash:schema:mpd:2011"},
		{"id", "m" + g.id("")}, {"type", "dynamic"},
		{"availabilityStartTime", "1970-01-01T00:00:00Z"},
		{"publishTime", pt.Format(time.RFC3339)},
		{"minimumUpdatePeriod", "PT2S"},
	}}
	if r.Chance(0.5) {
		m.Attrs = append(m.Attrs, [2]string{"timeShiftBufferDepth", fmt.Sprintf("PT%dS", r.Range(1, 300))})
	}
	if r.Chance(0.6) {
		m.Kids = append(m.Kids, g.newChild("ProgramInformation", nil))
	}
	if r.Chance(0.3) {
		m.Kids = append(m.Kids, g.newChild("BaseURL", nil))
		if g.positional && r.Chance(0.6) {
			m.Kids = append(m.Kids, g.newChild("BaseURL", nil))
		}
	}
	m.Kids = append(m.Kids, g.newChild("PatchLocation", nil))
	nP := r.Range(1, 3)
	if g.long && r.Chance(0.5) {
		nP = r.Range(4, 20)
	}
	for i, n := 0, nP; i < n; i++ {
		m.Kids = append(m.Kids, g.newChild("Period", nil))
	}
	u := map[string]bool{}
	for i, n := 0, r.Range(0, 2); i < n; i++ {
		if c := g.newChild("UTCTiming", u); c != nil {
			m.Kids = append(m.Kids, c)
		}
	}
	return m
}

// insertable lists, for a parent, where a new child of tag may go so that the children stay
// in schema order: [lo, hi] index range.
func insertRange(parent *tnode, tag string) (lo, hi int, ok bool) {
	order := c11ChildOrder[parent.Tag]
	rank := func(t string) int {
		for i, o := range order {
			if o == t {
				return i
			}
		}
		return -1
	}
	rk := rank(tag)
	if rk < 0 {
		return 0, 0, false
	}
	lo, hi = 0, len(parent.Kids)
	for i, k := range parent.Kids {
		r := rank(k.Tag)
		if r < rk {
			lo = i + 1
		}
		if r > rk && i < hi {
			hi = i
		}
	}
	if lo > hi {
		lo = hi
	}
	return lo, hi, true
}

func (g *treeGen) usedSchemes(parent *tnode, tag string) map[string]bool {
	u := map[string]bool{}
	for _, k := range parent.Kids {
		if k.Tag == tag {
			if s, ok := k.attr("schemeIdUri"); ok {
				u[s] = true
			}
		}
	}
	return u
}

func isPositionalTag(tag string) bool {
	switch tag {
	case "BaseURL", "Label", "Location":
		return true
	}
	return false
}

// edit applies one random edit to the tree and returns its categorical name ("" = not applicable).
func (g *treeGen) edit(root *tnode) string {
	r := g.rng
	var all []*tnode
	parents := map[*tnode]*tnode{}
	root.walk(func(n, p *tnode) {
		all = append(all, n)
		parents[n] = p
	})
	pickNode := func(ok func(n *tnode) bool) *tnode {
		var c []*tnode
		for _, n := range all {
			if ok(n) {
				c = append(c, n)
			}
		}
		if len(c) == 0 {
			return nil
		}
		return c[r.Intn(len(c))]
	}
	protectedAttr := func(n *tnode, k string) bool {
		switch {
		case k == "id" || k == "schemeIdUri" || k == "xmlns":
			return true
		case n.Tag == "MPD" && k == "publishTime", n.Tag == "PatchLocation" && k == "ttl":
			return true
		}
		return false
	}
	inTimeline := func(n *tnode) bool { return n.Tag == "S" || n.Tag == "SegmentTimeline" }
	kind := core.Pick(r, []string{"attr-change", "attr-change", "attr-add", "attr-remove", "text-change", "child-insert", "child-insert",
		"child-delete", "child-delete", "child-swap", "id-change", "s-append", "s-drop-first", "s-r-change", "s-d-change", "s-insert", "s-drop-any", "s-replace-all", "bulk-periods", "s-bulk"})
	switch kind {
	case "attr-change":
		n := pickNode(func(n *tnode) bool {
			if inTimeline(n) {
				return false
			}
			for _, a := range n.Attrs {
				if !protectedAttr(n, a[0]) {
					return true
				}
			}
			return false
		})
		if n == nil {
			return ""
		}
		var ks []string
		for _, a := range n.Attrs {
			if !protectedAttr(n, a[0]) {
				ks = append(ks, a[0])
			}
		}
		k := core.Pick(r, ks)
		old, _ := n.attr(k)
		n.setAttr(k, old+"_"+g.word())
		return "attr-change:" + n.Tag
	case "attr-add":
		n := pickNode(func(n *tnode) bool { return !inTimeline(n) && n.Tag != "Title" })
		if n == nil {
			return ""
		}
		for _, k := range []string{"profiles", "label", "tag", "selectionPriority", "maxWidth"} {
			if _, has := n.attr(k); !has {
				n.setAttr(k, g.word())
				return "attr-add:" + n.Tag
			}
		}
		return ""
	case "attr-remove":
		n := pickNode(func(n *tnode) bool {
			if inTimeline(n) {
				return false
			}
			for _, a := range n.Attrs {
				if !protectedAttr(n, a[0]) {
					return true
				}
			}
			return false
		})
		if n == nil {
			return ""
		}
		for _, a := range n.Attrs {
			if !protectedAttr(n, a[0]) {
				n.delAttr(a[0])
				return "attr-remove:" + n.Tag
			}
		}
		return ""
	case "text-change":
		n := pickNode(func(n *tnode) bool { return n.Text != "" })
		if n == nil {
			return ""
		}
		n.Text += "-" + g.word()
		return "text-change:" + n.Tag
	case "child-insert":
		p := pickNode(func(n *tnode) bool { return c11ChildOrder[n.Tag] != nil })
		if p == nil {
			return ""
		}
		var tags []string
		for _, t := range c11ChildOrder[p.Tag] {
			switch t {
			case "PatchLocation", "ProgramInformation", "SegmentTemplate", "Metrics":
				has := false
				for _, k := range p.Kids {
					if k.Tag == t {
						has = true
					}
				}
				if has {
					continue
				}
			}
			if isPositionalTag(t) && !g.positional {
				has := false
				for _, k := range p.Kids {
					if k.Tag == t {
						has = true
					}
				}
				if has {
					continue
				}
			}
			tags = append(tags, t)
		}
		if len(tags) == 0 {
			return ""
		}
		tag := core.Pick(r, tags)
		c := g.newChild(tag, g.usedSchemes(p, tag))
		if c == nil {
			return ""
		}
		lo, hi, ok := insertRange(p, tag)
		if !ok {
			return ""
		}
		at := r.Range(lo, hi)
		p.Kids = append(p.Kids[:at:at], append([]*tnode{c}, p.Kids[at:]...)...)
		return "child-insert:" + p.Tag + "/" + tag
	case "child-delete":
		n := pickNode(func(n *tnode) bool {
			p := parents[n]
			if p == nil || inTimeline(n) || n.Tag == "PatchLocation" || n.Tag == "Title" || n.Tag == "Reporting" {
				return false
			}
			return true
		})
		if n == nil {
			return ""
		}
		p := parents[n]
		for i, k := range p.Kids {
			if k == n {
				p.Kids = append(p.Kids[:i:i], p.Kids[i+1:]...)
				break
			}
		}
		return "child-delete:" + p.Tag + "/" + n.Tag
	case "child-swap":
		// swap two adjacent same-tag siblings (reorder)
		type pair struct {
			p *tnode
			i int
		}
		var ps []pair
		for _, p := range all {
			if p.Tag == "SegmentTimeline" {
				continue
			}
			for i := 0; i+1 < len(p.Kids); i++ {
				if p.Kids[i].Tag == p.Kids[i+1].Tag {
					ps = append(ps, pair{p, i})
				}
			}
		}
		if len(ps) == 0 {
			return ""
		}
		x := ps[r.Intn(len(ps))]
		x.p.Kids[x.i], x.p.Kids[x.i+1] = x.p.Kids[x.i+1], x.p.Kids[x.i]
		return "child-swap:" + x.p.Tag + "/" + x.p.Kids[x.i].Tag
	case "id-change":
		n := pickNode(func(n *tnode) bool {
			_, has := n.attr("id")
			return has && n.Tag != "MPD"
		})
		if n == nil {
			return ""
		}
		n.setAttr("id", g.id("n"))
		return "id-change:" + n.Tag
	}
	if kind == "bulk-periods" {
		// drop a run of periods at the start and append a run at the end (a window that moved far)
		var ps []int
		for i, k := range root.Kids {
			if k.Tag == "Period" {
				ps = append(ps, i)
			}
		}
		if len(ps) == 0 {
			return ""
		}
		drop := r.Range(0, len(ps)-1)
		add := r.Range(1, 4)
		if g.long {
			add = r.Range(1, 25)
		}
		last := ps[len(ps)-1]
		var fresh []*tnode
		for i := 0; i < add; i++ {
			p := g.newChild("Period", nil)
			if g.long { // keep bulk periods small
				p.Kids = p.Kids[len(p.Kids)-1:]
			}
			fresh = append(fresh, p)
		}
		root.Kids = append(root.Kids[:last+1:last+1], append(fresh, root.Kids[last+1:]...)...)
		root.Kids = append(root.Kids[:ps[0]:ps[0]], root.Kids[ps[0]+drop:]...)
		return "bulk-periods"
	}
	// S list edits
	tl := pickNode(func(n *tnode) bool { return n.Tag == "SegmentTimeline" })
	if tl == nil {
		return ""
	}
	switch kind {
	case "s-append":
		for i, n := 0, r.Range(1, 3); i < n; i++ {
			tl.Kids = append(tl.Kids, g.newS(len(tl.Kids) == 0, 1000))
		}
	case "s-drop-first":
		if len(tl.Kids) == 0 {
			return ""
		}
		tl.Kids = tl.Kids[1:]
		if len(tl.Kids) > 0 {
			tl.Kids[0] = tl.Kids[0].clone()
			if _, has := tl.Kids[0].attr("t"); !has {
				tl.Kids[0].Attrs = append([][2]string{{"t", fmt.Sprint(r.Range(1, 1000000))}}, tl.Kids[0].Attrs...)
			}
		}
	case "s-r-change":
		if len(tl.Kids) == 0 {
			return ""
		}
		s := tl.Kids[r.Intn(len(tl.Kids))]
		if _, has := s.attr("r"); has && r.Chance(0.3) {
			s.delAttr("r")
		} else {
			s.setAttr("r", fmt.Sprint(r.Range(31, 60)))
		}
	case "s-d-change":
		if len(tl.Kids) == 0 {
			return ""
		}
		s := tl.Kids[r.Intn(len(tl.Kids))]
		s.setAttr("d", fmt.Sprint(r.Range(1, 999)))
	case "s-insert":
		at := r.Range(0, len(tl.Kids))
		s := g.newS(at == 0, uint64(r.Range(1, 1000000)))
		if at == 0 && len(tl.Kids) > 0 {
			tl.Kids[0].delAttr("t")
		}
		tl.Kids = append(tl.Kids[:at:at], append([]*tnode{s}, tl.Kids[at:]...)...)
	case "s-drop-any":
		if len(tl.Kids) < 2 {
			return ""
		}
		at := r.Range(1, len(tl.Kids)-1)
		tl.Kids = append(tl.Kids[:at:at], tl.Kids[at+1:]...)
	case "s-bulk":
		drop := r.Range(0, len(tl.Kids))
		tl.Kids = tl.Kids[drop:]
		if len(tl.Kids) > 0 {
			tl.Kids[0] = tl.Kids[0].clone()
			tl.Kids[0].delAttr("t")
			tl.Kids[0].Attrs = append([][2]string{{"t", fmt.Sprint(r.Range(1, 1000000))}}, tl.Kids[0].Attrs...)
		}
		add := r.Range(1, 6)
		if g.long {
			add = r.Range(1, 40)
		}
		for i := 0; i < add; i++ {
			tl.Kids = append(tl.Kids, g.newS(len(tl.Kids) == 0, uint64(r.Range(1, 1000000))))
		}
	case "s-replace-all":
		n := r.Range(0, 4)
		tl.Kids = nil
		for i := 0; i < n; i++ {
			tl.Kids = append(tl.Kids, g.newS(i == 0, uint64(r.Range(1, 1000000))))
		}
	}
	return kind
}

func c11GenTree(rng *core.Rng, tier string) *core.Scenario {
	w := c11World{Kind: "treediff"}
	sc := core.NewScenario("C11", "tlsim", 0, tier, w)
	nOps := rng.Range(2, 5)
	maxEdits := 3
	if tier == "thorough" {
		nOps = rng.Range(4, 10)
		maxEdits = 8
	}
	for i := 0; i < nOps; i++ {
		g := &treeGen{rng: rng, dupScheme: rng.Chance(0.2), positional: rng.Chance(0.25), long: rng.Chance(0.25)}
		a := g.baseTree()
		b := a.clone()
		// the new document always has a later publishTime (within the ttl) and usually a new PatchLocation
		pts, _ := b.attr("publishTime")
		pt, _ := time.Parse(time.RFC3339, pts)
		b.setAttr("publishTime", pt.Add(time.Duration(rng.Range(1, 60))*time.Second).Format(time.RFC3339))
		var edits []string
		nEd := rng.Range(0, maxEdits)
		for tries := 0; len(edits) < nEd && tries < 20; tries++ {
			if e := g.edit(b); e != "" {
				edits = append(edits, e)
			}
		}
		var traits []string
		if g.dupScheme {
			traits = append(traits, "dup-scheme-allowed")
		}
		if g.positional {
			traits = append(traits, "positional-siblings-allowed")
		}
		sc.AddOp(c11Op{A: a.xml(), B: b.xml(), Edits: edits, Traits: traits})
	}
	return sc
}

// c11TreeFacts derives categorical facts about a pair of documents from the documents
// themselves (not from the generator), used as signature features.
func c11TreeFacts(a, b *etree.Element) (dupScheme, positional bool) {
	var rec func(e *etree.Element)
	rec = func(e *etree.Element) {
		seen := map[string]int{}
		pos := map[string]int{}
		for _, c := range e.ChildElements() {
			if c.SelectAttr("id") == nil {
				if s := c.SelectAttrValue("schemeIdUri", ""); s != "" {
					seen[c.Tag+"|"+s]++
				} else if c.Tag != "S" {
					pos[c.Tag]++
				}
			}
			rec(c)
		}
		for _, n := range seen {
			if n > 1 {
				dupScheme = true
			}
		}
		for _, n := range pos {
			if n > 1 {
				positional = true
			}
		}
	}
	rec(a)
	rec(b)
	return
}

// c11KeyedReorder reports whether some element (matched between the documents along the path
// by tag and id, or tag and schemeIdUri) has keyed children common to both documents in a
// different relative order.
func c11KeyedReorder(a, b *etree.Element) bool {
	key := func(e *etree.Element) string {
		if at := e.SelectAttr("id"); at != nil {
			return e.Tag + "#" + at.Value
		}
		if v := e.SelectAttrValue("schemeIdUri", ""); v != "" {
			return e.Tag + "~" + v
		}
		return ""
	}
	count := func(e *etree.Element) map[string]int {
		m := map[string]int{}
		for _, c := range e.ChildElements() {
			if k := key(c); k != "" {
				m[k]++
			}
		}
		return m
	}
	ca, cb := count(a), count(b)
	uniq := func(k string) bool { return k != "" && ca[k] == 1 && cb[k] == 1 }
	inB := map[string]*etree.Element{}
	var seqA, seqB []string
	for _, c := range b.ChildElements() {
		if k := key(c); uniq(k) {
			inB[k] = c
			seqB = append(seqB, k)
		}
	}
	for _, c := range a.ChildElements() {
		if k := key(c); uniq(k) {
			seqA = append(seqA, k)
		}
	}
	if strings.Join(seqA, "|") != strings.Join(seqB, "|") {
		return true
	}
	for _, c := range a.ChildElements() {
		if k := key(c); uniq(k) {
			if c11KeyedReorder(c, inB[k]) {
				return true
			}
		}
	}
	return false
}

func c11TreeOp(res *core.Result, i int, op c11Op) {
	res.Count("op.treediff")
	da, err := hx.ParseXML([]byte(op.A))
	if err != nil {
		panic("harness: tree A unparsable: " + err.Error())
	}
	db, err := hx.ParseXML([]byte(op.B))
	if err != nil {
		panic("harness: tree B unparsable: " + err.Error())
	}
	for _, e := range op.Edits {
		k := e
		if j := strings.Index(k, ":"); j >= 0 {
			k = k[:j]
		}
		res.Count("probe.edit." + k)
	}
	dup, posn := c11TreeFacts(da.Root(), db.Root())
	reord := c11KeyedReorder(da.Root(), db.Root())
	base := core.Sig("scenario", "treediff", "dup-scheme-siblings", fmt.Sprint(dup), "positional-siblings", fmt.Sprint(posn), "keyed-reorder", fmt.Sprint(reord))
	sig := func(kv ...string) map[string]string { return merge(base, core.Sig(kv...)) }
	ctx := fmt.Sprintf("pair %d edits=%v", i, op.Edits)

	var doc *etree.Document
	var derr error
	var pan any
	var panFrame string
	func() {
		defer func() {
			if pan = recover(); pan != nil {
				panFrame = hx.TopAppFrame(string(debug.Stack()))
			}
		}()
		doc, _, derr = patch.MPDDiff([]byte(op.A), []byte(op.B))
	}()
	res.Event("treediff %d edits=%d err=%v panic=%v", i, len(op.Edits), derr != nil, pan != nil)
	if pan != nil {
		res.Violate("C11.no-5xx", core.Sig("scenario", "treediff", "kind", "diff-panic", "frame", panFrame), "%s: MPDDiff panicked: %v", ctx, pan)
		return
	}
	if derr != nil {
		// a refusal is not a wrong patch
		res.Count("probe.tree-diff-refused")
		return
	}
	doc.Indent(2)
	pb, err := doc.WriteToBytes()
	if err != nil {
		res.Violate("C11.apply-yields-new", sig("kind", "patch-unserialisable"), "%s: %v", ctx, err)
		return
	}
	pd, err := hx.ParseXML(pb)
	if err != nil {
		res.Violate("C11.apply-yields-new", sig("kind", "patch-unparsable"), "%s: %v", ctx, err)
		return
	}
	pr := pd.Root()
	if got, want := pr.SelectAttrValue("originalPublishTime", ""), da.Root().SelectAttrValue("publishTime", ""); got != want {
		res.Violate("C11.original-publish-time", sig("kind", "originalPublishTime-mismatch"), "%s: %q != %q", ctx, got, want)
	}
	if got, want := pr.SelectAttrValue("publishTime", ""), db.Root().SelectAttrValue("publishTime", ""); got != want {
		res.Violate("C11.new-publish-time", sig("kind", "publishTime-mismatch"), "%s: %q != %q", ctx, got, want)
	}
	work := da.Copy()
	issues, counts := hx.ApplyXMLPatch(work.Root(), pr)
	for _, k := range sortedKeys(counts) {
		res.Add("probe.patchop."+k, counts[k])
	}
	res.Event("treediff %d ops=%d issues=%d patchcrc=%08x", i, len(pr.ChildElements()), len(issues), crc32.ChecksumIEEE(pb))
	fatal := false
	for _, is := range issues {
		sg := sig("kind", is.Kind, "op", is.Op, "target", is.Target, "addr", is.Addr, "tag", c11TagClass(is.Tag))
		if is.Kind == "add-attr-sel-form" { // independent of the tree shape
			sg = core.Sig("scenario", "treediff", "kind", is.Kind, "op", is.Op, "target", is.Target)
		}
		res.Violate("C11.selectors-unique", sg, "%s: %s", ctx, is.String())
		if is.Fatal {
			fatal = true
		}
	}
	if fatal {
		return
	}
	if d := hx.CanonicalDiff(work.Root(), db.Root()); d != nil {
		res.Violate("C11.apply-yields-new", sig("kind", "result-differs", "diff", d.Kind, "at", c11TagClass(d.Tag)),
			"%s: apply(diff(a,b), a) != b: %v", ctx, d)
		return
	}
	res.Count("probe.tree-patch-applied")
}

// ShrinkCandidates (core.WorldShrinker): for treediff scenarios, propose variants in which one
// subtree that is identical in both documents (found by walking both trees along matching
// keys) is removed from both, so that minimised replays keep only what the diff trips over.
func (C11) ShrinkCandidates(sc *core.Scenario) []*core.Scenario {
	w, err := core.DecodeWorld[c11World](sc)
	if err != nil || w.Kind != "treediff" {
		return nil
	}
	ops, err := core.DecodeOps[c11Op](sc)
	if err != nil {
		return nil
	}
	var out []*core.Scenario
	for oi, op := range ops {
		da, err1 := hx.ParseXML([]byte(op.A))
		db, err2 := hx.ParseXML([]byte(op.B))
		if err1 != nil || err2 != nil {
			continue
		}
		hx.NormalizeXML(da.Root())
		hx.NormalizeXML(db.Root())
		n := c11CountEqualSubtrees(da.Root(), db.Root())
		for k := 0; k < n && len(out) < 300; k++ {
			ca, cb := da.Copy(), db.Copy()
			left := k
			if !c11RemoveKthEqual(ca.Root(), cb.Root(), &left) {
				continue
			}
			ca.Indent(2)
			cb.Indent(2)
			sa, _ := ca.WriteToString()
			sb, _ := cb.WriteToString()
			nop := op
			nop.A, nop.B = sa, sb
			cand := sc.Clone()
			cand.Ops = append([]json.RawMessage(nil), sc.Ops...)
			cand.Ops[oi] = core.MustJSON(nop)
			out = append(out, cand)
		}
	}
	return out
}

func c11ChildKey(e *etree.Element, idx map[string]int) string {
	if at := e.SelectAttr("id"); at != nil {
		return e.Tag + "#" + at.Value
	}
	if v := e.SelectAttrValue("schemeIdUri", ""); v != "" {
		return e.Tag + "~" + v + "~" + e.SelectAttrValue("value", "")
	}
	idx[e.Tag]++
	return fmt.Sprintf("%s[%d]", e.Tag, idx[e.Tag])
}

// c11WalkEqual calls f for every pair of matching children that are canonically equal
// (f returns true to stop), and recurses into matching children that differ.
func c11WalkEqual(a, b *etree.Element, f func(pa, ca, pb, cb *etree.Element) bool) bool {
	inB := map[string]*etree.Element{}
	ib := map[string]int{}
	for _, c := range b.ChildElements() {
		k := c11ChildKey(c, ib)
		if _, dup := inB[k]; !dup {
			inB[k] = c
		}
	}
	ia := map[string]int{}
	for _, c := range a.ChildElements() {
		k := c11ChildKey(c, ia)
		cb := inB[k]
		if cb == nil || c.Tag == "PatchLocation" {
			continue
		}
		if hx.CanonicalDiff(c, cb) == nil {
			if f(a, c, b, cb) {
				return true
			}
		} else if c11WalkEqual(c, cb, f) {
			return true
		}
	}
	return false
}

func c11CountEqualSubtrees(a, b *etree.Element) int {
	n := 0
	c11WalkEqual(a, b, func(_, _, _, _ *etree.Element) bool { n++; return false })
	return n
}

func c11RemoveKthEqual(a, b *etree.Element, left *int) bool {
	return c11WalkEqual(a, b, func(pa, ca, pb, cb *etree.Element) bool {
		if *left > 0 {
			*left--
			return false
		}
		pa.RemoveChildAt(ca.Index())
		pb.RemoveChildAt(cb.Index())
		return true
	})
}

package props

import (
	"fmt"
	"math"
	"regexp"
	"sort"
	"strconv"
	"strings"
	"testing"

	"verif/sim/core"
	"verif/sim/hx"
	"verif/sim/refmodel"
)

// C04 — each segment goes too-early -> available -> gone at exactly the right instants (engine T).

type c04World struct {
	Gen     *GenWorld `json:"gen,omitempty"` // generated VoD world instead of the bundled assets
	VodRoot string    `json:"vodroot"`
	Asset   string    `json:"asset"`
	Cfg     URLCfg    `json:"cfg"`
	Rep     string    `json:"rep"`            // representation id, or generated "timestpp-en" style
	N       int64     `json:"n"`              // live segment index counted from AST
	Kind    string    `json:"kind,omitempty"` // "" sweep | "notfound"
	Bad     string    `json:"bad,omitempty"`  // for notfound: below-startnr | unknown-rep | unknown-asset | rep-prefixed | rep-suffixed | rep-dot-wild (near misses of a valid URL)
}

type c04Op struct {
	T    int64 `json:"t"`
	Inst int   `json:"inst,omitempty"` // which server instance answers (restart fault)
}

type C04 struct{}

func init() { core.Register(C04{}) }

func (C04) ID() string     { return "C04" }
func (C04) Engine() string { return "tlsim" }

// second instance: "the response may not depend on which instance answers"
var altSrvCache = map[string]*hx.Srv{}

func altSrv(vodRoot string) *hx.Srv {
	worldMu.Lock()
	defer worldMu.Unlock()
	if s, ok := altSrvCache[vodRoot]; ok {
		return s
	}
	s, err := hx.NewSrv(hx.SrvOpts{VodRoot: vodRoot})
	if err != nil {
		panic(fmt.Sprintf("harness: cannot set up second server on %s: %v", vodRoot, err))
	}
	altSrvCache[vodRoot] = s
	return s
}

// segTarget describes one live segment request according to the model.
type segTarget struct {
	URL     string // relative to the asset prefix
	AvailMS int64  // first whole ms at which it is available (finite ato)
	EndNum  int64  // exact availability instant numerator: (AST*1000 + end*1000/ts - atoMS) in 1/ts ms
	Frac    bool   // availability instant is not a whole millisecond
	Content string
}

// modelTarget computes URL and availability instant of live index n of rep under cfg.
func modelTarget(a *refmodel.Asset, cfg URLCfg, repID string, n int64) (segTarget, bool) {
	var tg segTarget
	ref := a.Ref()
	timeAddr := cfg.MPDType == "timeline"
	atoS := cfg.AtoS()
	atoMS := int64(0)
	if !math.IsInf(atoS, 1) {
		atoMS = int64(math.Round(atoS * 1000))
	}
	avail := func(end uint64, ts uint64) {
		tg.Frac = (end*1000)%ts != 0
		tg.AvailMS = cfg.AST()*1000 + ceilDiv(int64(end)*1000, int64(ts)) - atoMS
		// An availability instant before the stream start is kept as it is: requests before the start
		// are answered 425 anyway, and the time-shift window is counted from the availability instant.
		if math.IsInf(atoS, 1) {
			tg.AvailMS = cfg.AST() * 1000
		}
	}
	if strings.HasPrefix(repID, "timestpp-") || strings.HasPrefix(repID, "timewvtt-") {
		ls := a.Live(ref, n)
		tg.Content = "gen-" + repID[4:8]
		if timeAddr {
			// subtitle time is the video time in ms; only exact when the video start is a whole ms
			if (ls.Start*1000)%ref.Timescale != 0 {
				return tg, false
			}
			tg.URL = fmt.Sprintf("%s/%d.m4s", repID, ls.Start*1000/ref.Timescale)
		} else {
			tg.URL = fmt.Sprintf("%s/%d.m4s", repID, cfg.StartNr()+n)
		}
		avail(ls.End, ref.Timescale)
		return tg, true
	}
	rep := a.Reps[repID]
	if rep == nil {
		return tg, false
	}
	tg.Content = rep.ContentType
	switch rep.ContentType {
	case "audio":
		ls := a.Live(ref, n)
		val := cfg.StartNr() + n
		if timeAddr {
			val = int64(refmodel.AudioGrid(ls.Start, ref.Timescale, rep.Timescale, uint64(rep.FrameDur)))
		}
		tg.URL = mediaURL(rep.MediaURI, val)
		avail(ls.End, ref.Timescale)
	case "image":
		ls := a.Live(rep, n)
		tg.URL = mediaURL(rep.MediaURI, cfg.StartNr()+n)
		avail(ls.End, rep.Timescale)
	default:
		ls := a.Live(rep, n)
		val := cfg.StartNr() + n
		if timeAddr {
			val = int64(ls.Start)
		}
		tg.URL = mediaURL(rep.MediaURI, val)
		avail(ls.End, rep.Timescale)
	}
	return tg, true
}

func mediaURL(tpl string, v int64) string {
	s := strings.ReplaceAll(tpl, "$Number$", strconv.FormatInt(v, 10))
	return strings.ReplaceAll(s, "$Time$", strconv.FormatInt(v, 10))
}

func (C04) Gen(rng *core.Rng, tier string, idx int) *core.Scenario {
	label, gen, assetName, _, a := pickMPDWorld(rng)
	ar := assetRef{Asset: assetName}
	base := int64(1_600_000_000_000) + rng.Int63n(300_000_000_000)
	if rng.Chance(0.15) {
		base = rng.Int63n(4_000_000_000_000)
	}
	if maxBase := int64(1<<31) * a.SegDurMS; base > maxBase {
		base = rng.Int63n(maxBase)
	}
	cfg := genTimelineCfg(rng, a, base)
	if rng.Chance(0.35) {
		cfg.Tsbd = pint(core.Pick(rng, []int{0, 1, 2, 59, 3600, 86400, 172800}))
	}
	reps := a.RepIDs()
	repID := core.Pick(rng, reps)
	if rng.Chance(0.15) {
		kind := core.Pick(rng, []string{"stpp", "wvtt"})
		lang := core.Pick(rng, []string{"en", "sv"})
		cfg.Extra = append(cfg.Extra, "timesubs"+kind+"_"+lang)
		repID = "time" + kind + "-" + lang
	}
	ref := a.Ref()
	rel := base - cfg.AST()*1000
	if rel < 0 {
		rel = int64(rng.Range(0, 100000))
	}
	n := a.IndexContaining(ref, uint64(rel)*ref.Timescale/1000)
	if rng.Chance(0.2) {
		n = int64(rng.Range(0, 3*len(ref.Segs)))
	}
	w := c04World{VodRoot: label, Gen: gen, Asset: ar.Asset, Cfg: cfg, Rep: repID, N: n}
	if rng.Chance(0.08) {
		w.Kind = "notfound"
		w.Bad = core.Pick(rng, []string{"below-startnr", "unknown-rep", "unknown-asset", "rep-prefixed", "rep-suffixed", "rep-dot-wild"})
	}
	sc := core.NewScenario("C04", "tlsim", 0, tier, w)
	tg, ok := modelTarget(a, cfg, repID, n)
	if !ok {
		// subtitle $Time$ addressing on a non-ms aligned video start: fall back to number addressing
		w.Cfg.MPDType = "timelinenr"
		sc = core.NewScenario("C04", "tlsim", 0, tier, w)
		tg, _ = modelTarget(a, w.Cfg, repID, n)
	}
	T := tg.AvailMS
	tsbdMS := w.Cfg.TsbdS() * 1000
	cands := []int64{T - 1, T, T + 1, T - 2, T + 2, T - int64(rng.Range(3, 5000)), T - 3600_000, T + rng.Int63n(tsbdMS+1),
		T + tsbdMS, T + tsbdMS - 1, T + tsbdMS + 3600_000, T + tsbdMS + 3600_000 + rng.Int63n(1e9), T + rng.Int63n(tsbdMS+20000),
		w.Cfg.AST()*1000 - 1, w.Cfg.AST() * 1000, w.Cfg.AST()*1000 + int64(rng.Range(0, 5000))}
	nOps := rng.Range(6, 12)
	if tier == "thorough" {
		nOps = rng.Range(8, 16)
	}
	must := []int64{T - 1, T}
	var ts []int64
	ts = append(ts, must...)
	for len(ts) < nOps {
		ts = append(ts, core.Pick(rng, cands))
	}
	rng.Shuffle(len(ts), func(i, j int) { ts[i], ts[j] = ts[j], ts[i] }) // reordering fault
	for _, t := range ts {
		if t < 0 {
			t = 0
		}
		op := c04Op{T: t}
		if rng.Chance(0.2) {
			op.Inst = 1
		}
		sc.AddOp(op)
	}
	return sc
}

var tooEarlyRe = regexp.MustCompile(`(\d+)\s*ms`)

func (C04) Run(t *testing.T, sc *core.Scenario, res *core.Result) {
	w, err := core.DecodeWorld[c04World](sc)
	if err != nil {
		panic(err)
	}
	ops, err := core.DecodeOps[c04Op](sc)
	if err != nil {
		panic(err)
	}
	root := vodRootOf(w.VodRoot)
	if w.Gen != nil {
		root = genRoot(*w.Gen)
	}
	srvs := []*hx.Srv{sharedSrv(root), nil}
	a := refAssets(root)[w.Asset]
	if a == nil {
		panic("harness: unknown asset " + w.Asset)
	}
	cfg := w.Cfg
	tg, ok := modelTarget(a, cfg, w.Rep, w.N)
	if !ok {
		panic("harness: no model target")
	}
	feat := merge(cfg.Features(a), assetTraits(a), core.Sig("content", tg.Content, "world", w.VodRoot))
	prefix := cfg.Prefix(w.Asset)
	url := prefix + "/" + tg.URL
	astMS := cfg.AST() * 1000
	tsbdMS := cfg.TsbdS() * 1000
	atoInf := math.IsInf(cfg.AtoS(), 1)

	if w.Kind == "notfound" {
		switch w.Bad {
		case "below-startnr":
			if cfg.MPDType == "timeline" || cfg.StartNr() == 0 || strings.HasPrefix(w.Rep, "time") {
				res.Count("probe.notfound-skipped")
				res.Nontrivial = false
				return
			}
			rep := a.Reps[w.Rep]
			url = prefix + "/" + mediaURL(rep.MediaURI, cfg.StartNr()-1-(w.N%cfg.StartNr()))
		case "unknown-rep":
			url = prefix + "/nosuchrep/" + fmt.Sprint(cfg.StartNr()+w.N) + ".m4s"
		case "unknown-asset":
			url = cfg.Prefix("no/such/asset") + "/" + tg.URL
		case "rep-prefixed", "rep-suffixed", "rep-dot-wild":
			// near misses of the valid segment URL: no representation has such a media path
			dot := strings.LastIndex(tg.URL, ".")
			if strings.HasPrefix(w.Rep, "time") || dot < 0 {
				res.Count("probe.notfound-skipped")
				res.Nontrivial = false
				return
			}
			switch w.Bad {
			case "rep-prefixed":
				url = prefix + "/zz" + tg.URL
			case "rep-suffixed":
				url = prefix + "/" + tg.URL + "zz"
			default:
				url = prefix + "/" + tg.URL[:dot] + "z" + tg.URL[dot+1:]
			}
		}
		for _, op := range ops {
			if op.T < astMS {
				continue
			}
			r := srvs[0].GetAt(url, op.T)
			res.Event("notfound %s t=%d -> %d", w.Bad, op.T, r.Status)
			res.Count("op.notfound")
			if r.Status != 404 || r.Panic != "" {
				k := "not-404"
				if r.Panic != "" {
					k = "panic"
				}
				res.Violate("C04.not-found-404", merge(feat, core.Sig("kind", k, "bad", w.Bad, "status", fmt.Sprint(r.Status), "frame", r.PanicFrame)),
					"%s at %d: status %d panic=%q", url, op.T, r.Status, r.Panic)
			}
			res.Count("probe.notfound-checked")
		}
		res.Nontrivial = res.Stats["probe.notfound-checked"] >= 2
		return
	}

	T := tg.AvailMS
	type obs struct {
		t      int64
		status int
	}
	var seen []obs
	var lo, hi int64
	for i, op := range ops {
		if i == 0 || op.T < lo {
			lo = op.T
		}
		if i == 0 || op.T > hi {
			hi = op.T
		}
		s := srvs[0]
		if op.Inst == 1 {
			if srvs[1] == nil {
				srvs[1] = altSrv(root)
			}
			s = srvs[1]
			res.Count("fault.other-instance")
		}
		r := s.GetAt(url, op.T)
		res.Event("get t=%d (T%+d) inst=%d -> %d", op.T, op.T-T, op.Inst, r.Status)
		res.Count("op.segment")
		if r.Panic != "" {
			res.Violate("C04.deliberate-status", merge(feat, core.Sig("kind", "panic", "frame", r.PanicFrame)), "%s at %d: panic %s", url, op.T, r.Panic)
			continue
		}
		if op.T < astMS {
			// before stream start everything is too early
			if r.Status != 425 {
				res.Violate("C04.before-start-425", merge(feat, core.Sig("kind", "before-start", "status", fmt.Sprint(r.Status))),
					"%s at %d (AST %d): status %d", url, op.T, astMS, r.Status)
			}
			res.Count("probe.before-start")
			if r.Status == 425 {
				// "the 425 body states the remaining milliseconds": before the stream start either the time
				// to the stream start or the time to this segment's availability is a defensible figure.
				m := tooEarlyRe.FindStringSubmatch(string(r.Body))
				ok := false
				if m != nil {
					got, _ := strconv.ParseInt(m[1], 10, 64)
					for _, want := range []int64{astMS - op.T, T - op.T} {
						if d := got - want; d >= -1 && d <= 1 {
							ok = true
						}
					}
				}
				if !ok {
					res.Violate("C04.too-early-body", merge(feat, core.Sig("kind", "wrong-ms-figure-before-start")),
						"425 body %q at %d: neither %d ms (to stream start) nor %d ms (to availability)", trunc(string(r.Body), 60), op.T, astMS-op.T, T-op.T)
				}
			}
			continue
		}
		switch r.Status {
		case 200, 425, 410:
		default:
			res.Violate("C04.deliberate-status", merge(feat, core.Sig("kind", "unexpected-status", "status", fmt.Sprint(r.Status))),
				"%s at %d (T%+d): status %d %q", url, op.T, op.T-T, r.Status, trunc(string(r.Body), 80))
			continue
		}
		seen = append(seen, obs{op.T, r.Status})
		d := op.T - T
		switch {
		case d < 0:
			res.Count("probe.before-T")
			if d == -1 {
				res.Count("probe.T-minus-1")
			}
			if r.Status != 425 {
				res.Violate("C04.available-exactly-at-T", merge(feat, core.Sig("kind", "early", "status", fmt.Sprint(r.Status), "frac", fmt.Sprint(tg.Frac))),
					"%s at T%+d ms (T=%d): status %d, expected 425", url, d, T, r.Status)
			} else {
				// the 425 body states the remaining milliseconds
				m := tooEarlyRe.FindStringSubmatch(string(r.Body))
				if m == nil {
					res.Violate("C04.too-early-body", merge(feat, core.Sig("kind", "no-ms-figure")), "425 body %q", trunc(string(r.Body), 80))
				} else {
					got, _ := strconv.ParseInt(m[1], 10, 64)
					want := T - op.T
					diff := got - want
					if diff < 0 {
						diff = -diff
					}
					tol := int64(0)
					if tg.Frac {
						tol = 1
					}
					if diff > tol {
						res.Violate("C04.too-early-body", merge(feat, core.Sig("kind", "wrong-ms-figure", "frac", fmt.Sprint(tg.Frac))),
							"425 body says %d ms, remaining is %d ms (T=%d now=%d)", got, want, T, op.T)
					}
					res.Count("probe.too-early-body-checked")
				}
			}
		case d <= tsbdMS:
			res.Count("probe.in-window")
			if d == 0 {
				res.Count("probe.at-T")
			}
			if d == tsbdMS {
				res.Count("probe.at-window-end")
			}
			if r.Status != 200 {
				k := "late"
				if r.Status == 410 {
					k = "gone-inside-window"
				}
				res.Violate("C04.available-exactly-at-T", merge(feat, core.Sig("kind", k, "status", fmt.Sprint(r.Status), "frac", fmt.Sprint(tg.Frac), "at-T", fmt.Sprint(d == 0))),
					"%s at T%+d ms (T=%d, tsbd %d ms): status %d, expected 200", url, d, T, tsbdMS, r.Status)
			}
		case d >= tsbdMS+3600_000:
			res.Count("probe.long-after")
			if atoInf {
				if r.Status != 200 {
					res.Violate("C04.inf-ato-always", merge(feat, core.Sig("kind", "inf-ato-not-200", "status", fmt.Sprint(r.Status))),
						"%s at T%+d with infinite ato: %d", url, d, r.Status)
				}
			} else if r.Status != 410 {
				res.Violate("C04.eventually-gone", merge(feat, core.Sig("kind", "not-gone", "status", fmt.Sprint(r.Status))),
					"%s at T%+d ms (tsbd %d ms): status %d, expected 410", url, d, tsbdMS, r.Status)
			}
		default:
			res.Count("probe.grace-zone") // between T+tsbd and T+tsbd+1h either 200 or 410 is fine
			if r.Status == 425 {
				res.Violate("C04.monotone", merge(feat, core.Sig("kind", "425-after-available")), "%s at T%+d: 425", url, d)
			}
		}
	}
	// (1) monotone word 425* 200* 410* along increasing time
	sort.SliceStable(seen, func(i, j int) bool { return seen[i].t < seen[j].t })
	phase := func(s int) int {
		switch s {
		case 425:
			return 0
		case 200:
			return 1
		}
		return 2
	}
	for i := 1; i < len(seen); i++ {
		if phase(seen[i].status) < phase(seen[i-1].status) {
			res.Violate("C04.monotone", merge(feat, core.Sig("kind", "phase-regression", "from", fmt.Sprint(seen[i-1].status), "to", fmt.Sprint(seen[i].status))),
				"%s: %d at t=%d then %d at t=%d", url, seen[i-1].status, seen[i-1].t, seen[i].status, seen[i].t)
		}
	}
	res.SimMS += hi - lo
	res.Nontrivial = len(seen) >= 3
}

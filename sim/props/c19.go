package props

// C19 — the ingest receiver tolerates concurrent uploads (engine R; the whole property runs under -race).
//
// One Run executes the same uploads three times on three fresh receivers:
//   ref1, ref2  sequentially, in two different orders (reference; run after conc, ref1 in conc's completion order),
//   conc        as operations of one client goroutine per track, serialized by race-invisible gates
//               in the scenario's order, with handlers parked at the SimYield windows when the
//               scenario says so.
// Oracles: (a) the race detector's log must not grow during conc; (b) statuses, stored files, MPDs
// and the number of channel goroutines of conc must equal those of the sequential reference.

import (
	"fmt"
	"os"
	"path/filepath"
	"sort"
	"strings"
	"sync"
	"testing"
	"time"

	rapp "github.com/Dash-Industry-Forum/livesim2/cmd/cmaf-ingest-receiver/app"

	"verif/sim/core"
	"verif/sim/hx"
)

type c19World struct {
	recvWorld
	Preinit bool `json:"preinit,omitempty"` // storage already holds init_org files (receiver restarted while the sender goes on)
}

type c19Op struct {
	Kind string `json:"kind"` // up | resume | stall | unstall (channel goroutines held back: a slow consumer)
	recvUpload
	Round int      `json:"round,omitempty"`
	Park  []string `json:"park,omitempty"` // yield points at which this upload parks
}

type C19 struct{}

func init() { core.Register(C19{}) }

func (C19) ID() string      { return "C19" }
func (C19) Engine() string  { return "racesim" }
func (C19) NeedsRace() bool { return true }

// ---------------------------------------------------------------------------------------
// Generator.

func c19GenChannel(rng *core.Rng, tier string, ci int, w *c19World) recvChannel {
	c := recvChannel{Name: fmt.Sprintf("ch%d", ci+1)}
	if rng.Chance(0.1) {
		c.Name = fmt.Sprintf("grp/ch%d", ci+1)
	}
	switch x := rng.Intn(100); {
	case x < 76:
		c.Family = "ls2"
	case x < 83:
		c.Family = "ls8"
	case x < 90:
		c.Family = "aws"
	default:
		c.Family = "zero"
	}
	c.Streams = rng.Chance(0.3)
	c.Btrt = rng.Chance(0.6) // init segments as the livesim2 sender makes them (btrt added) or as served
	if c.Family == "ls8" {
		c.Tsbd, c.InCfg = 40, true
	}
	if rng.Chance(0.08) {
		c.StartNr = 1
		c.InCfg = true
	}
	switch c.Family {
	case "ls2", "ls8":
		c.Base = core.Pick(rng, []int64{0, 1, 5, 1000, 880_000_000 + rng.Int63n(1_000_000)})
		if c.Base < int64(c.StartNr) {
			c.Base = int64(c.StartNr)
		}
		nTr := 2 + rng.Intn(3)
		if rng.Chance(0.3) {
			nTr = 2 + rng.Intn(7)
		}
		if tier == "thorough" {
			nTr = 2 + rng.Intn(7)
		}
		defs := recvFamilies[c.Family]
		for i := 0; i < nTr; i++ {
			var d recvSrcDef
			switch {
			case i == 0:
				d = defs[0] // video master
			case i == 1:
				d = defs[1]
			default:
				d = core.Pick(rng, defs)
			}
			c.Tracks = append(c.Tracks, recvTrack{Name: fmt.Sprintf("%s%d", d.Kind[:1], i), Src: d.Name, Tag: i + 1})
		}
	case "aws":
		c.Tracks = []recvTrack{{Name: "video", Src: "video"}, {Name: "audio", Src: "audio"}}
		if rng.Chance(0.5) {
			c.Tracks = append(c.Tracks, recvTrack{Name: "audio2", Src: "audio", Tag: 3})
		}
	case "zero":
		defs := recvFamilies["zero"]
		n := 2 + rng.Intn(4)
		order := []int{0, 2, 1, 3, 4}
		for i := 0; i < n; i++ {
			d := defs[order[i]]
			c.Tracks = append(c.Tracks, recvTrack{Name: d.Name, Src: d.Name})
		}
	}
	// per-representation configuration
	if rng.Chance(0.4) {
		c.InCfg = true
		for i, t := range c.Tracks {
			if !rng.Chance(0.5) {
				continue
			}
			rc := recvRepCfg{Name: t.Name}
			if rng.Chance(0.5) {
				rc.Language = core.Pick(rng, []string{"en", "sv", "nor"})
			}
			if rng.Chance(0.5) {
				rc.Role = core.Pick(rng, []string{"main", "alternate", "subtitle", "caption"})
			}
			if rng.Chance(0.4) {
				rc.DisplayName = "label-" + t.Name
			}
			if rng.Chance(0.4) {
				rc.Bitrate = uint32(64000 * (1 + rng.Intn(20)))
			}
			if i > 0 && rng.Chance(0.1) {
				rc.Ignore = true
			}
			c.Reps = append(c.Reps, rc)
		}
	}
	return c
}

func (C19) Gen(rng *core.Rng, tier string, idx int) *core.Scenario {
	w := c19World{}
	w.Tsbd = uint64(core.Pick(rng, []int{8, 10, 20, 30, 60})) // windows well above the start-up backlog: tiny windows are C17's business
	nCh := 1
	if rng.Chance(0.45) {
		nCh = 2 + rng.Intn(3)
	}
	for ci := 0; ci < nCh; ci++ {
		w.Channels = append(w.Channels, c19GenChannel(rng, tier, ci, &w))
	}
	// authentication
	switch rng.Intn(4) {
	case 0:
		w.DefaultUser, w.DefaultPswd = "user", "secret"
	case 1:
		for i := range w.Channels {
			if rng.Chance(0.7) {
				w.Channels[i].AuthUser, w.Channels[i].AuthPswd = fmt.Sprintf("u%d", i), fmt.Sprintf("p%d", i)
				w.Channels[i].InCfg = true
			}
		}
	}
	if nCh > 1 && rng.Chance(0.08) {
		i := rng.Intn(nCh)
		w.Channels[i].Ignore, w.Channels[i].InCfg = true, true
	}
	w.Preinit = rng.Chance(0.15)
	method := core.Pick(rng, []string{"PUT", "PUT", "POST"})
	sc := core.NewScenario("C19", "racesim", 0, tier, w)

	// per channel: rounds of uploads; a round is a list of steps (uploads and resumes)
	type step = c19Op
	chanSteps := make([][]step, nCh)
	for ci := range w.Channels {
		c := &w.Channels[ci]
		nMedia := 3 + rng.Intn(3)
		if tier == "thorough" {
			nMedia = 3 + rng.Intn(6)
		}
		if n := recvFamilyLen[c.Family]; n > 0 && nMedia > n {
			nMedia = n
		}
		// late joiner: one track (not the first) starts in round lateRound
		late, lateRound := -1, 0
		// (not before the channel has started, i.e. after the master's second segment: a track that registers
		// earlier without media crashes the channel goroutine even sequentially - that is C17's finding)
		if len(c.Tracks) > 2 && rng.Chance(0.45) && !w.Preinit && nMedia >= 3 {
			late = 1 + rng.Intn(len(c.Tracks)-1)
			lateRound = 3 + rng.Intn(nMedia-2)
		}
		stallUntil := -1
		badAuth := -1
		// (rounds 1 and 2 are left alone: a registered track that misses one of its first two segments crashes
		// the channel goroutine even in a sequential run - C17's finding, it would only kill C19's processes)
		if u, _ := w.creds(c); u != "" && rng.Chance(0.3) {
			badAuth = 0
			if nMedia >= 3 && rng.Chance(0.7) {
				badAuth = 3 + rng.Intn(nMedia-2)
			}
		}
		first := true
		for round := 0; round <= nMedia; round++ {
			var ups []step
			for ti, t := range c.Tracks {
				up := step{Kind: "up", Round: round, recvUpload: recvUpload{Ch: c.Name, Tr: t.Name, Method: method}}
				if method == "PUT" {
					up.Method = ""
				}
				switch {
				case ti == late && round < lateRound:
					continue
				case ti == late && round == lateRound:
					up.Init = true
				case round == 0:
					if w.Preinit {
						continue
					}
					up.Init = true
				default:
					up.Idx = round - 1
				}
				ups = append(ups, up)
			}
			if len(ups) == 0 {
				continue
			}
			rng.Shuffle(len(ups), func(i, j int) { ups[i], ups[j] = ups[j], ups[i] })
			if round == badAuth {
				ups[0].Auth = core.Pick(rng, []string{"wrong", "none"})
			}
			// adversarial parking
			var parkedIdx []int
			pattern := rng.Intn(10)
			switch {
			case first && pattern < 3 && len(ups) >= 2: // two first uploads overlap in the channel-miss window
				ups[0].Park, ups[1].Park = []string{"receiver.channel-miss"}, []string{"receiver.channel-miss"}
				parkedIdx = []int{0, 1}
			case first && pattern < 5: // every first upload overlaps in the channel-miss window
				for i := range ups {
					ups[i].Park = []string{"receiver.channel-miss"}
					parkedIdx = append(parkedIdx, i)
				}
			case first && pattern < 7: // overlaps in the stream-registration window
				for i := range ups {
					if rng.Chance(0.6) {
						ups[i].Park = []string{"receiver.stream-miss"}
						parkedIdx = append(parkedIdx, i)
					}
				}
			case first && pattern < 8 && len(ups) >= 2: // both windows
				ups[0].Park = []string{"receiver.channel-miss", "receiver.stream-miss"}
				ups[1].Park = []string{"receiver.channel-miss", "receiver.stream-miss"}
				parkedIdx = []int{0, 1, 0, 1}
			case first && pattern < 10 && len(ups) >= 2 && rng.Chance(0.8): // two first uploads parked before the same k-th lock acquisition
				k := fmt.Sprintf("lock#%d", rng.Range(1, 8))
				ups[0].Park, ups[1].Park = []string{k}, []string{k}
				parkedIdx = []int{0, 1}
			case !first && late >= 0 && round == lateRound && rng.Chance(0.6): // media uploads parked before a lock acquisition while the late track registers
				for i := range ups {
					if !ups[i].Init && rng.Chance(0.7) {
						ups[i].Park = []string{fmt.Sprintf("lock#%d", core.Pick(rng, []int{2, 3, 4, 4, 5, 5, 6, 7, 8, 10, 12}))}
						parkedIdx = append(parkedIdx, i)
					}
				}
			case !first && rng.Chance(0.25) && len(ups) >= 2: // later rounds: one or two uploads parked before some lock acquisition
				n := rng.Range(1, 2)
				for i := 0; i < n; i++ {
					ups[i].Park = []string{fmt.Sprintf("lock#%d", rng.Range(1, 12))}
					parkedIdx = append(parkedIdx, i)
				}
			case !first && late >= 0 && round == lateRound && rng.Chance(0.5): // late joiner's init parks before registering
				for i := range ups {
					if ups[i].Init {
						ups[i].Park = []string{"receiver.stream-miss"}
						parkedIdx = append(parkedIdx, i)
					}
				}
			}
			first = false
			// the round's step list: uploads in order, each resume somewhere after its upload
			steps := append([]step(nil), ups...)
			rng.Shuffle(len(parkedIdx), func(i, j int) { parkedIdx[i], parkedIdx[j] = parkedIdx[j], parkedIdx[i] })
			for _, pi := range parkedIdx {
				res := step{Kind: "resume", Round: round, recvUpload: recvUpload{Ch: ups[pi].Ch, Tr: ups[pi].Tr}}
				// position: after the upload's own position
				pos := 0
				for k, s := range steps {
					if s.Kind == "up" && s.Tr == ups[pi].Tr {
						pos = k + 1
					}
				}
				if rng.Chance(0.7) { // usually after all uploads of the round have started
					pos = len(steps)
				} else {
					pos = pos + rng.Intn(len(steps)-pos+1)
				}
				steps = append(steps[:pos], append([]step{res}, steps[pos:]...)...)
			}
			// slow consumer: the channel goroutines are held back while one or two rounds are uploaded
			// (only without a late joiner: a track that registers while reports are queued legitimately changes which
			// numbers count as complete, i.e. the result then equals another sequential order than the sampled ones)
			if round >= 3 && stallUntil < 0 && late < 0 && rng.Chance(0.3) {
				steps = append([]step{{Kind: "stall"}}, steps...)
				stallUntil = round + rng.Intn(2)
			}
			if round == stallUntil {
				steps = append(steps, step{Kind: "unstall"})
				stallUntil = -2 // once per channel
			}
			chanSteps[ci] = append(chanSteps[ci], steps...)
		}
	}
	// merge the channels' step lists (independent senders), keeping each channel's order
	pos := make([]int, nCh)
	for {
		var live []int
		for ci := range chanSteps {
			if pos[ci] < len(chanSteps[ci]) {
				live = append(live, ci)
			}
		}
		if len(live) == 0 {
			break
		}
		ci := core.Pick(rng, live)
		n := 1 + rng.Intn(4)
		for k := 0; k < n && pos[ci] < len(chanSteps[ci]); k++ {
			sc.AddOp(chanSteps[ci][pos[ci]])
			pos[ci]++
		}
	}
	return sc
}

// ---------------------------------------------------------------------------------------
// Executor.

type c19Result struct {
	Status int
	Body   string
	Panic  string
	Frame  string
	Skip   bool
}

type c19Final struct {
	Status   []c19Result         // per "up" op (index into ups)
	Files    map[string]recvFile // all files below storage
	MPDs     map[string]*recvMPD // relative path -> parsed
	MPDErr   map[string]string   // relative path -> parse error
	Channels recvGoroutines      // channel goroutines alive at the end
	Quiet    bool
}

func c19Preinit(dir string, w *c19World) {
	for _, c := range w.Channels {
		for _, t := range c.Tracks {
			def := recvSrc(c.Family, t.Src)
			d := dir + "/" + c.Name + "/" + t.Name
			if err := os.MkdirAll(d, 0o755); err != nil {
				panic("harness: " + err.Error())
			}
			if err := os.WriteFile(d+"/init_org"+def.Ext, recvInitBody(c.Family, t.Src, c.Btrt), 0o644); err != nil {
				panic("harness: " + err.Error())
			}
		}
	}
}

func c19Collect(dir string, fin *c19Final) {
	fin.Files = recvSnapshot(dir)
	fin.MPDs = map[string]*recvMPD{}
	fin.MPDErr = map[string]string{}
	for name := range fin.Files {
		if !strings.HasSuffix(name, ".mpd") {
			continue
		}
		raw, err := os.ReadFile(dir + "/" + name)
		if err != nil {
			continue
		}
		m, err := recvParseMPD(raw)
		if err != nil {
			fin.MPDErr[name] = err.Error()
			continue
		}
		fin.MPDs[name] = m
	}
}

// c19Sequential delivers ups in the given order on a fresh receiver.
func c19Sequential(w *c19World, ups []c19Op, order []int) *c19Final {
	dir := hx.TempDir("c19")
	defer os.RemoveAll(dir)
	if w.Preinit {
		c19Preinit(dir, w)
	}
	ri := newRecvInst(dir, &w.recvWorld)
	fin := &c19Final{Status: make([]c19Result, len(ups)), Quiet: true}
	for _, i := range order {
		method, path, body, hdr, ok := w.request(ups[i].recvUpload)
		if !ok {
			fin.Status[i].Skip = true
			continue
		}
		r := ri.Do(method, path, body, hdr)
		fin.Status[i] = c19Result{Status: r.Status, Body: strings.TrimSpace(string(r.Body)), Panic: r.Panic, Frame: r.PanicFrame}
		if _, q := recvQuiesce(); !q {
			fin.Quiet = false
		}
	}
	fin.Channels, _ = recvQuiesce()
	c19Collect(dir, fin)
	ri.Stop()
	recvWaitNoChannels()
	return fin
}

func c19Kind(u c19Op) string {
	if u.Init {
		return "init"
	}
	return "media"
}

func (C19) Run(t *testing.T, sc *core.Scenario, res *core.Result) {
	w, err := core.DecodeWorld[c19World](sc)
	if err != nil {
		panic(err)
	}
	ops, err := core.DecodeOps[c19Op](sc)
	if err != nil {
		panic(err)
	}
	ygInstallOnce.Do(func() { rapp.SimYield = ygDispatch })
	ygSetCurrent(nil)
	if !recvWaitNoChannels() {
		panic("harness: channel goroutines of an earlier run are still alive")
	}
	ygNeutralisePools() // (creates the janitor goroutine before any client goroutine exists)

	// uploads, clients
	var ups []c19Op
	upOfOp := map[int]int{}
	for i, op := range ops {
		if op.Kind == "up" {
			upOfOp[i] = len(ups)
			ups = append(ups, op)
		}
	}
	if len(ups) == 0 {
		return
	}
	clientIdx := map[string]int{}
	var clientKeys, clientCh []string
	for _, c := range w.Channels {
		for _, tr := range c.Tracks {
			clientIdx[c.Name+"\x00"+tr.Name] = len(clientKeys)
			clientKeys = append(clientKeys, c.Name+"/"+tr.Name)
			clientCh = append(clientCh, c.Name)
		}
	}

	// ---- concurrent run
	dir := hx.TempDir("c19")
	defer os.RemoveAll(dir)
	if w.Preinit {
		c19Preinit(dir, &w)
	}
	raceBefore := raceLogSize()
	ri := newRecvInst(dir, &w.recvWorld)
	conc := &c19Final{Status: make([]c19Result, len(ups)), Quiet: true}
	skip := make([]bool, len(ups)) // written before the client goroutines start, read-only afterwards

	// barrier words: real synchronisation between the rounds of one channel (the sender waits for
	// all responses of a round before it starts the next one)
	bars := map[string]*sync.Mutex{}
	roundsOf := map[string][]int{}
	for _, u := range ups {
		k := fmt.Sprintf("%s\x00%d", u.Ch, u.Round)
		if bars[k] == nil {
			bars[k] = &sync.Mutex{}
			roundsOf[u.Ch] = append(roundsOf[u.Ch], u.Round)
		}
	}
	clients := make([][]ygOp, len(clientKeys))
	clientOpUp := make([][]int, len(clientKeys)) // client -> op index -> ups index
	for ui, u := range ups {
		ci, ok := clientIdx[u.Ch+"\x00"+u.Tr]
		if !ok {
			skip[ui] = true
			continue
		}
		ui, u := ui, u
		method, path, body, hdr, ok := w.request(u.recvUpload)
		if !ok {
			skip[ui] = true
			continue
		}
		var before []*sync.Mutex
		for _, r := range roundsOf[u.Ch] {
			if r < u.Round {
				before = append(before, bars[fmt.Sprintf("%s\x00%d", u.Ch, r)])
			}
		}
		own := bars[fmt.Sprintf("%s\x00%d", u.Ch, u.Round)]
		park := map[string]bool{}
		for _, p := range u.Park {
			park[p] = true
		}
		clients[ci] = append(clients[ci], ygOp{ParkAt: park, Fn: func() {
			for _, m := range before {
				m.Lock()
				m.Unlock() //nolint:staticcheck // acquire what the earlier rounds released
			}
			r := ri.Do(method, path, body, hdr)
			conc.Status[ui] = c19Result{Status: r.Status, Body: strings.TrimSpace(string(r.Body)), Panic: r.Panic, Frame: r.PanicFrame}
			own.Lock()
			own.Unlock() //nolint:staticcheck
		}})
		clientOpUp[ci] = append(clientOpUp[ci], ui)
	}
	runner := newYgRunner(clients)
	runner.HandlerMark = ").SegmentHandlerFunc("
	ygSetCurrent(runner)
	runner.Start()
	type stepRec struct {
		client int
		st     ygStep
	}
	var steps []stepRec
	const watchdog = 20 * time.Second
	parkedNow := map[int]string{} // client -> point
	overlapChannelMiss, parkedStream, parkedChannel, parkedLock := false, false, false, false
	poolsNeutral := true
	stalled := false
	registered := make([]bool, len(clients)) // client = track
	doStep := func(ci int) bool {
		// no pooled object and no pool clock may carry one operation's history into the next one
		ygDrainPools()
		if !ygNeutralisePools() {
			poolsNeutral = false
		}
		st := runner.Step(ci, watchdog)
		steps = append(steps, stepRec{ci, st})
		if runner.Hung {
			return false
		}
		if st.Noop {
			return true
		}
		delete(parkedNow, ci)
		if st.Parked == "" {
			registered[ci] = true // an upload of this track has been handled completely: the track is registered
		}
		if st.Parked != "" {
			parkedNow[ci] = st.Parked
			if strings.HasPrefix(st.Parked, "lock#") {
				res.Count("fault.park.before-lock")
			} else {
				res.Count("fault.park." + strings.TrimPrefix(st.Parked, "receiver."))
			}
			if st.Parked == "receiver.channel-miss" {
				parkedChannel = true
				n := 0
				for oc, p := range parkedNow {
					if p == "receiver.channel-miss" && clientCh[oc] == clientCh[ci] {
						n++
					}
				}
				if n >= 2 {
					overlapChannelMiss = true
				}
			} else if strings.HasPrefix(st.Parked, "lock#") {
				parkedLock = true
			} else {
				parkedStream = true
			}
		}
		if stalled && runner.bgStall.load() == 0 {
			stalled = false // lifted because an upload needed the channel goroutine
		}
		if !stalled {
			if _, q := recvQuiesce(); !q {
				conc.Quiet = false
			}
		}
		return true
	}
	hung := false
runLoop:
	for oi, op := range ops {
		switch op.Kind {
		case "stall":
			// only once every channel has started (its manifest.mpd exists): uploads that are in flight across the
			// channel start are received under the numbering of before the start, which no order of completely
			// processed uploads reproduces (C17's ground, findings F-C17-16/17)
			allStarted := true
			for _, c := range w.Channels {
				if _, err := os.Stat(filepath.Join(ri.Dir, c.Name, "manifest.mpd")); err != nil {
					allStarted = false
				}
			}
			if !allStarted {
				res.Count("probe.stall-skipped-channel-not-started")
				continue
			}
			// ... and only when no track can register during the stall: a registration while reports are queued
			// changes which numbers count as complete (the result then equals another sequential order)
			allRegistered := true
			for ci := range clients {
				if len(clients[ci]) > 0 && !registered[ci] {
					allRegistered = false
				}
			}
			if !allRegistered {
				res.Count("probe.stall-skipped-track-not-registered")
				continue
			}
			runner.StallBackground(true)
			stalled = true
			res.Count("fault.channel-goroutine-stalled")
			continue
		case "unstall":
			runner.StallBackground(false)
			stalled = false
			continue
		}
		ci, ok := clientIdx[op.Ch+"\x00"+op.Tr]
		if !ok {
			continue
		}
		switch op.Kind {
		case "up":
			if skip[upOfOp[oi]] {
				continue
			}
			for runner.InFlight(ci) { // a client sends its next request only after the previous one returned
				if !doStep(ci) {
					hung = true
					break runLoop
				}
			}
			res.Count("op.upload-" + c19Kind(op))
			if !doStep(ci) {
				hung = true
				break runLoop
			}
		case "resume":
			if !runner.InFlight(ci) {
				continue
			}
			res.Count("op.resume")
			if !doStep(ci) {
				hung = true
				break runLoop
			}
		}
	}
	runner.StallBackground(false)
	stalled = false
	if !hung {
		for ci := range clients { // nothing stays parked
			for runner.InFlight(ci) {
				if !doStep(ci) {
					hung = true
					break
				}
			}
		}
	}
	if hung {
		res.Violate("C19.hang", core.Sig("kind", "upload-did-not-return", "phase", "concurrent"), "an upload did not return within %v", watchdog)
		ri.Stop()
		return
	}
	runner.Finish()
	ygSetCurrent(nil)
	g, quiet := recvQuiesce()
	conc.Channels = g
	if !quiet || !conc.Quiet {
		res.Violate("C19.hang", core.Sig("kind", "channel-goroutine-busy", "phase", "concurrent"), "channel goroutine did not become idle within 20 s")
	}
	c19Collect(dir, conc)
	ri.Stop()
	recvWaitNoChannels()

	// event log of the concurrent run
	for _, s := range steps {
		if s.st.Noop {
			continue
		}
		ui := clientOpUp[s.client][s.st.OpIdx]
		what := "resumed"
		if s.st.Started {
			what = "started"
		}
		end := fmt.Sprintf("-> %d", conc.Status[ui].Status)
		if s.st.Parked != "" {
			end = "parked@" + s.st.Parked
		}
		res.Event("%s %s %s %s", clientKeys[s.client], ups[ui].recvUpload, what, end)
	}
	res.Event("conc %s", c19Digest(conc))

	// ---- reference: the same uploads delivered sequentially on fresh receivers.
	// ref1: in the order in which the uploads completed in the concurrent run (a parked upload does almost all
	//       of its work after it is resumed), i.e. the sequential order this serialized run is equivalent to;
	// ref2: the rounds of ref1 with the order inside each round reversed. Where the two agree the result does
	//       not depend on the order inside a round, which fixes the reference also for overlapped handlers.
	var order1 []int
	seenUp := map[int]bool{}
	for _, s := range steps {
		if s.st.Noop || s.st.Parked != "" {
			continue
		}
		ui := clientOpUp[s.client][s.st.OpIdx]
		if !seenUp[ui] {
			seenUp[ui] = true
			order1 = append(order1, ui)
		}
	}
	groupFirst := map[string]int{}
	for pos, ui := range order1 {
		k := fmt.Sprintf("%s\x00%d", ups[ui].Ch, ups[ui].Round)
		if _, ok := groupFirst[k]; !ok {
			groupFirst[k] = pos
		}
	}
	posOf := map[int]int{}
	for pos, ui := range order1 {
		posOf[ui] = pos
	}
	order2 := append([]int(nil), order1...)
	sort.SliceStable(order2, func(a, b int) bool {
		ua, ub := ups[order2[a]], ups[order2[b]]
		ga, gb := groupFirst[fmt.Sprintf("%s\x00%d", ua.Ch, ua.Round)], groupFirst[fmt.Sprintf("%s\x00%d", ub.Ch, ub.Round)]
		if ga != gb {
			return ga < gb
		}
		return posOf[order2[a]] > posOf[order2[b]] // reversed inside the round
	})
	ref1 := c19Sequential(&w, ups, order1)
	ref2 := c19Sequential(&w, ups, order2)
	res.Event("ref1 %s", c19Digest(ref1))
	res.Event("ref2 %s", c19Digest(ref2))
	if !ref1.Quiet || !ref2.Quiet {
		res.Violate("C19.hang", core.Sig("kind", "channel-goroutine-busy", "phase", "sequential"), "channel goroutine did not become idle within 20 s in a sequential run")
		return
	}
	res.SimMS += int64(len(ups)) * 100
	interleaving := "none"
	switch {
	case overlapChannelMiss:
		interleaving = "channel-miss-overlap"
	case parkedLock && (parkedChannel || parkedStream):
		interleaving = "lock-and-miss-park"
	case parkedLock:
		interleaving = "before-lock-park"
	case parkedChannel && parkedStream:
		interleaving = "channel-and-stream-miss-park"
	case parkedStream:
		interleaving = "stream-miss-park"
	case parkedChannel:
		interleaving = "channel-miss-park"
	}
	if overlapChannelMiss {
		res.Count("probe.channel-miss-overlap")
	}
	res.Nontrivial = len(ups) >= 3

	// ---- oracle (a): race reports
	if raceBefore < 0 {
		res.Count("probe.race-detection-inactive")
	} else {
		res.Count("probe.race-detection-active")
		// One violation per (object kind, writing method): which reader - or which of several racing pairs on
		// one location - the detector samples differs from run to run; the unsynchronised writer does not.
		byKey := map[string][]raceReport{}
		if poolsNeutral {
			res.Count("probe.race-pool-clocks-neutralised")
		} else {
			res.Count("probe.race-pool-clocks-not-neutralised")
		}
		for _, rr := range raceLogSince(raceBefore) {
			if rr.PoolArtefact {
				res.Count("probe.race-report-pool-artefact")
				continue
			}
			obj := "memory"
			if rr.Map {
				obj = "map"
			}
			k := obj + "\x00" + rr.Writer
			byKey[k] = append(byKey[k], rr)
		}
		for _, k := range sortedKeys(byKey) {
			obj, writer, _ := strings.Cut(k, "\x00")
			rrs := byKey[k]
			pairs := map[string]bool{}
			for _, rr := range rrs {
				pairs[rr.A+" / "+rr.B] = true
			}
			res.Violate("C19.race-free", core.Sig("kind", "data-race", "writer", writer, "object", obj),
				"%d report(s); access pairs: %s\n%s", len(rrs), strings.Join(sortedKeys(pairs), "; "), rrs[0].Text)
		}
	}

	// ---- oracle (b): logic
	feat := func(kv ...string) map[string]string {
		return merge(core.Sig(kv...), core.Sig("interleaving", interleaving))
	}
	refAgree := c19SameFiles(ref1, ref2) == "" && c19SameMPDs(ref1, ref2) == "" && c19SameStatus(ref1, ref2, ups) < 0
	if !refAgree {
		res.Count("probe.reference-order-sensitive")
	} else {
		res.Count("probe.reference-order-insensitive")
	}
	// Without a parked handler the run IS the sequential delivery ref1 (same order, one upload at a time), so
	// everything must be equal to ref1. With overlapped handlers the equivalent order is not unique: equality
	// is then demanded only where the two reference orders agree.
	anyPark := parkedChannel || parkedStream || parkedLock
	exact := !anyPark || refAgree
	if exact {
		res.Count("probe.reference-fixed")
	} else {
		res.Count("probe.reference-not-fixed")
	}
	// statuses and panics
	for ui, u := range ups {
		cs := conc.Status[ui]
		if skip[ui] {
			continue
		}
		if cs.Panic != "" {
			res.Violate("C19.no-panic", feat("kind", "panic", "frame", cs.Frame, "upload", c19Kind(u)), "%s: panic %s", u.recvUpload, cs.Panic)
			continue
		}
		if u.Auth != "" {
			res.Count("fault.bad-credentials")
		}
		r1, r2 := ref1.Status[ui], ref2.Status[ui]
		if cs.Status == r1.Status || (anyPark && cs.Status == r2.Status) {
			if cs.Status/100 != 2 {
				res.Count("probe.non-2xx-also-sequentially")
			}
			continue
		}
		res.Violate("C19.no-upload-lost", feat("kind", "upload-rejected", "upload", c19Kind(u), "status", fmt.Sprint(cs.Status),
			"sequential-status", fmt.Sprint(r1.Status)),
			"%s answered %d %q in the concurrent run, %d sequentially", u.recvUpload, cs.Status, cs.Body, r1.Status)
	}
	// exactly one channel object per name
	if ref1.Channels.ChannelRun == ref2.Channels.ChannelRun && conc.Channels.ChannelRun != ref1.Channels.ChannelRun {
		rel := "more"
		if conc.Channels.ChannelRun < ref1.Channels.ChannelRun {
			rel = "fewer"
		}
		res.Violate("C19.one-channel-object", feat("kind", "channel-goroutines", "relation", rel),
			"%d live (*channel).run goroutines after the concurrent run, %d after the sequential runs", conc.Channels.ChannelRun, ref1.Channels.ChannelRun)
	}
	// every track registered: a track that is a Representation of the channel's MPDs after the sequential
	// deliveries (both orders) is one after the concurrent delivery
	for _, c := range w.Channels {
		for _, mname := range []string{"manifest.mpd", "manifest_timeline_nr.mpd"} {
			m := conc.MPDs[c.Name+"/"+mname]
			rm, rm2 := ref1.MPDs[c.Name+"/"+mname], ref2.MPDs[c.Name+"/"+mname]
			if m == nil || rm == nil || rm2 == nil {
				continue
			}
			// how the representations are grouped into AdaptationSets does not depend on the order of the uploads
			// (where both sequential orders agree): two tracks of one set registering at the same time included
			if rm.Partition == rm2.Partition && m.Partition != rm.Partition {
				res.Violate("C19.equals-sequential", feat("kind", "adaptation-set-grouping", "mpd", mname),
					"channel %s %s: AdaptationSets group the representations as %q after the concurrent run, as %q after both sequential orders", c.Name, mname, m.Partition, rm.Partition)
			}
			have, have2 := map[string]bool{}, map[string]bool{}
			for _, r := range m.Reps {
				have[r.ID] = true
			}
			for _, r := range rm2.Reps {
				have2[r.ID] = true
			}
			for _, r := range rm.Reps {
				if !have[r.ID] && (have2[r.ID] || !anyPark) {
					res.Violate("C19.every-track-registered", feat("kind", "track-missing-in-mpd", "mpd", mname, "content", r.ContentType),
						"channel %s: representation %s is in the sequential %s but not in the concurrent one", c.Name, r.ID, mname)
				}
			}
		}
	}
	// final state equals the sequential one
	if exact {
		if d := c19SameFiles(ref1, conc); d != "" {
			kind, detail, _ := strings.Cut(d, "\x00")
			res.Violate("C19.equals-sequential", feat("kind", kind), "%s", detail)
		}
		if d := c19SameMPDs(ref1, conc); d != "" {
			kind, detail, _ := strings.Cut(d, "\x00")
			res.Violate("C19.equals-sequential", feat("kind", kind), "%s", detail)
		}
	}
	for _, name := range sortedKeys(conc.MPDErr) {
		res.Violate("C19.equals-sequential", feat("kind", "mpd-unparsable", "mpd", name[strings.LastIndex(name, "/")+1:]), "%s: %s", name, conc.MPDErr[name])
	}
	// probes
	for _, m := range conc.MPDs {
		for _, r := range m.Reps {
			if r.HasTimeline && len(r.Segs) > 0 {
				res.Count("probe.timeline-mpd-published")
				break
			}
		}
	}
}

func c19Digest(f *c19Final) string {
	var b strings.Builder
	for _, s := range f.Status {
		fmt.Fprintf(&b, "%d,", s.Status)
	}
	fmt.Fprintf(&b, " chgo=%d files=", f.Channels.ChannelRun)
	var all []string
	for _, n := range sortedKeys(f.Files) {
		if strings.HasSuffix(n, ".mpd") {
			continue
		}
		all = append(all, n+":"+f.Files[n].Hash)
	}
	b.WriteString(hx.ShortHash([]byte(strings.Join(all, ";"))))
	for _, n := range sortedKeys(f.MPDs) {
		fmt.Fprintf(&b, " %s=%s", n, hx.ShortHash([]byte(f.MPDs[n].Canon())))
	}
	return b.String()
}

// c19SameStatus returns the first upload whose status differs, or -1.
func c19SameStatus(a, b *c19Final, ups []c19Op) int {
	for i := range ups {
		if a.Status[i].Status != b.Status[i].Status {
			return i
		}
	}
	return -1
}

func c19FileClass(name string) string {
	base := name[strings.LastIndex(name, "/")+1:]
	switch {
	case strings.HasPrefix(base, "init_org"):
		return "init-org"
	case strings.HasPrefix(base, "init"):
		return "init"
	case strings.HasSuffix(base, ".mpd"):
		return "mpd"
	case strings.HasSuffix(base, ".tmp"):
		return "tmp"
	}
	return "media"
}

// c19SameFiles compares names and content of all non-MPD files. Result "" or "kind\x00detail".
func c19SameFiles(ref, got *c19Final) string {
	for _, n := range sortedKeys(ref.Files) {
		if strings.HasSuffix(n, ".mpd") {
			continue
		}
		g, ok := got.Files[n]
		if !ok {
			return fmt.Sprintf("file-missing-%s\x00%s is stored by the sequential run but not by this one", c19FileClass(n), n)
		}
		if g.Hash != ref.Files[n].Hash {
			return fmt.Sprintf("file-content-differs-%s\x00%s: %d bytes %s, sequential %d bytes %s", c19FileClass(n), n, g.Size, g.Hash,
				ref.Files[n].Size, ref.Files[n].Hash)
		}
	}
	for _, n := range sortedKeys(got.Files) {
		if strings.HasSuffix(n, ".mpd") {
			continue
		}
		if _, ok := ref.Files[n]; !ok {
			return fmt.Sprintf("file-extra-%s\x00%s is stored by this run but not by the sequential one", c19FileClass(n), n)
		}
	}
	return ""
}

func c19SameMPDs(ref, got *c19Final) string {
	for _, n := range sortedKeys(ref.MPDs) {
		base := n[strings.LastIndex(n, "/")+1:]
		g, ok := got.MPDs[n]
		if !ok {
			return fmt.Sprintf("mpd-missing\x00%s is published by the sequential run but not by this one", n)
		}
		if a, b := ref.MPDs[n].Canon(), g.Canon(); a != b {
			return fmt.Sprintf("mpd-differs-%s\x00%s:\n--- sequential\n%s--- this run\n%s", strings.TrimSuffix(base, ".mpd"), n, a, b)
		}
	}
	for _, n := range sortedKeys(got.MPDs) {
		if _, ok := ref.MPDs[n]; !ok {
			return fmt.Sprintf("mpd-extra\x00%s is published by this run but not by the sequential one", n)
		}
	}
	return ""
}

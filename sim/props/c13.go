package props

import (
	"fmt"
	"math/big"
	"math/bits"
	"sort"
	"strings"
	"testing"

	"verif/sim/core"
	"verif/sim/hx"
	"verif/sim/refmodel"
)

// C13 — SCTE-35 events follow the per-minute schedule, each announced exactly once (engine T).
//
// Workload: a simulated player with scte35_N walks every video segment of a contiguous range
// spanning one or more whole wall-clock minutes (each segment fetched at or after its
// availability instant through ?nowMS), fetches the audio / text segments and the MPD, and
// sends requests with invalid N. Base instants are years apart, include 33-bit PTS wraps and
// start_ settings; assets are the bundled ones plus re-cut ones (c13_assets.go) whose segment
// boundaries hit the announce instants exactly or drift against the minute.
//
// Oracle: own emsg / splice_info_section decoder (c13_decode.go); the schedule, the 7 s lead
// and the consistency relations come from the property statement. Segment intervals are the
// OBSERVED ones (tfdt and sample durations of the served segments); the reference model is
// only used to address segments.

const c13Scheme = "urn:scte:scte35:2013:bin" // SCTE 214-1: binary SCTE-35 in emsg

// documented offsets within the wall-clock minute (property statement)
var c13Offsets = map[string][]int64{"1": {10}, "2": {10, 40}, "3": {10, 36, 46}}

const c13LeadS = 7 // "the instant 7 s before the splice"

type c13World struct {
	VodRoot string `json:"vodroot"` // bundled | c13gen
	Asset   string `json:"asset"`
	MPD     string `json:"mpd"`
	Cfg     URLCfg `json:"cfg"`   // without the scte35 part
	N       string `json:"n"`     // "" = control player without the parameter
	Video   string `json:"video"` // video representation walked
}

type c13Op struct {
	K    string `json:"k"`              // seg | aux | bad
	N    int64  `json:"n,omitempty"`    // seg, bad(seg): live segment index counted from availabilityStartTime
	T    int64  `json:"t"`              // request instant (ms)
	V    string `json:"v,omitempty"`    // bad: the value after scte35_
	What string `json:"what,omitempty"` // bad: mpd | seg
}

type C13 struct{}

func init() { core.Register(C13{}) }

func (C13) ID() string     { return "C13" }
func (C13) Engine() string { return "tlsim" }

func c13Root(name string) string {
	if name == "c13gen" {
		return c13GenRoot()
	}
	return vodRootOf(name)
}

func c13VideoRep(a *refmodel.Asset, mpdName string) string {
	for _, as := range a.ASets[mpdName] {
		if as.ContentType == "video" && len(as.RepIDs) > 0 {
			return as.RepIDs[0]
		}
	}
	return ""
}

var c13BadValues = []string{"0", "4", "-1", "60", "10", "abc", "1.5", "2x", "", "99999999999999999999", "-3", "5"}

func (C13) Gen(rng *core.Rng, tier string, idx int) *core.Scenario {
	w := c13World{}
	var a *refmodel.Asset
	if rng.Chance(0.55) {
		w.VodRoot = "c13gen"
		sp := core.Pick(rng, c13GenSpecs)
		w.Asset, w.MPD = sp.Name, "Manifest.mpd"
	} else {
		w.VodRoot = "bundled"
		ar := core.Pick(rng, bundledMPDs)
		w.Asset, w.MPD = ar.Asset, ar.MPD
		if strings.HasPrefix(ar.Asset, "WAVE/vectors/cfhd_sets/14.985") && rng.Bool() {
			w.MPD = "stream_w_beeps.mpd" // with audio
		}
	}
	a = refAssets(c13Root(w.VodRoot))[w.Asset]
	if a == nil || a.Bad != "" {
		panic("harness: c13 asset " + w.Asset + " not usable")
	}
	w.Video = c13VideoRep(a, w.MPD)
	rep := a.Reps[w.Video]
	if rep == nil {
		panic("harness: c13 no video rep in " + w.Asset)
	}
	w.N = core.Pick(rng, []string{"1", "2", "3"})
	if rng.Chance(0.08) {
		w.N = ""
	}
	w.Cfg.MPDType = core.Pick(rng, []string{"number", "timeline", "timelinenr"})
	if rng.Chance(0.10) {
		w.Cfg.ChunkDur = core.Pick(rng, []string{"0.5", "0.25"})
	}
	if rng.Chance(0.15) && w.Cfg.ChunkDur == "" { // (generated subtitles are not served in low-latency mode: 404)
		// generated subtitle representations are non-video representations too
		w.Cfg.Extra = []string{core.Pick(rng, []string{"timesubsstpp_en", "timesubswvtt_en,sv"})}
	}
	minutes := rng.Range(1, 2)
	if tier == "thorough" {
		minutes = rng.Range(2, 4)
	}
	// base: m0 = wall-clock minute start (s), ast = availabilityStartTime (s)
	var m0, ast int64
	mode := rng.Intn(100)
	switch {
	case mode < 33: // epoch-anchored stream, some day between 2017 and 2030
		m0 = rng.Range64(1_500_000_000, 1_900_000_000) / 60 * 60
	case mode < 48: // epoch-anchored, PTS wraps inside the walked range
		k := uint64(rng.Range(15000, 20000))
		wrapS := int64(k * (1 << 33) / 90000)
		m0 = (wrapS - int64(rng.Range(0, 55))) / 60 * 60
	case mode < 60: // start_ a whole minute, stream just started
		ast = rng.Range64(1_500_000_000, 1_900_000_000) / 60 * 60
		m0 = ast + 60*int64(rng.Range(0, 2))
	case mode < 78: // start_ anywhere
		ast = rng.Range64(1_000_000, 1_900_000_000)
		if ast%60 == 0 {
			ast += int64(rng.Range(1, 59))
		}
		m0 = (ast+int64(rng.Range(0, 200000)))/60*60 + 60
		if rng.Chance(0.3) {
			m0 = ast / 60 * 60 // the wall-clock minute in which the stream starts
		}
	case mode < 90: // start_ set, PTS wraps (first wraps of the stream) inside the walked range
		ast = rng.Range64(1_500_000_000, 1_900_000_000)
		if rng.Bool() {
			ast = ast / 60 * 60
		}
		k := uint64(rng.Range(1, 3))
		wrapS := ast + int64(k*(1<<33)/90000)
		m0 = (wrapS - int64(rng.Range(0, 55))) / 60 * 60
	default: // far future (after 2042)
		m0 = rng.Range64(2_300_000_000, 4_000_000_000) / 60 * 60
	}
	if ast != 0 {
		w.Cfg.StartS = p64(ast)
	}
	sc := core.NewScenario("C13", "tlsim", 0, tier, w)
	ts := int64(rep.Timescale)
	loS := m0 - ast - 12
	if loS < 0 {
		loS = 0
	}
	hiS := m0 - ast + 60*int64(minutes) + 3
	n0 := a.IndexContaining(rep, uint64(loS*ts))
	n1 := a.IndexContaining(rep, uint64(hiS*ts))
	var ops []c13Op
	for n := n0; n <= n1; n++ {
		ls := a.Live(rep, n)
		t := availMS(ast, ls.End, rep.Timescale, 0)
		if w.Cfg.ChunkDur != "" {
			// low-latency responses are paced with real sleeps while the nominal end of the last chunk
			// is in the future; stay clear of that (the pacing is C09's subject)
			t += 11000
		}
		switch rng.Intn(10) {
		case 0:
			// exactly at the availability instant
		case 1:
			t += int64(rng.Range(3000, 25000))
		default:
			t += int64(rng.Range(0, 3000))
		}
		ops = append(ops, c13Op{K: "seg", N: n, T: t})
	}
	// MPD + non-video segments: once at the beginning, then at the end of every minute
	auxAt := []int64{(m0 - 5) * 1000}
	for j := 1; j <= minutes; j++ {
		auxAt = append(auxAt, (m0+60*int64(j))*1000-int64(rng.Range(0, 1500)))
	}
	for _, t := range auxAt {
		if t < ast*1000 {
			t = ast*1000 + int64(rng.Range(0, 20000))
		}
		ops = append(ops, c13Op{K: "aux", T: t})
	}
	for i, nb := 0, rng.Range(1, 3); i < nb; i++ {
		op := c13Op{K: "bad", V: core.Pick(rng, c13BadValues), What: core.Pick(rng, []string{"mpd", "seg"})}
		op.N = rng.Range64(n0, n1)
		op.T = availMS(ast, a.Live(rep, op.N).End, rep.Timescale, 0) + int64(rng.Range(0, 5000))
		ops = append(ops, op)
	}
	sort.SliceStable(ops, func(i, j int) bool { return ops[i].T < ops[j].T })
	for _, op := range ops {
		sc.AddOp(op)
	}
	return sc
}

// ---------------------------------------------------------------------------------------

type c13Event struct {
	E        *c13Emsg
	S        *c13Splice
	PTAbs    uint64 // absolute presentation time in E.Timescale units
	Key      string // identity of the event: its splice instant as a reduced fraction of seconds
	OnSched  bool
	CarrierN int64
}

type c13Obs struct {
	N          int64
	Start, End uint64 // observed media interval, rep timescale
	TS         uint64
	Events     []*c13Event
}

type c13Run struct {
	res    *core.Result
	srv    *hx.Srv
	a      *refmodel.Asset
	rep    *refmodel.Rep
	w      c13World
	feat   map[string]string
	ast    int64
	prefix string // with scte35 (or without for the control player)
	plain  string // without scte35
	tpl    *ClientAS
	tplBad bool
	in     *hx.Init
	obs    map[int64]*c13Obs
	nsig   string
}

func c13StartClass(ast int64) string {
	switch {
	case ast == 0:
		return "0"
	case ast%60 == 0:
		return "minute-multiple"
	}
	return "not-minute-multiple"
}

// mulCmp compares a*b with c*d without overflow.
func mulCmp(a, b, c, d uint64) int {
	h1, l1 := bits.Mul64(a, b)
	h2, l2 := bits.Mul64(c, d)
	switch {
	case h1 < h2:
		return -1
	case h1 > h2:
		return 1
	case l1 < l2:
		return -1
	case l1 > l2:
		return 1
	}
	return 0
}

func gcd64(a, b uint64) uint64 {
	for b != 0 {
		a, b = b, a%b
	}
	return a
}

func (C13) Run(t *testing.T, sc *core.Scenario, res *core.Result) {
	w, err := core.DecodeWorld[c13World](sc)
	if err != nil {
		panic(err)
	}
	ops, err := core.DecodeOps[c13Op](sc)
	if err != nil {
		panic(err)
	}
	root := c13Root(w.VodRoot)
	a := refAssets(root)[w.Asset]
	if a == nil {
		panic("harness: unknown asset " + w.Asset)
	}
	rep := a.Reps[w.Video]
	if rep == nil {
		panic("harness: unknown video rep " + w.Video)
	}
	r := &c13Run{res: res, srv: sharedSrv(root), a: a, rep: rep, w: w, ast: w.Cfg.AST(), obs: map[int64]*c13Obs{}}
	cfg := w.Cfg
	r.plain = cfg.Prefix(w.Asset)
	if w.N != "" {
		cfg.Extra = append(append([]string(nil), cfg.Extra...), "scte35_"+w.N)
	}
	r.prefix = cfg.Prefix(w.Asset)
	// Signature = the features that can plausibly separate causes here (DESIGN Appendix A): start class
	// and low-latency mode, plus per-invariant features added at the report site. MPD type, asset
	// and N go into the detail text (N is added to the signature where the schedule table matters).
	r.feat = core.Sig("start", c13StartClass(r.ast))
	r.nsig = w.N
	if w.N == "" {
		r.nsig = "none"
		res.Count("probe.control-player")
	}
	if w.Cfg.ChunkDur != "" {
		r.feat["chunked"] = "true"
		res.Count("probe.chunked")
	}
	res.Count("probe.mpdtype." + map[string]string{"": "number"}[w.Cfg.MPDType] + w.Cfg.MPDType)
	res.Count("probe.N." + r.nsig)
	if 60000%a.LoopDurMS != 0 {
		res.Count("probe.segment-grid-drifts-against-minute")
	}
	if r.ast != 0 {
		res.Count("probe.start-nonzero")
	}
	var lo, hi int64
	for i, op := range ops {
		if i == 0 || op.T < lo {
			lo = op.T
		}
		if i == 0 || op.T > hi {
			hi = op.T
		}
		switch op.K {
		case "seg":
			r.doSeg(op)
		case "aux":
			r.doAux(op)
		case "bad":
			r.doBad(op)
		}
	}
	r.evaluate()
	res.SimMS += hi - lo
	res.Nontrivial = res.Stats["probe.video-seg-checked"] >= 2 && (res.Stats["probe.event-evaluated"] > 0 || w.N == "")
}

// template fetches the live MPD once and extracts the video addressing scheme.
func (r *c13Run) template(now int64) *ClientAS {
	if r.tpl != nil || r.tplBad {
		return r.tpl
	}
	resp := r.srv.GetAt(r.prefix+"/"+r.w.MPD, now)
	r.res.Count("op.mpd")
	r.res.Event("tplmpd t=%d status=%d %s", now, resp.Status, hx.ShortHash(resp.Body))
	if resp.Status != 200 {
		r.tplBad = true
		r.mpdNotServed(resp, now)
		return nil
	}
	cm, err := ParseClientMPD(resp.Body)
	if err != nil || len(cm.Periods) != 1 {
		r.tplBad = true
		r.res.Violate("C13.mpd-served", merge(r.feat, core.Sig("kind", "mpd-unparsable")), "MPD at %d: %v", now, err)
		return nil
	}
	for i := range cm.Periods[0].Sets {
		ca := cm.Periods[0].Sets[i]
		if ca.RepID == r.w.Video {
			r.tpl = &ca
			break
		}
	}
	if r.tpl == nil {
		r.tplBad = true
		r.res.Violate("C13.mpd-served", merge(r.feat, core.Sig("kind", "video-rep-missing")), "MPD at %d lacks %s", now, r.w.Video)
	}
	return r.tpl
}

// mpdNotServed: an MPD that fails only with the scte35 parameter is ours; otherwise skip.
func (r *c13Run) mpdNotServed(resp *hx.Resp, now int64) {
	if resp.Panic != "" {
		r.res.Violate("C13.mpd-served", merge(r.feat, core.Sig("kind", "panic", "frame", resp.PanicFrame)), "MPD at %d: panic %s", now, resp.Panic)
		return
	}
	if r.w.N != "" {
		ctl := r.srv.GetAt(r.plain+"/"+r.w.MPD, now)
		r.res.Event("ctlmpd t=%d status=%d", now, ctl.Status)
		if ctl.Status == 200 {
			r.res.Violate("C13.mpd-served", merge(r.feat, core.Sig("kind", "mpd-fails-only-with-scte35", "status", fmt.Sprint(resp.Status))),
				"MPD at %d: %d with scte35_%s but 200 without: %q", now, resp.Status, r.w.N, trunc(string(resp.Body), 120))
			return
		}
	}
	r.res.Count("probe.mpd-unavailable-anyway")
}

func (r *c13Run) segURL(tpl *ClientAS, n int64) string {
	ls := r.a.Live(r.rep, n)
	// $Number$ of live segment n: startNumber of the @duration template; with a SegmentTimeline the
	// MPD's startNumber names the first LISTED segment, numbering itself starts at the snr_ value (0)
	base := tpl.StartNumber
	if tpl.Timeline {
		base = r.w.Cfg.StartNr()
	}
	return fillTemplate(tpl.Media, tpl.RepID, base+n, ls.Start+tpl.PTO)
}

func (r *c13Run) doSeg(op c13Op) {
	res := r.res
	if op.N < 0 {
		res.Count("op.skipped")
		return
	}
	ls := r.a.Live(r.rep, op.N)
	if op.T < availMS(r.ast, ls.End, r.rep.Timescale, 0) {
		res.Count("op.skipped")
		return
	}
	tpl := r.template(op.T)
	if tpl == nil {
		res.Count("op.skipped")
		return
	}
	if r.in == nil {
		ir := r.srv.GetAt(r.prefix+"/"+fillTemplate(tpl.Init, tpl.RepID, 0, 0), op.T)
		res.Count("op.init")
		if ir.Status == 200 {
			if in, err := hx.ParseInit(ir.Body); err == nil {
				r.in = in
			}
		}
		if r.in == nil {
			res.Count("probe.init-unavailable")
			return
		}
	}
	u := r.segURL(tpl, op.N)
	resp := r.srv.GetAt(r.prefix+"/"+u, op.T)
	res.Count("op.segment")
	res.Event("seg n=%d t=%d %s -> %d %s", op.N, op.T, u, resp.Status, hx.ShortHash(resp.Body))
	if resp.Panic != "" {
		res.Violate("C13.segment-served", merge(r.feat, core.Sig("kind", "panic", "frame", resp.PanicFrame)), "%s at %d: panic %s", u, op.T, resp.Panic)
		return
	}
	if resp.Status != 200 {
		if r.w.N != "" {
			ctl := r.srv.GetAt(r.plain+"/"+u, op.T)
			res.Event("ctlseg n=%d -> %d", op.N, ctl.Status)
			if ctl.Status == 200 {
				res.Violate("C13.segment-served", merge(r.feat, core.Sig("kind", "segment-fails-only-with-scte35", "status", fmt.Sprint(resp.Status))),
					"%s at %d: %d with scte35_%s but 200 without: %q", u, op.T, resp.Status, r.w.N, trunc(string(resp.Body), 120))
				return
			}
		}
		res.Count("probe.video-seg-unavailable-anyway")
		return
	}
	sg, err := hx.ParseSeg(resp.Body, r.in.Trex)
	if err != nil {
		res.Violate("C13.segment-served", merge(r.feat, core.Sig("kind", "segment-unparsable")), "%s: %v", u, err)
		return
	}
	raw, order, err := c13TopEmsgs(resp.Body)
	if err != nil {
		res.Violate("C13.segment-served", merge(r.feat, core.Sig("kind", "segment-unparsable")), "%s: %v", u, err)
		return
	}
	nLib := 0
	for _, f := range sg.Frags {
		nLib += f.NrEmsg
	}
	if nLib != len(raw) {
		res.Violate("C13.emsg-wellformed", merge(r.feat, core.Sig("kind", "emsg-count-disagrees")),
			"%s: %d top-level emsg boxes, box decoder sees %d (boxes %v)", u, len(raw), nLib, order)
	}
	res.Count("probe.video-seg-checked")
	o := &c13Obs{N: op.N, Start: sg.Tfdt(), End: sg.Tfdt() + sg.Dur, TS: uint64(r.in.Timescale)}
	if o.Start != ls.Start || o.End != ls.End {
		res.Count("probe.observed-interval-differs-from-model")
	}
	if len(sg.Frags) > 1 {
		res.Count("probe.multi-fragment-segment")
	}
	// emsg must precede the first moof to be usable
	firstMoof := -1
	for i, b := range order {
		if b == "moof" {
			firstMoof = i
			break
		}
	}
	for i, b := range order {
		if b == "emsg" && firstMoof >= 0 && i > firstMoof {
			res.Count("probe.emsg-after-first-moof")
		}
	}
	for _, p := range raw {
		ev := r.decodeEvent(p, o, u, "video")
		if ev != nil {
			o.Events = append(o.Events, ev)
		}
	}
	if prev, ok := r.obs[op.N]; ok {
		// the same segment fetched twice (not generated, but harmless): must agree
		if len(prev.Events) != len(o.Events) {
			res.Violate("C13.exactly-once", merge(r.feat, core.Sig("kind", "refetch-differs")), "segment %d: %d then %d events", op.N, len(prev.Events), len(o.Events))
		}
		return
	}
	r.obs[op.N] = o
}

// decodeEvent decodes one emsg; returns nil unless it is a SCTE-35 event. Checks invariant (4).
func (r *c13Run) decodeEvent(p []byte, o *c13Obs, u, content string) *c13Event {
	res := r.res
	f := core.Sig("content", content) // consistency of one event does not depend on the URL configuration
	e, err := c13ParseEmsg(p)
	if err != nil {
		res.Violate("C13.emsg-wellformed", merge(f, core.Sig("kind", "emsg-undecodable")), "%s: %v", u, err)
		return nil
	}
	if e.Scheme != c13Scheme {
		res.Count("probe.other-scheme-emsg")
		return nil
	}
	res.Count("probe.scte35-emsg")
	ev := &c13Event{E: e, CarrierN: o.N}
	if e.Timescale == 0 {
		res.Violate("C13.emsg-wellformed", merge(f, core.Sig("kind", "emsg-timescale-zero")), "%s: emsg timescale 0", u)
		return nil
	}
	ev.PTAbs = e.PresTime
	if e.Delta {
		ev.PTAbs = e.PresTime + o.Start*uint64(e.Timescale)/o.TS
		res.Count("probe.emsg-v0")
	}
	g := gcd64(ev.PTAbs, uint64(e.Timescale))
	if g == 0 {
		g = 1
	}
	ev.Key = fmt.Sprintf("%d/%d", ev.PTAbs/g, uint64(e.Timescale)/g)
	if content != "video" {
		return ev
	}
	s, err := c13ParseSplice(e.Data)
	if err != nil {
		res.Violate("C13.section-wellformed", merge(f, core.Sig("kind", "section-undecodable")), "%s: %v (data %x)", u, err, e.Data)
		return ev
	}
	ev.S = s
	bad := func(kind, format string, args ...any) {
		res.Violate("C13.event-consistent", merge(f, core.Sig("kind", kind)), "%s event %s: "+format, append([]any{u, ev.Key}, args...)...)
	}
	if s.CRCStored != s.CRCComputed {
		bad("crc-invalid", "CRC_32 %08x, computed %08x over %d bytes", s.CRCStored, s.CRCComputed, len(e.Data)-4)
	}
	if s.TableID != 0xFC {
		bad("table-id", "table_id %#x", s.TableID)
	}
	if s.CmdType != 5 {
		bad("not-splice-insert", "splice_command_type %d", s.CmdType)
		return ev
	}
	if s.CmdLength != 0xFFF && s.CmdLength != s.CmdBytesParsed {
		bad("command-length", "splice_command_length %d, splice_insert occupies %d bytes", s.CmdLength, s.CmdBytesParsed)
	}
	if s.Encrypted {
		bad("encrypted", "encrypted_packet set")
	}
	if s.Cancel || !s.ProgramSplice || s.Immediate || !s.TimeSpecified {
		bad("no-splice-time", "cancel=%v program_splice=%v immediate=%v time_specified=%v", s.Cancel, s.ProgramSplice, s.Immediate, s.TimeSpecified)
		return ev
	}
	if !s.OutOfNetwork {
		bad("not-out-of-network", "out_of_network_indicator 0 on a break start")
	}
	// pts_time (+ pts_adjustment) == presentation time in 90 kHz ticks modulo 2^33
	pt90 := new(big.Int).Mul(new(big.Int).SetUint64(ev.PTAbs), big.NewInt(90000))
	overflow := "no"
	if pt90.BitLen() > 64 {
		overflow = "yes"
		res.Count("probe.pt90k-exceeds-64bit")
	}
	q, rem := new(big.Int).QuoRem(pt90, new(big.Int).SetUint64(uint64(e.Timescale)), new(big.Int))
	if q.BitLen() > 33 {
		res.Count("probe.pts-beyond-33bit")
	}
	want := new(big.Int).And(q, big.NewInt(1<<33-1)).Uint64()
	mask := uint64(1<<33 - 1)
	near := func(got uint64) bool {
		diff := (got - want) & mask
		return diff == 0 || (rem.Sign() != 0 && diff == 1)
	}
	effective := (s.PtsTime + s.PtsAdjust) & mask // SCTE 35: pts_adjustment is added to pts_time
	switch {
	case near(effective):
	case near(s.PtsTime & mask):
		// the pts_time field alone matches, but the section says "add pts_adjustment"
		res.Violate("C13.event-consistent", merge(f, core.Sig("kind", "pts-adjustment-moves-splice-time")),
			"%s event %s: emsg presentation time %d/%d = %d (90 kHz, mod 2^33); section pts_time %d but pts_adjustment %d, i.e. effective splice time %d",
			u, ev.Key, ev.PTAbs, e.Timescale, want, s.PtsTime, s.PtsAdjust, effective)
	default:
		res.Violate("C13.event-consistent", merge(f, core.Sig("kind", "pts-time-mismatch", "pt90k-exceeds-64bit", overflow)),
			"%s event %s: emsg presentation time %d/%d = %s ticks of 90 kHz, mod 2^33 = %d; section pts_time %d (pts_adjustment %d)",
			u, ev.Key, ev.PTAbs, e.Timescale, q.String(), want, s.PtsTime, s.PtsAdjust)
	}
	if !s.DurationFlag {
		if e.Duration != 0 && e.Duration != 0xFFFFFFFF {
			bad("duration-mismatch", "emsg duration %d but no break_duration", e.Duration)
		}
	} else {
		d90 := new(big.Int).Mul(big.NewInt(int64(e.Duration)), big.NewInt(90000))
		dq, drem := new(big.Int).QuoRem(d90, big.NewInt(int64(e.Timescale)), new(big.Int))
		dd := new(big.Int).Sub(new(big.Int).SetUint64(s.BreakDuration), dq)
		if !(dd.Sign() == 0 || (drem.Sign() != 0 && dd.Cmp(big.NewInt(1)) == 0)) {
			bad("duration-mismatch", "emsg duration %d/%d = %s ticks, break_duration %d", e.Duration, e.Timescale, dq.String(), s.BreakDuration)
		}
		if e.Duration == 0 {
			bad("duration-zero", "zero duration")
		}
	}
	if s.EventID != e.ID {
		bad("id-mismatch", "emsg id %d, splice_event_id %d", e.ID, s.EventID)
	}
	return ev
}

// doAux: MPD signalling (5) and absence of events in non-video representations (3).
func (r *c13Run) doAux(op c13Op) {
	res := r.res
	if op.T < r.ast*1000 {
		res.Count("op.skipped")
		return
	}
	resp := r.srv.GetAt(r.prefix+"/"+r.w.MPD, op.T)
	res.Count("op.mpd")
	res.Event("mpd t=%d status=%d %s", op.T, resp.Status, hx.ShortHash(resp.Body))
	if resp.Status != 200 {
		r.mpdNotServed(resp, op.T)
		return
	}
	cm, err := ParseClientMPD(resp.Body)
	if err != nil {
		res.Violate("C13.mpd-served", merge(r.feat, core.Sig("kind", "mpd-unparsable")), "MPD at %d: %v", op.T, err)
		return
	}
	res.Count("probe.mpd-checked")
	for _, p := range cm.M.Periods {
		for _, as := range p.AdaptationSets {
			ct := string(as.ContentType)
			n := 0
			for _, ies := range as.InbandEventStreams {
				if ies.SchemeIdUri == c13Scheme {
					n++
				}
			}
			for _, rp := range as.Representations {
				for _, ies := range rp.InbandEventStreams {
					if ies.SchemeIdUri == c13Scheme {
						n++
					}
				}
			}
			f := core.Sig("content", ct)
			switch {
			case ct == "video" && r.w.N != "" && n == 0:
				res.Violate("C13.mpd-signalling", merge(f, core.Sig("kind", "inband-stream-missing")), "MPD at %d: video AdaptationSet lacks InbandEventStream %s", op.T, c13Scheme)
			case ct == "video" && r.w.N != "" && n > 1:
				res.Violate("C13.mpd-signalling", merge(f, core.Sig("kind", "inband-stream-duplicated")), "MPD at %d: %d InbandEventStream elements", op.T, n)
			case ct == "video" && r.w.N == "" && n > 0:
				res.Violate("C13.mpd-signalling", merge(f, core.Sig("kind", "inband-stream-without-parameter")), "MPD at %d: InbandEventStream without scte35_", op.T)
			case ct != "video" && n > 0:
				res.Violate("C13.mpd-signalling", merge(f, core.Sig("kind", "inband-stream-on-non-video")), "MPD at %d: %s AdaptationSet announces %s", op.T, ct, c13Scheme)
			}
		}
	}
	if len(cm.Periods) != 1 {
		return
	}
	ref := r.a.Ref()
	rel := op.T - r.ast*1000
	for _, ca := range cm.Periods[0].Sets {
		if ca.ContentType == "video" || ca.ContentType == "image" {
			continue
		}
		// candidate segments of the window as (url, [start,end] in seconds relative to AST)
		type auxSeg struct {
			url          string
			startS, endS float64
		}
		var all []auxSeg
		if ca.Timeline {
			for _, ds := range ca.Segs {
				all = append(all, auxSeg{ds.URL, float64(ds.T) / float64(ca.Timescale), float64(ds.T+ds.D) / float64(ca.Timescale)})
			}
		} else {
			edge := r.a.LastEndedBy(ref, rel)
			for k := edge; k >= 0 && len(all) < 70; k-- {
				ls := r.a.Live(ref, k)
				if int64(ls.End)*1000 < (rel-55000)*int64(ref.Timescale) {
					break
				}
				all = append(all, auxSeg{fillTemplate(ca.Media, ca.RepID, ca.StartNumber+k, 0),
					float64(ls.Start) / float64(ref.Timescale), float64(ls.End) / float64(ref.Timescale)})
			}
		}
		// fetch the segments around the announce instants of the wall-clock schedule and a third of the rest
		var urls []string
		for i, sgm := range all {
			take := i%3 == 0
			for _, off := range []int64{10, 36, 40, 46} {
				// announce instant within the wall-clock minute, as media seconds modulo 60
				am := float64(((off-c13LeadS-r.ast)%60 + 60) % 60)
				lo, hi := sgm.startS-1.5, sgm.endS+1.5
				base := float64(int64(lo)/60*60) + am
				for _, x := range []float64{base - 60, base, base + 60} {
					if lo <= x && x <= hi {
						take = true
					}
				}
			}
			if take {
				urls = append(urls, sgm.url)
			}
		}
		kind := contentKind(ca)
		for _, u := range urls {
			sr := r.srv.GetAt(r.prefix+"/"+u, op.T)
			res.Count("op.aux-segment")
			res.Event("aux %s t=%d -> %d %s", u, op.T, sr.Status, hx.ShortHash(sr.Body))
			if sr.Panic != "" {
				res.Violate("C13.segment-served", merge(r.feat, core.Sig("kind", "panic", "frame", sr.PanicFrame, "content", kind)), "%s at %d: panic %s", u, op.T, sr.Panic)
				continue
			}
			if sr.Status != 200 {
				res.Count("probe.aux-seg-unavailable")
				res.Count(fmt.Sprintf("probe.aux-seg-unavailable.%d", sr.Status))
				continue
			}
			raw, _, err := c13TopEmsgs(sr.Body)
			if err != nil {
				res.Count("probe.aux-seg-unparsable")
				continue
			}
			res.Count("probe.nonvideo-seg-checked")
			res.Count("probe.nonvideo-seg-checked." + kind)
			for _, p := range raw {
				ev := r.decodeEvent(p, &c13Obs{N: -1, TS: 1}, u, kind)
				if ev != nil {
					res.Violate("C13.video-only", merge(r.feat, core.Sig("kind", "event-in-non-video", "content", kind)),
						"%s at %d carries SCTE-35 event %s (id %d)", u, op.T, ev.Key, ev.E.ID)
				}
			}
		}
	}
}

// doBad: scte35_<invalid> must be rejected with a 4xx and a message, without panic.
func (r *c13Run) doBad(op c13Op) {
	res := r.res
	cfg := r.w.Cfg
	cfg.Extra = append(append([]string(nil), cfg.Extra...), "scte35_"+op.V)
	prefix := cfg.Prefix(r.w.Asset)
	var u string
	if op.What == "seg" {
		tpl := r.template(op.T)
		if tpl == nil || op.N < 0 {
			res.Count("op.skipped")
			return
		}
		u = r.segURL(tpl, op.N)
	} else {
		u = r.w.MPD
	}
	if op.T < r.ast*1000 {
		res.Count("op.skipped")
		return
	}
	resp := r.srv.GetAt(prefix+"/"+u, op.T)
	res.Count("op.bad-n")
	res.Event("bad v=%q %s t=%d -> %d %s", op.V, op.What, op.T, resp.Status, hx.ShortHash(resp.Body))
	vclass := "out-of-range"
	if _, err := fmt.Sscanf(op.V, "%d", new(int)); err != nil || strings.ContainsAny(op.V, ".x") {
		vclass = "non-numeric"
	}
	if len(op.V) > 18 {
		vclass = "huge"
	}
	f := core.Sig("what", op.What, "value", vclass)
	switch {
	case resp.Panic != "":
		res.Violate("C13.invalid-n-rejected", merge(f, core.Sig("kind", "panic", "frame", resp.PanicFrame)), "scte35_%s %s: panic %s", op.V, op.What, resp.Panic)
	case resp.Status < 400 || resp.Status > 499:
		res.Violate("C13.invalid-n-rejected", merge(f, core.Sig("kind", "not-4xx", "status", fmt.Sprint(resp.Status))), "scte35_%s %s at %d: status %d", op.V, op.What, op.T, resp.Status)
	case len(strings.TrimSpace(string(resp.Body))) == 0:
		res.Violate("C13.invalid-n-rejected", merge(f, core.Sig("kind", "no-message")), "scte35_%s %s: %d with empty body", op.V, op.What, resp.Status)
	default:
		res.Count("probe.bad-n-rejected")
	}
}

// evaluate: the sequence invariants (1) and (2) over what was fetched.
func (r *c13Run) evaluate() {
	res := r.res
	if len(r.obs) == 0 {
		return
	}
	ns := make([]int64, 0, len(r.obs))
	for n := range r.obs {
		ns = append(ns, n)
	}
	sort.Slice(ns, func(i, j int) bool { return ns[i] < ns[j] })
	offsets := c13Offsets[r.w.N]
	ast := uint64(r.ast)

	// per event: schedule membership, carrier interval, uniqueness
	carriers := map[string][]*c13Obs{}
	firstEv := map[string]*c13Event{}
	var keys []string
	ids := map[uint32]string{}
	var lastPts uint64
	havePts := false
	for _, n := range ns {
		o := r.obs[n]
		if len(o.Events) > 1 {
			res.Violate("C13.exactly-once", merge(r.feat, core.Sig("kind", "several-events-in-one-segment")), "segment %d carries %d events", n, len(o.Events))
		}
		for _, ev := range o.Events {
			ets := uint64(ev.E.Timescale)
			if r.w.N == "" {
				res.Violate("C13.schedule", merge(r.feat, core.Sig("kind", "event-without-parameter")), "segment %d carries event %s although scte35_ is not set", n, ev.Key)
				continue
			}
			if _, ok := carriers[ev.Key]; !ok {
				keys = append(keys, ev.Key)
				firstEv[ev.Key] = ev
			}
			carriers[ev.Key] = append(carriers[ev.Key], o)
			// (1a) splice instant on the documented schedule (wall clock = AST + media time)
			wallNum := ast*ets + ev.PTAbs
			offNum := wallNum % (60 * ets)
			ev.OnSched = false
			for _, off := range offsets {
				if offNum == uint64(off)*ets {
					ev.OnSched = true
				}
			}
			if !ev.OnSched {
				res.Violate("C13.schedule", merge(r.feat, core.Sig("kind", "unscheduled-event", "N", r.nsig)),
					"segment %d [%d,%d)/%d: event at media time %d/%d s = wall-clock offset %.3f s in the minute (AST %d); documented offsets for N=%s are %v",
					n, o.Start, o.End, o.TS, ev.PTAbs, ets, float64(offNum)/float64(ets), r.ast, r.w.N, offsets)
			}
			// (2) carrier contains the instant 7 s before the splice (closed interval: boundary tolerance)
			lead := uint64(c13LeadS) * ets
			inside := ev.PTAbs >= lead && mulCmp(o.Start, ets, ev.PTAbs-lead, o.TS) <= 0 && mulCmp(ev.PTAbs-lead, o.TS, o.End, ets) <= 0
			if !inside {
				d := "late"
				if ev.PTAbs >= lead && mulCmp(ev.PTAbs-lead, o.TS, o.End, ets) > 0 {
					d = "early"
				}
				res.Violate("C13.carrier", merge(r.feat, core.Sig("kind", "wrong-carrier", "dir", d)),
					"segment %d [%d,%d)/%d carries event with splice at %d/%d; the instant 7 s before is %.3f s, segment is [%.3f,%.3f) s",
					n, o.Start, o.End, o.TS, ev.PTAbs, ets, float64(ev.PTAbs)/float64(ets)-7, float64(o.Start)/float64(o.TS), float64(o.End)/float64(o.TS))
			}
			// ids identify events
			if k, ok := ids[ev.E.ID]; ok && k != ev.Key {
				res.Violate("C13.event-consistent", merge(r.feat, core.Sig("kind", "id-reused")), "id %d used for events %s and %s", ev.E.ID, k, ev.Key)
			}
			ids[ev.E.ID] = ev.Key
			if ev.S != nil {
				if havePts && ev.S.PtsTime < lastPts {
					res.Count("probe.pts-wrap-crossed")
				}
				lastPts, havePts = ev.S.PtsTime, true
			}
		}
	}
	for _, k := range keys {
		cs := carriers[k]
		if len(cs) > 1 {
			ev := firstEv[k]
			ets := uint64(ev.E.Timescale)
			onB := "no"
			lead := uint64(c13LeadS) * ets
			if ev.PTAbs >= lead {
				for _, o := range cs {
					if mulCmp(o.Start, ets, ev.PTAbs-lead, o.TS) == 0 || mulCmp(o.End, ets, ev.PTAbs-lead, o.TS) == 0 {
						onB = "yes"
					}
				}
			}
			var nn []int64
			for _, o := range cs {
				nn = append(nn, o.N)
			}
			res.Violate("C13.exactly-once", merge(r.feat, core.Sig("kind", "announced-more-than-once", "announce-on-boundary", onB)),
				"event with splice at %s s is carried by segments %v", k, nn)
		}
	}
	if r.w.N == "" {
		return
	}

	// contiguous runs (consecutive indices whose observed intervals abut)
	var runs [][]*c13Obs
	for i, n := range ns {
		o := r.obs[n]
		if i > 0 && ns[i-1] == n-1 && r.obs[n-1].End == o.Start {
			runs[len(runs)-1] = append(runs[len(runs)-1], o)
		} else {
			if i > 0 && ns[i-1] == n-1 {
				res.Count("probe.gap-between-consecutive-segments")
			}
			runs = append(runs, []*c13Obs{o})
		}
	}
	for _, run := range runs {
		first, last := run[0], run[len(run)-1]
		ts := first.TS
		if r.a.Live(r.rep, first.N).Wrap != r.a.Live(r.rep, last.N).Wrap {
			res.Count("probe.loop-wrap-crossed")
		}
		// wall-clock seconds covered: [AST + first.Start/ts, AST + last.End/ts)
		wallLo := r.ast + int64(first.Start/ts)
		wallHi := r.ast + int64(last.End/ts) + 1
		for m := wallLo / 60 * 60; m <= wallHi; m += 60 {
			evaluated := 0
			for _, off := range offsets {
				s := m + off        // splice, wall-clock seconds
				am := s - 7 - r.ast // announce instant, media seconds
				if am < 0 {
					res.Count("probe.announce-before-stream-start")
					continue
				}
				at := uint64(am) * ts
				// all segments whose closed interval contains the announce instant are in the run?
				if !(first.Start < at && last.End > at) {
					continue
				}
				var cands []*c13Obs
				for _, o := range run {
					if o.Start <= at && at <= o.End {
						cands = append(cands, o)
					}
				}
				if len(cands) == 0 {
					panic("harness: c13 no candidate in a covering run")
				}
				evaluated++
				res.Count("probe.event-evaluated")
				onB := "no"
				if len(cands) > 1 {
					onB = "yes"
					res.Count("probe.announce-on-boundary")
				}
				spans := "no"
				if int64(cands[0].Start) < (m-r.ast)*int64(ts) {
					spans = "yes"
					res.Count("probe.carrier-spans-minute-boundary")
				}
				// is the event announced anywhere in what was fetched?
				sm := uint64(s - r.ast) // splice, media seconds
				found := 0
				for _, k := range keys {
					ev := firstEv[k]
					if ev.PTAbs == sm*uint64(ev.E.Timescale) {
						found += len(carriers[k])
					}
				}
				if found == 0 {
					res.Violate("C13.schedule", merge(r.feat, core.Sig("kind", "event-never-announced", "announce-on-boundary", onB, "carrier-spans-minute-boundary", spans)),
						"N=%s: no fetched video segment carries the event at wall-clock %d (minute %d + %d s, media %d s); the instant 7 s before lies in segment %d [%.3f,%.3f) s which was fetched (run %d..%d)",
						r.w.N, s, m, off, sm, cands[0].N, float64(cands[0].Start)/float64(ts), float64(cands[0].End)/float64(ts), first.N, last.N)
				} else {
					res.Count("probe.event-found")
				}
			}
			if evaluated == len(offsets) && r.ast+int64(first.Start/ts) <= m && int64(last.End/ts)+r.ast >= m+60 {
				res.Count("probe.whole-minute-evaluated")
			}
		}
	}
}

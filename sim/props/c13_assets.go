package props

import (
	"bytes"
	"fmt"
	"os"
	"path/filepath"
	"sort"
	"strings"
	"sync"

	"github.com/Eyevinn/mp4ff/bits"
	"github.com/Eyevinn/mp4ff/mp4"

	"verif/sim/hx"
)

// Generated VoD assets for C13: the bundled video tracks re-cut into other segment durations
// (1 s, 1.5 s, 3 s, 5 s, 7 s, 9 s, 10 s, irregular), so that segment boundaries fall exactly on / off
// the SCTE-35 announce instants and drift against the wall-clock minute.
//
// The assets are a deterministic function of the bundled files. They are written once into a
// fixed directory below os.TempDir() (built in a private directory and renamed into place, so
// concurrent worker processes never observe a half-written root).

const c13GenVersion = "v4"

// c13GenSpec describes one generated asset: the source video track and the cut.
type c13GenSpec struct {
	Name     string
	Src      string // bundled asset (V300 video track, 30 fps)
	Frames   []int  // samples per output segment
	Audio    bool   // copy the source audio track unchanged (livesim2 re-cuts audio on the video grid)
	TimeURI  bool   // $Time$ + SegmentTimeline instead of $Number$ + @duration
	Comments string
}

var c13GenSpecs = []c13GenSpec{
	{Name: "c13_1s", Src: "testpic_2s", Frames: []int{30, 30, 30, 30, 30, 30, 30, 30}, Audio: true},
	// (no audio with the testpic_6s cuts: its audio loop is 512 samples longer than the video loop and
	// livesim2's audio re-segmentation answers 500 "audioLeft ... != audioInEndAfterWrap 0" for some
	// segments when several video segments share one audio segment -- C03's subject, not ours)
	{Name: "c13_1500ms", Src: "testpic_6s", Frames: []int{45, 45, 45, 45, 45, 45, 45, 45}},
	{Name: "c13_3s", Src: "testpic_6s", Frames: []int{90, 90, 90, 90}},
	{Name: "c13_4s", Src: "testpic_2s", Frames: []int{120, 120}, Audio: true},
	{Name: "c13_5s", Src: "testpic_6s", Frames: []int{150, 150}},
	{Name: "c13_7s", Src: "testpic_8s", Frames: []int{210}},
	{Name: "c13_9s", Src: "testpic_6s", Frames: []int{270}},
	{Name: "c13_10s", Src: "testpic_6s", Frames: []int{300}},
	{Name: "c13_irr", Src: "testpic_6s", Frames: []int{75, 105, 30, 150}, TimeURI: true},
	{Name: "c13_irrhalf", Src: "testpic_6s", Frames: []int{105, 60, 120, 75}, TimeURI: true}, // boundaries at 3.5, 5.5, 9.5 s: between the 7 s and the 6 s / 8 s lead instants
	{Name: "c13_irr7", Src: "testpic_6s", Frames: []int{90, 120}, TimeURI: true},             // 3 s + 4 s, loop 7 s
}

var (
	c13GenOnce sync.Once
	c13GenDir  string
)

// c13GenRoot returns the VoD root with the generated assets, creating it if needed.
func c13GenRoot() string {
	c13GenOnce.Do(func() {
		final := filepath.Join(os.TempDir(), "verif-c13-vod-"+c13GenVersion)
		if _, err := os.Stat(filepath.Join(final, ".complete")); err == nil {
			c13GenDir = final
			return
		}
		tmp, err := os.MkdirTemp(os.TempDir(), "verif-c13-vod-build-")
		if err != nil {
			panic(fmt.Sprintf("harness: c13 assets: %v", err))
		}
		for _, sp := range c13GenSpecs {
			if err := c13WriteAsset(tmp, sp); err != nil {
				_ = os.RemoveAll(tmp)
				panic(fmt.Sprintf("harness: c13 asset %s: %v", sp.Name, err))
			}
		}
		if err := os.WriteFile(filepath.Join(tmp, ".complete"), []byte(c13GenVersion), 0o644); err != nil {
			panic(fmt.Sprintf("harness: c13 assets: %v", err))
		}
		if err := os.Rename(tmp, final); err != nil {
			// somebody else was faster (or a stale incomplete directory is in the way)
			if _, e2 := os.Stat(filepath.Join(final, ".complete")); e2 == nil {
				_ = os.RemoveAll(tmp)
			} else {
				// use the private copy
				final = tmp
			}
		}
		c13GenDir = final
	})
	return c13GenDir
}

func c13WriteAsset(root string, sp c13GenSpec) error {
	srcDir := filepath.Join(hx.BundledAssets, sp.Src)
	initData, err := os.ReadFile(filepath.Join(srcDir, "V300", "init.mp4"))
	if err != nil {
		return err
	}
	in, err := hx.ParseInit(initData)
	if err != nil {
		return err
	}
	// all source samples in order
	var names []string
	ents, err := os.ReadDir(filepath.Join(srcDir, "V300"))
	if err != nil {
		return err
	}
	for _, e := range ents {
		if strings.HasSuffix(e.Name(), ".m4s") {
			names = append(names, e.Name())
		}
	}
	sort.Slice(names, func(i, j int) bool {
		var a, b int
		fmt.Sscanf(names[i], "%d", &a)
		fmt.Sscanf(names[j], "%d", &b)
		return a < b
	})
	var samples []mp4.FullSample
	var styp *mp4.StypBox
	for _, n := range names {
		data, err := os.ReadFile(filepath.Join(srcDir, "V300", n))
		if err != nil {
			return err
		}
		f, err := mp4.DecodeFileSR(bits.NewFixedSliceReader(data))
		if err != nil {
			return err
		}
		for _, s := range f.Segments {
			if styp == nil {
				styp = s.Styp
			}
			for _, fr := range s.Fragments {
				fss, err := fr.GetFullSamples(in.Trex)
				if err != nil {
					return err
				}
				samples = append(samples, fss...)
			}
		}
	}
	total := 0
	for _, n := range sp.Frames {
		total += n
	}
	if total > len(samples) {
		return fmt.Errorf("need %d samples, source has %d", total, len(samples))
	}
	dst := filepath.Join(root, sp.Name)
	if err := os.MkdirAll(filepath.Join(dst, "V300"), 0o755); err != nil {
		return err
	}
	if err := os.WriteFile(filepath.Join(dst, "V300", "init.mp4"), initData, 0o644); err != nil {
		return err
	}
	ts := uint64(in.Timescale)
	var t uint64
	pos := 0
	var tl strings.Builder
	var segDur uint64
	for i, nf := range sp.Frames {
		var seg *mp4.MediaSegment
		if styp != nil {
			seg = mp4.NewMediaSegmentWithStyp(styp)
		} else {
			seg = mp4.NewMediaSegmentWithoutStyp()
		}
		frag, err := mp4.CreateFragment(uint32(i+1), in.TrackID)
		if err != nil {
			return err
		}
		start := t
		for k := 0; k < nf; k++ {
			fs := samples[pos]
			pos++
			fs.DecodeTime = t
			t += uint64(fs.Dur)
			frag.AddFullSample(fs)
		}
		seg.AddFragment(frag)
		var buf bytes.Buffer
		if err := seg.Encode(&buf); err != nil {
			return err
		}
		name := fmt.Sprintf("%d.m4s", i+1)
		if sp.TimeURI {
			name = fmt.Sprintf("%d.m4s", start)
		}
		if err := os.WriteFile(filepath.Join(dst, "V300", name), buf.Bytes(), 0o644); err != nil {
			return err
		}
		if i == 0 {
			fmt.Fprintf(&tl, "<S t=\"0\" d=\"%d\"/>", t-start)
		} else {
			fmt.Fprintf(&tl, "<S d=\"%d\"/>", t-start)
		}
		segDur = t - start
	}
	if (t*1000)%ts != 0 {
		return fmt.Errorf("loop duration %d/%d is not a whole number of ms", t, ts)
	}
	durMS := t * 1000 / ts
	var audioAS string
	if sp.Audio {
		if err := c13CopyDir(filepath.Join(srcDir, "A48"), filepath.Join(dst, "A48")); err != nil {
			return err
		}
		// audio segment count and duration as in the source MPD (number template)
		srcMPD, err := os.ReadFile(filepath.Join(srcDir, "Manifest.mpd"))
		if err != nil {
			return err
		}
		s := string(srcMPD)
		i := strings.Index(s, "<AdaptationSet contentType=\"audio\"")
		j := strings.Index(s[i:], "</AdaptationSet>")
		if i < 0 || j < 0 {
			return fmt.Errorf("no audio adaptation set in source MPD")
		}
		audioAS = s[i : i+j+len("</AdaptationSet>")]
	}
	var tpl string
	if sp.TimeURI {
		tpl = fmt.Sprintf(`<SegmentTemplate timescale="%d" media="$RepresentationID$/$Time$.m4s" startNumber="1" initialization="$RepresentationID$/init.mp4"><SegmentTimeline>%s</SegmentTimeline></SegmentTemplate>`, ts, tl.String())
	} else {
		tpl = fmt.Sprintf(`<SegmentTemplate timescale="%d" media="$RepresentationID$/$Number$.m4s" startNumber="1" duration="%d" initialization="$RepresentationID$/init.mp4"/>`, ts, segDur)
	}
	mpdStr := fmt.Sprintf(`<?xml version="1.0"?>
<MPD xmlns="urn:mpeg:dash:schema:mpd:2011" minBufferTime="PT1S" type="static" mediaPresentationDuration="PT%d.%03dS" maxSegmentDuration="PT10S" profiles="urn:mpeg:dash:profile:full:2011">
 <ProgramInformation><Title>generated for C13: %s</Title></ProgramInformation>
 <Period id="livesim">
  %s
  <AdaptationSet contentType="video" segmentAlignment="true" maxWidth="1280" maxHeight="720" maxFrameRate="30" par="16:9">
   %s
   <Representation id="V300" mimeType="video/mp4" codecs="avc1.64001e" width="640" height="360" frameRate="30" sar="1:1" startWithSAP="1" bandwidth="303780"/>
  </AdaptationSet>
 </Period>
</MPD>
`, durMS/1000, durMS%1000, sp.Name, audioAS, tpl)
	return os.WriteFile(filepath.Join(dst, "Manifest.mpd"), []byte(mpdStr), 0o644)
}

func c13CopyDir(src, dst string) error {
	if err := os.MkdirAll(dst, 0o755); err != nil {
		return err
	}
	ents, err := os.ReadDir(src)
	if err != nil {
		return err
	}
	for _, e := range ents {
		if e.IsDir() {
			continue
		}
		b, err := os.ReadFile(filepath.Join(src, e.Name()))
		if err != nil {
			return err
		}
		if err := os.WriteFile(filepath.Join(dst, e.Name()), b, 0o644); err != nil {
			return err
		}
	}
	return nil
}

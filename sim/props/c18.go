package props

import (
	"bytes"
	"encoding/binary"
	"encoding/hex"
	"errors"
	"fmt"
	"io"
	"os"
	"path/filepath"
	"runtime"
	"sort"
	"strings"
	"sync"
	"sync/atomic"
	"testing"
	"time"

	"github.com/Dash-Industry-Forum/livesim2/pkg/chunkparser"
	"github.com/Eyevinn/mp4ff/mp4"

	"verif/sim/core"
	"verif/sim/hx"
)

// C18 — chunk parser output does not depend on how the bytes arrive (engine S, streamsim).
//
// The real pkg/chunkparser is driven exactly the way cmd/cmaf-ingest-receiver does it
// (NewMP4ChunkParser(reader, buf, callback).Parse()). The "network" is c18Reader: every Read
// result is dictated by the scenario. The world holds the stream recipe (real files, segments
// re-chunked with mp4ff, chunked low-latency responses of the real livesim2 server, synthetic
// boxes, size-field patches, truncation) and the faults; the ops are the read schedule:
//
//	{"op":"cut","at":k}            a Read never crosses stream offset k
//	{"op":"stall","at":k,"n":z}    z reads answer (0,nil) when the reader stands at offset k
//	{"op":"max","at":a,"to":b,"n":m} Reads starting in [a,b) return at most m bytes
//
// A dropped op means "default there: return everything that was asked for". The oracle is the
// property statement plus the box structure of the input (a walk over size/type headers, which is
// the definition of the format, not of the parser), and a reference execution of the same parser
// on the same input with a reader that returns everything it is asked for.

const (
	c18Cap      = 16 << 20 // hostile sizes never make the parser need more than this (DESIGN App. B)
	c18RepoRoot = "/repo"
	// watchdog: a Parse that neither reads, nor calls back, nor returns for c18HangPolls
	// consecutive polls and at least c18HangAfter is declared hung (only the hang verdict depends on real time).
	c18PollEvery = 5 * time.Millisecond
	c18HangPolls = 20
	c18HangAfter = 500 * time.Millisecond
)

type c18Part struct {
	Kind  string `json:"kind"`            // file | split | live | box | raw
	Path  string `json:"path,omitempty"`  // file/split: path below /repo
	Init  string `json:"init,omitempty"`  // split: init segment (for trex defaults)
	N     int    `json:"n,omitempty"`     // split: number of moof+mdat chunks
	URL   string `json:"url,omitempty"`   // live: request path on the real livesim2 server
	NowMS int64  `json:"nowMS,omitempty"` // live: request instant
	Type  string `json:"type,omitempty"`  // box: four characters
	Size  *int64 `json:"size,omitempty"`  // box: declared size (nil = 8 + payload)
	Hex   string `json:"hex,omitempty"`   // box: payload, raw: bytes
}

type c18Patch struct {
	Off int    `json:"off"`
	Hex string `json:"hex"`
}

// c18Sweep makes one scenario execute a block of an exhaustive enumeration: all cut sets
// {Base+i+1 : bit i of mask} for mask in [Lo, Lo+N), each with EOF separate and EOF with data.
type c18Sweep struct {
	Base  int    `json:"base"`
	Width int    `json:"width"`
	Lo    uint32 `json:"lo"`
	N     uint32 `json:"n"`
}

type c18World struct {
	Recipe      []c18Part  `json:"recipe"`
	Patches     []c18Patch `json:"patches,omitempty"`
	TruncAt     int        `json:"trunc_at"` // -1 = no truncation
	ErrAt       int        `json:"err_at"`   // -1 = no read error; else error when offset k is reached
	ErrWithData bool       `json:"err_with_data,omitempty"`
	EOFWithData bool       `json:"eof_with_data,omitempty"`
	CbErrAt     int        `json:"cb_err_at"` // -1 = none; else callback number j returns an error
	BufSize     int        `json:"buf_size"`  // -1 = nil buffer
	BufCap      int        `json:"buf_cap,omitempty"`
	MaxRead     int        `json:"max_read,omitempty"` // 0 = unlimited
	Sweep       *c18Sweep  `json:"sweep,omitempty"`
}

type c18Op struct {
	Op string `json:"op"`
	At int    `json:"at"`
	N  int    `json:"n,omitempty"`
	To int    `json:"to,omitempty"`
}

type C18 struct{}

func init() { core.Register(C18{}) }

func (C18) ID() string     { return "C18" }
func (C18) Engine() string { return "streamsim" }

// ---------------------------------------------------------------------------------------
// Stream construction.

var (
	c18Mu    sync.Mutex
	c18Cache = map[string][]byte{}
)

func c18Cached(key string, mk func() []byte) []byte {
	c18Mu.Lock()
	b, ok := c18Cache[key]
	c18Mu.Unlock()
	if ok {
		return b
	}
	b = mk() // not under the lock: builders use the cache themselves
	c18Mu.Lock()
	c18Cache[key] = b
	c18Mu.Unlock()
	return b
}

func c18File(rel string) []byte {
	return c18Cached("file:"+rel, func() []byte {
		b, err := os.ReadFile(filepath.Join(c18RepoRoot, rel))
		if err != nil {
			panic(fmt.Sprintf("harness: C18 cannot read %s: %v", rel, err))
		}
		return b
	})
}

// c18Split re-chunks a media segment into n moof+mdat pairs with mp4ff (styp kept).
func c18Split(initRel, segRel string, n int) []byte {
	return c18Cached(fmt.Sprintf("split:%s:%s:%d", initRel, segRel, n), func() []byte {
		in, err := hx.ParseInit(c18File(initRel))
		if err != nil {
			panic(fmt.Sprintf("harness: C18 init %s: %v", initRel, err))
		}
		raw := c18File(segRel)
		seg, err := hx.ParseSeg(raw, in.Trex)
		if err != nil {
			panic(fmt.Sprintf("harness: C18 segment %s: %v", segRel, err))
		}
		samples := seg.AllSamples()
		if n < 1 {
			n = 1
		}
		if n > len(samples) {
			n = len(samples)
		}
		var out bytes.Buffer
		if seg.HasStyp {
			sz := int(binary.BigEndian.Uint32(raw))
			out.Write(raw[:sz])
		}
		for c := 0; c < n; c++ {
			lo, hi := c*len(samples)/n, (c+1)*len(samples)/n
			fr, err := mp4.CreateFragment(seg.Seq()+uint32(c), in.TrackID)
			if err != nil {
				panic(fmt.Sprintf("harness: C18 CreateFragment: %v", err))
			}
			for _, s := range samples[lo:hi] {
				fr.AddFullSample(mp4.FullSample{Sample: mp4.Sample{Flags: s.Flags, Dur: s.Dur, Size: s.Size,
					CompositionTimeOffset: s.Cto}, DecodeTime: s.DecodeTime, Data: s.Data})
			}
			if err := fr.Encode(&out); err != nil {
				panic(fmt.Sprintf("harness: C18 fragment encode: %v", err))
			}
		}
		return out.Bytes()
	})
}

func c18Live(url string, nowMS int64) []byte {
	return c18Cached(fmt.Sprintf("live:%s@%d", url, nowMS), func() []byte {
		r := bundledSrv().GetAt(url, nowMS)
		if r.Status != 200 || r.Panic != "" {
			panic(fmt.Sprintf("harness: C18 live fetch %s at %d: status %d panic %q", url, nowMS, r.Status, r.Panic))
		}
		return append([]byte(nil), r.Body...)
	})
}

func c18Unhex(s string) []byte {
	b, err := hex.DecodeString(s)
	if err != nil {
		panic(fmt.Sprintf("harness: C18 bad hex %q", s))
	}
	return b
}

func c18Build(w *c18World) []byte {
	var out []byte
	for _, p := range w.Recipe {
		switch p.Kind {
		case "file":
			out = append(out, c18File(p.Path)...)
		case "split":
			out = append(out, c18Split(p.Init, p.Path, p.N)...)
		case "live":
			out = append(out, c18Live(p.URL, p.NowMS)...)
		case "box":
			pay := c18Unhex(p.Hex)
			size := int64(8 + len(pay))
			if p.Size != nil {
				size = *p.Size
			}
			typ := (p.Type + "    ")[:4]
			var h [8]byte
			binary.BigEndian.PutUint32(h[:4], uint32(size))
			copy(h[4:], typ)
			out = append(out, h[:]...)
			out = append(out, pay...)
		case "raw":
			out = append(out, c18Unhex(p.Hex)...)
		default:
			panic("harness: C18 unknown recipe part " + p.Kind)
		}
	}
	out = append([]byte(nil), out...) // never alias the cache
	for _, pt := range w.Patches {
		b := c18Unhex(pt.Hex)
		if pt.Off < 0 || pt.Off+len(b) > len(out) {
			continue // precondition gone (shrunk recipe)
		}
		copy(out[pt.Off:], b)
	}
	if w.TruncAt >= 0 && w.TruncAt < len(out) {
		out = out[:w.TruncAt]
	}
	return out
}

// c18Safe tells whether feeding the stream to a box walker that trusts size fields stays inside
// the memory cap (it does not predict results; it only keeps the sandbox alive).
func c18Safe(in []byte) bool {
	n := uint64(len(in))
	pos := uint64(0)
	for steps := 0; steps < 1<<16; steps++ {
		if pos+8 > n {
			return true
		}
		size := uint64(binary.BigEndian.Uint32(in[pos:]))
		if size == 0 {
			return true
		}
		np := pos + size
		if np > c18Cap {
			return false
		}
		pos = np
	}
	return true
}

// ---------------------------------------------------------------------------------------
// Oracle: the box structure of the input (ISO BMFF: 32-bit size, four-character type).

type c18Box struct {
	Type       string
	Start, End int
}

type c18Oracle struct {
	Boxes      []c18Box // complete top-level boxes of the well-formed prefix
	WfEnd      int      // where the well-formed prefix ends
	Class      string   // clean | partial-header | incomplete-box | size-zero | size-lt8 | size-huge
	StopType   string   // type of the box at which the walk stopped
	MdatEnds   []int
	MoovHdrEnd int // end of the first moov header (box may be incomplete), -1 = none
	MoovEnd    int // end of the first complete moov, -1 = none
}

func c18Walk(in []byte) *c18Oracle {
	o := &c18Oracle{MoovHdrEnd: -1, MoovEnd: -1}
	pos := 0
	for {
		if pos == len(in) {
			o.Class = "clean"
			break
		}
		if pos+8 > len(in) {
			o.Class = "partial-header"
			break
		}
		size := int64(binary.BigEndian.Uint32(in[pos:]))
		typ := string(in[pos+4 : pos+8])
		if size < 8 {
			o.Class = "size-lt8"
			if size == 0 {
				o.Class = "size-zero"
			}
			o.StopType = typ
			break
		}
		if int64(pos)+size > c18Cap {
			o.Class = "size-huge"
			o.StopType = typ
			break
		}
		if typ == "moov" && o.MoovHdrEnd < 0 {
			o.MoovHdrEnd = pos + 8
		}
		end := pos + int(size)
		if end > len(in) {
			o.Class = "incomplete-box"
			o.StopType = typ
			break
		}
		o.Boxes = append(o.Boxes, c18Box{typ, pos, end})
		if typ == "mdat" {
			o.MdatEnds = append(o.MdatEnds, end)
		}
		if typ == "moov" && o.MoovEnd < 0 {
			o.MoovEnd = end
		}
		pos = end
	}
	o.WfEnd = pos
	return o
}

func (o *c18Oracle) malformed() bool {
	return o.Class == "size-zero" || o.Class == "size-lt8" || o.Class == "size-huge"
}

func (o *c18Oracle) isMdatEnd(e int) bool {
	i := sort.SearchInts(o.MdatEnds, e)
	return i < len(o.MdatEnds) && o.MdatEnds[i] == e
}

// ---------------------------------------------------------------------------------------
// The simulated reader and the recording callback.

var (
	errC18Read  = errors.New("c18: injected read error")
	errC18Cb    = errors.New("c18: injected callback error")
	errC18Abort = errors.New("c18: step bound exceeded (harness abort)")
)

type c18Plan struct {
	cuts        []int
	stalls      map[int]int
	nStalls     int
	maxes       []c18Op
	maxRead     int
	eofWithData bool
	errWithData bool
	errAt       int
	cbErrAt     int
	bufSize     int
	bufCap      int
}

func c18Compile(w *c18World, ops []c18Op, n int) *c18Plan {
	pl := &c18Plan{maxRead: w.MaxRead, eofWithData: w.EOFWithData, errWithData: w.ErrWithData, errAt: w.ErrAt,
		cbErrAt: w.CbErrAt, bufSize: w.BufSize, bufCap: w.BufCap}
	if pl.errAt > n {
		pl.errAt = -1
	}
	if pl.bufCap < 0 {
		pl.bufCap = 0
	}
	if pl.bufSize > c18Cap {
		pl.bufSize = c18Cap
	}
	seen := map[int]bool{}
	for _, op := range ops {
		switch op.Op {
		case "cut":
			if op.At > 0 && op.At < n && !seen[op.At] {
				seen[op.At] = true
				pl.cuts = append(pl.cuts, op.At)
			}
		case "stall":
			if op.At >= 0 && op.At <= n && op.N > 0 {
				k := op.N
				if k > 8 {
					k = 8
				}
				if pl.stalls == nil {
					pl.stalls = map[int]int{}
				}
				if pl.stalls[op.At]+k > 8 {
					k = 8 - pl.stalls[op.At]
				}
				pl.stalls[op.At] += k
				pl.nStalls += k
			}
		case "max":
			if op.N > 0 && op.To > op.At {
				pl.maxes = append(pl.maxes, op)
			}
		}
	}
	sort.Ints(pl.cuts)
	return pl
}

type c18Reader struct {
	in            []byte
	pos           int
	pl            *c18Plan
	ci            int
	stallLeft     map[int]int
	reads         int
	zeroReads     int
	limit         int
	overLimit     bool
	overCalls     int
	maxStart      int
	errFired      bool
	eofSeen       bool
	eofWithData   bool
	errWithData   bool
	readsAfterEnd int
	emptyReq      int
	biggestReq    int
	progress      *atomic.Int64
	dead          *atomic.Bool
}

func (r *c18Reader) Read(p []byte) (int, error) {
	r.progress.Add(1)
	if r.dead.Load() {
		return 0, errC18Abort
	}
	r.reads++
	if r.reads > r.limit {
		r.overLimit = true
		r.overCalls++
		if r.overCalls > 1000 {
			panic(errC18Abort) // the parser ignores errors: unwind it
		}
		return 0, errC18Abort
	}
	if r.pos > r.maxStart {
		r.maxStart = r.pos
	}
	if len(p) > r.biggestReq {
		r.biggestReq = len(p)
	}
	if len(p) == 0 {
		r.emptyReq++
		return 0, nil
	}
	if r.errFired {
		r.readsAfterEnd++
		return 0, errC18Read
	}
	if r.eofSeen {
		r.readsAfterEnd++
		return 0, io.EOF
	}
	pl := r.pl
	if pl.errAt >= 0 && r.pos >= pl.errAt {
		r.errFired = true
		return 0, errC18Read
	}
	if r.stallLeft != nil && r.stallLeft[r.pos] > 0 {
		r.stallLeft[r.pos]--
		r.zeroReads++
		return 0, nil
	}
	end := len(r.in)
	if pl.errAt >= 0 && pl.errAt < end {
		end = pl.errAt
	}
	if r.pos >= end {
		r.eofSeen = true
		return 0, io.EOF
	}
	n := len(p)
	if n > end-r.pos {
		n = end - r.pos
	}
	for r.ci < len(pl.cuts) && pl.cuts[r.ci] <= r.pos {
		r.ci++
	}
	if r.ci < len(pl.cuts) && pl.cuts[r.ci]-r.pos < n {
		n = pl.cuts[r.ci] - r.pos
	}
	if pl.maxRead > 0 && n > pl.maxRead {
		n = pl.maxRead
	}
	for i := range pl.maxes {
		m := &pl.maxes[i]
		if r.pos >= m.At && r.pos < m.To && n > m.N {
			n = m.N
		}
	}
	copy(p, r.in[r.pos:r.pos+n])
	r.pos += n
	if pl.errAt >= 0 && r.pos == pl.errAt && pl.errWithData {
		r.errFired = true
		r.errWithData = true
		return n, errC18Read
	}
	if pl.errAt < 0 && r.pos == len(r.in) && pl.eofWithData {
		r.eofSeen = true
		r.eofWithData = true
		return n, io.EOF
	}
	return n, nil
}

type c18Chunk struct {
	Start    uint32
	Off      int // offset in the input according to the bytes delivered before
	Len      int
	Init     bool
	RdPos    int // reader position at callback time
	MaxStart int // highest offset at which a Read had been started at callback time
}

func (c c18Chunk) end() int { return c.Off + c.Len }

type c18Rec struct {
	in         []byte
	rd         *c18Reader
	off        int
	chunks     []c18Chunk
	cbErrAt    int
	cbErrFired bool
	afterErr   int
	limit      int
	over       bool
	mismatchAt int
	overrun    bool
	progress   *atomic.Int64
	dead       *atomic.Bool
}

func (c *c18Rec) cb(cd chunkparser.ChunkData) error {
	c.progress.Add(1)
	if c.dead.Load() {
		return errC18Abort
	}
	if len(c.chunks) >= c.limit {
		c.over = true
		return errC18Abort
	}
	if c.cbErrFired {
		c.afterErr++
	}
	ch := c18Chunk{Start: cd.Start, Off: c.off, Len: len(cd.Data), Init: cd.IsInitSegment, RdPos: c.rd.pos, MaxStart: c.rd.maxStart}
	if c.mismatchAt < 0 {
		if c.off+len(cd.Data) > len(c.in) {
			c.overrun = true
			c.mismatchAt = len(c.in)
			for i := c.off; i < len(c.in); i++ {
				if cd.Data[i-c.off] != c.in[i] {
					c.mismatchAt = i
					break
				}
			}
		} else if !bytes.Equal(cd.Data, c.in[c.off:c.off+len(cd.Data)]) {
			for i := range cd.Data {
				if cd.Data[i] != c.in[c.off+i] {
					c.mismatchAt = c.off + i
					break
				}
			}
		}
	}
	c.off += len(cd.Data)
	idx := len(c.chunks)
	c.chunks = append(c.chunks, ch)
	if c.cbErrAt == idx {
		c.cbErrFired = true
		return errC18Cb
	}
	return nil
}

type c18Exec struct {
	chunks    []c18Chunk
	err       error
	hang      bool
	leaked    bool
	panicVal  string
	rd        *c18Reader
	rec       *c18Rec
	delivered int
}

// c18Poison overwrites the buffer of a parser that spins on another goroutine (see c18Batch). It
// is a deliberate unsynchronised access by the harness, hence invisible to the race detector.
//
//go:norace
func c18Poison(p *chunkparser.MP4ChunkParser) {
	b := p.GetBuffer()
	for i := range b {
		b[i] = 0x01
	}
}

var c18Leaked atomic.Int32

// c18Running is what the watchdog needs to know about the execution in flight.
type c18Running struct {
	ex *c18Exec
	p  *chunkparser.MP4ChunkParser
}

// c18Batch runs n executions of the real parser, one after the other, on ONE worker goroutine and
// watches it from the caller's goroutine. plan(i) yields the i-th read plan, after(i, ex) judges
// the finished execution (both run on the worker; the caller only waits, so the result object is
// never touched concurrently). If an execution neither returns nor makes any Read/callback for
// c18HangPolls polls, the batch stops there and that execution is returned with hang=true.
func c18Batch(in []byte, n int, plan func(i int) *c18Plan, after func(i int, ex *c18Exec)) *c18Exec {
	var progress atomic.Int64
	var dead atomic.Bool
	var cur atomic.Pointer[c18Running]
	var workerPanic any
	done := make(chan struct{})
	one := func(i int) bool {
		pl := plan(i)
		rd := &c18Reader{in: in, pl: pl, limit: len(in) + 64 + pl.nStalls, maxStart: -1, progress: &progress, dead: &dead}
		if pl.nStalls > 0 {
			rd.stallLeft = make(map[int]int, len(pl.stalls))
			for k, v := range pl.stalls {
				rd.stallLeft[k] = v
			}
		}
		rec := &c18Rec{in: in, rd: rd, cbErrAt: pl.cbErrAt, limit: len(in) + 64, mismatchAt: -1, progress: &progress, dead: &dead}
		var buf []byte
		if pl.bufSize >= 0 {
			buf = make([]byte, pl.bufSize, pl.bufSize+pl.bufCap)
		}
		p := chunkparser.NewMP4ChunkParser(rd, buf, rec.cb)
		ex := &c18Exec{rd: rd, rec: rec}
		cur.Store(&c18Running{ex: ex, p: p})
		func() {
			defer func() {
				if r := recover(); r != nil {
					if e, ok := r.(error); ok && errors.Is(e, errC18Abort) {
						ex.err = errC18Abort
						return
					}
					ex.panicVal = fmt.Sprint(r)
				}
			}()
			ex.err = p.Parse()
		}()
		if dead.Load() {
			return false // the watchdog gave a verdict meanwhile: nothing after it counts
		}
		ex.chunks = rec.chunks
		ex.delivered = rec.off
		progress.Add(1)
		after(i, ex)
		progress.Add(1)
		return true
	}
	go func() {
		defer close(done)
		defer func() {
			if r := recover(); r != nil {
				workerPanic = r // harness trouble inside plan/after: re-raised on the caller's goroutine
			}
		}()
		for i := 0; i < n; i++ {
			if dead.Load() || !one(i) {
				return
			}
		}
	}()
	// Fast path: hand the processor to the worker; an ordinary Parse is over after a few yields,
	// and no timer (= no netpoller wake-up) is needed.
	finished := false
	for i := 0; i < 4 && !finished; i++ {
		runtime.Gosched()
		select {
		case <-done:
			finished = true
		default:
		}
	}
	hang := false
	if !finished {
		timer := time.NewTimer(c18PollEvery)
		defer timer.Stop()
		last, idle, since := progress.Load(), 0, time.Now()
	wait:
		for {
			select {
			case <-done:
				break wait
			case <-timer.C:
				c := progress.Load()
				if c != last {
					last, idle, since = c, 0, time.Now()
				} else {
					idle++
				}
				// wall time is used for nothing but this verdict ("did not return")
				if idle >= c18HangPolls && time.Since(since) >= c18HangAfter {
					hang = true
					break wait
				}
				timer.Reset(c18PollEvery)
			}
		}
	}
	if !hang {
		if workerPanic != nil {
			panic(workerPanic)
		}
		return nil
	}
	// Un-wedge the spinning parser so that no goroutine keeps burning a core: every later
	// Read/callback aborts, and the parser's buffer is overwritten with 0x01 so that the box walk
	// leaves its cycle (it finds size 0x01010101, has to read, and gets the abort error).
	dead.Store(true)
	run := cur.Load()
	if run == nil {
		panic("harness: C18 worker made no progress before its first execution")
	}
	freed := false
	for try := 0; try < 40 && !freed; try++ {
		c18Poison(run.p)
		select {
		case <-done:
			freed = true
		case <-time.After(50 * time.Millisecond):
		}
	}
	run.ex.hang = true
	if !freed {
		run.ex.leaked = true
		c18Leaked.Add(1)
	}
	return run.ex
}

// ---------------------------------------------------------------------------------------
// Checks.

func c18ErrClass(err error) string {
	switch {
	case err == nil:
		return "nil"
	case errors.Is(err, errC18Read):
		return "read-error"
	case errors.Is(err, errC18Cb):
		return "callback-error"
	case errors.Is(err, errC18Abort):
		return "abort"
	case errors.Is(err, io.EOF):
		return "eof"
	}
	return "own-error"
}

func c18EOFFeat(ex *c18Exec) string {
	if ex.rd.eofWithData {
		return "with-data"
	}
	return "separate"
}

func c18SeqString(chs []c18Chunk) string {
	var b strings.Builder
	for i, c := range chs {
		if i > 0 {
			b.WriteByte(' ')
		}
		fl := ""
		if c.Init {
			fl = "i"
		}
		fmt.Fprintf(&b, "[%d+%d%s]", c.Start, c.Len, fl)
		if i >= 11 {
			fmt.Fprintf(&b, " …(%d)", len(chs))
			break
		}
	}
	return b.String()
}

// c18Terminated reports hang / step bound / panic. It returns false if nothing else can be said.
func c18Terminated(res *core.Result, or *c18Oracle, ex *c18Exec, what string) bool {
	switch {
	case ex.hang:
		touched := "no-reads-no-callbacks"
		res.Violate("C18.terminates", core.Sig("kind", "hang", "box-size", c18BoxSize(or), "loop", touched),
			"%s: Parse did not return and made no Read/callback for %v (%d+ polls): input %d bytes (%s, stopped at box %q offset %d), reader at %d after %d reads, %d callbacks (leaked=%v)",
			what, c18HangAfter, c18HangPolls, len(ex.rd.in), or.Class, or.StopType, or.WfEnd, ex.rd.pos, ex.rd.reads, len(ex.rec.chunks), ex.leaked)
		res.Count("probe.hang")
		if ex.leaked {
			res.Count("probe.leaked-spinner")
		}
		return false
	case ex.panicVal != "":
		res.Violate("C18.terminates", core.Sig("kind", "panic", "box-size", c18BoxSize(or)),
			"%s: Parse panicked: %s (input %d bytes, class %s)", what, ex.panicVal, len(ex.rd.in), or.Class)
		return false
	case ex.rd.overLimit:
		res.Violate("C18.terminates", core.Sig("kind", "step-bound", "box-size", c18BoxSize(or), "loop", "reads"),
			"%s: more than len(input)+64+stalls = %d reads (input %d bytes, class %s, reader at %d)", what, ex.rd.limit, len(ex.rd.in), or.Class, ex.rd.pos)
		return false
	case ex.rec.over:
		res.Violate("C18.terminates", core.Sig("kind", "step-bound", "box-size", c18BoxSize(or), "loop", "callbacks"),
			"%s: more than len(input)+64 = %d callbacks (input %d bytes, class %s)", what, ex.rec.limit, len(ex.rd.in), or.Class)
		return false
	}
	return true
}

func c18BoxSize(or *c18Oracle) string {
	switch or.Class {
	case "size-zero":
		return "zero"
	case "size-lt8":
		return "lt8"
	case "size-huge":
		return "huge"
	case "incomplete-box":
		return "beyond-input"
	}
	return "ok"
}

// c18Check checks one execution against the statement. ref is the reference execution of the
// same input (nil when ex is the reference itself).
func c18Check(res *core.Result, in []byte, or *c18Oracle, ex *c18Exec, ref *c18Exec, what string) {
	if !c18Terminated(res, or, ex, what) {
		return
	}
	rd, rec := ex.rd, ex.rec
	bs := c18BoxSize(or)
	readErr := rd.errFired
	cbErr := rec.cbErrFired
	ec := c18ErrClass(ex.err)
	// (7) errors are returned
	switch {
	case cbErr:
		if ec != "callback-error" {
			res.Violate("C18.errors-returned", core.Sig("kind", "callback-error-lost", "returned", ec),
				"%s: callback %d returned an error, Parse returned %v", what, rec.cbErrAt, ex.err)
		}
		if rec.afterErr > 0 {
			res.Violate("C18.errors-returned", core.Sig("kind", "callback-after-callback-error"),
				"%s: %d more callbacks after callback %d returned an error", what, rec.afterErr, rec.cbErrAt)
		}
	case readErr:
		if ec != "read-error" {
			res.Violate("C18.errors-returned", core.Sig("kind", "read-error-lost", "returned", ec, "with-data", fmt.Sprint(rd.errWithData)),
				"%s: reader returned an error at offset %d, Parse returned %v", what, rd.pl.errAt, ex.err)
		}
	default:
		if ec == "read-error" || ec == "callback-error" || ec == "abort" {
			panic(fmt.Sprintf("harness: C18 Parse returned %v without an injected fault", ex.err))
		}
		if ex.err != nil {
			res.Count("probe.own-error")
			if or.Class == "clean" {
				res.Violate("C18.errors-returned", core.Sig("kind", "spurious-error", "returned", ec),
					"%s: well-formed complete input of %d bytes, Parse returned %v", what, len(in), ex.err)
			}
		}
	}
	if rd.readsAfterEnd > 0 {
		res.Count("probe.read-after-eof-or-error")
	}
	// (1),(3) data
	faulted := cbErr || readErr
	if rec.mismatchAt >= 0 {
		kind := "wrong-bytes"
		if rec.overrun && rec.mismatchAt == len(in) {
			kind = "extra-bytes"
		}
		res.Violate("C18.concat-equals-input", core.Sig("kind", kind, "box-size", bs),
			"%s: delivered data differs from the input at offset %d (input %d bytes, delivered %d)", what, rec.mismatchAt, len(in), ex.delivered)
	} else if !faulted && ex.delivered != len(in) {
		if ex.err == nil || !or.malformed() {
			lastEnd := 0
			for _, m := range or.MdatEnds {
				if m <= ex.delivered {
					lastEnd = m
				}
			}
			kind := "missing-tail"
			if ex.delivered == lastEnd {
				kind = "trailing-bytes-lost" // every delivered callback ended at an mdat end, the rest never came
			}
			res.Violate("C18.concat-equals-input", core.Sig("kind", kind, "box-size", bs, "eof", c18EOFFeat(ex)),
				"%s: delivered %d of %d bytes, Parse returned %v (class %s, last mdat end <= delivered: %d)", what, ex.delivered, len(in), ex.err, or.Class, lastEnd)
		}
	}
	for i, c := range ex.chunks {
		if int(c.Start) != c.Off {
			res.Violate("C18.chunk-start-offset", core.Sig("kind", "start-offset", "box-size", bs),
				"%s: callback %d has Start=%d but %d bytes were delivered before it", what, i, c.Start, c.Off)
			break
		}
	}
	// (2) a callback ends at the end of every complete mdat, before the next box is asked for
	limit := len(in)
	cause := "none"
	if readErr {
		limit = rd.pl.errAt
		cause = "read-error"
	}
	if cbErr && len(ex.chunks) > 0 {
		limit = ex.chunks[len(ex.chunks)-1].end()
		cause = "callback-error"
	}
	if !faulted && ex.err != nil {
		limit = ex.delivered // the parser gave up on its own (malformed input): only what it delivered is judged
	}
	ends := make(map[int]int, len(ex.chunks))
	for i, c := range ex.chunks {
		if c.Len > 0 {
			ends[c.end()] = i
		}
	}
	for _, m := range or.MdatEnds {
		if m > limit {
			break
		}
		if _, ok := ends[m]; ok {
			continue
		}
		c := cause
		if readErr && m == rd.pl.errAt && rd.errWithData {
			c = "read-error-with-last-bytes"
		}
		res.Violate("C18.chunk-at-mdat-end", core.Sig("kind", "missing", "cause", c, "eof", c18EOFFeat(ex)),
			"%s: no callback ends at offset %d, the end of a complete mdat (callbacks %s; input %d bytes; error point %d)",
			what, m, c18SeqString(ex.chunks), len(in), rd.pl.errAt)
		break
	}
	for i, c := range ex.chunks {
		if c.Len == 0 {
			res.Count("probe.empty-callback")
			continue
		}
		if or.isMdatEnd(c.end()) && c.end() <= or.WfEnd {
			res.Count("probe.mdat-end-delivery-checked")
			if c.MaxStart >= c.end() || c.RdPos > c.end() {
				res.Violate("C18.chunk-at-mdat-end", core.Sig("kind", "delivered-late", "eof", c18EOFFeat(ex)),
					"%s: callback %d ends at mdat end %d but a Read had already been started at offset %d (reader at %d): the chunk waited for bytes of the next box",
					what, i, c.end(), c.MaxStart, c.RdPos)
				break
			}
		}
	}
	// (4) init flag
	flagBad := false
	for i, c := range ex.chunks {
		if c.Len == 0 {
			continue
		}
		e := c.end()
		switch {
		case or.MoovEnd >= 0 && or.MoovEnd <= e:
			if !c.Init {
				res.Violate("C18.init-flag", core.Sig("kind", "missing", "eof", c18EOFFeat(ex), "moov", "complete"),
					"%s: callback %d covers [%d,%d), a complete moov ends at %d, IsInitSegment=false", what, i, c.Off, e, or.MoovEnd)
				flagBad = true
			}
		case or.MoovHdrEnd >= 0 && or.MoovHdrEnd <= e:
			res.Count("probe.partial-moov-chunk") // header seen, box incomplete: either value
		default:
			if c.Init && (e <= or.WfEnd || !or.malformed()) {
				res.Violate("C18.init-flag", core.Sig("kind", "spurious", "eof", c18EOFFeat(ex)),
					"%s: callback %d covers [%d,%d), no moov header before %d, IsInitSegment=true", what, i, c.Off, e, e)
				flagBad = true
			}
		}
		if flagBad {
			break
		}
	}
	// (5) same callback sequence as the reference
	if ref == nil || ref.hang || ref.panicVal != "" || ref.rd.overLimit || ref.rec.over {
		return
	}
	rc := ref.chunks
	n := len(ex.chunks)
	if !faulted && (ex.err == nil) == (ref.err == nil) {
		if len(rc) != n {
			res.Violate("C18.partition-independent", core.Sig("kind", "callback-count", "box-size", bs, "eof", c18EOFFeat(ex)),
				"%s: %d callbacks %s, reference (everything-at-once reader) %d callbacks %s", what, n, c18SeqString(ex.chunks), len(rc), c18SeqString(rc))
			return
		}
	} else if !faulted {
		res.Violate("C18.partition-independent", core.Sig("kind", "error-result", "box-size", bs, "eof", c18EOFFeat(ex)),
			"%s: Parse returned %v, reference returned %v", what, ex.err, ref.err)
		return
	}
	for i := 0; i < n; i++ {
		c := ex.chunks[i]
		if i >= len(rc) {
			// faulted runs may end with one partial piece; anything beyond is an extra callback
			if faulted && i == n-1 && i == len(rc) {
				break
			}
			res.Violate("C18.partition-independent", core.Sig("kind", "callback-count", "box-size", bs, "eof", c18EOFFeat(ex)),
				"%s: callback %d [%d+%d] has no counterpart in the reference %s", what, i, c.Off, c.Len, c18SeqString(rc))
			return
		}
		r := rc[i]
		if c.Off != r.Off || c.Len != r.Len || c.Start != r.Start {
			if faulted && i == n-1 && c.Off == r.Off && c.Len < r.Len && !or.isMdatEnd(c.end()) {
				break // partial piece delivered at the fault point
			}
			res.Violate("C18.partition-independent", core.Sig("kind", "boundary", "box-size", bs, "eof", c18EOFFeat(ex)),
				"%s: callback %d is [%d+%d start=%d], reference [%d+%d start=%d] (all: %s vs %s)", what, i, c.Off, c.Len, c.Start, r.Off, r.Len, r.Start,
				c18SeqString(ex.chunks), c18SeqString(rc))
			return
		}
		if c.Init != r.Init && !flagBad {
			where := "wellformed"
			if or.MoovHdrEnd >= 0 && or.MoovEnd < 0 {
				where = "moov-header-only"
			} else if or.malformed() {
				where = "malformed"
			}
			res.Violate("C18.partition-independent", core.Sig("kind", "init-flag", "eof", c18EOFFeat(ex), "where", where),
				"%s: callback %d [%d+%d] IsInitSegment=%v, reference %v (input %d bytes, class %s, moov header ends at %d)", what, i, c.Off, c.Len, c.Init, r.Init,
				len(in), or.Class, or.MoovHdrEnd)
			return
		}
	}
}

// ---------------------------------------------------------------------------------------
// Run.

func (C18) Run(t *testing.T, sc *core.Scenario, res *core.Result) {
	w, err := core.DecodeWorld[c18World](sc)
	if err != nil {
		panic(err)
	}
	ops, err := core.DecodeOps[c18Op](sc)
	if err != nil {
		panic(err)
	}
	in := c18Build(&w)
	or := c18Walk(in)
	res.Event("input len=%d hash=%s class=%s boxes=%d mdats=%d wfend=%d", len(in), hx.ShortHash(in), or.Class, len(or.Boxes), len(or.MdatEnds), or.WfEnd)
	res.Count("input." + or.Class)
	if len(or.MdatEnds) > 1 {
		res.Count("probe.multi-chunk")
	}
	if or.MoovEnd >= 0 && len(or.MdatEnds) > 0 {
		res.Count("probe.init-plus-media")
	}
	if !c18Safe(in) {
		res.Event("skipped: size fields lead a trusting box walker beyond the memory cap")
		res.Count("probe.unsafe-skipped")
		return
	}
	if c18Leaked.Load() > 4 {
		panic("harness: C18 more than 4 spinning parser goroutines could not be un-wedged")
	}
	// reference: everything asked for, EOF separate, ordinary buffer, no faults
	refPl := &c18Plan{errAt: -1, cbErrAt: -1, bufSize: 1024}
	ref := c18Execute(in, refPl)
	res.Count("op.reference")
	res.Event("ref reads=%d cb=%s err=%s hang=%v", ref.rd.reads, c18SeqString(ref.chunks), c18ErrClass(ref.err), ref.hang)
	c18Check(res, in, or, ref, nil, "reference run")
	res.Nontrivial = len(in) > 0
	if ref.hang {
		return // every further execution of this input would cost another watchdog period
	}
	if w.Sweep != nil {
		c18RunSweep(res, &w, ops, in, or, ref)
		return
	}
	pl := c18Compile(&w, ops, len(in))
	for _, op := range ops {
		res.Count("op." + op.Op)
	}
	ex := c18Execute(in, pl)
	c18Account(res, &w, pl, ex)
	for i, c := range ex.chunks {
		if i < 64 {
			res.Event("cb %d start=%d len=%d init=%v rdpos=%d maxstart=%d", i, c.Start, c.Len, c.Init, c.RdPos, c.MaxStart)
		}
	}
	res.Event("run reads=%d zero=%d pos=%d cbs=%d delivered=%d err=%s hang=%v", ex.rd.reads, ex.rd.zeroReads, ex.rd.pos, len(ex.chunks), ex.delivered, c18ErrClass(ex.err), ex.hang)
	c18Check(res, in, or, ex, ref, "scheduled run")
}

func c18Account(res *core.Result, w *c18World, pl *c18Plan, ex *c18Exec) {
	rd := ex.rd
	if rd.errFired {
		if rd.errWithData {
			res.Count("fault.read-error-with-data")
		} else {
			res.Count("fault.read-error")
		}
	}
	if ex.rec.cbErrFired {
		res.Count("fault.callback-error")
	}
	if rd.zeroReads > 0 {
		res.Add("fault.zero-read", rd.zeroReads)
	}
	if rd.eofWithData {
		res.Count("fault.eof-with-data")
	}
	if w.TruncAt >= 0 {
		res.Count("fault.truncated")
	}
	if len(w.Patches) > 0 {
		res.Count("fault.size-patched")
	}
	if rd.reads > 0 && rd.pos > 0 && rd.reads >= rd.pos {
		res.Count("probe.byte-at-a-time")
	}
	if pl.bufSize <= 0 {
		res.Count("probe.buf-empty")
	} else if pl.bufSize > len(rd.in) {
		res.Count("probe.buf-beyond-stream")
	} else if pl.bufSize < 8 {
		res.Count("probe.buf-tiny")
	}
	if rd.biggestReq > 1<<20 {
		res.Count("probe.big-allocation")
	}
	if len(ex.chunks) > 1 {
		res.Count("probe.several-callbacks")
	}
	res.Add("stat.reads", rd.reads)
}

func c18RunSweep(res *core.Result, w *c18World, ops []c18Op, in []byte, or *c18Oracle, ref *c18Exec) {
	sw := w.Sweep
	if sw.Width < 1 || sw.Width > 26 {
		panic("harness: C18 sweep width")
	}
	total := uint64(1) << uint(sw.Width-1)
	lo, hi := uint64(sw.Lo), uint64(sw.Lo)+uint64(sw.N)
	if hi > total {
		hi = total
	}
	if lo >= hi {
		return
	}
	n := int(hi-lo) * 2
	what := func(i int) string {
		return fmt.Sprintf("sweep partition mask=%#x base=%d width=%d eof-with-data=%v", lo+uint64(i/2), sw.Base, sw.Width, i%2 == 1)
	}
	plan := func(i int) *c18Plan {
		m := lo + uint64(i/2)
		all := append([]c18Op(nil), ops...)
		for b := 0; b < sw.Width-1; b++ {
			if m&(1<<uint(b)) != 0 {
				all = append(all, c18Op{Op: "cut", At: sw.Base + b + 1})
			}
		}
		ww := *w
		ww.EOFWithData = i%2 == 1
		return c18Compile(&ww, all, len(in))
	}
	before := len(res.Violations)
	after := func(i int, ex *c18Exec) {
		res.Count("op.sweep-exec")
		if ex.rd.eofWithData {
			res.Count("fault.eof-with-data")
		}
		res.Event("sweep m=%d eof=%d reads=%d cb=%s err=%s", lo+uint64(i/2), i%2, ex.rd.reads, c18SeqString(ex.chunks), c18ErrClass(ex.err))
		if len(res.Violations) == before {
			c18Check(res, in, or, ex, ref, what(i))
		} else {
			c18Check(res, in, or, ex, ref, "sweep partition")
		}
	}
	if hung := c18Batch(in, n, plan, after); hung != nil {
		res.Event("sweep hang")
		c18Check(res, in, or, hung, ref, "sweep partition (eof-with-data="+fmt.Sprint(hung.rd.pl.eofWithData)+")")
		return
	}
	res.Count("probe.sweep-block")
}

// c18Execute runs one execution under the watchdog.
func c18Execute(in []byte, pl *c18Plan) *c18Exec {
	var out *c18Exec
	if hung := c18Batch(in, 1, func(int) *c18Plan { return pl }, func(_ int, ex *c18Exec) { out = ex }); hung != nil {
		return hung
	}
	return out
}

// ---------------------------------------------------------------------------------------
// Shrinking beyond op deletion.

func (C18) ShrinkCandidates(sc *core.Scenario) []*core.Scenario {
	w, err := core.DecodeWorld[c18World](sc)
	if err != nil {
		return nil
	}
	var out []*core.Scenario
	with := func(f func(w *c18World)) *core.Scenario {
		c := sc.Clone()
		ww := w
		ww.Recipe = append([]c18Part(nil), w.Recipe...)
		ww.Patches = append([]c18Patch(nil), w.Patches...)
		if w.Sweep != nil {
			s := *w.Sweep
			ww.Sweep = &s
		}
		f(&ww)
		c.World = core.MustJSON(ww)
		return c
	}
	if sw := w.Sweep; sw != nil {
		if sw.N > 1 {
			h := sw.N / 2
			out = append(out, with(func(w *c18World) { w.Sweep.N = h }))
			out = append(out, with(func(w *c18World) { w.Sweep.Lo += h; w.Sweep.N -= h }))
			return out
		}
		for _, eof := range []bool{false, true} {
			c := with(func(w *c18World) { w.Sweep = nil; w.EOFWithData = eof })
			for i := 0; i < sw.Width-1; i++ {
				if sw.Lo&(1<<uint(i)) != 0 {
					c.AddOp(c18Op{Op: "cut", At: sw.Base + i + 1})
				}
			}
			out = append(out, c)
		}
		return out
	}
	if w.ErrAt >= 0 {
		out = append(out, with(func(w *c18World) { w.ErrAt = -1; w.ErrWithData = false }))
	}
	if w.CbErrAt >= 0 {
		out = append(out, with(func(w *c18World) { w.CbErrAt = -1 }))
	}
	if w.MaxRead != 0 {
		out = append(out, with(func(w *c18World) { w.MaxRead = 0 }))
	}
	if w.BufSize != 1024 || w.BufCap != 0 {
		out = append(out, with(func(w *c18World) { w.BufSize = 1024; w.BufCap = 0 }))
	}
	if w.EOFWithData {
		out = append(out, with(func(w *c18World) { w.EOFWithData = false }))
	}
	for i := range w.Patches {
		i := i
		out = append(out, with(func(w *c18World) { w.Patches = append(w.Patches[:i:i], w.Patches[i+1:]...) }))
	}
	if len(w.Recipe) > 1 {
		// drop one recipe part; every offset behind it (patches, faults, schedule) moves with the data
		ops, err := core.DecodeOps[c18Op](sc)
		if err != nil {
			return out
		}
		start := 0
		starts := make([]int, len(w.Recipe))
		lens := make([]int, len(w.Recipe))
		for i, pt := range w.Recipe {
			starts[i] = start
			lens[i] = len(c18Build(&c18World{Recipe: []c18Part{pt}, TruncAt: -1}))
			start += lens[i]
		}
		for i := len(w.Recipe) - 1; i >= 0; i-- {
			i := i
			s0, l := starts[i], lens[i]
			mv := func(off int) (int, bool) {
				switch {
				case off < s0:
					return off, true
				case off >= s0+l:
					return off - l, true
				}
				return s0, false
			}
			c := with(func(w *c18World) {
				w.Recipe = append(w.Recipe[:i:i], w.Recipe[i+1:]...)
				var ps []c18Patch
				for _, pt := range w.Patches {
					if o, ok := mv(pt.Off); ok {
						ps = append(ps, c18Patch{Off: o, Hex: pt.Hex})
					}
				}
				w.Patches = ps
				if w.TruncAt >= 0 {
					w.TruncAt, _ = mv(w.TruncAt)
				}
				if w.ErrAt >= 0 {
					w.ErrAt, _ = mv(w.ErrAt)
				}
			})
			c.Ops = nil
			for _, op := range ops {
				o, ok := mv(op.At)
				if !ok {
					continue
				}
				if op.Op == "max" {
					op.To = o + (op.To - op.At)
				}
				op.At = o
				c.AddOp(op)
			}
			out = append(out, c)
		}
	}
	if w.TruncAt >= 0 {
		out = append(out, with(func(w *c18World) { w.TruncAt = -1 }))
	}
	return out
}

// ---------------------------------------------------------------------------------------
// Generator.

var c18Inits = []string{
	"cmd/livesim2/app/testdata/assets/testpic_2s/V300/init.mp4",
	"cmd/livesim2/app/testdata/assets/testpic_2s/A48/init.mp4",
	"cmd/livesim2/app/testdata/assets/testpic_2s/imsc1_txt_sv/init.mp4",
	"cmd/livesim2/app/testdata/assets/testpic_2s/imsc1_img_en/init.mp4",
	"pkg/chunkparser/testdata/video_init.mp4",
	"pkg/chunkparser/testdata/audio_init.mp4",
	"cmd/cmaf-ingest-receiver/app/testdata/awsMediaLiveScte35/scte/init.cmfm",
	"cmd/cmaf-ingest-receiver/app/testdata/awsMediaLiveScte35/audio/init.cmfa",
	"cmd/cmaf-ingest-receiver/app/testdata/video/init.cmfv",
	"cmd/cmaf-ingest-receiver/app/testdata/zero_3.84s/video-500Kbps/init_org.cmfv",
	"cmd/cmaf-ingest-receiver/app/testdata/zero_3.84s/text-nor-0/init_org.cmft",
	"cmd/cmaf-ingest-receiver/app/testdata/zero_3.84s/audio-nor-128Kbps/init_org.cmfa",
}

// media tracks: init + numbered segments (used whole, concatenated, or re-chunked).
type c18Track struct {
	Init, Dir, Ext string
	Nrs            []string
	Splittable     bool
	Big            bool
}

var c18Tracks = []c18Track{
	{"cmd/livesim2/app/testdata/assets/testpic_2s/V300/init.mp4", "cmd/livesim2/app/testdata/assets/testpic_2s/V300", ".m4s", []string{"1", "2", "3", "4"}, true, true},
	{"cmd/livesim2/app/testdata/assets/testpic_2s/A48/init.mp4", "cmd/livesim2/app/testdata/assets/testpic_2s/A48", ".m4s", []string{"1", "2", "3", "4"}, true, false},
	{"cmd/livesim2/app/testdata/assets/testpic_2s/imsc1_txt_sv/init.mp4", "cmd/livesim2/app/testdata/assets/testpic_2s/imsc1_txt_sv", ".m4s", []string{"1", "2", "3", "4"}, false, false},
	{"cmd/cmaf-ingest-receiver/app/testdata/zero_3.84s/video-500Kbps/init_org.cmfv", "cmd/cmaf-ingest-receiver/app/testdata/zero_3.84s/video-500Kbps", ".cmfv", []string{"0", "1", "2", "3", "4", "5"}, true, false},
	{"cmd/cmaf-ingest-receiver/app/testdata/zero_3.84s/audio-nor-128Kbps/init_org.cmfa", "cmd/cmaf-ingest-receiver/app/testdata/zero_3.84s/audio-nor-128Kbps", ".cmfa", []string{"0", "1", "2", "3", "4", "5"}, true, false},
	{"cmd/cmaf-ingest-receiver/app/testdata/zero_3.84s/text-nor-0/init_org.cmft", "cmd/cmaf-ingest-receiver/app/testdata/zero_3.84s/text-nor-0", ".cmft", []string{"0", "1", "2", "3", "4", "5"}, false, false},
	{"cmd/cmaf-ingest-receiver/app/testdata/awsMediaLiveScte35/scte/init.cmfm", "cmd/cmaf-ingest-receiver/app/testdata/awsMediaLiveScte35/scte", ".cmfm", []string{"896605655", "896605656", "896605657", "896605658"}, false, false},
	{"cmd/cmaf-ingest-receiver/app/testdata/awsMediaLiveScte35/audio/init.cmfa", "cmd/cmaf-ingest-receiver/app/testdata/awsMediaLiveScte35/audio", ".cmfa", []string{"896605655", "896605656", "896605657", "896605658"}, true, false},
}

var c18LiveURLs = []struct {
	URL    string // %d = segment number
	SegMS  int64
	Chunks int
}{
	{"/livesim2/chunkdur_0.5/ato_1.5/testpic_2s/V300/%d.m4s", 2000, 4},
	{"/livesim2/chunkdur_0.25/ato_1.75/testpic_2s/A48/%d.m4s", 2000, 8},
	{"/livesim2/chunkdur_1/ato_1/testpic_2s/imsc1_txt_sv/%d.m4s", 2000, 2},
	{"/livesim2/chunkdur_0.5/ato_1.5/testpic_2s/A48/%d.m4s", 2000, 4},
}

var c18BoxTypes = []string{"free", "styp", "moof", "mdat", "mdat", "mdat", "moov", "emsg", "prft", "skip", "ftyp", "sidx"}

// payload alphabet for synthetic boxes: bytes that look like small headers when the walk derails
var c18Alphabet = []byte{0, 0, 0, 0, 0, 8, 8, 9, 12, 16, 'm', 'd', 'a', 't', 'o', 'v', 'f', 0xff, 1}

func c18Payload(rng *core.Rng, n int) string {
	b := make([]byte, n)
	mode := rng.Intn(3)
	for i := range b {
		switch mode {
		case 0:
			b[i] = byte(0x41 + i%26) // never looks like a small size
		case 1:
			b[i] = core.Pick(rng, c18Alphabet)
		default:
			b[i] = byte(rng.Intn(256))
		}
	}
	return hex.EncodeToString(b)
}

func c18SynthBox(rng *core.Rng, typ string, maxPay int) c18Part {
	n := 0
	switch rng.Intn(4) {
	case 0:
		n = 0
	case 1:
		n = rng.Range(1, 8)
	default:
		n = rng.Range(0, maxPay)
	}
	return c18Part{Kind: "box", Type: typ, Hex: c18Payload(rng, n)}
}

func c18SegPart(tr c18Track, nr string) c18Part {
	return c18Part{Kind: "file", Path: tr.Dir + "/" + nr + tr.Ext}
}

func c18GenRecipe(rng *core.Rng, thorough bool) []c18Part {
	pickTrack := func() c18Track {
		for {
			tr := core.Pick(rng, c18Tracks)
			if tr.Big && !thorough && rng.Chance(0.6) {
				continue
			}
			return tr
		}
	}
	var rc []c18Part
	switch k := rng.Intn(100); {
	case k < 10: // init only
		rc = append(rc, c18Part{Kind: "file", Path: core.Pick(rng, c18Inits)})
	case k < 20: // one media segment
		tr := pickTrack()
		rc = append(rc, c18SegPart(tr, core.Pick(rng, tr.Nrs)))
	case k < 32: // init followed by media
		tr := pickTrack()
		rc = append(rc, c18Part{Kind: "file", Path: tr.Init})
		n := rng.Range(1, 3)
		for i := 0; i < n; i++ {
			rc = append(rc, c18SegPart(tr, tr.Nrs[(i+rng.Intn(2))%len(tr.Nrs)]))
		}
	case k < 50: // a segment re-chunked into several moof+mdat pairs
		var tr c18Track
		for {
			tr = pickTrack()
			if tr.Splittable {
				break
			}
		}
		if rng.Chance(0.3) {
			rc = append(rc, c18Part{Kind: "file", Path: tr.Init})
		}
		max := 8
		if thorough {
			max = 24
		}
		rc = append(rc, c18Part{Kind: "split", Init: tr.Init, Path: tr.Dir + "/" + core.Pick(rng, tr.Nrs) + tr.Ext, N: rng.Range(2, max)})
		if rng.Chance(0.25) {
			rc = append(rc, c18Part{Kind: "split", Init: tr.Init, Path: tr.Dir + "/" + core.Pick(rng, tr.Nrs) + tr.Ext, N: rng.Range(1, 4)})
		}
	case k < 58: // the package's own chunked vector
		if rng.Chance(0.4) {
			rc = append(rc, c18Part{Kind: "file", Path: "pkg/chunkparser/testdata/video_init.mp4"})
		}
		rc = append(rc, c18Part{Kind: "file", Path: "pkg/chunkparser/testdata/3_chunked.m4s"})
	case k < 70: // chunked low-latency response of the real server
		l := core.Pick(rng, c18LiveURLs)
		nr := int64(rng.Range(10, 2_000_000))
		rc = append(rc, c18Part{Kind: "live", URL: fmt.Sprintf(l.URL, nr), NowMS: (nr+1)*l.SegMS + 3000})
	case k < 78: // several whole segments
		tr := pickTrack()
		n := rng.Range(2, 4)
		for i := 0; i < n; i++ {
			rc = append(rc, c18SegPart(tr, tr.Nrs[i%len(tr.Nrs)]))
		}
	default: // synthetic boxes
		n := rng.Range(1, 7)
		if thorough {
			n = rng.Range(1, 14)
		}
		for i := 0; i < n; i++ {
			rc = append(rc, c18SynthBox(rng, core.Pick(rng, c18BoxTypes), 40))
		}
		if rng.Chance(0.2) {
			rc = append(rc, c18Part{Kind: "raw", Hex: c18Payload(rng, rng.Range(1, 7))})
		}
	}
	// sometimes surround real data with synthetic boxes
	if rng.Chance(0.15) {
		rc = append(rc, c18SynthBox(rng, core.Pick(rng, c18BoxTypes), 24))
	}
	if rng.Chance(0.08) {
		rc = append([]c18Part{c18SynthBox(rng, core.Pick(rng, []string{"free", "styp", "mdat", "moov"}), 16)}, rc...)
	}
	return rc
}

func c18U32(v uint32) string {
	var b [4]byte
	binary.BigEndian.PutUint32(b[:], v)
	return hex.EncodeToString(b[:])
}

// c18Interesting lists offsets around box boundaries of the stream.
func c18Interesting(in []byte, or *c18Oracle) []int {
	var out []int
	add := func(v int) {
		if v >= 0 && v <= len(in) {
			out = append(out, v)
		}
	}
	for _, b := range or.Boxes {
		for d := -2; d <= 9; d++ {
			add(b.Start + d)
		}
		add(b.End - 1)
	}
	for d := 0; d <= 9; d++ {
		add(or.WfEnd + d)
		add(len(in) - d)
	}
	if len(out) == 0 {
		out = append(out, 0)
	}
	return out
}

func (C18) Gen(rng *core.Rng, tier string, idx int) *core.Scenario {
	thorough := tier == "thorough"
	if thorough && idx%4 == 3 {
		return c18SweepScenario(tier, c18SweepTargets(true), idx/4)
	}
	if !thorough && idx%8 == 7 {
		return c18SweepScenario(tier, c18SweepTargets(false), idx/8)
	}
	w := c18World{TruncAt: -1, ErrAt: -1, CbErrAt: -1, BufSize: 1024}
	w.Recipe = c18GenRecipe(rng, thorough)
	clean := c18Build(&w)
	cor := c18Walk(clean)
	pts := c18Interesting(clean, cor)
	pickOff := func() int {
		if rng.Chance(0.7) {
			return core.Pick(rng, pts)
		}
		return rng.Intn(len(clean) + 1)
	}
	// corrupted size fields
	if len(cor.Boxes) > 0 && rng.Chance(0.24) {
		bi := rng.Intn(len(cor.Boxes))
		if rng.Chance(0.3) {
			bi = len(cor.Boxes) - 1
		}
		b := cor.Boxes[bi]
		rest := len(clean) - b.Start
		var v uint32
		switch k := rng.Intn(100); {
		case k < 10:
			v = 0
		case k < 28:
			v = uint32(rng.Range(1, 7))
		case k < 58: // beyond the body
			v = uint32(rest + core.Pick(rng, []int{1, 2, 7, 8, 9, 100, 1023, 1024, 1025, 4096, 70000}))
		case k < 62: // far beyond, still inside the cap
			v = uint32(rng.Range(1<<20, c18Cap-b.Start-16))
		case k < 80: // a little smaller / larger than the truth
			d := rng.Range(-16, 16)
			nv := b.End - b.Start + d
			if nv < 8 {
				nv = 8
			}
			v = uint32(nv)
		default:
			v = uint32(8)
		}
		w.Patches = append(w.Patches, c18Patch{Off: b.Start, Hex: c18U32(v)})
		if !c18Safe(c18Build(&w)) {
			w.Patches = nil
		}
	}
	if rng.Chance(0.22) {
		w.TruncAt = pickOff()
	}
	in := c18Build(&w)
	or := c18Walk(in)
	pts = c18Interesting(in, or)
	pickOff = func() int {
		if rng.Chance(0.7) {
			return core.Pick(rng, pts)
		}
		return rng.Intn(len(in) + 1)
	}
	// faults
	if rng.Chance(0.16) {
		w.ErrAt = pickOff()
		if rng.Chance(0.35) && len(or.MdatEnds) > 0 {
			w.ErrAt = core.Pick(rng, or.MdatEnds)
		}
		w.ErrWithData = rng.Bool()
	} else if rng.Chance(0.12) {
		w.CbErrAt = rng.Intn(len(or.MdatEnds) + 1)
	}
	w.EOFWithData = rng.Bool()
	w.BufSize = core.Pick(rng, []int{-1, 0, 1, 7, 8, 9, 16, 1023, 1024, 1024, 1024, 1025, len(in) - 1, len(in), len(in) + 1, 2*len(in) + 100, 1 << 16})
	if w.BufSize < -1 {
		w.BufSize = 0
	}
	if rng.Chance(0.1) {
		w.BufCap = core.Pick(rng, []int{1, 8, 1024, 70000})
	}
	// read schedule
	switch k := rng.Intn(100); {
	case k < 35:
		w.MaxRead = 0
	case k < 45 && (len(in) <= 6000 || thorough && len(in) <= 40000):
		w.MaxRead = 1
	case k < 62:
		w.MaxRead = rng.Range(2, 16)
	default:
		w.MaxRead = rng.Range(17, 3000)
	}
	sc := core.NewScenario("C18", "streamsim", 0, tier, w)
	nOps := rng.Range(0, 24)
	if thorough {
		nOps = rng.Range(0, 160)
	}
	for i := 0; i < nOps; i++ {
		switch k := rng.Intn(100); {
		case k < 60:
			sc.AddOp(c18Op{Op: "cut", At: pickOff()})
		case k < 82:
			sc.AddOp(c18Op{Op: "stall", At: pickOff(), N: rng.Range(1, 3)})
		default:
			a := pickOff()
			sc.AddOp(c18Op{Op: "max", At: a, To: a + rng.Range(1, 40), N: rng.Range(1, 3)})
		}
	}
	return sc
}

// ---------------------------------------------------------------------------------------
// Exhaustive sweeps: targets are fixed tables, scenarios are numbered (no randomness).

type c18Target struct {
	W     c18World
	Base  int
	Width int
}

func c18B(typ string, pay string) c18Part { return c18Part{Kind: "box", Type: typ, Hex: pay} }
func c18BS(typ string, pay string, size int64) c18Part {
	return c18Part{Kind: "box", Type: typ, Hex: pay, Size: &size}
}

var (
	c18TargetsOnce  sync.Once
	c18TargetsQuick []c18Target
	c18TargetsFull  []c18Target
)

func c18SweepTargets(thorough bool) []c18Target {
	c18TargetsOnce.Do(func() {
		base := func(rc ...c18Part) c18World {
			return c18World{Recipe: rc, TruncAt: -1, ErrAt: -1, CbErrAt: -1, BufSize: 1024}
		}
		whole := func(w c18World) c18Target {
			return c18Target{W: w, Base: 0, Width: len(c18Build(&w))}
		}
		var small, large []c18Target
		// short synthetic streams, all partitions of the whole stream
		small = append(small,
			whole(base(c18B("mdat", ""))),                                                        // 8
			whole(base(c18B("mdat", "aabb"))),                                                    // 10
			whole(base(c18B("moov", ""), c18B("mdat", "01"))),                                    // 17 -> too wide for quick? width 17 => 65536 masks: large
			whole(base(c18B("free", ""), c18BS("moov", "", 16))),                                 // header of an incomplete moov at the very end
			whole(base(c18BS("moov", "", 16))),                                                   // only the header of a moov
			whole(base(c18B("moov", ""))),                                                        // an empty moov is the whole stream
			whole(base(c18BS("mdat", "0102", 16))),                                               // size beyond the input
			whole(base(c18B("mdat", "00"), c18Part{Kind: "raw", Hex: "000000"})),                 // trailing partial header
			whole(base(c18BS("\x00\x00\x00\x08", "", 4), c18Part{Kind: "raw", Hex: "6d646174"})), // size 4, then a derailed walk finds [size 8 "mdat"]
		)
		large = append(large,
			whole(base(c18B("mdat", ""), c18B("mdat", ""))),                                           // 16
			whole(base(c18B("moov", ""), c18B("mdat", "010203"))),                                     // 19
			whole(base(c18B("free", ""), c18B("mdat", "0102"), c18Part{Kind: "raw", Hex: "0000"})),    // 20
			whole(base(c18B("styp", ""), c18B("moof", ""), c18B("mdat", ""))),                         // 24
			whole(base(c18B("mdat", "01"), c18B("moov", ""), c18B("mdat", ""))),                       // 25 -> capped below
			whole(base(c18B("free", ""), c18B("moov", ""))),                                           // 16, moov is the last box
			whole(base(c18BS("f\x00\x00\x00", "", 5), c18Part{Kind: "raw", Hex: "0b6d646174010203"})), // size 5: a derailed walk finds [size 11 "mdat"] at +5
		)
		// header regions of real streams: every cut set inside a window around a box boundary
		region := func(w c18World, at int, width int) c18Target {
			if at < 0 {
				at = 0
			}
			return c18Target{W: w, Base: at, Width: width}
		}
		v500 := "cmd/cmaf-ingest-receiver/app/testdata/zero_3.84s/video-500Kbps"
		initSeg := base(c18Part{Kind: "file", Path: v500 + "/init_org.cmfv"}, c18Part{Kind: "split", Init: v500 + "/init_org.cmfv", Path: v500 + "/1.cmfv", N: 3})
		in := c18Build(&initSeg)
		or := c18Walk(in)
		for _, b := range or.Boxes {
			switch b.Type {
			case "ftyp", "moov":
				small = append(small, region(initSeg, b.Start-3, 13))
				large = append(large, region(initSeg, b.Start-4, 15))
			case "mdat":
				small = append(small, region(initSeg, b.End-6, 13))
				large = append(large, region(initSeg, b.Start-4, 15), region(initSeg, b.End-9, 15))
			}
		}
		chunked := base(c18Part{Kind: "file", Path: "pkg/chunkparser/testdata/3_chunked.m4s"})
		in = c18Build(&chunked)
		or = c18Walk(in)
		for _, b := range or.Boxes {
			if b.Type == "mdat" {
				small = append(small, region(chunked, b.End-5, 12))
				large = append(large, region(chunked, b.End-9, 15))
			}
		}
		for _, tg := range small {
			if tg.Width > 13 {
				large = append(large, tg)
			} else {
				c18TargetsQuick = append(c18TargetsQuick, tg)
			}
		}
		c18TargetsFull = append(c18TargetsFull, c18TargetsQuick...)
		for _, tg := range large {
			if tg.Width > 24 {
				tg.Width = 24
			}
			c18TargetsFull = append(c18TargetsFull, tg)
		}
	})
	if thorough {
		return c18TargetsFull
	}
	return c18TargetsQuick
}

const c18BlockBits = 13 // masks per sweep scenario (each run with both EOF modes)

var c18SweepBufs = []int{1024, 0, 1, 9, -1, 1 << 12}

func c18SweepScenario(tier string, tgs []c18Target, no int) *core.Scenario {
	// flatten (target, block) pairs; scenario number -> pair, round-robin over targets first
	type ent struct {
		t     int
		block uint32
	}
	var ents []ent
	maxBlocks := uint32(0)
	nb := make([]uint32, len(tgs))
	for i, tg := range tgs {
		nb[i] = 1
		if tg.Width-1 > c18BlockBits {
			nb[i] = 1 << uint(tg.Width-1-c18BlockBits)
		}
		if nb[i] > maxBlocks {
			maxBlocks = nb[i]
		}
	}
	for b := uint32(0); b < maxBlocks; b++ {
		for i := range tgs {
			if b < nb[i] {
				ents = append(ents, ent{i, b})
			}
		}
	}
	e := ents[no%len(ents)]
	round := no / len(ents)
	tg := tgs[e.t]
	w := tg.W
	w.BufSize = c18SweepBufs[round%len(c18SweepBufs)]
	per := uint32(1) << c18BlockBits
	total := uint32(1) << uint(tg.Width-1)
	if per > total {
		per = total
	}
	w.Sweep = &c18Sweep{Base: tg.Base, Width: tg.Width, Lo: e.block * per, N: per}
	return core.NewScenario("C18", "streamsim", 0, tier, w)
}

//go:build !race

package props

// ygNeutralisePools is only meaningful under the race detector (see recvsim_race.go).
func ygNeutralisePools() bool { return false }

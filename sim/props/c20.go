package props

import (
	"fmt"
	"io"
	"net/netip"
	"os"
	"path/filepath"
	"sort"
	"strconv"
	"strings"
	"sync"
	"testing"
	"time"

	"github.com/Dash-Industry-Forum/livesim2/cmd/livesim2/app"

	"verif/sim/core"
	"verif/sim/hx"
)

// C20 — the request limiter enforces its quota exactly, also under concurrency (engines R, B).
//
// Two scenario kinds (world.kind):
//
//	api-race  engine R: 2..6 client goroutines call Inc(now, ip) / Count(ip) / EndTime() and the
//	          /reqcount handler's read sequence (Count(ip); EndTime()) on a real IPRequestLimiter in
//	          the scenario's order through race-invisible gates. The `now` arguments are decoupled
//	          from the execution order (a caller reads its clock before it gets the lock). The executed
//	          order is known, so the sequential model is checked along it; afterwards the race
//	          detector's log is read (hx.RaceSince).
//	mw-clock  engine B: one goroutine in a synctest bubble drives the real router (hx.NewSrv with
//	          MaxRequests) with requests on /livesim2 and /vod and GET /reqcount; the fake clock is moved
//	          by "sleep" ops to instants just below / at / above the interval boundary.
//
// Why no gated clients on the real router: measured, the race detector's verdict is not a function of
// the scenario there. A shadow cell has 4 slots, a goroutine may hold two (read + write), a full cell
// evicts the slot given by the accessing goroutine's trace position, and under -race sync.Pool.Put
// drops one object in four at random (chi route contexts, fmt in middleware.RequestID) which moves
// that position: an earlier unlocked read is forgotten in some runs and not in others (13 of 74
// scenarios flipped between two identical runs). Direct calls have no such randomness (the same
// verdicts in every run), and they replay exactly the accesses the handlers make.
//
// Model (from the statement; DESIGN.md §7 C20 "reset only when now − resetTime > interval"):
// one interval start for all addresses, per address a counter; a request whose instant is more than
// one interval after the interval's start opens a new interval at its own instant; the k-th request
// of an address in an interval carries k; it passes iff k <= max or the address is in a white-listed block.

type c20World struct {
	Kind       string   `json:"kind"`
	Max        int      `json:"max"`
	IntervalNS int64    `json:"interval_ns"` // mw-*: whole seconds
	WhiteList  []string `json:"whitelist,omitempty"`
	Clients    int      `json:"clients"`
	Log        bool     `json:"log,omitempty"` // api-race: a request-limit log file is configured (state dumped at each interval end)
}

type c20Op struct {
	Client  int    `json:"client"`
	Op      string `json:"op"`                 // api-race: inc | count | endtime | read ; mw-clock: req | reqcount | sleep
	IP      string `json:"ip,omitempty"`       // client address as spelled by the client / proxy
	NowNS   int64  `json:"now_ns,omitempty"`   // api-race: `now` argument, offset from the limiter's start
	Via     string `json:"via,omitempty"`      // remote | xff | both (xff + an unrelated peer address)
	Path    string `json:"path,omitempty"`     // live | vod
	Method  string `json:"method,omitempty"`   // GET | HEAD
	SleepNS int64  `json:"sleep_ns,omitempty"` // sleep: advance of the fake clock
	Park    int    `json:"park,omitempty"`     // api-race: park this call before its k-th mutex acquisition (lock-instrumented build)
	Hold    int    `json:"hold,omitempty"`     // ... and resume it after this many further calls of other clients have started
	N       int    `json:"n,omitempty"`        // api-race flood: Inc at one instant for this many further, distinct addresses (c20FloodAddr)
}

// c20FloodAddr is the k-th address of a flood (many distinct clients inside one interval: the counter table grows).
func c20FloodAddr(k int) string {
	return fmt.Sprintf("10.%d.%d.%d", 64+(k>>16)&0x3f, (k>>8)&0xff, k&0xff)
}

type C20 struct{}

func init() { core.Register(C20{}) }

func (C20) ID() string      { return "C20" }
func (C20) Engine() string  { return "racesim" }
func (C20) NeedsRace() bool { return true }

const (
	c20Hdr      = "Livesim2-Requests"
	c20LivePath = "/livesim2/testpic_2s/Manifest.mpd"
	c20VodPath  = "/vod/testpic_2s/Manifest.mpd"
	c20PeerAddr = "198.51.100.77:4444" // peer of "via both" requests: the proxy, not the client
)

// ---------------------------------------------------------------------------------------
// reference model

type c20Model struct {
	max      int
	interval int64 // ns
	start    int64 // ns, start of the current interval
	counts   map[string]int
	wl       []netip.Prefix
	epoch    int
}

func newC20Model(w c20World) *c20Model {
	m := &c20Model{max: w.Max, interval: w.IntervalNS, counts: map[string]int{}}
	for _, b := range w.WhiteList {
		p, err := netip.ParsePrefix(b)
		if err != nil {
			panic(fmt.Sprintf("harness: bad white-list block %q: %v", b, err))
		}
		m.wl = append(m.wl, p)
	}
	return m
}

func (m *c20Model) whitelisted(a netip.Addr) bool {
	if !a.IsValid() {
		return false
	}
	a = a.Unmap()
	for _, p := range m.wl {
		if p.Contains(a) {
			return true
		}
	}
	return false
}

func (m *c20Model) elapsed(now int64) bool { return now-m.start > m.interval }

// inc applies one request at instant now (ns) for address key.
func (m *c20Model) inc(now int64, key string, a netip.Addr) (nr int, pass, restarted bool) {
	if m.elapsed(now) {
		m.counts = map[string]int{}
		m.start = now
		m.epoch++
		restarted = true
	}
	m.counts[key]++
	nr = m.counts[key]
	return nr, nr <= m.max || m.whitelisted(a), restarted
}

func (m *c20Model) restartAt(now int64) {
	m.counts = map[string]int{}
	m.start = now
	m.epoch++
}

// boundaryClass classifies the distance of an instant to the end of the current interval.
func (m *c20Model) boundaryClass(now int64) string {
	d := now - m.start
	switch {
	case d < 0:
		return "before-start"
	case d == m.interval:
		return "at"
	case d > m.interval && d <= m.interval+int64(time.Millisecond):
		return "just-above"
	case d > m.interval:
		return "above"
	case d >= m.interval-int64(time.Millisecond):
		return "just-below"
	}
	return "inside"
}

// c20Canon returns the address value of a spelling and its canonical text.
func c20Canon(ip string) (netip.Addr, string) {
	a, err := netip.ParseAddr(ip)
	if err != nil {
		return netip.Addr{}, ip
	}
	a = a.Unmap()
	return a, a.String()
}

func c20Family(a netip.Addr) string {
	if a.Is4() {
		return "v4"
	}
	return "v6"
}

// ---------------------------------------------------------------------------------------
// generator

func c20RandV4(rng *core.Rng) netip.Addr {
	var b [4]byte
	b[0] = byte(core.Pick(rng, []int{10, 172, 192, 203, 198, 100, 8}))
	for i := 1; i < 4; i++ {
		b[i] = byte(rng.Intn(256))
	}
	if rng.Chance(0.3) {
		b[3] = byte(core.Pick(rng, []int{0, 1, 127, 128, 254, 255}))
	}
	return netip.AddrFrom4(b)
}

func c20RandV6(rng *core.Rng) netip.Addr {
	var b [16]byte
	b[0], b[1], b[2], b[3] = 0x20, 0x01, 0x0d, 0xb8
	for i := 4; i < 16; i++ {
		if rng.Chance(0.45) {
			b[i] = byte(rng.Intn(256))
		}
	}
	if rng.Chance(0.2) {
		b[0], b[1] = 0xfd, byte(rng.Intn(256))
	}
	b[15] |= 1 // never all-zero tail: keeps the text from being "::"-only oddities
	return netip.AddrFrom16(b)
}

// c20LastOf returns the last address of a prefix.
func c20LastOf(p netip.Prefix) netip.Addr {
	p = p.Masked()
	b := p.Addr().AsSlice()
	for i := p.Bits(); i < len(b)*8; i++ {
		b[i/8] |= 1 << (7 - uint(i%8))
	}
	a, _ := netip.AddrFromSlice(b)
	return a
}

// c20GenBlocks draws white-list blocks and candidate addresses in and around them.
func c20GenBlocks(rng *core.Rng, n int) (blocks []string, cands []netip.Addr) {
	for i := 0; i < n; i++ {
		var a netip.Addr
		var bits int
		if rng.Bool() {
			a = c20RandV4(rng)
			bits = core.Pick(rng, []int{8, 12, 16, 24, 25, 30, 31, 32})
		} else {
			a = c20RandV6(rng)
			bits = core.Pick(rng, []int{32, 48, 56, 64, 65, 120, 127, 128})
		}
		p := netip.PrefixFrom(a, bits)
		txt := p.Masked().String()
		if rng.Chance(0.3) {
			txt = p.String() // host bits set: still a valid CIDR block
		}
		blocks = append(blocks, txt)
		first, last := p.Masked().Addr(), c20LastOf(p)
		cands = append(cands, first, last, a)
		if x := first.Prev(); x.IsValid() {
			cands = append(cands, x)
		}
		if x := last.Next(); x.IsValid() {
			cands = append(cands, x)
		}
	}
	return blocks, cands
}

// c20Spell returns an alternative spelling of the address (same value, other text).
func c20Spell(rng *core.Rng, a netip.Addr) string {
	if a.Is4() {
		return "::ffff:" + a.String()
	}
	if rng.Bool() {
		if up := strings.ToUpper(a.String()); up != a.String() {
			return up
		}
	}
	b := a.As16()
	parts := make([]string, 8)
	for i := 0; i < 8; i++ {
		parts[i] = fmt.Sprintf("%04x", int(b[2*i])<<8|int(b[2*i+1]))
	}
	return strings.Join(parts, ":")
}

func c20SpellForm(raw string, a netip.Addr) string {
	switch {
	case raw == a.String():
		return "canonical"
	case strings.HasPrefix(raw, "::ffff:"):
		return "v4-mapped"
	case len(raw) == 39:
		return "expanded"
	}
	return "uppercase"
}

func (C20) Gen(rng *core.Rng, tier string, idx int) *core.Scenario {
	thorough := tier == "thorough"
	w := c20World{}
	if rng.Intn(10) < 6 {
		w.Kind = "api-race"
	} else {
		w.Kind = "mw-clock"
	}
	w.Max = rng.Range(1, 4)
	if thorough && rng.Chance(0.5) {
		w.Max = rng.Range(1, 12)
	}
	w.Clients = rng.Range(2, 6)
	if w.Kind == "mw-clock" {
		w.Clients = 1
	}
	if w.Kind == "api-race" {
		w.IntervalNS = core.Pick(rng, []int64{1, 1000, int64(time.Millisecond), int64(time.Second), 10 * int64(time.Second), 86400 * int64(time.Second)})
	} else {
		w.IntervalNS = int64(core.Pick(rng, []int{1, 1, 2, 3, 5, 60, 86400})) * int64(time.Second)
	}
	nBlocks := core.Pick(rng, []int{0, 1, 1, 2, 3})
	var cands []netip.Addr
	w.WhiteList, cands = c20GenBlocks(rng, nBlocks)
	// address set: some around the blocks, some free
	nAddr := rng.Range(1, 4)
	if thorough {
		nAddr = rng.Range(1, 8)
	}
	var addrs []netip.Addr
	seen := map[netip.Addr]bool{}
	for len(addrs) < nAddr {
		var a netip.Addr
		switch {
		case len(cands) > 0 && rng.Chance(0.6):
			a = core.Pick(rng, cands)
		case rng.Bool():
			a = c20RandV4(rng)
		default:
			a = c20RandV6(rng)
		}
		if !seen[a] {
			seen[a] = true
			addrs = append(addrs, a)
		}
	}
	if w.Kind == "api-race" {
		w.Log = rng.Chance(0.5)
	}
	sc := core.NewScenario("C20", "racesim", 0, tier, w)
	m := newC20Model(w)
	nOps := rng.Range(8, 40)
	if thorough {
		nOps = rng.Range(30, 250)
	}
	if w.Kind != "api-race" {
		nOps = rng.Range(8, 30)
		if thorough {
			nOps = rng.Range(20, 120)
		}
	}
	// step towards / around the end of the current interval, from instant t
	boundaryStep := func(t int64) int64 {
		target := m.start + m.interval + int64(core.Pick(rng, []int{-1, 0, 0, 1, 1}))
		if target < t {
			return 0
		}
		return target - t
	}
	smallStep := func() int64 {
		q := m.interval / int64(4*(w.Max+1))
		if q < 1 {
			q = 1
		}
		return rng.Range64(0, q)
	}

	if w.Kind == "api-race" {
		T := int64(0) // instant of execution
		lastNow := make([]int64, w.Clients)
		flooded := false
		for i := 0; i < nOps; i++ {
			op := c20Op{Client: rng.Intn(w.Clients)}
			a := core.Pick(rng, addrs)
			op.IP = a.String()
			if !flooded && i > 2 && rng.Chance(0.012) {
				// many distinct addresses inside the current interval, then a known address again at the same instant:
				// its counter must have survived whatever the table does with that many entries
				flooded = true
				now := T
				if now < lastNow[op.Client] {
					now = lastNow[op.Client]
				}
				lastNow[op.Client] = now
				fl := c20Op{Client: op.Client, Op: "flood", NowNS: now, N: core.Pick(rng, []int{300, 1100, 4200, 9000, 17000, 70000})}
				for k := 0; k < fl.N; k++ {
					ip := c20FloodAddr(k)
					fa, _ := c20Canon(ip)
					m.inc(now, ip, fa)
				}
				sc.AddOp(fl)
				after := c20Op{Client: op.Client, Op: "inc", IP: op.IP, NowNS: now}
				m.inc(now, after.IP, a)
				sc.AddOp(after)
				continue
			}
			switch k := rng.Intn(20); {
			case k < 12:
				op.Op = "inc"
			case k < 14:
				op.Op = "count"
			case k < 17:
				op.Op = "endtime"
			default:
				op.Op = "read" // what GET /reqcount does: Count(ip), then EndTime()
			}
			if op.Op == "inc" {
				switch k := rng.Intn(20); {
				case k < 6: // same instant
				case k < 12:
					T += smallStep()
				case k < 17:
					T += boundaryStep(T)
				case k < 19:
					T += m.interval + rng.Range64(1, m.interval/2+2)
				default:
					T += 3*m.interval + rng.Range64(0, m.interval)
				}
				now := T
				switch k := rng.Intn(20); { // clock read before the lock was obtained
				case k < 9:
				case k < 11:
					now--
				case k < 17:
					now -= rng.Range64(0, m.interval/4+1)
				default:
					now -= m.interval + rng.Range64(0, m.interval+1) // descheduled for long
				}
				if now < lastNow[op.Client] { // a client's own clock readings are monotone
					now = lastNow[op.Client]
				}
				if now < 0 {
					now = 0
				}
				lastNow[op.Client] = now
				op.NowNS = now
				m.inc(now, op.IP, a)
			}
			if rng.Chance(0.12) { // another client's calls run while this one waits in front of a mutex
				op.Park = core.Pick(rng, []int{1, 1, 2, 2, 3})
				op.Hold = rng.Range(1, 3)
			}
			sc.AddOp(op)
		}
		return sc
	}

	// mw-clock
	useAlias := rng.Chance(0.25)
	T := int64(0)
	for i := 0; i < nOps; i++ {
		if i > 0 || rng.Chance(0.5) {
			// move the clock
			var d int64
			switch k := rng.Intn(20); {
			case k < 7:
				d = smallStep()
			case k < 15:
				d = boundaryStep(T)
			case k < 18:
				d = m.interval + rng.Range64(1, m.interval/2+2)
			default:
				d = 3*m.interval + rng.Range64(0, m.interval)
			}
			if d > 0 || rng.Chance(0.3) {
				sc.AddOp(c20Op{Op: "sleep", SleepNS: d})
				T += d
			}
		}
		op := c20Op{}
		a := core.Pick(rng, addrs)
		op.IP = a.String()
		op.Via = core.Pick(rng, []string{"remote", "remote", "xff", "xff", "both"})
		if useAlias && rng.Chance(0.4) {
			op.IP = c20Spell(rng, a)
		}
		if rng.Chance(0.2) {
			op.Op = "reqcount"
		} else {
			op.Op = "req"
			op.Path = core.Pick(rng, []string{"live", "vod"})
			op.Method = core.Pick(rng, []string{"GET", "GET", "GET", "HEAD"})
			_, canon := c20Canon(op.IP)
			m.inc(T, canon, a)
		}
		sc.AddOp(op)
	}
	return sc
}

// ---------------------------------------------------------------------------------------
// executor

type c20Obs struct {
	done   bool
	nr     int
	maxNr  int
	ok     bool
	end    time.Time
	status int
	hdr    string
	body   string
	panicV string
	frame  string
	flood  []c20FloodRes
}

type c20FloodRes struct {
	nr, maxNr int
	ok        bool
}

func (p C20) Run(t *testing.T, sc *core.Scenario, res *core.Result) {
	w, err := core.DecodeWorld[c20World](sc)
	if err != nil {
		panic("harness: C20 world: " + err.Error())
	}
	ops, err := core.DecodeOps[c20Op](sc)
	if err != nil {
		panic("harness: C20 ops: " + err.Error())
	}
	if w.Max < 1 || w.IntervalNS < 1 {
		panic("harness: C20 world without quota")
	}
	if w.Clients < 1 {
		w.Clients = 1
	}
	res.Event("world %s max=%d interval=%d wl=%v clients=%d", w.Kind, w.Max, w.IntervalNS, w.WhiteList, w.Clients)
	res.Count("kind." + w.Kind)
	switch w.Kind {
	case "api-race":
		c20RunAPI(w, ops, res)
	case "mw-clock":
		c20RunMW(t, w, ops, res)
	default:
		panic("harness: C20 unknown kind " + w.Kind)
	}
}

// c20RaceCheck turns the race reports since the mark into violations.
func c20RaceCheck(mark hx.RaceMarkT, res *core.Result) {
	reps, err := hx.RaceSince(mark)
	if err == hx.ErrRaceInactive {
		res.Count("probe.race-detection-inactive")
		return
	}
	if err != nil {
		panic("harness: reading race log: " + err.Error())
	}
	res.Count("probe.race-checked")
	if !hx.RaceDedupOff() {
		// without GORACE suppress_equal_stacks=0 a race is reported once per process only
		res.Count("probe.race-dedup-on")
	}
	for _, r := range reps {
		res.Count("probe.race-report")
		res.Violate("C20.race-free", r.Sig(), "%s", r.Detail())
	}
}

// c20Serial runs ops[lo:hi] (none of them a sleep) through the gates; obs[i] is written by the
// goroutine of the op's client; the only visible synchronisation is the closing of a per-client
// channel after the client's last operation (client -> controller only).
func c20Serial(w c20World, ops []c20Op, idxs []int, obs []c20Obs, exec func(i int) c20Obs) {
	clients := make([][]func(), w.Clients)
	done := make([]chan struct{}, w.Clients)
	var order []int
	for _, i := range idxs {
		i := i
		c := ops[i].Client
		if c < 0 || c >= w.Clients {
			c = 0
		}
		clients[c] = append(clients[c], func() { obs[i] = exec(i) })
		order = append(order, c)
	}
	for c := range clients {
		c := c
		done[c] = make(chan struct{})
		clients[c] = append(clients[c], func() { close(done[c]) })
	}
	r := hx.RunSerialized(clients, order, 0)
	if r.Hung {
		panic("harness: serialized run hung")
	}
	for c := range done {
		<-done[c]
	}
}

var c20InstallOnce sync.Once

// c20SerialYield is c20Serial with scheduling points: a call may be parked before its k-th mutex acquisition
// (the -race binary is built from a lock-instrumented copy of the repository) while calls of other clients run;
// it returns the indices in completion order. A client's own parked call is resumed before its next call starts.
func c20SerialYield(w c20World, ops []c20Op, idxs []int, obs []c20Obs, exec func(i int) c20Obs, res *core.Result) []int {
	clientOf := func(i int) int {
		c := ops[i].Client
		if c < 0 || c >= w.Clients {
			c = 0
		}
		return c
	}
	clients := make([][]ygOp, w.Clients)
	opOf := make([][]int, w.Clients)
	for _, i := range idxs {
		i := i
		c := clientOf(i)
		park := map[string]bool{}
		if k := ops[i].Park; k > 0 {
			if ops[i].Op == "read" {
				k = 1 // two calls (Count, then EndTime): between them the operation is not one observation
			}
			park["lock#"+strconv.Itoa(k)] = true
		}
		clients[c] = append(clients[c], ygOp{ParkAt: park, Fn: func() { obs[i] = exec(i) }})
		opOf[c] = append(opOf[c], i)
	}
	c20InstallOnce.Do(func() { app.SimYield = ygDispatch })
	runner := newYgRunner(clients)
	ygSetCurrent(runner)
	runner.Start()
	hold := map[int]int{} // parked client -> calls of others still to start before it resumes
	var order []int
	step := func(c int) {
		st := runner.Step(c, 20*time.Second)
		if runner.Hung {
			panic("harness: serialized run hung")
		}
		switch {
		case st.Noop:
		case st.Parked != "":
			if _, ok := hold[c]; !ok {
				hold[c] = ops[opOf[c][st.OpIdx]].Hold
				res.Count("fault.park-before-lock")
			}
		default:
			order = append(order, opOf[c][st.OpIdx])
			delete(hold, c)
		}
	}
	finish := func(c int) {
		for runner.InFlight(c) {
			step(c)
		}
	}
	for _, i := range idxs {
		c := clientOf(i)
		finish(c)
		step(c)
		for _, oc := range sortedIntKeys2(hold) {
			if oc == c {
				continue
			}
			hold[oc]--
			if hold[oc] <= 0 {
				finish(oc)
			}
		}
	}
	for _, oc := range sortedIntKeys2(hold) {
		finish(oc)
	}
	runner.Finish()
	ygSetCurrent(nil)
	return order
}

func sortedIntKeys2(m map[int]int) []int {
	var ks []int
	for k := range m {
		ks = append(ks, k)
	}
	sort.Ints(ks)
	return ks
}

type c20Checker struct {
	w        c20World
	m        *c20Model
	res      *core.Result
	aliasVia map[string]string // canonical address -> "xff" once a forwarded alias spelling was seen
	aliasEx  map[string]string // canonical address -> the first such spelling
	maxNow   int64
	sawLimit bool
	sawPass  bool
	restarts int
	values   map[string][]int // epoch|address -> counter values observed
	// diverged: the system has left the model (a functional violation was reported). Everything
	// after that point is a consequence of the same cause, so the functional checks stop: one cause,
	// one report. (Races and address spelling are independent of it and keep being checked.)
	diverged bool
}

func newC20Checker(w c20World, res *core.Result) *c20Checker {
	return &c20Checker{w: w, m: newC20Model(w), res: res, aliasVia: map[string]string{}, aliasEx: map[string]string{}, values: map[string][]int{}}
}

func (c *c20Checker) fail(inv string, sig map[string]string, format string, args ...any) {
	c.res.Violate(inv, sig, format, args...)
	c.diverged = true
}

func c20ModeClass(mode string) string {
	if mode == "api" {
		return "api"
	}
	return "http"
}

func c20ViaClass(mode string) string {
	switch mode {
	case "api":
		return "api"
	case "remote":
		return "remote"
	}
	return "xff"
}

// request checks one counted request (Inc or middleware request) against the model.
// mode: api | remote | xff | both ; gotMax < -1 means "not reported".
func (c *c20Checker) request(i int, now int64, rawIP, mode string, gotNr int, gotPass bool, gotMax int) {
	res, m := c.res, c.m
	if gotPass {
		c.sawPass = true
	} else {
		c.sawLimit = true
		res.Count("probe.limited")
	}
	if c.diverged {
		return
	}
	a, key := c20Canon(rawIP)
	fam := c20Family(a)
	if fam == "v6" {
		res.Count("probe.ipv6")
	}
	c.noteSpelling(rawIP, key, mode)
	if now < c.maxNow {
		res.Count("fault.stale-now")
	} else {
		c.maxNow = now
	}
	bclass := m.boundaryClass(now)
	if bclass != "inside" && bclass != "above" {
		res.Count("probe.boundary-" + bclass)
	}
	prev := m.counts[key]
	prevStart := m.start
	wl := m.whitelisted(a)
	nr, pass, restarted := m.inc(now, key, a)
	if restarted {
		c.restarts++
		res.Count("probe.restart")
		if prev > 0 {
			res.Count("probe.restart-of-used-counter")
		}
	}
	if wl && nr > m.max {
		res.Count("probe.whitelisted-over-quota")
	}
	if !wl && len(m.wl) > 0 && nr > m.max {
		res.Count("probe.limited-beside-whitelist")
	}
	aliased := c.aliasVia[key] != ""
	ek := fmt.Sprintf("%d|%s", m.epoch, key)
	c.values[ek] = append(c.values[ek], gotNr)
	if gotNr != nr {
		if aliased {
			// not a divergence of the interval logic: the other addresses stay checkable
			res.Violate("C20.address-identity", core.Sig("kind", "spelling-counted-separately", "family", fam, "via", c.aliasVia[key]),
				"op %d: address %s (this request spelled %q via %s; forwarded earlier as %q) is request nr %d of its interval but was counted as nr %d",
				i, key, rawIP, mode, c.aliasEx[key], nr, gotNr)
			return
		}
		sig := core.Sig("mode", c20ModeClass(mode))
		switch {
		case restarted && gotNr == prev+1:
			sig["kind"], sig["boundary"] = "restart-missing", bclass
		case !restarted && gotNr == 1 && prev > 0:
			sig["kind"], sig["boundary"] = "restart-early", bclass
		case gotNr <= prev && !restarted, gotNr < nr:
			sig["kind"] = "repeat"
		default:
			sig["kind"] = "skip"
		}
		c.fail("C20.counter-sequence", sig,
			"op %d: address %s at now=%dns (interval start %dns, interval %dns): counter %d, want %d (previous value %d)",
			i, key, now, prevStart, m.interval, gotNr, nr, prev)
		return
	}
	if gotPass != pass {
		switch {
		case wl:
			c.fail("C20.whitelist-never-limited", core.Sig("kind", "whitelisted-limited", "family", fam, "via", c20ViaClass(mode)),
				"op %d: white-listed %s (blocks %v) was limited at count %d (max %d)", i, key, c.w.WhiteList, gotNr, m.max)
		case gotPass:
			sig := core.Sig("kind", "passed-over-quota", "whitelist", "none", "mode", c20ModeClass(mode))
			if len(m.wl) > 0 {
				sig["whitelist"], sig["family"] = "some", fam
			}
			c.fail("C20.quota-exact", sig, "op %d: %s passed with count %d > max %d (blocks %v)", i, key, gotNr, m.max, c.w.WhiteList)
		default:
			c.fail("C20.quota-exact", core.Sig("kind", "limited-within-quota", "mode", c20ModeClass(mode)),
				"op %d: %s limited with count %d <= max %d", i, key, gotNr, m.max)
		}
		return
	}
	if gotMax >= -1 && !wl && gotMax != m.max {
		c.fail("C20.quota-exact", core.Sig("kind", "reported-max-wrong", "mode", c20ModeClass(mode)),
			"op %d: reported max %d, configured %d", i, gotMax, m.max)
	}
}

// noteSpelling records that an address was presented in a non-canonical spelling.
func (c *c20Checker) noteSpelling(rawIP, key, mode string) {
	if rawIP == key || mode == "api" {
		return
	}
	c.res.Count("probe.alias-spelling-" + mode)
	if mode != "remote" {
		// the peer address of a connection is parsed by the server; a forwarded address is text written
		// by a proxy: from here on one counter per address (the model) and one per text can differ
		c.aliasVia[key] = "xff"
		if c.aliasEx[key] == "" {
			c.aliasEx[key] = rawIP
		}
	}
}

// count checks a counter read.
func (c *c20Checker) count(i int, rawIP, mode string, got int) {
	if c.diverged {
		return
	}
	a, key := c20Canon(rawIP)
	c.noteSpelling(rawIP, key, mode)
	want := c.m.counts[key]
	if got == want {
		return
	}
	if c.aliasVia[key] != "" {
		c.res.Violate("C20.address-identity", core.Sig("kind", "spelling-counted-separately", "family", c20Family(a), "via", c.aliasVia[key]),
			"op %d: counter read for %s (spelled %q via %s; forwarded earlier as %q) gives %d, the address made %d requests in this interval",
			i, key, rawIP, mode, c.aliasEx[key], got, want)
		return
	}
	dir := "higher"
	if got < want {
		dir = "lower"
	}
	c.fail("C20.counter-read", core.Sig("kind", "count-differs", "dir", dir, "mode", c20ModeClass(mode)),
		"op %d: counter read for %s gives %d, the address made %d requests in this interval", i, key, got, want)
}

// endTime checks a reading of the end of the current interval (ns after the limiter's start).
func (c *c20Checker) endTime(i int, got int64, mode string) {
	if c.diverged {
		return
	}
	if want := c.m.start + c.m.interval; got != want {
		c.fail("C20.end-time", core.Sig("kind", "end-of-interval-wrong", "mode", c20ModeClass(mode)),
			"op %d: end of interval reported %dns after the limiter's start; the interval started at %dns and lasts %dns", i, got, c.m.start, c.m.interval)
	}
}

// finish checks "each value 1..k exactly once" per address and interval on the observed values
// (a relation between the system's own outputs; the interval an output belongs to comes from the model).
func (c *c20Checker) finish() {
	if !c.diverged {
		for _, k := range sortedKeys(c.values) {
			_, key, _ := strings.Cut(k, "|")
			if c.aliasVia[key] != "" {
				continue // reported as address-identity
			}
			vs := append([]int(nil), c.values[k]...)
			sort.Ints(vs)
			for j, v := range vs {
				if v != j+1 {
					kind := "value-missing"
					if j > 0 && v == vs[j-1] {
						kind = "value-twice"
					}
					c.fail("C20.counter-sequence", core.Sig("kind", kind, "mode", "interval-summary"),
						"address %s: counter values of one interval %v are not 1..%d each once", key, c.values[k], len(vs))
					break
				}
			}
			if c.diverged {
				break
			}
		}
	}
	c.res.Nontrivial = c.sawPass && (c.sawLimit || c.restarts > 0)
	if c.restarts > 0 && c.sawLimit {
		c.res.Count("probe.limit-and-restart")
	}
}

var c20Base = time.Date(2024, 3, 9, 12, 0, 0, 0, time.UTC)

func c20RunAPI(w c20World, ops []c20Op, res *core.Result) {
	logFile := ""
	if w.Log {
		dir, err := os.MkdirTemp("", "verif-c20-")
		if err != nil {
			panic("harness: " + err.Error())
		}
		defer os.RemoveAll(dir)
		logFile = filepath.Join(dir, "reqlimit.log")
		res.Count("probe.limit-log-configured")
	}
	il, err := app.NewIPRequestLimiter(w.Max, time.Duration(w.IntervalNS), c20Base, strings.Join(w.WhiteList, ","), logFile)
	if err != nil {
		panic("harness: NewIPRequestLimiter: " + err.Error())
	}
	obs := make([]c20Obs, len(ops))
	var idxs []int
	for i, op := range ops {
		switch op.Op {
		case "inc", "count", "endtime", "read", "flood":
			idxs = append(idxs, i)
		}
	}
	exec := func(i int) c20Obs {
		op := ops[i]
		o := c20Obs{done: true}
		switch op.Op {
		case "inc":
			o.nr, o.maxNr, o.ok = il.Inc(c20Base.Add(time.Duration(op.NowNS)), op.IP)
		case "flood":
			o.flood = make([]c20FloodRes, op.N)
			at := c20Base.Add(time.Duration(op.NowNS))
			for k := range o.flood {
				f := &o.flood[k]
				f.nr, f.maxNr, f.ok = il.Inc(at, c20FloodAddr(k))
			}
		case "count":
			o.nr = il.Count(op.IP)
		case "endtime":
			o.end = il.EndTime()
		case "read": // reqCountHandlerFunc: the count under the lock, then the end of the interval
			o.nr = il.Count(op.IP)
			o.end = il.EndTime()
		}
		return o
	}
	mark := hx.RaceMark()
	idxs = c20SerialYield(w, ops, idxs, obs, exec, res) // now in completion order
	c20RaceCheck(mark, res)

	ck := newC20Checker(w, res)
	var lastT int64
	// the racy pattern: an unlocked EndTime of one client and an interval-opening Inc of another
	endBy := map[int]bool{}
	restartBy := map[int]bool{}
	for _, i := range idxs {
		op, o := ops[i], obs[i]
		if !o.done {
			panic("harness: operation not executed")
		}
		res.Count("op." + op.Op)
		switch op.Op {
		case "inc":
			res.Event("%d c%d inc %s now=%d -> %d %d %v", i, op.Client, op.IP, op.NowNS, o.nr, o.maxNr, o.ok)
			before := ck.restarts
			ck.request(i, op.NowNS, op.IP, "api", o.nr, o.ok, o.maxNr)
			if ck.restarts > before {
				restartBy[op.Client] = true
			}
			if op.NowNS > lastT {
				lastT = op.NowNS
			}
		case "flood":
			res.Event("%d c%d flood %d addresses now=%d", i, op.Client, op.N, op.NowNS)
			res.Count("fault.address-flood")
			if op.N > 8000 {
				res.Count("probe.flood-over-8000-addresses")
			}
			before := ck.restarts
			for k, f := range o.flood {
				ck.request(i, op.NowNS, c20FloodAddr(k), "api", f.nr, f.ok, f.maxNr)
			}
			if ck.restarts > before {
				restartBy[op.Client] = true
			}
			if op.NowNS > lastT {
				lastT = op.NowNS
			}
		case "count":
			res.Event("%d c%d count %s -> %d", i, op.Client, op.IP, o.nr)
			ck.count(i, op.IP, "api", o.nr)
		case "endtime", "read":
			got := int64(o.end.Sub(c20Base))
			if op.Op == "read" {
				res.Event("%d c%d read %s -> %d %d", i, op.Client, op.IP, o.nr, got)
				ck.count(i, op.IP, "api", o.nr)
			} else {
				res.Event("%d c%d endtime -> %d", i, op.Client, got)
			}
			endBy[op.Client] = true
			ck.endTime(i, got, "api")
		}
	}
	for _, ec := range sortedIntKeys(endBy) {
		for _, rc := range sortedIntKeys(restartBy) {
			if ec != rc {
				res.Count("probe.endtime-vs-restart-of-other-client")
				goto out
			}
		}
	}
out:
	ck.finish()
	res.SimMS += lastT / int64(time.Millisecond)
}

func sortedIntKeys(m map[int]bool) []int {
	ks := make([]int, 0, len(m))
	for k := range m {
		ks = append(ks, k)
	}
	sort.Ints(ks)
	return ks
}

// c20VodRoot copies the one small asset the requests use into a scratch VoD root (server set-up
// is 3x faster than with all bundled assets); the caller removes it.
func c20VodRoot() string {
	dir := hx.TempDir("c20")
	src := filepath.Join(hx.BundledAssets, "testpic_2s")
	err := filepath.Walk(src, func(p string, info os.FileInfo, err error) error {
		if err != nil {
			return err
		}
		rel, _ := filepath.Rel(hx.BundledAssets, p)
		dst := filepath.Join(dir, rel)
		if info.IsDir() {
			return os.MkdirAll(dst, 0o755)
		}
		in, err := os.Open(p)
		if err != nil {
			return err
		}
		defer in.Close()
		out, err := os.Create(dst)
		if err != nil {
			return err
		}
		defer out.Close()
		_, err = io.Copy(out, in)
		return err
	})
	if err != nil {
		os.RemoveAll(dir)
		panic("harness: C20 vod root: " + err.Error())
	}
	return dir
}

// c20ParseCount parses "<n> (max <m>)...".
func c20ParseCount(s string) (n, max int, ok bool) {
	f := strings.Fields(s)
	if len(f) < 3 || f[1] != "(max" {
		return 0, 0, false
	}
	n, err1 := strconv.Atoi(f[0])
	max, err2 := strconv.Atoi(strings.TrimSuffix(f[2], ")"))
	return n, max, err1 == nil && err2 == nil
}

func c20RunMW(t *testing.T, w c20World, ops []c20Op, res *core.Result) {
	vod := c20VodRoot()
	defer os.RemoveAll(vod)
	// the bubble has one goroutine of ours; a race report in it would come from the server's own goroutines
	mark := hx.RaceMark()
	completed := hx.Bubble(t, func(t *testing.T) {
		t0 := time.Now()
		srv, err := hx.NewSrv(hx.SrvOpts{VodRoot: vod, MaxRequests: w.Max, ReqLimitInt: int(w.IntervalNS / int64(time.Second)),
			WhiteList: strings.Join(w.WhiteList, ",")})
		if err != nil {
			panic("harness: C20 server: " + err.Error())
		}
		exec := func(op c20Op) c20Obs {
			o := c20Obs{done: true}
			hdr := map[string]string{}
			remote := c20PeerAddr
			switch op.Via {
			case "xff":
				hdr["X-Forwarded-For"] = op.IP
				remote = "127.0.0.1:5555" // the reverse proxy on the same host
			case "both":
				hdr["X-Forwarded-For"] = op.IP
			default:
				if strings.Contains(op.IP, ":") {
					remote = "[" + op.IP + "]:40123"
				} else {
					remote = op.IP + ":40123"
				}
			}
			var r *hx.Resp
			if op.Op == "reqcount" {
				r = hx.DoHandler(srv.S.Router, "GET", "/reqcount", nil, hdr, remote)
			} else {
				path := c20LivePath
				if op.Path == "vod" {
					path = c20VodPath
				}
				method := op.Method
				if method == "" {
					method = "GET"
				}
				r = hx.DoHandler(srv.S.Router, method, path, nil, hdr, remote)
			}
			o.status, o.hdr, o.panicV, o.frame = r.Status, r.Header.Get(c20Hdr), r.Panic, r.PanicFrame
			if op.Op == "reqcount" {
				o.body = string(r.Body)
			}
			return o
		}
		ck := newC20Checker(w, res)
		nowNS := func() int64 { return int64(time.Since(t0)) }
		for i, op := range ops {
			switch op.Op {
			case "sleep":
				if op.SleepNS > 0 {
					time.Sleep(time.Duration(op.SleepNS))
				}
				res.Count("op.sleep")
				res.Event("%d sleep %d -> now=%d", i, op.SleepNS, nowNS())
			case "req", "reqcount":
				c20CheckHTTP(ck, i, op, exec(op), nowNS(), t0, res)
			}
		}
		ck.finish()
		res.SimMS += nowNS() / int64(time.Millisecond)
	})
	if !completed {
		panic("harness: C20 bubble did not run to completion")
	}
	if reps, err := hx.RaceSince(mark); err == nil {
		for _, r := range reps {
			res.Violate("C20.race-free", r.Sig(), "single client: %s", r.Detail())
		}
	}
}

func c20CheckHTTP(ck *c20Checker, i int, op c20Op, o c20Obs, now int64, t0 time.Time, res *core.Result) {
	if !o.done {
		panic("harness: request not executed")
	}
	res.Count("op." + op.Op)
	via := op.Via
	if via == "" {
		via = "remote"
	}
	res.Count("probe.via-" + via)
	res.Event("%d c%d %s %s %s %s %s now=%d -> %d %q %q", i, op.Client, op.Op, op.Method, op.Path, via, op.IP, now, o.status, o.hdr, o.body)
	if o.panicV != "" {
		res.Violate("C20.no-panic", core.Sig("kind", "panic", "frame", o.frame, "op", op.Op), "op %d: panic %s", i, o.panicV)
		return
	}
	m := ck.m
	if ck.diverged {
		if op.Op == "req" {
			if o.status != 429 {
				ck.sawPass = true
			} else {
				ck.sawLimit = true
			}
		}
		return
	}
	if op.Op == "reqcount" {
		n, max, ok := c20ParseCount(o.body)
		if o.status != 200 || !ok {
			ck.fail("C20.counter-read", core.Sig("kind", "reqcount-unreadable", "status", strconv.Itoa(o.status)),
				"op %d: /reqcount answered %d %q", i, o.status, o.body)
			return
		}
		if m.elapsed(now) {
			// the interval is over and no request has opened a new one yet: the statement does not
			// say whether the old count or zero is reported
			res.Count("probe.reqcount-after-interval-end")
			return
		}
		ck.count(i, op.IP, via, n)
		if ck.diverged {
			return
		}
		if max != m.max {
			ck.fail("C20.quota-exact", core.Sig("kind", "reported-max-wrong", "mode", "http"), "op %d: /reqcount max %d, configured %d", i, max, m.max)
			return
		}
		// "until": end of the current interval, minute resolution as printed
		if _, until, found := strings.Cut(o.body, " until "); found {
			want := t0.Add(time.Duration(m.start + m.interval)).Format(time.RFC822)
			if until != want {
				ck.fail("C20.end-time", core.Sig("kind", "end-of-interval-wrong", "mode", "http"),
					"op %d: /reqcount says until %q, the interval ends %q", i, until, want)
			}
		}
		return
	}
	// counted request
	n, max, ok := c20ParseCount(o.hdr)
	if !ok {
		ck.fail("C20.counter-sequence", core.Sig("kind", "header-missing", "status", strconv.Itoa(o.status)),
			"op %d: response %d without readable %s header %q", i, o.status, c20Hdr, o.hdr)
		return
	}
	pass := o.status != 429
	if pass && o.status != 200 {
		ck.fail("C20.quota-exact", core.Sig("kind", "passed-request-not-served", "status", strconv.Itoa(o.status)),
			"op %d: %s %s answered %d", i, op.Method, op.Path, o.status)
		return
	}
	ck.request(i, now, op.IP, via, n, pass, max)
}

// ShrinkCandidates proposes simpler worlds: one white-list block less, fewer client goroutines.
func (C20) ShrinkCandidates(sc *core.Scenario) []*core.Scenario {
	w, err := core.DecodeWorld[c20World](sc)
	if err != nil {
		return nil
	}
	var out []*core.Scenario
	for i := range w.WhiteList {
		w2 := w
		w2.WhiteList = append(append([]string(nil), w.WhiteList[:i]...), w.WhiteList[i+1:]...)
		c := sc.Clone()
		c.World = core.MustJSON(w2)
		out = append(out, c)
	}
	if ops, err := core.DecodeOps[c20Op](sc); err == nil && w.Kind == "api-race" {
		// renumber the clients that still have operations 0..k-1
		used := map[int]int{}
		var order []int
		for _, op := range ops {
			if _, ok := used[op.Client]; !ok {
				used[op.Client] = 0
				order = append(order, op.Client)
			}
		}
		sort.Ints(order)
		for k, c := range order {
			used[c] = k
		}
		if len(order) > 0 && len(order) < w.Clients {
			w2 := w
			w2.Clients = len(order)
			c := sc.Clone()
			c.World = core.MustJSON(w2)
			c.Ops = nil
			for _, op := range ops {
				op.Client = used[op.Client]
				c.AddOp(op)
			}
			out = append(out, c)
		}
	}
	return out
}

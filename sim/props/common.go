// Package props holds the per-property simulations (workload generators, executors, oracles).
package props

import (
	"crypto/sha256"
	"encoding/hex"
	"encoding/json"
	"fmt"
	"math"
	"os"
	"path/filepath"
	"regexp"
	"sort"
	"strconv"
	"strings"
	"sync"
	"time"

	"github.com/Eyevinn/dash-mpd/mpd"

	"verif/sim/core"
	"verif/sim/hx"
	"verif/sim/refmodel"
)

// ---------------------------------------------------------------------------------------
// URL configuration (the part of the world that selects the livesim2 behaviour).

type URLCfg struct {
	MPDType    string   `json:"mpdtype"`         // number | timeline | timelinenr
	StartS     *int64   `json:"start,omitempty"` // start_<s>
	Snr        *int     `json:"snr,omitempty"`   // snr_<n>
	Tsbd       *int     `json:"tsbd,omitempty"`  // tsbd_<s>
	Ato        string   `json:"ato,omitempty"`   // ato_<x> ("" = none, "inf")
	ChunkDur   string   `json:"chunkdur,omitempty"`
	Periods    *int     `json:"periods,omitempty"`
	Continuous bool     `json:"continuous,omitempty"`
	StopS      *int64   `json:"stop,omitempty"`
	Extra      []string `json:"extra,omitempty"` // raw key_value parts appended verbatim
}

func (c URLCfg) Parts() []string {
	var p []string
	switch c.MPDType {
	case "timeline":
		p = append(p, "segtimeline_1")
	case "timelinenr":
		p = append(p, "segtimelinenr_1")
	}
	if c.StartS != nil {
		p = append(p, fmt.Sprintf("start_%d", *c.StartS))
	}
	if c.StopS != nil {
		p = append(p, fmt.Sprintf("stop_%d", *c.StopS))
	}
	if c.Snr != nil {
		p = append(p, fmt.Sprintf("snr_%d", *c.Snr))
	}
	if c.Tsbd != nil {
		p = append(p, fmt.Sprintf("tsbd_%d", *c.Tsbd))
	}
	if c.Ato != "" {
		p = append(p, "ato_"+c.Ato)
	}
	if c.ChunkDur != "" {
		p = append(p, "chunkdur_"+c.ChunkDur)
	}
	if c.Periods != nil {
		p = append(p, fmt.Sprintf("periods_%d", *c.Periods))
	}
	if c.Continuous {
		p = append(p, "continuous_1")
	}
	p = append(p, c.Extra...)
	return p
}

// Prefix returns "/livesim2/<parts>/<asset>".
func (c URLCfg) Prefix(asset string) string {
	parts := c.Parts()
	s := "/livesim2"
	for _, p := range parts {
		s += "/" + p
	}
	return s + "/" + asset
}

func (c URLCfg) AST() int64 {
	if c.StartS != nil {
		return *c.StartS
	}
	return 0
}

func (c URLCfg) TsbdS() int64 {
	if c.Tsbd != nil {
		return int64(*c.Tsbd)
	}
	return 60
}

// AtoS returns the availabilityTimeOffset in seconds; +Inf for "inf".
func (c URLCfg) AtoS() float64 {
	if c.Ato == "" {
		return 0
	}
	if c.Ato == "inf" {
		return math.Inf(1)
	}
	f, _ := strconv.ParseFloat(c.Ato, 64)
	return f
}

func (c URLCfg) StartNr() int64 {
	if c.Snr != nil {
		if *c.Snr == -1 {
			return 1 // documented: "-1 means default implicit number which == 1" (no startNumber attribute)
		}
		return int64(*c.Snr)
	}
	return 0
}

// Features returns the categorical features used in signatures (DESIGN Appendix A).
func (c URLCfg) Features(a *refmodel.Asset) map[string]string {
	f := map[string]string{"mpdtype": c.MPDType}
	if c.MPDType == "" {
		f["mpdtype"] = "number"
	}
	f["start"] = "0"
	if c.StartS != nil && *c.StartS != 0 {
		f["start"] = "nonzero"
	}
	f["snr"] = "default"
	if c.Snr != nil && *c.Snr != 0 {
		f["snr"] = "nonzero"
	}
	switch {
	case c.Ato == "":
		f["ato"] = "0"
	case c.Ato == "inf":
		f["ato"] = "inf"
	case strings.HasPrefix(c.Ato, "-"):
		f["ato"] = "negative"
	default:
		f["ato"] = "finite"
	}
	f["tsbd"] = "default"
	if c.Tsbd != nil {
		switch {
		case *c.Tsbd == 0:
			f["tsbd"] = "0"
		case a != nil && a.SegDurMS > 0 && (int64(*c.Tsbd)*1000)%a.SegDurMS == 0:
			f["tsbd"] = "multiple"
		default:
			f["tsbd"] = "nonmultiple"
		}
	}
	f["periods"] = "none"
	if c.Periods != nil {
		f["periods"] = "set"
	}
	if c.ChunkDur != "" {
		f["chunked"] = "true"
	}
	return f
}

func merge(ms ...map[string]string) map[string]string {
	out := map[string]string{}
	for _, m := range ms {
		for k, v := range m {
			out[k] = v
		}
	}
	return out
}

func p64(v int64) *int64 { return &v }
func pint(v int) *int    { return &v }

// ---------------------------------------------------------------------------------------
// Shared world: servers and reference models are cached per worker process. Properties that
// rely on this cache rely on livesim2 being stateless across requests, which is C07's claim
// and is checked there with fresh instances.

var (
	worldMu   sync.Mutex
	srvCache  = map[string]*hx.Srv{}
	refCache  = map[string]map[string]*refmodel.Asset{}
	srvErrors = map[string]error{}
)

func bundledSrv() *hx.Srv {
	return sharedSrv(hx.BundledAssets)
}

func sharedSrv(vodRoot string) *hx.Srv {
	worldMu.Lock()
	defer worldMu.Unlock()
	if s, ok := srvCache[vodRoot]; ok {
		return s
	}
	s, err := hx.NewSrv(hx.SrvOpts{VodRoot: vodRoot})
	if err != nil {
		panic(fmt.Sprintf("harness: cannot set up server on %s: %v", vodRoot, err))
	}
	srvCache[vodRoot] = s
	return s
}

func refAssets(vodRoot string) map[string]*refmodel.Asset {
	worldMu.Lock()
	defer worldMu.Unlock()
	if r, ok := refCache[vodRoot]; ok {
		return r
	}
	r, err := refmodel.ScanRoot(vodRoot)
	if err != nil {
		panic(fmt.Sprintf("harness: cannot scan %s: %v", vodRoot, err))
	}
	refCache[vodRoot] = r
	return r
}

// Bundled asset catalogue used by generators (asset path, MPD name).
type assetRef struct {
	Asset string
	MPD   string
}

var bundledMPDs = []assetRef{
	{"testpic_2s", "Manifest.mpd"},
	{"testpic_2s", "Manifest_thumbs.mpd"},
	{"testpic_2s", "Manifest_imsc1.mpd"},
	{"testpic_6s", "Manifest.mpd"},
	{"testpic_8s", "Manifest.mpd"},
	{"testpic_alt_seg_dur_stl", "Manifest.mpd"},
	{"bbb_hevc_ac3_8s", "manifest.mpd"},
	{"WAVE/vectors/cfhd_sets/12.5_25_50/t3/2022-10-17", "stream.mpd"},
	{"WAVE/vectors/cfhd_sets/14.985_29.97_59.94/t1/2022-10-17", "stream.mpd"},
}

// ---------------------------------------------------------------------------------------
// Client-side view of an MPD.

type DeclSeg struct {
	Number int64  // -1 if not declared
	T      uint64 // declared media time (timescale units, incl. presentationTimeOffset base)
	D      uint64
	URL    string // relative to the MPD directory
}

type ClientAS struct {
	ContentType string
	RepID       string
	Timescale   uint64
	StartNumber int64
	HasStartNr  bool
	Duration    uint64 // template duration (0 if timeline)
	Timeline    bool
	UsesTime    bool
	Media       string
	Init        string
	Ato         float64
	Segs        []DeclSeg // timeline only
	PTO         uint64
	BaseURLs    []string
	Lang        string
	Codecs      string
	AS          *mpd.AdaptationSetType
}

type ClientPeriod struct {
	ID     string
	StartS float64
	Sets   []ClientAS
	P      *mpd.Period
}

var (
	durAttrRe  = regexp.MustCompile(` (minimumUpdatePeriod|maxSegmentDuration|minBufferTime|timeShiftBufferDepth|suggestedPresentationDelay|mediaPresentationDuration|maxSubsegmentDuration)="([^"]*)"`)
	validDurRe = regexp.MustCompile(`^-?P(\d+Y)?(\d+M)?(\d+D)?(T(\d+H)?(\d+M)?(\d+(\.\d+)?S)?)?$`)
)

type ClientMPD struct {
	InvalidMUP  bool // an MPD-level duration attribute was not a valid xs:duration and has been dropped
	M           *mpd.MPD
	Raw         string
	Type        string
	ASTms       int64
	PublishMS   int64
	HasPublish  bool
	TsbdS       float64
	Periods     []ClientPeriod
	MediaDurS   float64
	HasMediaDur bool
}

func parseDateMS(s string) (int64, error) {
	t, err := time.Parse(time.RFC3339Nano, s)
	if err != nil {
		return 0, err
	}
	return t.UnixMilli(), nil
}

func fillTemplate(tpl, repID string, nr int64, t uint64) string {
	s := strings.ReplaceAll(tpl, "$RepresentationID$", repID)
	s = strings.ReplaceAll(s, "$Number$", strconv.FormatInt(nr, 10))
	s = strings.ReplaceAll(s, "$Time$", strconv.FormatUint(t, 10))
	return s
}

// ParseClientMPD parses an MPD body the way a DASH client resolves it.
func ParseClientMPD(body []byte) (*ClientMPD, error) {
	m, err := mpd.ReadFromString(string(body))
	invalidMUP := false
	if err != nil && strings.Contains(err.Error(), "duration must be") {
		// Live MPDs of assets with sub-second segments carry invalid xs:duration attributes (the MPD
		// library renders durations below one second as nanoseconds plus a stray byte:
		// minimumUpdatePeriod, and maxSegmentDuration copied from the VoD MPD). The simulated player
		// drops such attributes and goes on, so that short segments stay in the workload; the flag lets
		// a property report it.
		cleaned := durAttrRe.ReplaceAllFunc(body, func(b []byte) []byte {
			mm := durAttrRe.FindSubmatch(b)
			if validDurRe.Match(mm[2]) {
				return b
			}
			invalidMUP = true
			return nil
		})
		m, err = mpd.ReadFromString(string(cleaned))
	}
	if err != nil {
		return nil, err
	}
	c := &ClientMPD{M: m, Raw: string(body), InvalidMUP: invalidMUP}
	if m.Type != nil {
		c.Type = *m.Type
	}
	if m.AvailabilityStartTime != "" {
		c.ASTms, err = parseDateMS(string(m.AvailabilityStartTime))
		if err != nil {
			return nil, fmt.Errorf("availabilityStartTime: %w", err)
		}
	}
	if m.PublishTime != "" {
		c.PublishMS, err = parseDateMS(string(m.PublishTime))
		if err != nil {
			return nil, fmt.Errorf("publishTime: %w", err)
		}
		c.HasPublish = true
	}
	if m.TimeShiftBufferDepth != nil {
		c.TsbdS = time.Duration(*m.TimeShiftBufferDepth).Seconds()
	}
	if m.MediaPresentationDuration != nil {
		c.MediaDurS = time.Duration(*m.MediaPresentationDuration).Seconds()
		c.HasMediaDur = true
	}
	for _, p := range m.Periods {
		cp := ClientPeriod{ID: p.Id, P: p}
		if p.Start != nil {
			cp.StartS = time.Duration(*p.Start).Seconds()
		}
		var bases []string
		for _, b := range p.BaseURLs {
			bases = append(bases, string(b.Value))
		}
		for _, as := range p.AdaptationSets {
			st := as.SegmentTemplate
			if st == nil || len(as.Representations) == 0 {
				continue
			}
			for _, rep := range as.Representations {
				ca := ClientAS{ContentType: string(as.ContentType), RepID: rep.Id, Timescale: uint64(st.GetTimescale()),
					Media: st.Media, Init: st.Initialization, BaseURLs: bases, Lang: as.Lang, Codecs: as.Codecs, AS: as}
				if rep.Codecs != "" {
					ca.Codecs = rep.Codecs
				}
				if st.StartNumber != nil {
					ca.StartNumber = int64(*st.StartNumber)
					ca.HasStartNr = true
				} else {
					ca.StartNumber = 1 // DASH default
				}
				if st.Duration != nil {
					ca.Duration = uint64(*st.Duration)
				}
				if st.PresentationTimeOffset != nil {
					ca.PTO = *st.PresentationTimeOffset
				}
				ca.Ato = float64(st.AvailabilityTimeOffset)
				ca.UsesTime = strings.Contains(st.Media, "$Time$")
				if st.SegmentTimeline != nil {
					ca.Timeline = true
					var t uint64
					nr := ca.StartNumber
					for _, s := range st.SegmentTimeline.S {
						if s.T != nil {
							t = *s.T
						}
						for i := 0; i <= s.R; i++ {
							ds := DeclSeg{Number: nr, T: t, D: s.D}
							if ca.UsesTime {
								ds.Number = -1
							}
							ds.URL = fillTemplate(st.Media, rep.Id, nr, t)
							ca.Segs = append(ca.Segs, ds)
							t += s.D
							nr++
						}
					}
				}
				cp.Sets = append(cp.Sets, ca)
			}
		}
		c.Periods = append(c.Periods, cp)
	}
	return c, nil
}

// TimelineContiguous reports the first gap in the S list of an adaptation set ("" if none).
func TimelineContiguous(as *mpd.AdaptationSetType) string {
	st := as.SegmentTemplate
	if st == nil || st.SegmentTimeline == nil {
		return ""
	}
	var t uint64
	first := true
	for i, s := range st.SegmentTimeline.S {
		if s.T != nil {
			if !first && *s.T != t {
				return fmt.Sprintf("S[%d] t=%d but previous entries end at %d", i, *s.T, t)
			}
			t = *s.T
		} else if first {
			return "first S has no t"
		}
		first = false
		t += s.D * uint64(s.R+1)
	}
	return ""
}

func sortedKeys[V any](m map[string]V) []string {
	ks := make([]string, 0, len(m))
	for k := range m {
		ks = append(ks, k)
	}
	sort.Strings(ks)
	return ks
}

func clamp64(v, lo, hi int64) int64 {
	if v < lo {
		return lo
	}
	if v > hi {
		return hi
	}
	return v
}

// ceilDiv for non-negative values.
func ceilDiv(a, b int64) int64 { return (a + b - 1) / b }

// availMS is the first whole millisecond at which a segment ending at media time `end`
// (timescale ts, relative to AST) is available: AST + end/ts - ato.
func availMS(astS int64, end uint64, ts uint64, atoS float64) int64 {
	if math.IsInf(atoS, 1) {
		return astS * 1000
	}
	// exact rational: AST*1000 + ceil(end*1000/ts) - ato*1000 (ato in ms rounded)
	endMS := ceilDiv(int64(end)*1000, int64(ts))
	atoMS := int64(math.Round(atoS * 1000))
	v := astS*1000 + endMS - atoMS
	if v < astS*1000 {
		v = astS * 1000
	}
	return v
}

var _ = core.Sig

// ---------------------------------------------------------------------------------------
// Generated VoD worlds (DESIGN.md §3.1). A small fixed family of generated assets (index k) is
// used so that the number of VoD roots and cached server instances per worker stays bounded; the
// full spec travels in the scenario, so a replay file is self-contained.

// Members 64 and 65 are the first two members whose video timescale is 1000 or 25000, re-declared at 10 MHz
// (the 100 ns clock of Smooth-Streaming-derived content): media times of today then need more than 53 bits,
// and products with another timescale more than 64.
const genFamily = 66

// genFamilyDrawn: the members the registered checks draw. The two 10 MHz members are only reached with the probe switch
// VERIF_PROBE_10MHZ=1 (DESIGN 13.3c: such assets are broadly mis-served by the pinned tree; not registered).
const genFamilyDrawn = 64

type GenWorld struct {
	K    int          `json:"k"`
	Spec hx.AssetSpec `json:"spec"`
	// Derived, when set, makes the world a rewritten copy of a bundled asset instead of a generated one
	Derived *DerivedSpec `json:"derived,omitempty"`
}

// DerivedSpec: a copy of bundled testpic_2s (video, audio, thumbnails) whose only MPD gives every SegmentTemplate
// endNumber = EndNumber, i.e. fewer segments than there are files on disk (the loop is EndNumber segments long).
type DerivedSpec struct {
	Kind      string `json:"kind"` // "endnumber"
	EndNumber int    `json:"endnumber"`
}

const derivedAsset = "derived/endnr"

func buildDerived(root string, d DerivedSpec) error {
	src := filepath.Join(hx.BundledAssets, "testpic_2s")
	dst := filepath.Join(root, derivedAsset)
	for _, sub := range []string{"A48", "V300", "thumbs"} {
		if err := os.MkdirAll(filepath.Join(dst, sub), 0o755); err != nil {
			return err
		}
		ents, err := os.ReadDir(filepath.Join(src, sub))
		if err != nil {
			return err
		}
		for _, e := range ents {
			b, err := os.ReadFile(filepath.Join(src, sub, e.Name()))
			if err != nil {
				return err
			}
			if err := os.WriteFile(filepath.Join(dst, sub, e.Name()), b, 0o644); err != nil {
				return err
			}
		}
	}
	b, err := os.ReadFile(filepath.Join(src, "Manifest_thumbs.mpd"))
	if err != nil {
		return err
	}
	m := strings.ReplaceAll(string(b), `startNumber="1"`, fmt.Sprintf(`startNumber="1" endNumber="%d"`, d.EndNumber))
	m = strings.Replace(m, `mediaPresentationDuration="PT8S"`, fmt.Sprintf(`mediaPresentationDuration="PT%dS"`, 2*d.EndNumber), 1)
	if strings.Count(m, "endNumber=") != 3 {
		return fmt.Errorf("derived asset: expected 3 SegmentTemplates in Manifest_thumbs.mpd")
	}
	return os.WriteFile(filepath.Join(dst, "Manifest.mpd"), []byte(m), 0o644)
}

// genSpec returns generated asset k of the family (class good: must be served).
func genSpec(k int) hx.AssetSpec {
	if k >= 64 {
		found := 0
		for b := 0; b < 64; b++ {
			sp := genSpec(b)
			scalable := true
			for _, r := range sp.Reps {
				if r.Kind == "video" && r.Timescale != 1000 && r.Timescale != 25000 {
					scalable = false
				}
			}
			if !scalable || len(sp.Reps) == 0 || sp.Reps[0].Kind != "video" {
				continue
			}
			if found == k-64 {
				sp.Name, sp.Tag = fmt.Sprintf("gen/a%02d", k), uint32(1000+k)
				for i := range sp.Reps {
					if r := &sp.Reps[i]; r.Kind == "video" {
						f := 10_000_000 / r.Timescale
						r.Timescale, r.FrameDur, r.Start, r.GapTicks = r.Timescale*f, r.FrameDur*f, r.Start*uint64(f), r.GapTicks*uint64(f)
					}
				}
				return sp
			}
			found++
		}
		panic("harness: no generated asset with a video timescale that scales to 10 MHz")
	}
	rng := core.NewRng(0x9e3779b9 + uint64(k)*7919)
	return hx.RandomAssetSpec(rng, hx.GenOpts{Name: fmt.Sprintf("gen/a%02d", k), Tag: uint32(1000 + k), Class: "good", MaxSegs: 8, MaxFrames: 600})
}

var genRootMu sync.Mutex

// genRoot materialises the generated asset below a content-addressed VoD root under the system temp
// directory (created atomically; shared by all workers; rebuilt on demand).
func genRoot(g GenWorld) string {
	genRootMu.Lock()
	defer genRootMu.Unlock()
	b, _ := json.Marshal(g.Spec)
	if g.Derived != nil {
		b, _ = json.Marshal(g.Derived)
	}
	sum := sha256.Sum256(b)
	root := filepath.Join(os.TempDir(), "verif-genvod-v2", hex.EncodeToString(sum[:8]))
	if _, err := os.Stat(filepath.Join(root, ".ok")); err == nil {
		return root
	}
	tmp, err := os.MkdirTemp(os.TempDir(), "verif-genvod-tmp-")
	if err != nil {
		panic("harness: " + err.Error())
	}
	if g.Derived != nil {
		if err := buildDerived(tmp, *g.Derived); err != nil {
			panic("harness: cannot build derived asset: " + err.Error())
		}
	} else if err := hx.GenAssetInRoot(tmp, g.Spec); err != nil {
		panic("harness: cannot generate asset: " + err.Error())
	}
	if err := os.WriteFile(filepath.Join(tmp, ".ok"), []byte("ok"), 0o644); err != nil {
		panic("harness: " + err.Error())
	}
	_ = os.MkdirAll(filepath.Dir(root), 0o755)
	if err := os.Rename(tmp, root); err != nil {
		// another worker was faster
		os.RemoveAll(tmp)
		if _, err2 := os.Stat(filepath.Join(root, ".ok")); err2 != nil {
			panic("harness: cannot publish generated VoD root: " + err.Error())
		}
	}
	return root
}

// pickWorld draws the VoD world of a timeline scenario: a bundled asset, or (with probability
// pGen) generated asset k. onlyWith filters representations kinds needed ("audio", "video", "").
func pickGenWorld(rng *core.Rng) *GenWorld {
	k := rng.Intn(genFamilyDrawn)
	if os.Getenv("VERIF_PROBE_10MHZ") != "" {
		k = 64 + k%2 // probe switch (DESIGN 13.3c): not part of the registered checks
	}
	return &GenWorld{K: k, Spec: genSpec(k)}
}

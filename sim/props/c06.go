package props

import (
	"bytes"
	"fmt"
	"math"
	"sort"
	"testing"

	"verif/sim/core"
	"verif/sim/hx"
)

// C06 — splitting into periods preserves the timeline and the segment identities (engine T).

type c06World struct {
	Gen     *GenWorld `json:"gen,omitempty"` // generated VoD world instead of the bundled assets
	VodRoot string    `json:"vodroot"`
	Asset   string    `json:"asset"`
	MPD     string    `json:"mpd"`
	Cfg     URLCfg    `json:"cfg"` // with Periods set; the twin is the same without periods/continuous
}

type c06Op struct {
	T int64 `json:"t"`
}

type C06 struct{}

func init() { core.Register(C06{}) }

func (C06) ID() string     { return "C06" }
func (C06) Engine() string { return "tlsim" }

func (C06) Gen(rng *core.Rng, tier string, idx int) *core.Scenario {
	label, gen, assetName, mpdName, a := pickMPDWorld(rng)
	ar := assetRef{Asset: assetName, MPD: mpdName}
	base := int64(1_600_000_000_000) + rng.Int63n(300_000_000_000)
	if rng.Chance(0.1) {
		base = rng.Int63n(3_000_000_000_000)
	}
	if maxBase := int64(1<<31) * a.SegDurMS; base > maxBase { // segment numbers are 32-bit in mfhd and startNumber
		base = rng.Int63n(maxBase)
	}
	cfg := URLCfg{MPDType: core.Pick(rng, []string{"number", "timeline", "timelinenr"})}
	if rng.Chance(0.5) {
		cfg.Tsbd = pint(core.Pick(rng, []int{0, 1, 5, 7, 10, 20, 30, 45, 90, 120, 300, 600}))
	}
	if rng.Chance(0.2) {
		cfg.Ato = core.Pick(rng, []string{"0.5", "1", "1.5"})
	}
	if rng.Chance(0.12) { // an offset longer than a segment (and possibly than what is left of the period)
		cfg.Ato = core.Pick(rng, []string{"3", "7", "10", "25"})
	}
	if rng.Chance(0.05) { // negative offset: segments announced later than their end
		cfg.Ato = core.Pick(rng, []string{"-0.5", "-1", "-3"})
	}
	if rng.Chance(0.15) {
		cfg.Snr = pint(core.Pick(rng, []int{1, 7, 100, 1000}))
	}
	if rng.Chance(0.15) { // availabilityStartTime that is not 1970: on / off a period boundary
		st := base/1000 - int64(rng.Range(0, 7200))
		if rng.Bool() {
			st = st / 3600 * 3600
		}
		if st < 0 {
			st = 0
		}
		cfg.StartS = p64(st)
	}
	// periods per hour: divisors and near-divisors of 3600, values whose period is / is not a multiple of the
	// segment duration
	var n int
	switch rng.Intn(4) {
	case 0:
		n = core.Pick(rng, []int{1, 2, 3, 4, 5, 6, 8, 9, 10, 12, 15, 20, 30, 40, 60, 90, 120, 150, 180, 200, 225, 300, 360, 450, 600, 900, 1200, 1800, 3600})
	case 1:
		n = rng.Range(1, 3600)
	case 2:
		// period = k * segment duration
		k := int64(rng.Range(1, 200))
		pd := k * a.SegDurMS / 1000
		if pd < 1 {
			pd = 1
		}
		n = int(3600 / pd)
		if n < 1 {
			n = 1
		}
	default:
		n = core.Pick(rng, []int{7, 11, 13, 17, 50, 70, 100, 250, 500, 700, 1000, 3599})
	}
	cfg.Periods = pint(n)
	cfg.Continuous = rng.Chance(0.4)
	w := c06World{VodRoot: label, Gen: gen, Asset: ar.Asset, MPD: ar.MPD, Cfg: cfg}
	sc := core.NewScenario("C06", "tlsim", 0, tier, w)
	pd := int64(3600/n) * 1000
	nOps := rng.Range(3, 7)
	if tier == "thorough" {
		nOps = rng.Range(5, 14)
	}
	for i := 0; i < nOps; i++ {
		var t int64
		switch rng.Intn(5) {
		case 0: // around a period boundary
			t = (base/pd+int64(rng.Range(0, 3)))*pd + int64(rng.Range(-2, 2))
		case 1: // window edge on a period boundary
			t = (base/pd)*pd + cfg.TsbdS()*1000 + int64(rng.Range(-2, 2))
		case 2: // loop wrap near a period boundary
			t = (base / a.LoopDurMS * a.LoopDurMS) + int64(rng.Range(-2, 2000))
		default:
			t = base + rng.Int63n(3*pd+1)
		}
		if t < 0 {
			t = 0
		}
		if ast := cfg.AST() * 1000; t < ast { // before availabilityStartTime every request is answered 425 (C04)
			t = ast + int64(rng.Range(0, 3))*pd + int64(rng.Range(0, 5000))
		}
		sc.AddOp(c06Op{T: t})
	}
	return sc
}

type c06Seg struct {
	abs    uint64 // absolute media time in the AS timescale (relative to AST)
	d      uint64
	nr     int64
	url    string
	period int
}

func (C06) Run(t *testing.T, sc *core.Scenario, res *core.Result) {
	w, err := core.DecodeWorld[c06World](sc)
	if err != nil {
		panic(err)
	}
	ops, err := core.DecodeOps[c06Op](sc)
	if err != nil {
		panic(err)
	}
	root := vodRootOf(w.VodRoot)
	if w.Gen != nil {
		root = genRoot(*w.Gen)
	}
	srv := sharedSrv(root)
	a := refAssets(root)[w.Asset]
	if a == nil || w.Cfg.Periods == nil {
		panic("harness: bad world")
	}
	cfg := w.Cfg
	twin := cfg
	twin.Periods = nil
	twin.Continuous = false
	N := *cfg.Periods
	feat := merge(cfg.Features(a), assetTraits(a), core.Sig("continuous", fmt.Sprint(cfg.Continuous)))
	pdS := int64(3600 / N)
	// "the segment duration" is the reference (video) representation's average segment duration
	ref := a.Ref()
	refSegMS := int64(float64(ref.TotalDur())*1000/float64(ref.Timescale*uint64(len(ref.Segs))) + 0.5)
	divides := pdS > 0 && (pdS*1000)%refSegMS == 0
	feat["period-multiple-of-segment"] = fmt.Sprint(divides)
	feat["reps-segdur"] = "agree"
	if a.SegDurMS != refSegMS {
		feat["reps-segdur"] = "differ" // another representation of the asset has a shorter average segment duration
	}
	idStart := map[string]float64{}
	var lo, hi int64
	for i, op := range ops {
		if i == 0 || op.T < lo {
			lo = op.T
		}
		if i == 0 || op.T > hi {
			hi = op.T
		}
		now := op.T
		r := srv.GetAt(cfg.Prefix(w.Asset)+"/"+w.MPD, now)
		res.Count("op.mpd")
		res.Event("mpd t=%d -> %d %s", now, r.Status, hx.ShortHash(r.Body))
		if r.Panic != "" {
			res.Violate("C06.mpd-served", merge(feat, core.Sig("kind", "panic", "frame", r.PanicFrame)), "MPD at %d: panic %s", now, r.Panic)
			continue
		}
		if !divides || pdS == 0 {
			// (5) rejected deliberately, never a partial MPD
			res.Count("probe.non-multiple-period")
			if r.Status >= 200 && r.Status < 300 {
				res.Violate("C06.non-multiple-rejected", merge(feat, core.Sig("kind", "accepted", "status", fmt.Sprint(r.Status))),
					"periods_%d (period %d s, segment %d ms) answered %d", N, pdS, refSegMS, r.Status)
			} else if len(bytes.TrimSpace(r.Body)) == 0 {
				res.Violate("C06.non-multiple-rejected", merge(feat, core.Sig("kind", "no-message", "status", fmt.Sprint(r.Status))), "status %d without message", r.Status)
			}
			continue
		}
		if r.Status != 200 {
			res.Violate("C06.mpd-served", merge(feat, core.Sig("kind", "not-200", "status", fmt.Sprint(r.Status))), "MPD at %d: %d %q", now, r.Status, trunc(string(r.Body), 100))
			continue
		}
		cm, err := ParseClientMPD(r.Body)
		if err != nil {
			res.Violate("C06.mpd-served", merge(feat, core.Sig("kind", "unparsable")), "%v", err)
			continue
		}
		tr := srv.GetAt(twin.Prefix(w.Asset)+"/"+w.MPD, now)
		res.Count("op.mpd-twin")
		if tr.Status != 200 {
			res.Count("probe.twin-unavailable")
			continue
		}
		tm, err := ParseClientMPD(tr.Body)
		if err != nil || len(tm.Periods) != 1 {
			panic("harness: twin MPD unusable")
		}
		if len(cm.Periods) == 0 {
			res.Violate("C06.periods-tile", merge(feat, core.Sig("kind", "no-period")), "MPD at %d has no Period", now)
			continue
		}
		res.Add("probe.periods", len(cm.Periods))
		if len(cm.Periods) > 1 {
			res.Count("probe.multi-period-mpd")
		}
		// (1) tiling and stable ids
		for k, p := range cm.Periods {
			st := p.StartS
			kk := math.Round(st / float64(pdS))
			if math.Abs(st-kk*float64(pdS)) > 1e-6 {
				res.Violate("C06.periods-tile", merge(feat, core.Sig("kind", "start-not-multiple")), "Period %s starts at %.3f s, period duration %d s", p.ID, st, pdS)
			}
			if k > 0 && math.Abs(st-cm.Periods[k-1].StartS-float64(pdS)) > 1e-6 {
				res.Violate("C06.periods-tile", merge(feat, core.Sig("kind", "gap-or-overlap")), "Period %s starts at %.3f, previous at %.3f (period %d s)", p.ID, st, cm.Periods[k-1].StartS, pdS)
			}
			if prev, ok := idStart[p.ID]; ok && prev != st {
				res.Violate("C06.period-ids-stable", merge(feat, core.Sig("kind", "id-moved")), "Period id %s: start %.3f, earlier %.3f", p.ID, st, prev)
			}
			idStart[p.ID] = st
		}
		last := cm.Periods[len(cm.Periods)-1]
		// Period@start counts from availabilityStartTime; with an availabilityTimeOffset the newest segments start up to
		// ato after now, so the newest Period is the one that contains now+ato
		nowS := float64(now-cm.ASTms)/1000 + cfg.AtoS()
		current := func(x float64) bool { return last.StartS <= x+1e-9 && x < last.StartS+float64(pdS)+1e-9 }
		// (a negative offset: the Period that contains the wall-clock now may be listed before its first segment is available)
		if !(current(nowS) || (cfg.AtoS() < 0 && current(float64(now-cm.ASTms)/1000))) {
			res.Violate("C06.periods-tile", merge(feat, core.Sig("kind", "last-period-not-current")), "last Period starts %.3f, now %.3f, period %d s", last.StartS, nowS, pdS)
		}
		firstStart := cm.Periods[0].StartS
		// (4) continuity descriptor iff requested
		for _, p := range cm.Periods {
			for _, ca := range p.Sets {
				has := false
				for _, sp := range ca.AS.SupplementalProperties {
					if sp.SchemeIdUri == "urn:mpeg:dash:period-continuity:2015" {
						has = true
					}
				}
				if has != cfg.Continuous {
					res.Violate("C06.continuity-signalled", merge(feat, core.Sig("kind", fmt.Sprintf("signalled-%v", has), "content", contentKind(ca))),
						"Period %s %s: continuity descriptor present=%v, requested=%v", p.ID, ca.RepID, has, cfg.Continuous)
				}
			}
		}
		// (2) flattening equals the single-period presentation from the first period start on
		for _, tca := range tm.Periods[0].Sets {
			kind := contentKind(tca)
			f := merge(feat, core.Sig("content", kind))
			var want []c06Seg
			ts := tca.Timescale
			if tca.Timeline {
				for _, s := range tca.Segs {
					want = append(want, c06Seg{abs: s.T, d: s.D, nr: s.Number, url: s.URL})
				}
			}
			var got []c06Seg
			numberAS := false
			for pi, p := range cm.Periods {
				for _, ca := range p.Sets {
					if ca.RepID != tca.RepID {
						continue
					}
					off := uint64(math.Round(p.StartS * float64(ca.Timescale)))
					if !ca.Timeline {
						numberAS = true
						// $Number$ template: presentationTimeOffset and startNumber must describe the same instant
						if ca.Duration > 0 {
							if uint64(ca.StartNumber-tca.StartNumber)*ca.Duration != ca.PTO {
								res.Violate("C06.number-template-consistent", merge(f, core.Sig("kind", "startnumber-vs-pto")),
									"Period %s %s: startNumber %d (twin %d) x duration %d != presentationTimeOffset %d", p.ID, ca.RepID, ca.StartNumber, tca.StartNumber, ca.Duration, ca.PTO)
							}
							if ca.PTO != off {
								res.Violate("C06.number-template-consistent", merge(f, core.Sig("kind", "pto-vs-period-start")),
									"Period %s %s: presentationTimeOffset %d, Period@start x timescale %d", p.ID, ca.RepID, ca.PTO, off)
							}
						}
						continue
					}
					for _, s := range ca.Segs {
						if s.T < ca.PTO {
							res.Violate("C06.segment-in-its-period", merge(f, core.Sig("kind", "before-pto")), "Period %s %s: t=%d < presentationTimeOffset %d", p.ID, ca.RepID, s.T, ca.PTO)
							continue
						}
						abs := s.T - ca.PTO + off
						got = append(got, c06Seg{abs: abs, d: s.D, nr: s.Number, url: s.URL, period: pi})
						// in the period that contains its start
						if abs < off || abs >= off+uint64(pdS)*ca.Timescale {
							res.Violate("C06.segment-in-its-period", merge(f, core.Sig("kind", "start-outside-period")),
								"Period %s %s: segment at %d (abs %d) outside [%d,%d)", p.ID, ca.RepID, s.T, abs, off, off+uint64(pdS)*ca.Timescale)
						}
					}
				}
			}
			if numberAS || !tca.Timeline {
				// check a few numbers through both URLs below
				c06NumberFetch(res, srv, cfg, twin, w, cm, tca, now, f)
				continue
			}
			var wantF []c06Seg
			for _, s := range want {
				if float64(s.abs) >= firstStart*float64(ts)-1e-6 {
					wantF = append(wantF, s)
				}
			}
			sort.SliceStable(got, func(i, j int) bool { return got[i].abs < got[j].abs })
			if len(got) != len(wantF) {
				res.Violate("C06.flatten-equals-single", merge(f, core.Sig("kind", "count-differs", "dir", dir(int64(len(got)), int64(len(wantF))))),
					"%s at %d: %d segments in periods, %d in single-period from first period start (%.0f s)", tca.RepID, now, len(got), len(wantF), firstStart)
				continue
			}
			for k := range got {
				g, x := got[k], wantF[k]
				if g.abs != x.abs || g.d != x.d {
					res.Violate("C06.flatten-equals-single", merge(f, core.Sig("kind", "time-differs")),
						"%s: period segment abs t=%d d=%d, single-period t=%d d=%d", tca.RepID, g.abs, g.d, x.abs, x.d)
					break
				}
				if g.nr != x.nr {
					res.Violate("C06.flatten-equals-single", merge(f, core.Sig("kind", "number-differs")),
						"%s: period segment number %d, single-period %d (t=%d)", tca.RepID, g.nr, x.nr, x.abs)
					break
				}
			}
			res.Add("probe.segments-compared", len(got))
			// (3) same bytes through the period-relative URL (first, last, one in between)
			for _, k := range sampleIdx(len(got), 3) {
				g, x := got[k], wantF[k]
				r1 := srv.GetAt(cfg.Prefix(w.Asset)+"/"+g.url, now)
				r2 := srv.GetAt(twin.Prefix(w.Asset)+"/"+x.url, now)
				res.Count("op.segment-pair")
				if r1.Status != r2.Status || !bytes.Equal(r1.Body, r2.Body) {
					res.Violate("C06.same-bytes", merge(f, core.Sig("kind", "bytes-differ", "status", fmt.Sprint(r1.Status), "twin-status", fmt.Sprint(r2.Status))),
						"%s (%d) vs %s (%d) at %d", g.url, r1.Status, x.url, r2.Status, now)
				}
			}
		}
	}
	res.SimMS += hi - lo
	res.Nontrivial = res.Stats["op.mpd-twin"] >= 1 || res.Stats["probe.non-multiple-period"] >= 2
}

// c06NumberFetch: for $Number$ templates fetch the newest and the oldest available number of every
// period through the period's template and through the single-period template.
func c06NumberFetch(res *core.Result, srv *hx.Srv, cfg, twin URLCfg, w c06World, cm *ClientMPD, tca ClientAS, now int64, f map[string]string) {
	if tca.Duration == 0 {
		return
	}
	for _, p := range cm.Periods {
		for _, ca := range p.Sets {
			if ca.RepID != tca.RepID || ca.Timeline || ca.Duration == 0 {
				continue
			}
			// numbers whose nominal end is <= now and start >= period start
			relNow := now - cm.ASTms
			ts, d := int64(ca.Timescale), int64(ca.Duration)
			kEdge := relNow*ts/(d*1000) - 1 + tca.StartNumber
			if kEdge < ca.StartNumber {
				continue
			}
			nr := kEdge
			u1 := fillTemplate(ca.Media, ca.RepID, nr, uint64(nr-tca.StartNumber)*ca.Duration)
			u2 := fillTemplate(tca.Media, tca.RepID, nr, uint64(nr-tca.StartNumber)*tca.Duration)
			r1 := srv.GetAt(cfg.Prefix(w.Asset)+"/"+u1, now)
			r2 := srv.GetAt(twin.Prefix(w.Asset)+"/"+u2, now)
			res.Count("op.segment-pair")
			if r1.Status != r2.Status || !bytes.Equal(r1.Body, r2.Body) {
				res.Violate("C06.same-bytes", merge(f, core.Sig("kind", "bytes-differ", "status", fmt.Sprint(r1.Status), "twin-status", fmt.Sprint(r2.Status))),
					"%s (%d) vs %s (%d) at %d", u1, r1.Status, u2, r2.Status, now)
			}
		}
	}
}

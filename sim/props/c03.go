package props

import (
	"bytes"
	"fmt"
	"testing"

	"verif/sim/core"
	"verif/sim/hx"
	"verif/sim/refmodel"
)

// C03 — audio is re-segmented to follow video boundaries without loss or duplication (engine T).

type C03 struct{}

func init() { core.Register(C03{}) }

func (C03) ID() string     { return "C03" }
func (C03) Engine() string { return "tlsim" }

type c03Op struct {
	N    int64 `json:"n"`
	Dt   int64 `json:"dt"`
	Inst int   `json:"inst,omitempty"`
	Alt  bool  `json:"alt,omitempty"`
	MPD  bool  `json:"mpd,omitempty"` // also poll the MPD at that instant and compare its audio timeline
}

func (C03) Gen(rng *core.Rng, tier string, idx int) *core.Scenario {
	w, a, reps := c01PickWorld(rng, func(a *refmodel.Asset, r *refmodel.Rep) bool {
		return r.ContentType == "audio" && a.Ref().ContentType == "video"
	})
	repID := core.Pick(rng, reps)
	ref := a.Ref()
	base := int64(1_600_000_000_000) + rng.Int63n(300_000_000_000)
	switch rng.Intn(6) {
	case 0:
		base = rng.Int63n(2_000_000_000_000)
	case 1:
		base = int64(1)<<40 + rng.Int63n(int64(1)<<40)
	}
	// segment numbers must fit the 32-bit mfhd sequence number (short generated segments!)
	if maxBase := int64(1<<31) * a.SegDurMS; base > maxBase {
		base = rng.Int63n(maxBase)
	}
	cfg := genTimelineCfg(rng, a, base)
	cfg.Ato = ""
	w.Cfg, w.Rep = cfg, repID
	sc := core.NewScenario("C03", "tlsim", 0, tier, w)
	N := int64(len(ref.Segs))
	rel := base - cfg.AST()*1000
	if rel < 0 {
		rel = 0
	}
	n := a.IndexContaining(ref, uint64(rel)*ref.Timescale/1000)
	if rng.Chance(0.25) {
		n = int64(rng.Range(0, int(2*N)))
	}
	nOps := rng.Range(4, 14)
	if tier == "thorough" {
		nOps = rng.Range(8, 40)
	}
	for i := 0; i < nOps; i++ {
		op := c03Op{N: n, Dt: int64(rng.Range(0, int(cfg.TsbdS()*1000)))}
		if rng.Chance(0.15) {
			op.Inst = 1
		}
		op.Alt = rng.Chance(0.3)
		op.MPD = rng.Chance(0.15) && cfg.MPDType != "number"
		sc.AddOp(op)
		switch rng.Intn(10) {
		case 0:
			n = (n/N+int64(rng.Range(1, 3)))*N - 1
		case 1:
			n += int64(rng.Range(2, int(3*N)))
		case 2:
			if n > 0 {
				n--
			}
		default:
			n++
		}
	}
	return sc
}

// audioFrames returns the VoD audio frames of the representation in order (all segments concatenated).
func audioFrames(rep *refmodel.Rep) []hx.Sample {
	var out []hx.Sample
	for _, s := range rep.Segs {
		out = append(out, vodSeg(rep, s.File).AllSamples()...)
	}
	return out
}

var audioFramesCache = map[string][]hx.Sample{}

func (C03) Run(t *testing.T, sc *core.Scenario, res *core.Result) {
	w, err := core.DecodeWorld[c01World](sc)
	if err != nil {
		panic(err)
	}
	ops, err := core.DecodeOps[c03Op](sc)
	if err != nil {
		panic(err)
	}
	root := w.root()
	a := refAssets(root)[w.Asset]
	if a == nil || a.Reps[w.Rep] == nil {
		panic("harness: unknown asset/rep")
	}
	rep := a.Reps[w.Rep]
	ref := a.Ref()
	cfg := w.Cfg
	f := uint64(rep.FrameDur)
	in, err := rep.Init()
	if err != nil {
		panic("harness: " + err.Error())
	}
	key := root + "|" + w.Asset + "|" + w.Rep
	worldMu.Lock()
	frames, ok := audioFramesCache[key]
	worldMu.Unlock()
	if !ok {
		frames = audioFrames(rep)
		worldMu.Lock()
		audioFramesCache[key] = frames
		worldMu.Unlock()
	}
	M := uint64(len(frames))
	loopV := a.LoopDur(ref)
	audioLoop := "equal"
	vodAudioDur := rep.TotalDur()
	loopA := refmodel.AudioGrid(loopV, ref.Timescale, rep.Timescale, f)
	switch {
	case vodAudioDur < loopV*rep.Timescale/ref.Timescale:
		audioLoop = "shorter"
	case vodAudioDur > loopA:
		audioLoop = "longer"
	}
	feat := merge(cfg.Features(a), assetTraits(a), core.Sig("content", "audio", "audioloop", audioLoop, "world", w.VodRoot))
	type seen struct{ start, end uint64 }
	hist := map[int64]seen{}
	var simLo, simHi int64
	A := func(x uint64) uint64 { return refmodel.AudioGrid(x, ref.Timescale, rep.Timescale, f) }
	fetch := func(c URLCfg, n, dt int64, inst int) (*hx.Resp, segTarget, int64) {
		tg, ok := modelTarget(a, c, w.Rep, n)
		if !ok {
			panic("harness: no target")
		}
		now := tg.AvailMS + dt
		s := sharedSrv(root)
		if inst == 1 {
			s = altSrv(root)
		}
		return s.GetAt(c.Prefix(w.Asset)+"/"+tg.URL, now), tg, now
	}
	for i, op := range ops {
		if op.N < 0 {
			continue
		}
		r, tg, now := fetch(cfg, op.N, op.Dt, op.Inst)
		if i == 0 || now < simLo {
			simLo = now
		}
		if i == 0 || now > simHi {
			simHi = now
		}
		if op.Inst == 1 {
			res.Count("fault.other-instance")
		}
		res.Count("op.segment")
		res.Event("audio n=%d dt=%d inst=%d -> %d len=%d", op.N, op.Dt, op.Inst, r.Status, len(r.Body))
		if r.Panic != "" {
			res.Violate("C03.served", merge(feat, core.Sig("kind", "panic", "frame", r.PanicFrame)), "%s: panic %s", tg.URL, r.Panic)
			continue
		}
		if r.Status != 200 {
			res.Violate("C03.served", merge(feat, core.Sig("kind", "not-200", "status", fmt.Sprint(r.Status))), "%s at avail%+d: %d", tg.URL, op.Dt, r.Status)
			continue
		}
		sg, err := hx.ParseSeg(r.Body, in.Trex)
		if err != nil {
			res.Violate("C03.served", merge(feat, core.Sig("kind", "unparsable")), "%s: %v", tg.URL, err)
			continue
		}
		res.Count("probe.checked")
		lv := a.Live(ref, op.N)
		es, ee := A(lv.Start), A(lv.End)
		// (1) start/end on the first frame boundary at or after the video boundary
		if sg.Tfdt() != es {
			res.Violate("C03.start-on-grid", merge(feat, core.Sig("kind", "wrong-start", "dir", dir(int64(sg.Tfdt()), int64(es)))),
				"%s: tfdt %d, expected A(videoStart)=%d (video start %d)", tg.URL, sg.Tfdt(), es, lv.Start)
		}
		if sg.Tfdt()+sg.Dur != ee {
			res.Violate("C03.end-on-grid", merge(feat, core.Sig("kind", "wrong-end", "dir", dir(int64(sg.Tfdt()+sg.Dur), int64(ee)))),
				"%s: ends at %d, expected A(videoEnd)=%d", tg.URL, sg.Tfdt()+sg.Dur, ee)
		}
		if int64(sg.Seq()) != cfg.StartNr()+op.N {
			res.Violate("C03.number", merge(feat, core.Sig("kind", "wrong-number")), "%s: mfhd %d, expected %d", tg.URL, sg.Seq(), cfg.StartNr()+op.N)
		}
		// (2) frame count and durations
		smp := sg.AllSamples()
		if uint64(len(smp)) != (ee-es)/f && sg.Tfdt() == es {
			res.Violate("C03.frame-count", merge(feat, core.Sig("kind", "wrong-count")), "%s: %d frames, expected %d", tg.URL, len(smp), (ee-es)/f)
		}
		// (3) identity: sample at audio time t inside wrap w is VoD frame (t - A(w*loopV))/f
		tcur := sg.Tfdt()
		for k, s := range smp {
			if uint64(s.Dur) != f {
				res.Violate("C03.frame-count", merge(feat, core.Sig("kind", "frame-duration")), "%s sample %d: dur %d != %d", tg.URL, k, s.Dur, f)
				break
			}
			// wrap containing audio time tcur: largest w with A(w*loopV) <= tcur
			wv := tcur * ref.Timescale / rep.Timescale / loopV
			for A((wv+1)*loopV) <= tcur {
				wv++
			}
			for wv > 0 && A(wv*loopV) > tcur {
				wv--
			}
			if wv != uint64(lv.Wrap) {
				res.Count("probe.sample-in-next-wrap")
			}
			idx := (tcur - A(wv*loopV)) / f
			var want hx.Sample
			pad := false
			if idx < M {
				want = frames[idx]
			} else {
				want = frames[M-1]
				pad = true
				res.Count("probe.padding-frame")
			}
			if pad && audioLoop != "shorter" && idx >= M {
				// audio not shorter than the loop by duration, yet grid rounding may need one extra frame
				res.Count("probe.padding-by-rounding")
			}
			if s.Size != want.Size || !bytes.Equal(s.Data, want.Data) || s.Flags != want.Flags {
				res.Violate("C03.frame-identity", merge(feat, core.Sig("kind", "wrong-frame", "padding", fmt.Sprint(pad), "next-wrap", fmt.Sprint(wv != uint64(lv.Wrap)))),
					"%s sample %d at audio time %d (wrap %d): not VoD frame %d of %d", tg.URL, k, tcur, wv, idx, M)
				break
			}
			tcur += f
		}
		// abutting
		hist[op.N] = seen{sg.Tfdt(), sg.Tfdt() + sg.Dur}
		if p, ok := hist[op.N-1]; ok {
			if p.end != sg.Tfdt() {
				res.Violate("C03.abut", merge(feat, core.Sig("kind", "gap-or-overlap", "at-wrap", fmt.Sprint(lv.Idx == 0))),
					"audio segment %d ends at %d, %d starts at %d", op.N-1, p.end, op.N, sg.Tfdt())
			}
			res.Count("probe.pair-checked")
			if lv.Idx == 0 {
				res.Count("probe.pair-across-wrap")
			}
		}
		if nx, ok := hist[op.N+1]; ok {
			if sg.Tfdt()+sg.Dur != nx.start {
				res.Violate("C03.abut", merge(feat, core.Sig("kind", "gap-or-overlap", "at-wrap", fmt.Sprint((op.N+1)%int64(len(ref.Segs)) == 0))),
					"audio segment %d ends at %d, %d starts at %d", op.N, sg.Tfdt()+sg.Dur, op.N+1, nx.start)
			}
			res.Count("probe.pair-checked")
		}
		if op.Alt {
			oc := otherAddressing(cfg)
			r2, tg2, _ := fetch(oc, op.N, op.Dt, op.Inst)
			res.Count("op.segment-alt")
			if r2.Status != 200 {
				res.Violate("C03.addressing-agrees", merge(feat, core.Sig("kind", "alt-not-200", "status", fmt.Sprint(r2.Status), "alt", oc.MPDType)),
					"%s (as %s): status %d", tg2.URL, oc.MPDType, r2.Status)
			} else if !bytes.Equal(r2.Body, r.Body) {
				res.Violate("C03.addressing-agrees", merge(feat, core.Sig("kind", "alt-differs", "alt", oc.MPDType)), "%s vs %s: bodies differ", tg.URL, tg2.URL)
			} else {
				res.Count("probe.alt-checked")
			}
		}
		// (4) the audio SegmentTimeline of the MPD lists exactly these starts and durations
		if op.MPD && cfg.MPDType != "number" {
			mr := sharedSrv(root).GetAt(cfg.Prefix(w.Asset)+"/"+mpdNameFor(a, w.Rep), now)
			res.Count("op.mpd")
			if mr.Status == 200 {
				if cm, err := ParseClientMPD(mr.Body); err == nil && len(cm.Periods) == 1 {
					for _, ca := range cm.Periods[0].Sets {
						if ca.RepID != w.Rep || !ca.Timeline {
							continue
						}
						// the timeline is listed per segment index; map each entry back by its start
						for _, ds := range ca.Segs {
							// video index whose A(start) equals ds.T
							vt := ds.T * ref.Timescale / rep.Timescale
							k := a.IndexContaining(ref, vt)
							lk := a.Live(ref, k)
							if A(lk.Start) != ds.T {
								// try the previous one (ds.T is at or after the video start)
								if k > 0 {
									lk = a.Live(ref, k-1)
								}
							}
							if A(lk.Start) != ds.T || A(lk.End)-A(lk.Start) != ds.D {
								res.Violate("C03.mpd-timeline", merge(feat, core.Sig("kind", "entry-off-grid")),
									"MPD lists audio t=%d d=%d; model segment %d is t=%d d=%d", ds.T, ds.D, lk.N, A(lk.Start), A(lk.End)-A(lk.Start))
								break
							}
						}
						res.Add("probe.mpd-entries-checked", len(ca.Segs))
					}
				}
			}
		}
	}
	res.SimMS += simHi - simLo
	res.Nontrivial = res.Stats["probe.checked"] >= 2
}

// mpdNameFor returns the name of an MPD of the asset that lists the representation.
func mpdNameFor(a *refmodel.Asset, repID string) string {
	for _, name := range a.MPDs {
		for _, as := range a.ASets[name] {
			for _, id := range as.RepIDs {
				if id == repID {
					return name
				}
			}
		}
	}
	return a.MPDs[0]
}

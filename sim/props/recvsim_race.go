//go:build race

package props

// Neutralising sync.Pool's race-detector modelling (race builds only).
//
// Under -race, sync.Pool.Put is a release and sync.Pool.Get an acquire on one of 128 hashed bucket
// addresses (sync.poolRaceHash). fmt, regexp, net/http ... all use pools, so almost every pair of
// handler executions is joined by a happens-before edge that is an artefact of pooling (it depends on
// per-P caches, on allocation addresses and on the pool's random dropping in race mode): genuine races
// of the program under test are then hidden in a run-to-run varying way (measured: 10-90 % misses).
// Before every serialized step a janitor goroutine - which never synchronises with any client -
// overwrites the bucket clocks with its own clock (runtime.RaceRelease = release-STORE), so an acquire
// in the next operation cannot import another client's history through a pool.
// Pools are also emptied (ygDrainPools) so that no pooled object really travels between operations
// (otherwise the detector would now report the reuse itself).
// The bucket array is found through the executable's symbol table (no linkname into package sync).

import (
	"bufio"
	"debug/elf"
	"os"
	"runtime"
	"strconv"
	"strings"
	"sync"
	"unsafe"
)

var (
	poolJanOnce sync.Once
	poolJanAddr uintptr
	poolJanBase unsafe.Pointer // poolJanAddr as a pointer (the array is a global of package sync, never moved or freed)
	poolJanN    int
	poolJanReq  ygWord
)

func poolRaceHashAddr() (uintptr, int) {
	f, err := elf.Open("/proc/self/exe")
	if err != nil {
		return 0, 0
	}
	defer f.Close()
	syms, err := f.Symbols()
	if err != nil {
		return 0, 0
	}
	var base uintptr
	if f.Type == elf.ET_DYN { // position independent: add the load address
		mf, err := os.Open("/proc/self/maps")
		if err != nil {
			return 0, 0
		}
		defer mf.Close()
		exe, _ := os.Readlink("/proc/self/exe")
		sc := bufio.NewScanner(mf)
		for sc.Scan() {
			fields := strings.Fields(sc.Text())
			if len(fields) >= 6 && fields[5] == exe && fields[2] == "00000000" {
				lo, _, _ := strings.Cut(fields[0], "-")
				v, err := strconv.ParseUint(lo, 16, 64)
				if err != nil {
					return 0, 0
				}
				base = uintptr(v)
				break
			}
		}
		if base == 0 {
			return 0, 0
		}
	}
	for _, s := range syms {
		if s.Name == "sync.poolRaceHash" && s.Size >= 8 {
			return base + uintptr(s.Value), int(s.Size / 8)
		}
	}
	return 0, 0
}

// ygNeutralisePools resets the pool bucket clocks. Returns false when the buckets could not be located.
func ygNeutralisePools() bool {
	poolJanOnce.Do(func() {
		poolJanAddr, poolJanN = poolRaceHashAddr()
		if poolJanAddr == 0 {
			return
		}
		poolJanBase = *(*unsafe.Pointer)(unsafe.Pointer(&poolJanAddr))
		go func() {
			for {
				for poolJanReq.load() != 1 {
					runtime.Gosched()
				}
				for i := 0; i < poolJanN; i++ {
					runtime.RaceRelease(unsafe.Add(poolJanBase, 8*i))
				}
				poolJanReq.store(0)
			}
		}()
	})
	if poolJanAddr == 0 {
		return false
	}
	poolJanReq.store(1)
	for poolJanReq.load() != 0 {
		runtime.Gosched()
	}
	return true
}

package props

import (
	"fmt"
	"hash/crc32"
	"math"
	"net/url"
	"strconv"
	"strings"
	"testing"

	"github.com/beevik/etree"

	"verif/sim/core"
	"verif/sim/hx"
	"verif/sim/refmodel"
)

// C11 — applying a served MPD patch to the old MPD yields the new MPD (engine T).
//
// Scenario kind "live": a simulated patch-capable player polls the MPD at t1, later (t2)
// requests the advertised PatchLocation and the full MPD, applies the patch with the
// harness's own RFC 5261 applier (hx.ApplyXMLPatch) and compares canonically.
// Scenario kind "treediff" (declared supplement, plain seeded generation): patch.MPDDiff on
// generated pairs of id-carrying MPD-like trees, same apply-and-compare oracle.

type c11World struct {
	Kind    string `json:"kind"` // live | treediff
	VodRoot string `json:"vodroot,omitempty"`
	Asset   string `json:"asset,omitempty"`
	MPD     string `json:"mpd,omitempty"`
	Cfg     URLCfg `json:"cfg"`
	TTL     int    `json:"ttl,omitempty"`
	// TimeOffsetMS mirrors a timeoffset_X URL part (server clock = request instant + X); the
	// simulated player follows the server clock (UTCTiming), so TTL ages are counted on it.
	TimeOffsetMS int64 `json:"timeoffset_ms,omitempty"`
}

type c11Op struct {
	// live
	T1    int64  `json:"t1,omitempty"`
	T2    int64  `json:"t2,omitempty"`
	Class string `json:"class,omitempty"` // generator's intent (informational only)
	// treediff
	A      string   `json:"a,omitempty"`
	B      string   `json:"b,omitempty"`
	Edits  []string `json:"edits,omitempty"`
	Traits []string `json:"traits,omitempty"`
}

type C11 struct{}

func init() { core.Register(C11{}) }

func (C11) ID() string     { return "C11" }
func (C11) Engine() string { return "tlsim" }

// assets usable with SegmentTimeline + patch, with generator weights and the periods_N values
// whose period length is a whole number of (nominal) segment durations for that asset.
type c11Asset struct {
	Ref     assetRef
	Weight  int
	Periods []int
}

var c11Assets = []c11Asset{
	{assetRef{"testpic_2s", "Manifest.mpd"}, 5, []int{30, 60, 120, 180, 360, 600, 900}},
	{assetRef{"testpic_2s", "Manifest_thumbs.mpd"}, 1, []int{60, 120, 360}},
	{assetRef{"testpic_2s", "Manifest_imsc1.mpd"}, 1, []int{60, 120, 360}},
	{assetRef{"testpic_6s", "Manifest.mpd"}, 2, []int{30, 60, 120, 150, 200, 300, 600}},
	{assetRef{"testpic_8s", "Manifest.mpd"}, 2, []int{15, 30, 45, 50, 75, 90, 150, 225, 450}},
	{assetRef{"testpic_alt_seg_dur_stl", "Manifest.mpd"}, 5, []int{30, 60, 100, 150, 300}},
	{assetRef{"bbb_hevc_ac3_8s", "manifest.mpd"}, 1, []int{60, 120, 360}},
	{assetRef{"WAVE/vectors/cfhd_sets/12.5_25_50/t3/2022-10-17", "stream.mpd"}, 2, []int{60, 120, 360, 900}},
	{assetRef{"WAVE/vectors/cfhd_sets/14.985_29.97_59.94/t1/2022-10-17", "stream.mpd"}, 5, nil},
}

func (C11) Gen(rng *core.Rng, tier string, idx int) *core.Scenario {
	if rng.Chance(0.3) {
		return c11GenTree(rng, tier)
	}
	total := 0
	for _, a := range c11Assets {
		total += a.Weight
	}
	pick := rng.Intn(total)
	var ca c11Asset
	for _, a := range c11Assets {
		if pick < a.Weight {
			ca = a
			break
		}
		pick -= a.Weight
	}
	a := refAssets(hx.BundledAssets)[ca.Ref.Asset]
	ref := a.Ref()
	base := int64(1_600_000_000_000) + rng.Int63n(300_000_000_000)
	switch rng.Intn(12) {
	case 0: // clock far from the epoch
		base = 3_000_000_000_000 + rng.Int63n(1_000_000_000_000)
	case 1: // clock close to the epoch (stream start_0 has just begun)
		base = rng.Int63n(200_000)
	}
	cfg := URLCfg{MPDType: core.Pick(rng, []string{"timeline", "timelinenr"})}
	switch rng.Intn(8) {
	case 0: // stream started shortly before the polls (growing window, no removals yet)
		cfg.StartS = p64(base/1000 - int64(rng.Range(0, 90)))
	case 1:
		cfg.StartS = p64(base/1000 - int64(rng.Range(100, 100000)))
	case 2: // close to a loop wrap
		cfg.StartS = p64(base/1000 - int64(rng.Range(1, 4))*a.LoopDurMS/1000 - int64(rng.Range(0, 10)))
	}
	if cfg.StartS != nil && *cfg.StartS < 0 {
		cfg.StartS = p64(0)
	}
	segS := int(a.SegDurMS / 1000)
	if segS < 1 {
		segS = 1
	}
	switch rng.Intn(6) {
	case 0, 1: // whole multiple of the nominal segment duration
		cfg.Tsbd = pint(segS * rng.Range(1, 15))
	case 2, 3: // not a multiple
		cfg.Tsbd = pint(segS*rng.Range(1, 15) + rng.Range(1, segS*2-1))
	case 4:
		cfg.Tsbd = pint(core.Pick(rng, []int{1, 3, 5, 7, 11, 13, 25, 45, 90, 300}))
	}
	if len(ca.Periods) > 0 && rng.Chance(0.35) {
		cfg.Periods = pint(core.Pick(rng, ca.Periods))
		if rng.Chance(0.3) {
			cfg.Continuous = true
		}
		if rng.Chance(0.3) {
			// plain $Number$ templates: the list of Periods is then the only thing that changes, and the publishTime
			// (hence the PatchLocation) follows the Period changes alone
			cfg.MPDType = "number"
		}
	} else if rng.Chance(0.03) {
		cfg.MPDType = "number" // never changes: every patch request is answered 425
	}
	// availabilityTimeOffset: finite, below / equal to / above the segment duration, with and
	// without chunked (low-latency) mode; biased towards a tsbd that is no multiple of the
	// segment duration, where window-start changes and live-edge changes fall apart.
	atoMS := int64(0)
	if rng.Chance(0.35) {
		segSf := float64(a.SegDurMS) / 1000
		cfg.Ato = core.Pick(rng, []string{"0.5", "1", "1.5", fmt.Sprintf("%.3f", segSf/2), fmt.Sprintf("%.3f", segSf-0.5),
			fmt.Sprintf("%.3f", segSf), fmt.Sprintf("%.3f", segSf+0.5), fmt.Sprintf("%.3f", segSf*1.5), fmt.Sprintf("%.3f", segSf*2.5), "-0.5", "-1.5"})
		atoMS = int64(math.Round(cfg.AtoS() * 1000))
		if rng.Chance(0.5) {
			cfg.ChunkDur = core.Pick(rng, []string{"0.25", "0.5", "1"})
		}
		if rng.Chance(0.7) {
			v := segS*rng.Range(1, 15) + rng.Range(1, segS*2-1)
			if v%segS == 0 {
				v++
			}
			cfg.Tsbd = pint(v)
		}
	}
	var timeOffsetMS int64
	if rng.Chance(0.08) {
		off := core.Pick(rng, []string{"3", "0.5", "1.5", "10", "-3", "-0.5"})
		cfg.Extra = append(cfg.Extra, "timeoffset_"+off)
		f, _ := strconv.ParseFloat(off, 64)
		timeOffsetMS = int64(math.Round(f * 1000))
	}
	ttl := core.Pick(rng, []int{1, 2, 5, 10, 20, 30, 60, 60, 120, 300})
	cfg.Extra = append(cfg.Extra, fmt.Sprintf("patch_%d", ttl))
	if rng.Chance(0.15) { // UTCTiming variants: nothing in the MPD may depend on the request instant but through publishTime
		cfg.Extra = append(cfg.Extra, core.Pick(rng, []string{"utc_direct", "utc_direct-ntp", "utc_httpiso", "utc_head-sntp", "utc_none"}))
	}
	if rng.Chance(0.08) {
		cfg.Extra = append(cfg.Extra, core.Pick(rng, []string{"timesubsstpp_en", "timesubswvtt_en,sv"}))
	}
	w := c11World{Kind: "live", VodRoot: "bundled", Asset: ca.Ref.Asset, MPD: ca.Ref.MPD, Cfg: cfg, TTL: ttl, TimeOffsetMS: timeOffsetMS}
	sc := core.NewScenario("C11", "tlsim", 0, tier, w)

	ast := cfg.AST() * 1000
	tsbdMS := cfg.TsbdS() * 1000
	N := int64(len(ref.Segs))
	avail := func(k int64) int64 {
		if k < 0 {
			return ast
		}
		v := availMS(cfg.AST(), a.Live(ref, k).End, ref.Timescale, 0) - atoMS
		if v < ast {
			v = ast
		}
		return v - timeOffsetMS
	}
	// leave(j): the instant at which segment j stops being listed (it ended tsbd ago, seen
	// through the availabilityTimeOffset) = a change at the window start
	leave := func(j int64) int64 { return avail(j) + tsbdMS }
	nOps := rng.Range(3, 6)
	if tier == "thorough" {
		nOps = rng.Range(6, 14)
	}
	for i := 0; i < nOps; i++ {
		rel := base - ast + int64(rng.Range(0, 400))*a.SegDurMS
		if cfg.StartS != nil && rng.Chance(0.3) {
			rel = int64(rng.Range(0, int(tsbdMS)+20000))
		}
		if rel < 0 {
			rel = 0
		}
		k := a.LastEndedBy(ref, rel) // newest complete segment at rel
		class := core.Pick(rng, []string{"same", "same", "one", "one", "one", "several", "several", "wrap", "period", "period",
			"ttl-edge", "ttl-beyond", "random", "start-only", "window-start", "window-start"})
		if (atoMS > 0 || cfg.Tsbd != nil && *cfg.Tsbd%segS != 0) && rng.Chance(0.4) {
			class = "window-start"
		}
		if class == "period" && cfg.Periods == nil {
			class = "several"
		}
		if class == "wrap" {
			// move k to the last segment of its loop, so that the next additions cross the wrap
			k = (k/N+1)*N - 1 - int64(rng.Intn(2))
		}
		var t1, t2 int64
		b0, b1 := avail(k), avail(k+1)
		off := func() int64 {
			switch rng.Intn(6) {
			case 0:
				return 0
			case 1:
				return 1
			case 2:
				return b1 - b0 - 1
			default:
				return rng.Range64(0, b1-b0-1)
			}
		}
		t1 = b0 + off()
		switch class {
		case "same":
			t2 = rng.Range64(t1+1, b1-1)
		case "one":
			t2 = b1 + core.Pick(rng, []int64{0, 1, rng.Range64(0, avail(k+2)-b1-1)})
		case "several", "wrap":
			n := int64(rng.Range(2, 12))
			bn := avail(k + n)
			t2 = bn + rng.Range64(0, avail(k+n+1)-bn-1)
		case "start-only":
			// aim at the instant where the oldest segment leaves the window while the edge stands still
			t1 = b0 + rng.Range64(0, (b1-b0)/2)
			t2 = rng.Range64(t1+1, b1-1)
		case "window-start":
			// straddle the instant L at which the oldest segment leaves: both sides, +-1 ms, and
			// inside the ato-wide interval after it
			L := leave(k - int64(rng.Intn(3)))
			atoW := atoMS
			if atoW < 1 {
				atoW = 1
			}
			switch rng.Intn(8) {
			case 0:
				t1, t2 = L-1, L
			case 1:
				t1, t2 = L-1, L+1
			case 2:
				t1, t2 = L, L+1
			case 3:
				t1 = L + rng.Range64(0, atoW)
				t2 = t1 + rng.Range64(1, atoW)
			case 4:
				t1 = L + rng.Range64(0, atoW)
				t2 = L + atoW + rng.Range64(0, a.SegDurMS)
			case 5:
				t1 = L - rng.Range64(1, atoW)
				t2 = L + rng.Range64(0, atoW)
			case 6:
				t1 = L + rng.Range64(0, atoW)
				t2 = t1 + rng.Range64(1, 3*a.SegDurMS)
			default:
				t1 = L - rng.Range64(1, a.SegDurMS)
				t2 = L + rng.Range64(0, a.SegDurMS)
			}
		case "period":
			pd := int64(3600 / *cfg.Periods * 1000)
			pb := (t1/pd + 1) * pd // next period boundary
			switch rng.Intn(4) {
			case 0: // new period appears
				t1 = pb - rng.Range64(1, 2*a.SegDurMS)
				t2 = pb + rng.Range64(0, 3*a.SegDurMS)
			case 1: // oldest period leaves the window
				t1 = pb + tsbdMS - rng.Range64(1, 2*a.SegDurMS)
				t2 = pb + tsbdMS + rng.Range64(0, 3*a.SegDurMS)
			case 2: // both directions in one step
				t1 = pb - rng.Range64(1, 2*a.SegDurMS)
				t2 = pb + tsbdMS + rng.Range64(0, 3*a.SegDurMS)
			default:
				t1 = pb + rng.Range64(-2000, 2000)
				t2 = t1 + rng.Range64(1, pd+tsbdMS)
			}
		case "ttl-edge":
			t2 = t1 + int64(ttl)*1000 + rng.Range64(-3000, 15000)
		case "ttl-beyond":
			t2 = t1 + int64(ttl+60)*1000 + rng.Range64(0, 120000)
		default:
			t2 = t1 + rng.Range64(1, 2*tsbdMS+10000)
		}
		if t1 < ast-timeOffsetMS {
			t1 = ast - timeOffsetMS
		}
		if t1 < 0 {
			t1 = 0
		}
		if t2 <= t1 {
			t2 = t1 + 1
		}
		sc.AddOp(c11Op{T1: t1, T2: t2, Class: class})
	}
	return sc
}

func (C11) Run(t *testing.T, sc *core.Scenario, res *core.Result) {
	w, err := core.DecodeWorld[c11World](sc)
	if err != nil {
		panic(err)
	}
	ops, err := core.DecodeOps[c11Op](sc)
	if err != nil {
		panic(err)
	}
	if w.Kind == "treediff" {
		for i, op := range ops {
			c11TreeOp(res, i, op)
		}
		res.Nontrivial = res.Stats["probe.tree-patch-applied"] > 0
		return
	}
	root := vodRootOf(w.VodRoot)
	srv := sharedSrv(root)
	a := refAssets(root)[w.Asset]
	if a == nil {
		panic("harness: unknown asset " + w.Asset)
	}
	feat := merge(w.Cfg.Features(a), assetTraits(a), core.Sig("segend", c11SegEnd(a), "scenario", "live"))
	delete(feat, "snr")
	feat["ato"] = "0"
	if atoS := w.Cfg.AtoS(); atoS > 0 && a.SegDurMS > 0 {
		switch atoMS := int64(math.Round(atoS * 1000)); {
		case atoMS < a.SegDurMS:
			feat["ato"] = "lt-seg"
		case atoMS == a.SegDurMS:
			feat["ato"] = "eq-seg"
		default:
			feat["ato"] = "gt-seg"
		}
	}
	if _, ok := feat["chunked"]; !ok {
		feat["chunked"] = "false"
	}
	feat["timeoffset"] = "none"
	if w.TimeOffsetMS != 0 {
		feat["timeoffset"] = "set"
	}
	for _, op := range ops {
		if op.T2 <= op.T1 {
			continue
		}
		c11LiveOp(res, srv, a, w, feat, op)
		res.SimMS += op.T2 - op.T1
	}
	res.Nontrivial = res.Stats["probe.patch-ok"] > 0 || res.Stats["probe.status-425"] > 0 || res.Stats["probe.status-410"] > 0
}

// c11SegEnd tells whether all reference segments end on whole seconds (asset trait, Appendix A).
func c11SegEnd(a *refmodel.Asset) string {
	r := a.Ref()
	for _, s := range r.Segs {
		if s.End%r.Timescale != 0 {
			if s.End*1000%r.Timescale != 0 {
				return "sub-ms"
			}
			return "whole-ms"
		}
	}
	return "whole-s"
}

type c11MPD struct {
	doc       *etree.Document
	root      *etree.Element
	publish   string
	publishMS int64
	id        string
	location  string // request target of the first PatchLocation
	ttlS      float64
	hasLoc    bool
}

func c11ParseMPD(body []byte) (*c11MPD, error) {
	d, err := hx.ParseXML(body)
	if err != nil {
		return nil, err
	}
	m := &c11MPD{doc: d, root: d.Root()}
	if m.root.Tag != "MPD" {
		return nil, fmt.Errorf("root is <%s>", m.root.Tag)
	}
	m.publish = m.root.SelectAttrValue("publishTime", "")
	m.id = m.root.SelectAttrValue("id", "")
	if m.publish == "" {
		return nil, fmt.Errorf("no publishTime")
	}
	m.publishMS, err = parseDateMS(m.publish)
	if err != nil {
		return nil, fmt.Errorf("publishTime: %w", err)
	}
	for _, c := range m.root.ChildElements() {
		if c.Tag != "PatchLocation" {
			continue
		}
		loc := strings.TrimSpace(c.Text())
		u, err := url.Parse(loc)
		if err != nil {
			return nil, fmt.Errorf("PatchLocation %q: %w", loc, err)
		}
		m.location = u.RequestURI()
		m.ttlS, err = strconv.ParseFloat(c.SelectAttrValue("ttl", ""), 64)
		if err != nil {
			return nil, fmt.Errorf("PatchLocation@ttl: %w", err)
		}
		m.hasLoc = true
		break
	}
	return m, nil
}

// c11Shape summarises the period / timeline structure of an MPD for the probes.
type c11Shape struct {
	periods []string
	firstT  map[string]string // per "period/as": t of first S
	lastEnd map[string]uint64
	rs      map[string]string
	nsegs   map[string]int
	startNr map[string]string
	asNoID  bool
}

func c11ShapeOf(root *etree.Element) c11Shape {
	sh := c11Shape{firstT: map[string]string{}, lastEnd: map[string]uint64{}, rs: map[string]string{}, nsegs: map[string]int{}, startNr: map[string]string{}}
	for _, p := range root.ChildElements() {
		if p.Tag != "Period" {
			continue
		}
		pid := p.SelectAttrValue("id", "")
		sh.periods = append(sh.periods, pid)
		for _, as := range p.ChildElements() {
			if as.Tag != "AdaptationSet" {
				continue
			}
			if as.SelectAttr("id") == nil {
				sh.asNoID = true
			}
			key := pid + "/" + as.SelectAttrValue("id", "") + "/" + as.SelectAttrValue("contentType", "")
			st := as.SelectElement("SegmentTemplate")
			if st == nil {
				continue
			}
			sh.startNr[key] = st.SelectAttrValue("startNumber", "")
			tl := st.SelectElement("SegmentTimeline")
			if tl == nil {
				continue
			}
			var t uint64
			var rs []string
			n := 0
			for i, s := range tl.ChildElements() {
				if i == 0 {
					sh.firstT[key] = s.SelectAttrValue("t", "")
				}
				if v := s.SelectAttrValue("t", ""); v != "" {
					t, _ = strconv.ParseUint(v, 10, 64)
				}
				d, _ := strconv.ParseUint(s.SelectAttrValue("d", "0"), 10, 64)
				r, _ := strconv.Atoi(s.SelectAttrValue("r", "0"))
				t += d * uint64(r+1)
				n += r + 1
				rs = append(rs, s.SelectAttrValue("r", "0"))
			}
			sh.lastEnd[key] = t
			sh.rs[key] = strings.Join(rs, ",")
			sh.nsegs[key] = n
		}
	}
	return sh
}

func c11Probes(res *core.Result, s1, s2 c11Shape) (startMoved, edgeMoved bool) {
	in1 := map[string]bool{}
	for _, p := range s1.periods {
		in1[p] = true
	}
	in2 := map[string]bool{}
	for _, p := range s2.periods {
		in2[p] = true
		if !in1[p] {
			res.Count("probe.period-added")
		}
	}
	for _, p := range s1.periods {
		if !in2[p] {
			res.Count("probe.period-removed")
		}
	}
	if len(s1.periods) > 1 || len(s2.periods) > 1 {
		res.Count("probe.multi-period")
	}
	rchg := false
	for _, k := range sortedKeys(s1.lastEnd) {
		if _, ok := s2.lastEnd[k]; !ok {
			continue
		}
		if s1.firstT[k] != s2.firstT[k] || s1.startNr[k] != s2.startNr[k] {
			startMoved = true
		}
		if s1.lastEnd[k] != s2.lastEnd[k] {
			edgeMoved = true
		}
		if s1.rs[k] != s2.rs[k] {
			rchg = true
		}
	}
	if len(s1.periods) != len(s2.periods) || (len(s1.periods) > 0 && len(s2.periods) > 0 && s1.periods[len(s1.periods)-1] != s2.periods[len(s2.periods)-1]) {
		edgeMoved = true
	}
	if len(s1.periods) > 0 && len(s2.periods) > 0 && s1.periods[0] != s2.periods[0] {
		startMoved = true
	}
	if startMoved {
		res.Count("probe.removed-at-start")
	}
	if edgeMoved {
		res.Count("probe.added-at-end")
	}
	if startMoved && !edgeMoved {
		res.Count("probe.start-moved-only")
	}
	if edgeMoved && !startMoved {
		res.Count("probe.end-moved-only")
	}
	if rchg {
		res.Count("probe.repeat-count-changed")
	}
	return
}

func c11LiveOp(res *core.Result, srv *hx.Srv, a *refmodel.Asset, w c11World, feat map[string]string, op c11Op) {
	res.Count("op.pair")
	mpdPath := w.Cfg.Prefix(w.Asset) + "/" + w.MPD
	sig := func(kv ...string) map[string]string { return merge(feat, core.Sig(kv...)) }
	ctx := fmt.Sprintf("%s t1=%d t2=%d", mpdPath, op.T1, op.T2)

	get := func(what, path string, now int64) *hx.Resp {
		r := srv.GetAt(path, now)
		res.Event("%s t=%d status=%d len=%d crc=%08x", what, now, r.Status, len(r.Body), crc32.ChecksumIEEE(r.Body))
		return r
	}
	bad := func(what string, r *hx.Resp) bool {
		if r.Panic != "" {
			res.Violate("C11.no-5xx", sig("kind", "panic", "request", what, "frame", r.PanicFrame), "%s: %s panicked: %s", ctx, what, r.Panic)
			return true
		}
		if r.Status >= 500 {
			res.Violate("C11.no-5xx", sig("kind", "5xx", "request", what, "status", fmt.Sprint(r.Status)), "%s: %s answered %d %q", ctx, what, r.Status, trunc(string(r.Body), 120))
			return true
		}
		return false
	}
	if op.T1+w.TimeOffsetMS < w.Cfg.AST()*1000 {
		res.Count("probe.skipped-before-start")
		return
	}
	r1 := get("mpd1", mpdPath, op.T1)
	if bad("mpd", r1) {
		return
	}
	if r1.Status != 200 {
		res.Violate("C11.mpd-served", sig("kind", "mpd-not-200", "status", fmt.Sprint(r1.Status)), "%s: MPD(t1) status %d %q", ctx, r1.Status, trunc(string(r1.Body), 120))
		return
	}
	m1, err := c11ParseMPD(r1.Body)
	if err != nil {
		res.Violate("C11.mpd-served", sig("kind", "mpd-unusable"), "%s: MPD(t1): %v", ctx, err)
		return
	}
	if !m1.hasLoc {
		res.Violate("C11.patch-location", sig("kind", "no-patch-location"), "%s: MPD(t1) has no PatchLocation", ctx)
		return
	}
	if m1.ttlS != float64(w.TTL) {
		res.Violate("C11.patch-location", sig("kind", "ttl-advertised"), "%s: PatchLocation@ttl=%v, configured patch_%d", ctx, m1.ttlS, w.TTL)
	}
	r2 := get("mpd2", mpdPath, op.T2)
	if bad("mpd", r2) {
		return
	}
	if r2.Status != 200 {
		res.Violate("C11.mpd-served", sig("kind", "mpd-not-200", "status", fmt.Sprint(r2.Status)), "%s: MPD(t2) status %d", ctx, r2.Status)
		return
	}
	m2, err := c11ParseMPD(r2.Body)
	if err != nil {
		res.Violate("C11.mpd-served", sig("kind", "mpd-unusable"), "%s: MPD(t2): %v", ctx, err)
		return
	}

	mpdDiff := hx.CanonicalDiff(m1.root, m2.root)
	same := mpdDiff == nil
	s1, s2 := c11ShapeOf(m1.root), c11ShapeOf(m2.root)
	startMoved, edgeMoved := false, false
	if same {
		res.Count("probe.unchanged")
	} else {
		startMoved, edgeMoved = c11Probes(res, s1, s2)
	}
	if a.LoopDurMS > 0 && (op.T1-w.Cfg.AST()*1000)/a.LoopDurMS != (op.T2-w.Cfg.AST()*1000)/a.LoopDurMS {
		res.Count("probe.wrap-crossed")
	}
	if len(s1.lastEnd) > 0 {
		empty := true
		for _, k := range sortedKeys(s1.nsegs) {
			if s1.nsegs[k] > 0 {
				empty = false
			}
		}
		if empty {
			res.Count("probe.empty-timeline-at-t1")
		}
	}
	astMS := w.Cfg.AST() * 1000
	ptFeat := "normal"
	if m1.publishMS == astMS {
		ptFeat = "at-ast"
		for _, k := range sortedKeys(s1.nsegs) {
			if s1.nsegs[k] > 0 {
				ptFeat = "at-ast-with-segments"
			}
		}
	}
	asIDs := "all"
	if s1.asNoID || s2.asNoID {
		asIDs = "missing"
	}
	feat = merge(feat, core.Sig("publishTime", ptFeat, "as-ids", asIDs))
	sig = func(kv ...string) map[string]string { return merge(feat, core.Sig(kv...)) }
	if ref := a.Ref(); a.LastEndedBy(ref, op.T2+w.TimeOffsetMS-astMS)-a.LastEndedBy(ref, op.T1+w.TimeOffsetMS-astMS) >= 2 {
		res.Count("probe.several-segments-added")
	}
	rp := get("patch", m1.location, op.T2)
	res.Count(fmt.Sprintf("probe.status-%d", rp.Status))
	if bad("patch", rp) {
		return
	}
	if op.T1 < 1_500_000_000_000 || op.T1 > 2_000_000_000_000 {
		res.Count("fault.clock-far-from-usual")
	}
	if w.TimeOffsetMS != 0 {
		res.Count("fault.server-clock-offset")
	}
	if w.Cfg.AtoS() > 0 {
		res.Count("probe.ato-pair")
		if w.Cfg.ChunkDur != "" {
			res.Count("probe.ato-chunked-pair")
		}
	}
	if op.Class == "window-start" {
		res.Count("op.window-start-pair")
	}
	if op.T1+w.TimeOffsetMS-astMS < w.Cfg.TsbdS()*1000 {
		res.Count("fault.poll-just-after-start")
	}
	if op.T2-op.T1 > int64(m1.ttlS*1000) {
		res.Count("fault.clock-jump-beyond-ttl")
	}
	change := "none"
	switch {
	case same:
	case startMoved && edgeMoved:
		change = "both-ends"
	case startMoved:
		change = "start-only"
	case edgeMoved:
		change = "end-only"
	default:
		change = "other"
	}
	pubEq := "false"
	if m1.publish == m2.publish {
		pubEq = "true"
	}

	// TTL zones (DESIGN Appendix B: expiry asserted only with one minute of slack on the late side).
	ttlMS := int64(m1.ttlS * 1000)
	// ages are counted on the server clock the player is synchronised to (request instant + timeoffset)
	within := op.T2+w.TimeOffsetMS-m1.publishMS <= ttlMS
	beyond := op.T2-op.T1 >= ttlMS+60000
	switch {
	case within:
		res.Count("probe.ttl-within")
	case beyond:
		res.Count("probe.ttl-beyond")
	default:
		res.Count("probe.ttl-gray-zone")
	}

	// base: how the server's own reconstruction of "the MPD with that publishTime" relates to the
	// MPD the player really holds (diagnostic feature only, computed when something is reported).
	baseMemo := ""
	var baseFeat0 func() string
	baseFeat := func() string {
		if baseMemo == "" {
			baseMemo = baseFeat0()
		}
		return baseMemo
	}
	baseFeat0 = func() string {
		rb := srv.Get(mpdPath + "?publishTime=" + url.QueryEscape(m1.publish))
		res.Event("mpd-by-publishTime status=%d len=%d crc=%08x", rb.Status, len(rb.Body), crc32.ChecksumIEEE(rb.Body))
		if rb.Status != 200 {
			return "unavailable"
		}
		mb, err := c11ParseMPD(rb.Body)
		if err != nil {
			return "unusable"
		}
		if mb.publish != m1.publish {
			return "other-publishTime"
		}
		if hx.CanonicalDiff(mb.root, m1.root) != nil {
			return "same-publishTime-other-content"
		}
		return "equal"
	}

	switch {
	case beyond:
		if same && rp.Status == 425 {
			// nothing changed AND beyond the time-to-live (an MPD that never changes, e.g. plain $Number$ templates):
			// the statement gives 425 for the first and 410 for the second and does not say which wins; both are accepted
			res.Count("probe.unchanged-beyond-ttl-425")
			return
		}
		if rp.Status != 410 {
			res.Violate("C11.ttl-410", sig("kind", "expected-410", "status", fmt.Sprint(rp.Status)),
				"%s: ttl %v s, t2-t1=%d ms, publishTime(t1)=%s: status %d", ctx, m1.ttlS, op.T2-op.T1, m1.publish, rp.Status)
		}
		return
	case rp.Status == 410:
		if within {
			res.Violate("C11.ttl-410", sig("kind", "410-within-ttl"),
				"%s: ttl %v s, t2-publishTime(t1)=%d ms: 410", ctx, m1.ttlS, op.T2-m1.publishMS)
		}
		return
	}
	if same {
		if rp.Status != 425 {
			res.Violate("C11.unchanged-425", sig("kind", "unchanged-not-425", "status", fmt.Sprint(rp.Status), "base", baseFeat()),
				"%s: MPD(t1) == MPD(t2) but patch request answered %d", ctx, rp.Status)
		}
		return
	}
	if rp.Status != 200 {
		res.Violate("C11.patch-served", sig("kind", "changed-but-no-patch", "status", fmt.Sprint(rp.Status), "change", change, "publishTime-equal", pubEq, "base", baseFeat()),
			"%s: MPD changed (%v; publishTime %s -> %s) but patch request answered %d %q", ctx, mpdDiff, m1.publish, m2.publish, rp.Status, trunc(string(rp.Body), 80))
		return
	}
	pd, err := hx.ParseXML(rp.Body)
	if err != nil || pd.Root().Tag != "Patch" {
		res.Violate("C11.patch-served", sig("kind", "patch-unparsable"), "%s: %v %q", ctx, err, trunc(string(rp.Body), 120))
		return
	}
	pr := pd.Root()
	if ct := rp.CT(); !strings.HasPrefix(ct, "application/dash-patch+xml") {
		res.Violate("C11.patch-served", sig("kind", "content-type"), "%s: Content-Type %q", ctx, ct)
	}
	// (1) identity of base and target
	headOK := true
	if opt := pr.SelectAttrValue("originalPublishTime", ""); !c11SameInstant(opt, m1.publish) {
		headOK = false
		res.Violate("C11.original-publish-time", sig("kind", "originalPublishTime-mismatch", "dir", c11Dir(opt, m1.publish), "change", change, "base", baseFeat()),
			"%s: patch originalPublishTime=%q, MPD(t1) publishTime=%q", ctx, opt, m1.publish)
	}
	if npt := pr.SelectAttrValue("publishTime", ""); !c11SameInstant(npt, m2.publish) {
		headOK = false
		res.Violate("C11.new-publish-time", sig("kind", "publishTime-mismatch", "dir", c11Dir(npt, m2.publish)),
			"%s: patch publishTime=%q, MPD(t2) publishTime=%q", ctx, npt, m2.publish)
	}
	if id := pr.SelectAttrValue("mpdId", ""); id != m1.id {
		res.Violate("C11.original-publish-time", sig("kind", "mpdId-mismatch"), "%s: patch mpdId=%q, MPD id=%q", ctx, id, m1.id)
	}
	// (2) apply and compare
	work := m1.doc.Copy()
	issues, counts := hx.ApplyXMLPatch(work.Root(), pr)
	for _, k := range sortedKeys(counts) {
		res.Add("probe.patchop."+k, counts[k])
	}
	res.Event("patch ops=%d issues=%d", len(pr.ChildElements()), len(issues))
	var bf string
	fatal := false
	for _, is := range issues {
		if bf == "" {
			bf = baseFeat()
		}
		res.Violate("C11.selectors-unique", sig("kind", is.Kind, "op", is.Op, "target", is.Target, "addr", is.Addr, "tag", c11TagClass(is.Tag), "change", change, "base", bf),
			"%s: %s", ctx, is.String())
		if is.Fatal {
			fatal = true
		}
	}
	if fatal {
		return
	}
	if d := hx.CanonicalDiff(work.Root(), m2.root); d != nil {
		if bf == "" {
			bf = baseFeat()
		}
		res.Violate("C11.apply-yields-new", sig("kind", "result-differs", "diff", d.Kind, "at", c11TagClass(d.Tag), "change", change, "base", bf),
			"%s: apply(patch, MPD(t1)) != MPD(t2): %v", ctx, d)
		return
	}
	if headOK {
		res.Count("probe.patch-ok")
	}
}

// c11TagClass keeps the tag feature of signatures in a small fixed vocabulary.
func c11TagClass(tag string) string {
	switch tag {
	case "S", "Period", "AdaptationSet", "Representation", "SegmentTemplate", "SegmentTimeline", "MPD", "PatchLocation", "none":
		return tag
	}
	return "other"
}

func c11SameInstant(a, b string) bool {
	if a == b {
		return a != ""
	}
	ta, err1 := parseDateMS(a)
	tb, err2 := parseDateMS(b)
	return err1 == nil && err2 == nil && ta == tb
}

func c11Dir(got, want string) string {
	tg, err1 := parseDateMS(got)
	tw, err2 := parseDateMS(want)
	switch {
	case err1 != nil || err2 != nil:
		return "unparsable"
	case tg < tw:
		return "earlier"
	case tg > tw:
		return "later"
	}
	return "equal"
}

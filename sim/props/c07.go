package props

import (
	"bytes"
	"fmt"
	"io"
	"net/http"
	"os"
	"path/filepath"
	"strings"
	"sync"
	"testing"
	"testing/synctest"
	"time"

	"verif/sim/core"
	"verif/sim/hx"
	"verif/sim/refmodel"
)

// C07 — livesim2 responses are a pure function of (URL, time) and race-free.
//
// Three scenario kinds (DESIGN.md §7 C07):
//   history   (engine T): a long-running instance serves a seeded request history with duplicates,
//             reorderings and replays, disturbed by REST create/step/info/delete calls; every response
//             must equal the response of a fresh instance, of a cache-loaded instance and of the same
//             instance at another point of the history.
//   realclock (engine B): inside a synctest bubble the response obtained through the fake time.Now()
//             equals the one obtained with ?nowMS= that instant.
//   race      (engine R, -race binary): client goroutines run REST calls and requests in a scheduled
//             order through race-invisible gates; no race report, each response equals its solo twin.

type c07World struct {
	Kind    string `json:"kind"`
	VodRoot string `json:"vodroot"`
	Clients int    `json:"clients,omitempty"`
}

type c07Op struct {
	Op     string `json:"op"`               // get | create | step | info | delete
	Path   string `json:"path,omitempty"`   // for get: path without nowMS
	NowMS  int64  `json:"now,omitempty"`    // simulated instant of a get
	Body   string `json:"body,omitempty"`   // create
	Sess   int    `json:"sess,omitempty"`   // index of the session (by creation order in the scenario)
	Client int    `json:"client,omitempty"` // race kind: which client goroutine issues it
	Dup    bool   `json:"dup,omitempty"`    // history kind: this get replays an earlier one (informational)
	Class  string `json:"class,omitempty"`  // request class for signatures (mpd, init, media-video, ...)
}

type C07 struct{}

func init() { core.Register(C07{}) }

func (C07) ID() string      { return "C07" }
func (C07) Engine() string  { return "tlsim" }
func (C07) NeedsRace() bool { return true }

// c07Request draws one request of the livesim2 surface: (path, instant, class).
func c07Request(rng *core.Rng, assets map[string]*refmodel.Asset) (string, int64, string) {
	ar := core.Pick(rng, bundledMPDs)
	a := assets[ar.Asset]
	now := int64(1_600_000_000_000) + rng.Int63n(300_000_000_000)
	cfg := URLCfg{MPDType: core.Pick(rng, []string{"number", "timeline", "timelinenr"})}
	if rng.Chance(0.3) {
		cfg.Tsbd = pint(core.Pick(rng, []int{7, 20, 30, 90}))
	}
	if rng.Chance(0.2) {
		cfg.Snr = pint(core.Pick(rng, []int{1, 7, 100}))
	}
	if rng.Chance(0.2) {
		cfg.StartS = p64(now/1000 - int64(rng.Range(10, 100000)))
	}
	class := ""
	canDRM := strings.HasPrefix(ar.Asset, "testpic")
	switch rng.Intn(9) {
	case 0:
		if canDRM {
			cfg.Extra = append(cfg.Extra, core.Pick(rng, []string{"eccp_cenc", "eccp_cbcs"}))
			class = "drm-"
		}
	case 1:
		cfg.Extra = append(cfg.Extra, core.Pick(rng, []string{"timesubsstpp_en,sv", "timesubswvtt_en"}))
		class = "subs-"
	case 2:
		cfg.Extra = append(cfg.Extra, fmt.Sprintf("scte35_%d", rng.Range(1, 3)))
		class = "scte35-"
	case 3:
		if a.ConstSegDur && (60_000%a.SegDurMS) == 0 && cfg.StartS == nil {
			cfg.Periods = pint(60)
			class = "periods-"
		}
	case 4:
		cfg.Extra = append(cfg.Extra, "statuscode_[{cycle:30,rsq:0,code:404}]")
		class = "statuscode-"
	case 5:
		if cfg.MPDType != "number" {
			cfg.Extra = append(cfg.Extra, "patch_60")
			class = "patch-"
		}
	case 6:
		if a.ConstSegDur {
			cfg.Ato = fmt.Sprintf("%.3f", float64(a.SegDurMS)/1000-0.5)
			cfg.ChunkDur = "0.5"
			cfg.Extra = nil
			class = "chunked-"
		}
	}
	if class == "patch-" && rng.Chance(0.5) {
		// the patch document itself: MPD of an earlier publishTime against the MPD of now; in some of them the stream
		// stops in between (dynamic -> static: several attributes of one element disappear in one patch)
		pub := now/1000 - int64(rng.Range(2, 50))
		if rng.Chance(0.5) {
			stop := now/1000 - int64(rng.Range(1, 20))
			pub = stop - int64(rng.Range(2, 30))
			if cfg.StartS != nil && *cfg.StartS > pub-60 {
				cfg.StartS = nil
			}
			cfg.StopS = p64(stop)
			if rng.Chance(0.4) {
				cfg.Extra = append(cfg.Extra, "spd_10")
			}
		}
		pt := time.Unix(pub, 0).UTC().Format("2006-01-02T15:04:05Z")
		return "/patch" + cfg.Prefix(ar.Asset) + "/" + strings.Replace(ar.MPD, ".mpd", ".mpp", 1) + "?publishTime=" + pt, now, "patchdoc"
	}
	prefix := cfg.Prefix(ar.Asset)
	reps := a.RepIDs()
	rep := a.Reps[core.Pick(rng, reps)]
	ref := a.Ref()
	rel := now - cfg.AST()*1000
	n := a.IndexContaining(ref, uint64(rel)*ref.Timescale/1000)
	if n > 3 {
		n -= int64(rng.Range(2, 3)) // ended in any case: chunked responses do not sleep
	}
	switch rng.Intn(6) {
	case 0:
		return prefix + "/" + ar.MPD, now, class + "mpd"
	case 1:
		if rep.ContentType != "image" {
			return prefix + "/" + rep.InitURI, now, class + "init"
		}
		fallthrough
	default:
		if class == "subs-" && rng.Bool() && cfg.MPDType != "timeline" {
			dir := "timestpp-en"
			if strings.Contains(strings.Join(cfg.Extra, "/"), "timesubswvtt") {
				dir = "timewvtt-en"
			}
			return prefix + fmt.Sprintf("/%s/%d.m4s", dir, cfg.StartNr()+n), now, class + "media-gen-subs"
		}
		tg, ok := modelTarget(a, cfg, rep.ID, n)
		if !ok {
			return prefix + "/" + ar.MPD, now, class + "mpd"
		}
		return prefix + "/" + tg.URL, now, class + "media-" + rep.ContentType
	}
}

func c07Pages(rng *core.Rng) (string, int64, string) {
	return core.Pick(rng, []string{"/assets", "/vod", "/urlgen/", "/healthz", "/", "/vod/testpic_2s/Manifest.mpd", "/vod/testpic_2s/V300/1.m4s"}), 0, "page"
}

func c07CreateBody(rng *core.Rng, now int64) string {
	url := core.Pick(rng, []string{"/livesim2/testpic_2s/Manifest.mpd", "/livesim2/segtimeline_1/testpic_2s/Manifest.mpd", "/livesim2/segtimelinenr_1/testpic_8s/Manifest.mpd",
		"/livesim2/timesubsstpp_en,sv/testpic_2s/Manifest.mpd", "/livesim2/segtimelinenr_1/timesubswvtt_en/testpic_2s/Manifest.mpd", "/livesim2/scte35_2/testpic_2s/Manifest.mpd",
		"/livesim2/eccp_cenc/testpic_2s/Manifest.mpd"})
	dur := ""
	if rng.Chance(0.5) { // a session that ends by itself (last segment carries lmsg)
		dur = fmt.Sprintf(`,"duration":%d`, rng.Range(2, 6))
	}
	return fmt.Sprintf(`{"destRoot":"http://sim.invalid/upload","destName":"c07-%d","livesimURL":%q,"testNowMS":%d%s}`, rng.Intn(1000), url, now, dur)
}

func (C07) Gen(rng *core.Rng, tier string, idx int) *core.Scenario {
	assets := refAssets(hx.BundledAssets)
	kind := "history"
	switch r := rng.Intn(10); {
	case r < 2:
		kind = "race"
	case r < 3:
		kind = "realclock"
	case r < 4:
		kind = "nested"
	}
	w := c07World{Kind: kind, VodRoot: "bundled"}
	n := rng.Range(8, 24)
	if tier == "thorough" {
		n = rng.Range(20, 60)
	}
	switch kind {
	case "nested":
		// a VoD root in which one asset directory lies inside another (nest = testpic_2s, nest/inner = testpic_8s):
		// which asset answers must not depend on anything but the URL
		w.VodRoot = "nested"
		sc := core.NewScenario("C07", "tlsim", 0, tier, w)
		now := int64(1_600_000_000_000) + rng.Int63n(300_000_000_000)
		for i := 0; i < 6; i++ {
			as, segS := "nest", int64(2)
			if rng.Chance(0.7) {
				as, segS = "nest/inner", 8
			}
			mt := core.Pick(rng, []string{"", "segtimeline_1/", "segtimelinenr_1/"})
			path := "/livesim2/" + mt + as + "/Manifest.mpd"
			cl := "mpd"
			if rng.Bool() {
				nr := now/1000/segS - int64(rng.Range(2, 5))
				rep := core.Pick(rng, []string{"V300", "A48"})
				cl = "media"
				if mt == "segtimeline_1/" {
					if rep == "V300" {
						path = fmt.Sprintf("/livesim2/%s%s/V300/%d.m4s", mt, as, nr*segS*90000)
					} else {
						path, cl = "/livesim2/"+mt+as+"/A48/init.mp4", "init"
					}
				} else {
					path = fmt.Sprintf("/livesim2/%s%s/%s/%d.m4s", mt, as, rep, nr)
				}
			}
			sc.AddOp(c07Op{Op: "get", Path: path, NowMS: now, Class: "nested-" + cl})
		}
		return sc
	case "history":
		sc := core.NewScenario("C07", "tlsim", 0, tier, w)
		var gets []c07Op
		nSess := 0
		for i := 0; i < n; i++ {
			r := rng.Intn(12)
			switch {
			case r < 7 || len(gets) == 0:
				var p string
				var t int64
				var cl string
				if rng.Chance(0.1) {
					p, t, cl = c07Pages(rng)
				} else {
					p, t, cl = c07Request(rng, assets)
				}
				op := c07Op{Op: "get", Path: p, NowMS: t, Class: cl}
				gets = append(gets, op)
				sc.AddOp(op)
			case r < 9: // duplicate / replay of an old request (reordering fault)
				op := core.Pick(rng, gets)
				op.Dup = true
				sc.AddOp(op)
			case r == 9:
				sc.AddOp(c07Op{Op: "create", Body: c07CreateBody(rng, 1_700_000_000_000+rng.Int63n(1e9))})
				nSess++
				for k := rng.Intn(5); k > 0; k-- { // often stepped right away, possibly to its end
					sc.AddOp(c07Op{Op: "step", Sess: nSess - 1})
				}
			case r == 10 && nSess > 0:
				sc.AddOp(c07Op{Op: core.Pick(rng, []string{"step", "step", "info"}), Sess: rng.Intn(nSess)})
			case nSess > 0:
				sc.AddOp(c07Op{Op: "delete", Sess: rng.Intn(nSess)})
			}
		}
		return sc
	case "realclock":
		sc := core.NewScenario("C07", "bubble", 0, tier, w)
		for i := 0; i < n/2+2; i++ {
			p, _, cl := c07Request(rng, assets)
			if strings.HasPrefix(cl, "chunked") || cl == "patchdoc" {
				continue
			}
			// instants reachable by the bubble clock (it starts at 2000-01-01): rewrite start-relative parts
			sc.AddOp(c07Op{Op: "get", Path: p, NowMS: 946_684_800_000 + rng.Int63n(400_000_000_000), Class: cl})
		}
		return sc
	default: // race
		w.Clients = rng.Range(2, 5)
		sc := core.NewScenario("C07", "racesim", 0, tier, w)
		nSess := 0
		for i := 0; i < n; i++ {
			c := rng.Intn(w.Clients)
			r := rng.Intn(10)
			switch {
			case r < 3 || nSess == 0:
				sc.AddOp(c07Op{Op: "create", Client: c, Body: c07CreateBody(rng, 1_700_000_000_000+rng.Int63n(1e9))})
				nSess++
			case r < 5:
				sc.AddOp(c07Op{Op: "info", Client: c, Sess: rng.Intn(nSess)})
			case r < 7:
				sc.AddOp(c07Op{Op: "step", Client: c, Sess: rng.Intn(nSess)})
			case r < 8:
				sc.AddOp(c07Op{Op: "delete", Client: c, Sess: rng.Intn(nSess)})
			default:
				p, t, cl := c07Request(rng, assets)
				if strings.HasPrefix(cl, "chunked") {
					p, t, cl = c07Pages(rng)
				}
				sc.AddOp(c07Op{Op: "get", Client: c, Path: p, NowMS: t, Class: cl})
			}
		}
		return sc
	}
}

// ---- shared instances ------------------------------------------------------------------

var (
	c07Mu      sync.Mutex
	c07CacheSr *hx.Srv
)

// c07CacheSrv returns an instance loaded from representation-metadata files written by another
// instance of this worker process (scratch directory, never under /repo).
func c07CacheSrv() *hx.Srv {
	c07Mu.Lock()
	defer c07Mu.Unlock()
	if c07CacheSr != nil {
		return c07CacheSr
	}
	dir, err := os.MkdirTemp("", "verif-c07-repdata-")
	if err != nil {
		panic("harness: " + err.Error())
	}
	if _, err := hx.NewSrv(hx.SrvOpts{VodRoot: hx.BundledAssets, RepDataRoot: dir, WriteRepData: true}); err != nil {
		panic("harness: cache write instance: " + err.Error())
	}
	s, err := hx.NewSrv(hx.SrvOpts{VodRoot: hx.BundledAssets, RepDataRoot: dir})
	if err != nil {
		panic("harness: cache read instance: " + err.Error())
	}
	c07CacheSr = s
	return s
}

// c07Transport answers the sender's uploads without any network: disturbances must not depend on it.
type c07Transport struct{}

var c07TransportOnce sync.Once

func (c07Transport) RoundTrip(req *http.Request) (*http.Response, error) {
	if req.Body != nil {
		_, _ = io.Copy(io.Discard, req.Body)
		req.Body.Close()
	}
	return &http.Response{StatusCode: 200, Status: "200 OK", Proto: "HTTP/1.1", ProtoMajor: 1, ProtoMinor: 1,
		Header: http.Header{}, Body: io.NopCloser(strings.NewReader("")), Request: req}, nil
}

func c07Target(op c07Op) string {
	if op.NowMS == 0 {
		return op.Path
	}
	sep := "?"
	if strings.Contains(op.Path, "?") {
		sep = "&"
	}
	return fmt.Sprintf("%s%snowMS=%d", op.Path, sep, op.NowMS)
}

func c07Same(a, b *hx.Resp) string {
	switch {
	case a.Status != b.Status:
		return fmt.Sprintf("status %d vs %d", a.Status, b.Status)
	case a.CT() != b.CT():
		return fmt.Sprintf("content type %q vs %q", a.CT(), b.CT())
	case !bytes.Equal(a.Body, b.Body):
		return fmt.Sprintf("bodies differ (%d vs %d bytes, %s vs %s)", len(a.Body), len(b.Body), hx.ShortHash(a.Body), hx.ShortHash(b.Body))
	}
	return ""
}

func (p C07) Run(t *testing.T, sc *core.Scenario, res *core.Result) {
	w, err := core.DecodeWorld[c07World](sc)
	if err != nil {
		panic(err)
	}
	ops, err := core.DecodeOps[c07Op](sc)
	if err != nil {
		panic(err)
	}
	// set once per process and never restored: session goroutines of earlier scenarios may still be
	// finishing, and they read http.DefaultClient (one property per worker process, so nobody else needs it)
	c07TransportOnce.Do(func() { http.DefaultClient.Transport = c07Transport{} })
	switch w.Kind {
	case "history":
		c07History(res, ops)
	case "realclock":
		c07RealClock(t, res, ops)
	case "race":
		c07Race(res, w, ops)
	case "nested":
		c07Nested(res, ops)
	default:
		panic("harness: unknown kind " + w.Kind)
	}
}

// c07Rest performs one REST operation on srv; ids maps scenario session index -> id string.
// The id table is harness state handed from one serialized client to the next through the
// race-invisible gates, so this function is not instrumented.
//
//go:norace
func c07Rest(srv *hx.Srv, op c07Op, ids *[]string) *hx.Resp {
	hdr := map[string]string{"Content-Type": "application/json"}
	id := "999999"
	if op.Op != "create" && op.Sess < len(*ids) {
		id = (*ids)[op.Sess]
	}
	switch op.Op {
	case "create":
		r := srv.Do("POST", "/api/cmaf-ingests", []byte(op.Body), hdr)
		got := ""
		if i := bytes.Index(r.Body, []byte(`"id":"`)); i >= 0 {
			rest := r.Body[i+6:]
			if j := bytes.IndexByte(rest, '"'); j >= 0 {
				got = string(rest[:j])
			}
		}
		*ids = append(*ids, got)
		return r
	case "step":
		return srv.Do("GET", "/api/cmaf-ingests/"+id+"/step", nil, nil)
	case "info":
		return srv.Do("GET", "/api/cmaf-ingests/"+id, nil, nil)
	default:
		return srv.Do("DELETE", "/api/cmaf-ingests/"+id, nil, nil)
	}
}

func c07History(res *core.Result, ops []c07Op) {
	long := sharedSrv(hx.BundledAssets) // long-running: shared by all scenarios of this worker process
	fresh, err := hx.NewSrv(hx.SrvOpts{VodRoot: hx.BundledAssets})
	if err != nil {
		panic("harness: fresh instance: " + err.Error())
	}
	cached := c07CacheSrv()
	var ids []string
	first := map[string]*hx.Resp{}
	for _, op := range ops {
		if op.Op != "get" {
			r := c07Rest(long, op, &ids)
			res.Count("fault.rest-" + op.Op)
			res.Event("rest %s sess=%d -> %d", op.Op, op.Sess, r.Status)
			if r.Panic != "" {
				res.Violate("C07.no-panic", core.Sig("kind", "panic", "frame", r.PanicFrame, "request", "rest-"+op.Op), "REST %s: panic %s", op.Op, r.Panic)
			}
			if r.Hang {
				res.Violate("C07.returns", core.Sig("kind", "hang", "request", "rest-"+op.Op), "REST %s did not return", op.Op)
				return
			}
			continue
		}
		tgt := c07Target(op)
		rl := long.Get(tgt)
		res.Count("op.get")
		res.Event("get %s -> %d %s", trunc(tgt, 140), rl.Status, hx.ShortHash(rl.Body))
		sig := core.Sig("class", op.Class)
		if rl.Hang {
			res.Violate("C07.returns", merge(sig, core.Sig("kind", "hang")), "%s did not return", tgt)
			return
		}
		if rl.Panic != "" {
			res.Violate("C07.no-panic", merge(sig, core.Sig("kind", "panic", "frame", rl.PanicFrame)), "%s: panic %s", tgt, rl.Panic)
			continue
		}
		if op.Dup {
			res.Count("fault.replayed-request")
		}
		if prev, ok := first[tgt]; ok {
			if msg := c07Same(prev, rl); msg != "" {
				res.Violate("C07.same-instance-same-answer", merge(sig, core.Sig("kind", "history-dependent")), "%s answered differently later in the history: %s", tgt, msg)
			}
			res.Count("probe.replay-compared")
		} else {
			first[tgt] = rl
		}
		rf := fresh.Get(tgt)
		if msg := c07Same(rl, rf); msg != "" {
			res.Violate("C07.fresh-instance-same-answer", merge(sig, core.Sig("kind", "long-running-vs-fresh")), "%s: long-running vs fresh instance: %s", tgt, msg)
		}
		// a server in another OS process that never ran a session: package-level state of this process
		// (shared by "fresh" instances created here) cannot hide behind the in-process comparison
		if g := hx.GuardGet(hx.BundledAssets, tgt); !g.Hung && !g.Died {
			lo := hx.Observe(rl)
			if g.Status != lo.Status || g.CT != lo.CT || g.Len != lo.Len || g.Sum != lo.Sum {
				res.Violate("C07.other-process-same-answer", merge(sig, core.Sig("kind", "long-running-vs-other-process")),
					"%s: long-running instance %d %s %d bytes %s, server in another process %d %s %d bytes %s", tgt, lo.Status, lo.CT, lo.Len, lo.Sum, g.Status, g.CT, g.Len, g.Sum)
			}
			res.Count("probe.compared-other-process")
		} else {
			panic("harness: guard child failed on a GET that the in-process server answered: " + g.Note)
		}
		rc := cached.Get(tgt)
		if msg := c07Same(rl, rc); msg != "" {
			res.Violate("C07.cache-instance-same-answer", merge(sig, core.Sig("kind", "scanned-vs-cache-loaded")), "%s: scanned vs cache-loaded instance: %s", tgt, msg)
		}
		res.Count("probe.compared-" + strings.SplitN(op.Class, "-", 2)[0])
	}
	// leave no running session behind on the long-running instance
	for i := range ids {
		c07Rest(long, c07Op{Op: "delete", Sess: i}, &ids)
	}
	res.Nontrivial = res.Stats["op.get"] >= 3
}

func c07RealClock(t *testing.T, res *core.Result, ops []c07Op) {
	oldW := hx.Watchdog
	hx.Watchdog = 0 // a real-time watchdog cannot be used inside a bubble
	defer func() { hx.Watchdog = oldW }()
	done := hx.Bubble(t, func(t *testing.T) {
		srv, err := hx.NewSrv(hx.SrvOpts{VodRoot: hx.BundledAssets})
		if err != nil {
			panic("harness: " + err.Error())
		}
		for _, op := range ops {
			if op.Op != "get" {
				continue
			}
			at := time.UnixMilli(op.NowMS)
			if d := time.Until(at); d > 0 {
				time.Sleep(d) // advance the fake clock
				synctest.Wait()
			}
			now := time.Now().UnixMilli()
			r1 := srv.Get(op.Path) // server reads the (fake) wall clock
			r2 := srv.GetAt(op.Path, now)
			res.Count("op.get-realclock")
			res.Event("realclock %s at %d -> %d / %d", trunc(op.Path, 120), now, r1.Status, r2.Status)
			if r1.Panic != "" || r2.Panic != "" {
				res.Violate("C07.no-panic", core.Sig("kind", "panic", "frame", r1.PanicFrame+r2.PanicFrame, "class", op.Class), "%s: panic %s%s", op.Path, r1.Panic, r2.Panic)
				continue
			}
			if msg := c07Same(r1, r2); msg != "" {
				res.Violate("C07.clock-seam-equivalent", core.Sig("kind", "time.Now-vs-nowMS", "class", op.Class), "%s at %d: wall clock vs nowMS: %s", op.Path, now, msg)
			}
			res.Count("probe.realclock-compared")
		}
	})
	if !done {
		res.Count("probe.bubble-aborted")
	}
	res.Nontrivial = res.Stats["probe.realclock-compared"] >= 2
}

func c07Race(res *core.Result, w c07World, ops []c07Op) {
	srv, err := hx.NewSrv(hx.SrvOpts{VodRoot: hx.BundledAssets})
	if err != nil {
		panic("harness: " + err.Error())
	}
	n := w.Clients
	if n < 1 {
		n = 1
	}
	// solo twins first (sequential, same instance family): a concurrent answer must equal its solo answer
	solo, err := hx.NewSrv(hx.SrvOpts{VodRoot: hx.BundledAssets})
	if err != nil {
		panic("harness: " + err.Error())
	}
	type rec struct {
		op   c07Op
		resp *hx.Resp
	}
	recs := make([][]*rec, n)
	clients := make([][]ygOp, n)
	var ids []string // touched only by the goroutine whose turn it is (serialized by the gates)
	var order []int
	for _, op := range ops {
		c := op.Client % n
		r := &rec{op: op}
		recs[c] = append(recs[c], r)
		op := op
		clients[c] = append(clients[c], ygOp{Fn: func() {
			if op.Op == "get" {
				r.resp = srv.Get(c07Target(op))
			} else {
				r.resp = c07RestRace(srv, op, &ids)
			}
		}})
		order = append(order, c)
	}
	before := raceLogSize()
	runner := newYgRunner(clients)
	runner.Start()
	neutral := true
	for _, c := range order {
		ygDrainPools()
		if !ygNeutralisePools() {
			neutral = false
		}
		runner.Step(c, 30*time.Second)
		if runner.Hung {
			res.Violate("C07.returns", core.Sig("kind", "hang", "request", "concurrent-mix"), "an operation of client %d did not return", c)
			return
		}
	}
	runner.Finish()
	for c := range recs {
		for _, r := range recs[c] {
			res.Count("op.race-" + r.op.Op)
			st := -1
			if r.resp != nil {
				st = r.resp.Status
			}
			res.Event("c%d %s %s -> %d", c, r.op.Op, trunc(r.op.Path, 100), st)
			if r.resp == nil {
				continue
			}
			if r.resp.Panic != "" {
				res.Violate("C07.no-panic", core.Sig("kind", "panic", "frame", r.resp.PanicFrame, "request", "concurrent-"+r.op.Op), "%s: panic %s", r.op.Op, r.resp.Panic)
				continue
			}
			if r.op.Op == "get" {
				tw := solo.Get(c07Target(r.op))
				if msg := c07Same(r.resp, tw); msg != "" {
					res.Violate("C07.concurrent-equals-solo", core.Sig("kind", "concurrent-vs-solo", "class", r.op.Class), "%s: %s", c07Target(r.op), msg)
				}
				res.Count("probe.solo-compared")
			}
		}
	}
	// unique ids for created sessions
	seen := map[string]bool{}
	for _, id := range ids {
		if id != "" && seen[id] {
			res.Violate("C07.unique-session-ids", core.Sig("kind", "duplicate-id"), "session id %s handed out twice", id)
		}
		seen[id] = true
	}
	if before < 0 {
		res.Count("probe.race-detection-inactive")
	} else {
		res.Count("probe.race-detection-active")
		if !neutral {
			res.Count("probe.race-pool-clocks-not-neutralised")
		}
		done := map[string]bool{}
		for _, rr := range raceLogSince(before) {
			if rr.PoolArtefact || !c07RaceInApp(rr.Text) {
				res.Count("probe.race-report-pool-artefact")
				continue
			}
			obj := "memory"
			if rr.Map {
				obj = "map"
			}
			k := obj + "|" + rr.Writer
			if done[k] {
				continue
			}
			done[k] = true
			res.Violate("C07.race-free", core.Sig("kind", "data-race", "object", obj, "writer", rr.Writer), "%s <-> %s", rr.A, rr.B)
		}
	}
	for i := range ids {
		c07Rest(srv, c07Op{Op: "delete", Sess: i}, &ids)
	}
	res.Nontrivial = len(ops) >= 4
}

// c07RestRace is c07Rest for the race kind (ids is only touched while the caller holds the turn).
func c07RestRace(srv *hx.Srv, op c07Op, ids *[]string) *hx.Resp { return c07Rest(srv, op, ids) }

// c07RaceInApp tells whether both racing accesses of a report happen in livesim2 code itself: the
// innermost frame of each access stack, not counting the runtime's map and memory routines, must be
// a livesim2 function. Reports whose racing instruction is inside the standard library or a
// third-party package (regexp machine caches, fmt buffers, huma/chi pools ...) are artefacts of the
// neutralised sync.Pool clocks, not findings about livesim2's own shared state.
func c07RaceInApp(text string) bool {
	n, ok := 0, 0
	lines := strings.Split(text, "\n")
	for i := 0; i < len(lines); i++ {
		low := strings.ToLower(strings.TrimSpace(lines[i]))
		if !(strings.HasPrefix(low, "write at") || strings.HasPrefix(low, "read at") || strings.HasPrefix(low, "previous write at") ||
			strings.HasPrefix(low, "previous read at") || strings.Contains(low, "atomic write at") || strings.Contains(low, "atomic read at")) {
			continue
		}
		n++
		for j := i + 1; j < len(lines); j++ {
			f := strings.TrimSpace(lines[j])
			if f == "" {
				break
			}
			if strings.HasPrefix(f, "/") || strings.HasPrefix(f, "<") { // file:line continuation
				continue
			}
			if strings.HasPrefix(f, "runtime.") || strings.HasPrefix(f, "internal/runtime/") {
				continue
			}
			if strings.HasPrefix(f, "github.com/Dash-Industry-Forum/livesim2/") {
				ok++
			}
			break
		}
	}
	return n >= 2 && ok == n
}

// ---- nested assets -----------------------------------------------------------------------

var (
	c07NestedOnce sync.Once
	c07NestedDir  string
)

// c07NestedRoot builds (once per worker process) a scratch VoD root with the bundled testpic_2s as "nest" and the
// bundled testpic_8s inside it as "nest/inner".
func c07NestedRoot() string {
	c07NestedOnce.Do(func() {
		dir := hx.TempDir("c07nested")
		cp := func(src, dst string) {
			err := filepath.Walk(src, func(p string, info os.FileInfo, err error) error {
				if err != nil {
					return err
				}
				rel, _ := filepath.Rel(src, p)
				to := filepath.Join(dst, rel)
				if info.IsDir() {
					return os.MkdirAll(to, 0o755)
				}
				b, err := os.ReadFile(p)
				if err != nil {
					return err
				}
				return os.WriteFile(to, b, 0o644)
			})
			if err != nil {
				panic("harness: C07 nested root: " + err.Error())
			}
		}
		cp(filepath.Join(hx.BundledAssets, "testpic_2s"), filepath.Join(dir, "nest"))
		cp(filepath.Join(hx.BundledAssets, "testpic_8s"), filepath.Join(dir, "nest", "inner"))
		c07NestedDir = dir
	})
	return c07NestedDir
}

// c07Nested: every request is answered several times by a long-running instance and by fresh instances; all answers
// must be identical, and a request below nest/inner must never be answered as a request to nest.
func c07Nested(res *core.Result, ops []c07Op) {
	root := c07NestedRoot()
	long := sharedSrv(root)
	fresh, err := hx.NewSrv(hx.SrvOpts{VodRoot: root})
	if err != nil {
		panic("harness: nested instance: " + err.Error())
	}
	for _, op := range ops {
		if op.Op != "get" {
			continue
		}
		tgt := c07Target(op)
		first := long.Get(tgt)
		res.Count("op.get")
		res.Event("nested get %s -> %d %s", trunc(tgt, 140), first.Status, hx.ShortHash(first.Body))
		sig := core.Sig("class", op.Class)
		if first.Panic != "" {
			res.Violate("C07.no-panic", merge(sig, core.Sig("kind", "panic", "frame", first.PanicFrame)), "%s: panic %s", tgt, first.Panic)
			continue
		}
		for k := 0; k < 10; k++ {
			s := long
			if k%2 == 1 {
				s = fresh
			}
			r := s.Get(tgt)
			if msg := c07Same(first, r); msg != "" {
				res.Violate("C07.same-instance-same-answer", merge(sig, core.Sig("kind", "repeat-differs")), "%s (asset directory inside another asset directory) answered differently on repeat %d: %s", tgt, k, msg)
				break
			}
		}
		res.Count("probe.nested-compared")
	}
	res.Nontrivial = res.Stats["probe.nested-compared"] >= 3
}

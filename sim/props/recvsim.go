package props

// Shared plumbing for the two ingest-receiver properties C17 (engine B) and C19 (engine R):
// upload payloads (real CMAF from the livesim2 segment generator and the receiver's own test
// vectors), an in-process receiver, storage/MPD observation, the yield-capable race-invisible
// gate runner, goroutine-dump probes and the race-log reader.

import (
	"bytes"
	"context"
	"encoding/base64"
	"fmt"
	"io"
	"net/http"
	"os"
	"path/filepath"
	"runtime"
	"sort"
	"strconv"
	"strings"
	"sync"
	"time"

	rapp "github.com/Dash-Industry-Forum/livesim2/cmd/cmaf-ingest-receiver/app"
	"github.com/Eyevinn/dash-mpd/mpd"
	"github.com/Eyevinn/mp4ff/bits"
	"github.com/Eyevinn/mp4ff/mp4"

	"verif/sim/hx"
)

// ---------------------------------------------------------------------------------------
// Payloads.

const recvTestdata = "/repo/cmd/cmaf-ingest-receiver/app/testdata"

// recvSrcDef describes one source track of a payload family.
type recvSrcDef struct {
	Name string // source name inside the family
	Kind string // video | audio | text
	Ext  string // .cmfv | .cmfa | .cmft
}

// Families:
//
//	ls2  livesim2 generator, testpic_2s (2 s video / ~2 s audio / 2 s generated stpp), any base number
//	ls8  livesim2 generator, testpic_8s (8 s), any base number
//	aws  receiver test vectors awsMediaLiveScte35 (4 segments, numbers 896605655..58)
//	zero receiver test vectors zero_3.84s (6 segments, numbers/tfdt need shifting, text timescale rewritten)
var recvFamilies = map[string][]recvSrcDef{
	"ls2": {{"V300", "video", ".cmfv"}, {"A48", "audio", ".cmfa"}, {"timestpp-en", "text", ".cmft"}, {"timestpp-sv", "text", ".cmft"}},
	"ls8": {{"V300", "video", ".cmfv"}, {"A48", "audio", ".cmfa"}, {"timestpp-en", "text", ".cmft"}},
	"aws": {{"video", "video", ".cmfv"}, {"audio", "audio", ".cmfa"}},
	"zero": {{"video-500Kbps", "video", ".cmfv"}, {"video-800Kbps", "video", ".cmfv"}, {"audio-nor-128Kbps", "audio", ".cmfa"},
		{"text-nor-0", "text", ".cmft"}, {"text-nor-1_hearing_impaired", "text", ".cmft"}},
}

// recvFamilyLen is the number of media segments a family offers (0 = unbounded).
var recvFamilyLen = map[string]int{"ls2": 0, "ls8": 0, "aws": 4, "zero": 6}

// recvFamilySegMS is the nominal segment duration.
var recvFamilySegMS = map[string]int64{"ls2": 2000, "ls8": 8000, "aws": 2000, "zero": 3840}

func recvSrc(family, name string) recvSrcDef {
	for _, d := range recvFamilies[family] {
		if d.Name == name {
			return d
		}
	}
	panic("harness: unknown receiver source " + family + "/" + name)
}

var (
	recvPayMu    sync.Mutex
	recvPayCache = map[string][]byte{}
)

func recvLsPrefix(family string) (string, int64) {
	switch family {
	case "ls2":
		return "/livesim2/timesubsstpp_en,sv/testpic_2s", 2000
	case "ls8":
		return "/livesim2/timesubsstpp_en/testpic_8s", 8000
	}
	panic("harness: not a livesim2 family: " + family)
}

// recvInitBody returns the init segment of a source track. With btrt the livesim2 init segments carry a
// btrt box, as the livesim2 sender adds one before uploading (setInitProps); without, they are what the
// segment generator serves (like the zero_3.84s encoder, which sends no btrt either).
func recvInitBody(family, src string, btrt bool) []byte {
	key := family + "|" + src + "|init"
	if btrt {
		key = family + "|" + src + "|btrt|init"
	}
	recvPayMu.Lock()
	if b, ok := recvPayCache[key]; ok {
		recvPayMu.Unlock()
		return b
	}
	recvPayMu.Unlock()
	if btrt {
		plain := recvInitBody(family, src, false)
		b := recvAddBtrt(plain, recvSrc(family, src).Kind)
		recvPayMu.Lock()
		recvPayCache[key] = b
		recvPayMu.Unlock()
		return b
	}
	recvPayMu.Lock()
	defer recvPayMu.Unlock()
	var b []byte
	switch family {
	case "ls2", "ls8":
		pre, _ := recvLsPrefix(family)
		r := bundledSrv().GetAt(pre+"/"+src+"/init.mp4", 1_000_000)
		if r.Status != 200 {
			panic(fmt.Sprintf("harness: init %s/%s -> %d", family, src, r.Status))
		}
		b = r.Body
	case "aws":
		b = mustRead(filepath.Join(recvTestdata, "awsMediaLiveScte35", src, "init"+recvSrc(family, src).Ext))
	case "zero":
		b = mustRead(filepath.Join(recvTestdata, "zero_3.84s", src, "init_org"+recvSrc(family, src).Ext))
	default:
		panic("harness: unknown family " + family)
	}
	recvPayCache[key] = b
	return b
}

// recvSegBody returns media segment i (0-based) of a source track; for the livesim2 families
// the segment number is base+i. ok=false when the family has no such segment.
func recvSegBody(family, src string, base int64, i int) ([]byte, bool) {
	if i < 0 {
		return nil, false
	}
	if n := recvFamilyLen[family]; n > 0 && i >= n {
		return nil, false
	}
	key := fmt.Sprintf("%s|%s|%d|%d", family, src, base, i)
	recvPayMu.Lock()
	defer recvPayMu.Unlock()
	if b, ok := recvPayCache[key]; ok {
		return b, true
	}
	var b []byte
	switch family {
	case "ls2", "ls8":
		pre, durMS := recvLsPrefix(family)
		nr := base + int64(i)
		r := bundledSrv().GetAt(fmt.Sprintf("%s/%s/%d.m4s", pre, src, nr), (nr+2)*durMS)
		if r.Status != 200 {
			panic(fmt.Sprintf("harness: segment %s/%s/%d -> %d", family, src, nr, r.Status))
		}
		b = r.Body
	case "aws":
		b = mustRead(filepath.Join(recvTestdata, "awsMediaLiveScte35", src, fmt.Sprintf("%d%s", 896605655+i, recvSrc(family, src).Ext)))
	case "zero":
		b = mustRead(filepath.Join(recvTestdata, "zero_3.84s", src, fmt.Sprintf("%d%s", i, recvSrc(family, src).Ext)))
	}
	if len(recvPayCache) > 6000 { // bound the per-process cache
		for k := range recvPayCache {
			if !strings.HasSuffix(k, "|init") {
				delete(recvPayCache, k)
			}
		}
	}
	recvPayCache[key] = b
	return b, true
}

type recvParentBox interface{ AddChild(b mp4.Box) }

func recvAddBtrt(raw []byte, kind string) []byte {
	f, err := mp4.DecodeFileSR(bits.NewFixedSliceReader(raw))
	if err != nil || f.Init == nil {
		panic("harness: cannot decode init segment")
	}
	stsd := f.Init.Moov.Trak.Mdia.Minf.Stbl.Stsd
	if stsd.GetBtrt() != nil {
		return raw
	}
	bw := map[string]uint32{"video": 300000, "audio": 48000, "text": 8000}[kind]
	se, ok := stsd.Children[0].(recvParentBox)
	if !ok {
		return raw
	}
	se.AddChild(&mp4.BtrtBox{BufferSizeDB: 0, MaxBitrate: bw, AvgBitrate: bw})
	sw := bits.NewFixedSliceWriter(int(f.Init.Size()))
	if err := f.Init.EncodeSW(sw); err != nil {
		panic("harness: cannot encode init segment: " + err.Error())
	}
	return sw.Bytes()
}

func mustRead(p string) []byte {
	b, err := os.ReadFile(p)
	if err != nil {
		panic("harness: " + err.Error())
	}
	return b
}

// recvMark returns a copy of a media segment whose last payload byte carries a track tag, so that
// two tracks fed from the same source have distinguishable content (the receiver never looks
// inside mdat). tag 0 leaves the body untouched.
func recvMark(body []byte, tag byte) []byte {
	if tag == 0 || len(body) == 0 {
		return body
	}
	c := append([]byte(nil), body...)
	c[len(c)-1] ^= tag
	return c
}

// ---------------------------------------------------------------------------------------
// World pieces shared by C17 and C19.

type recvTrack struct {
	Name string `json:"name"`          // track name in the upload path
	Src  string `json:"src"`           // source inside the channel's family
	Tag  int    `json:"tag,omitempty"` // content watermark
}

type recvRepCfg struct {
	Name        string `json:"name"`
	Language    string `json:"language,omitempty"`
	Role        string `json:"role,omitempty"`
	DisplayName string `json:"displayName,omitempty"`
	Bitrate     uint32 `json:"bitrate,omitempty"`
	Ignore      bool   `json:"ignore,omitempty"`
}

type recvChannel struct {
	Name     string       `json:"name"`
	Family   string       `json:"family"`
	Base     int64        `json:"base"` // first segment number (livesim2 families)
	Tracks   []recvTrack  `json:"tracks"`
	StartNr  int          `json:"startNr,omitempty"`
	AuthUser string       `json:"authUser,omitempty"`
	AuthPswd string       `json:"authPswd,omitempty"`
	Tsbd     uint32       `json:"tsbd,omitempty"` // per-channel override
	Reps     []recvRepCfg `json:"reps,omitempty"`
	Ignore   bool         `json:"ignore,omitempty"`
	InCfg    bool         `json:"inCfg,omitempty"` // channel has an entry in Config.Channels
	Streams  bool         `json:"streams,omitempty"`
	Btrt     bool         `json:"btrt,omitempty"` // init segments carry a btrt box (as the livesim2 sender makes them)
}

func (c *recvChannel) track(name string) (recvTrack, bool) {
	for _, t := range c.Tracks {
		if t.Name == name {
			return t, true
		}
	}
	return recvTrack{}, false
}

func (c *recvChannel) needsCfg() bool {
	return c.InCfg || c.StartNr != 0 || c.AuthUser != "" || c.AuthPswd != "" || c.Tsbd != 0 || len(c.Reps) > 0 || c.Ignore
}

type recvWorld struct {
	Tsbd        uint64        `json:"tsbd"`
	DefaultUser string        `json:"defaultUser,omitempty"`
	DefaultPswd string        `json:"defaultPswd,omitempty"`
	Channels    []recvChannel `json:"channels"`
}

func (w *recvWorld) channel(name string) *recvChannel {
	for i := range w.Channels {
		if w.Channels[i].Name == name {
			return &w.Channels[i]
		}
	}
	return nil
}

func (w *recvWorld) config() *rapp.Config {
	cfg := rapp.GetEmptyConfig()
	cfg.DefaultUser, cfg.DefaultPswd = w.DefaultUser, w.DefaultPswd
	for _, c := range w.Channels {
		if !c.needsCfg() {
			continue
		}
		cc := rapp.ChannelConfig{Name: c.Name, StartNr: c.StartNr, AuthUser: c.AuthUser, AuthPswd: c.AuthPswd,
			TimeShiftBufferDepthS: c.Tsbd, Ignore: c.Ignore}
		for _, r := range c.Reps {
			cc.Reps = append(cc.Reps, rapp.RepresentationConfig{Name: r.Name, Language: r.Language, Role: r.Role,
				DisplayName: r.DisplayName, Bitrate: r.Bitrate, Ignore: r.Ignore})
		}
		cfg.Channels = append(cfg.Channels, cc)
	}
	return cfg
}

// creds returns the credentials the channel requires ("" , "" = open).
func (w *recvWorld) creds(c *recvChannel) (string, string) {
	u, p := c.AuthUser, c.AuthPswd
	if u == "" {
		u = w.DefaultUser
	}
	if p == "" {
		p = w.DefaultPswd
	}
	return u, p
}

func (w *recvWorld) tsbdOf(c *recvChannel) uint64 {
	if c.Tsbd != 0 {
		return uint64(c.Tsbd)
	}
	return w.Tsbd
}

// recvUpload is one upload request as the scenario describes it.
type recvUpload struct {
	Ch     string `json:"ch"`
	Tr     string `json:"tr"`
	Init   bool   `json:"init,omitempty"`
	Idx    int    `json:"idx,omitempty"`    // media segment index in the family
	Method string `json:"method,omitempty"` // PUT (default) | POST
	Auth   string `json:"auth,omitempty"`   // "" = correct credentials, "none", "wrong"
}

func (u recvUpload) String() string {
	if u.Init {
		return fmt.Sprintf("%s/%s/init", u.Ch, u.Tr)
	}
	return fmt.Sprintf("%s/%s/#%d", u.Ch, u.Tr, u.Idx)
}

// request materialises path, body and headers. ok=false when the upload refers to something
// that is not in the world (dropped by shrinking) or that the family does not offer.
func (w *recvWorld) request(u recvUpload) (method, path string, body []byte, hdr map[string]string, ok bool) {
	c := w.channel(u.Ch)
	if c == nil {
		return
	}
	t, found := c.track(u.Tr)
	if !found {
		return
	}
	def := recvSrc(c.Family, t.Src)
	name := "init"
	if u.Init {
		body = recvInitBody(c.Family, t.Src, c.Btrt)
	} else {
		var have bool
		body, have = recvSegBody(c.Family, t.Src, c.Base, u.Idx)
		if !have {
			return
		}
		body = recvMark(body, byte(t.Tag))
		name = strconv.Itoa(u.Idx)
	}
	if c.Streams {
		path = fmt.Sprintf("/upload/%s/Streams(%s%s)", c.Name, t.Name, def.Ext)
	} else {
		path = fmt.Sprintf("/upload/%s/%s/%s%s", c.Name, t.Name, name, def.Ext)
	}
	method = u.Method
	if method == "" {
		method = "PUT"
	}
	hdr = map[string]string{"Content-Length": strconv.Itoa(len(body))}
	user, pswd := w.creds(c)
	switch u.Auth {
	case "":
		if user != "" || pswd != "" {
			hdr["Authorization"] = "Basic " + base64.StdEncoding.EncodeToString([]byte(user+":"+pswd))
		}
	case "wrong":
		hdr["Authorization"] = "Basic " + base64.StdEncoding.EncodeToString([]byte(user+":not-"+pswd))
	case "none":
	}
	return method, path, body, hdr, true
}

// ---------------------------------------------------------------------------------------
// In-process receiver.

type recvInst struct {
	R      *rapp.Receiver
	H      http.Handler
	Dir    string
	cancel context.CancelFunc
}

func newRecvInst(dir string, w *recvWorld) *recvInst {
	ctx, cancel := context.WithCancel(context.Background())
	opts := rapp.NewOptionsForVerif("/upload", dir, w.Tsbd, 0)
	r, err := rapp.NewReceiver(ctx, opts, w.config())
	if err != nil {
		cancel()
		panic("harness: NewReceiver: " + err.Error())
	}
	return &recvInst{R: r, H: http.HandlerFunc(r.SegmentHandlerFunc), Dir: dir, cancel: cancel}
}

func (ri *recvInst) Stop() { ri.cancel() }

func (ri *recvInst) Do(method, path string, body []byte, hdr map[string]string) *hx.Resp {
	return hx.DoHandler(ri.H, method, path, body, hdr, "")
}

// DoReader is Do with the body given as a reader.
func (ri *recvInst) DoReader(method, path string, body io.Reader, hdr map[string]string) *hx.Resp {
	return hx.DoHandlerReader(ri.H, method, path, body, hdr, "")
}

// gatedBody delivers nothing until its gate is closed, then the whole body: an upload whose request has
// reached the handler while its bytes are still on their way.
type gatedBody struct {
	gate chan struct{}
	rd   *bytes.Reader
	// eofOnly: all bytes arrive at once, only the end of the body (EOF) is held back by the gate: the
	// receiver has parsed, numbered and written the whole segment while the request is still open
	eofOnly bool
}

func (g *gatedBody) Read(p []byte) (int, error) {
	if g.eofOnly && g.rd.Len() > 0 {
		n, _ := g.rd.Read(p)
		return n, nil
	}
	<-g.gate
	return g.rd.Read(p)
}

// ---------------------------------------------------------------------------------------
// Observation of the storage directory.

type recvFile struct {
	Size int
	Hash string
}

// recvSnapshot lists all regular files below dir (relative, slash-separated) with content hashes.
func recvSnapshot(dir string) map[string]recvFile {
	out := map[string]recvFile{}
	_ = filepath.Walk(dir, func(p string, info os.FileInfo, err error) error {
		if err != nil || info.IsDir() {
			return nil
		}
		rel, _ := filepath.Rel(dir, p)
		b, rerr := os.ReadFile(p)
		if rerr != nil {
			return nil
		}
		out[filepath.ToSlash(rel)] = recvFile{Size: len(b), Hash: hx.ShortHash(b)}
		return nil
	})
	return out
}

// recvMediaNumbers returns the stored media segment numbers of one track directory, sorted.
func recvMediaNumbers(snap map[string]recvFile, ch, tr, ext string) []int64 {
	var nrs []int64
	pre := ch + "/" + tr + "/"
	for name := range snap {
		if !strings.HasPrefix(name, pre) || !strings.HasSuffix(name, ext) {
			continue
		}
		base := strings.TrimSuffix(strings.TrimPrefix(name, pre), ext)
		n, err := strconv.ParseInt(base, 10, 64)
		if err != nil {
			continue
		}
		nrs = append(nrs, n)
	}
	sort.Slice(nrs, func(i, j int) bool { return nrs[i] < nrs[j] })
	return nrs
}

// recvMPDRep is one representation of a published MPD as a client resolves it.
type recvMPDRep struct {
	ID          string
	ContentType string
	Lang        string
	Role        string
	Codecs      string
	Labels      string
	Timescale   uint64
	StartNumber int64
	HasTimeline bool
	Duration    uint64 // @duration (number template), 0 for a timeline
	Segs        []DeclSeg
	Media       string
	Init        string
	GapDetail   string // non-empty if the S elements do not form one contiguous run
}

type recvMPD struct {
	Raw  []byte
	Reps []recvMPDRep // sorted by id
	Tsbd float64
	// Partition: how the representations are grouped into AdaptationSets, independent of any order
	// ("a+b|c": one set with a and b, one with c)
	Partition string
}

// recvParseMPD parses a published MPD. A document that does not parse completely is an error.
func recvParseMPD(raw []byte) (*recvMPD, error) {
	trimmed := bytes.TrimSpace(raw)
	if len(trimmed) == 0 {
		return nil, fmt.Errorf("empty document")
	}
	if !bytes.HasSuffix(trimmed, []byte("</MPD>")) {
		return nil, fmt.Errorf("document does not end with </MPD> (%d bytes)", len(raw))
	}
	m, err := mpd.MPDFromBytes(raw)
	if err != nil {
		return nil, err
	}
	out := &recvMPD{Raw: raw}
	if m.TimeShiftBufferDepth != nil {
		out.Tsbd = time.Duration(*m.TimeShiftBufferDepth).Seconds()
	}
	if len(m.Periods) != 1 {
		return nil, fmt.Errorf("%d periods", len(m.Periods))
	}
	var groups []string
	for _, as := range m.Periods[0].AdaptationSets {
		var ids []string
		for _, rep := range as.Representations {
			ids = append(ids, rep.Id)
		}
		sort.Strings(ids)
		groups = append(groups, strings.Join(ids, "+"))
	}
	sort.Strings(groups)
	out.Partition = strings.Join(groups, "|")
	for _, as := range m.Periods[0].AdaptationSets {
		st := as.SegmentTemplate
		if st == nil {
			return nil, fmt.Errorf("adaptation set without SegmentTemplate")
		}
		role := ""
		for _, r := range as.Roles {
			role += r.Value + ","
		}
		for _, rep := range as.Representations {
			r := recvMPDRep{ID: rep.Id, ContentType: string(as.ContentType), Lang: as.Lang, Role: role, Codecs: rep.Codecs,
				Timescale: uint64(st.GetTimescale()), Media: st.Media, Init: st.Initialization, StartNumber: 1}
			for _, l := range rep.Labels {
				r.Labels += l.Value + ","
			}
			if r.Codecs == "" {
				r.Codecs = as.Codecs
			}
			if st.StartNumber != nil {
				r.StartNumber = int64(*st.StartNumber)
			}
			if st.Duration != nil {
				r.Duration = uint64(*st.Duration)
			}
			if st.SegmentTimeline != nil {
				r.HasTimeline = true
				r.GapDetail = TimelineContiguous(as)
				var t uint64
				nr := r.StartNumber
				for _, s := range st.SegmentTimeline.S {
					if s.T != nil {
						t = *s.T
					}
					for i := 0; i <= s.R; i++ {
						r.Segs = append(r.Segs, DeclSeg{Number: nr, T: t, D: s.D,
							URL: fillTemplate(st.Media, rep.Id, nr, t)})
						t += s.D
						nr++
					}
				}
			}
			out.Reps = append(out.Reps, r)
		}
	}
	sort.SliceStable(out.Reps, func(i, j int) bool { return out.Reps[i].ID < out.Reps[j].ID })
	return out, nil
}

// Canon is an order-independent text form of the MPD (adaptation-set ids and order, which depend
// on the arrival order of the init segments, and derived bitrates are left out).
func (m *recvMPD) Canon() string {
	var b strings.Builder
	fmt.Fprintf(&b, "tsbd=%v\n", m.Tsbd)
	for _, r := range m.Reps {
		fmt.Fprintf(&b, "rep %s type=%s lang=%s role=%s codecs=%s labels=%s ts=%d start=%d dur=%d media=%s init=%s tl=", r.ID, r.ContentType,
			r.Lang, r.Role, r.Codecs, r.Labels, r.Timescale, r.StartNumber, r.Duration, r.Media, r.Init)
		for _, s := range r.Segs {
			fmt.Fprintf(&b, "%d@%d+%d ", s.Number, s.T, s.D)
		}
		b.WriteString("\n")
	}
	return b.String()
}

// ---------------------------------------------------------------------------------------
// Goroutine-dump probes (the receiver's channel objects are only observable through their
// run goroutines).

type recvGoroutines struct {
	ChannelRun     int // goroutines with a (*channel).run frame
	ChannelRunIdle int // ... of which blocked in select
}

func recvGoroutineDump() recvGoroutines {
	buf := make([]byte, 1<<20)
	for {
		n := runtime.Stack(buf, true)
		if n < len(buf) {
			buf = buf[:n]
			break
		}
		buf = make([]byte, 2*len(buf))
	}
	var g recvGoroutines
	for _, blk := range strings.Split(string(buf), "\n\n") {
		// (a goroutine that has not run yet shows only its go-wrapper frame, so the creator line is what identifies it)
		if !strings.Contains(blk, "cmaf-ingest-receiver/app.(*channel).run(") &&
			!strings.Contains(blk, "created by github.com/Dash-Industry-Forum/livesim2/cmd/cmaf-ingest-receiver/app.newChannel") {
			continue
		}
		g.ChannelRun++
		head := blk
		if i := strings.IndexByte(head, '\n'); i >= 0 {
			head = head[:i]
		}
		if i := strings.IndexByte(head, '['); i >= 0 && strings.HasPrefix(head[i+1:], "select") {
			g.ChannelRunIdle++
		}
	}
	return g
}

// recvQuiesce waits (real time, bounded) until every channel goroutine is blocked in its select,
// i.e. has consumed everything the handlers handed over. Only used outside synctest bubbles, and
// only while no handler is executing, so the condition is stable once observed.
func recvQuiesce() (recvGoroutines, bool) {
	deadline := time.Now().Add(20 * time.Second)
	for i := 0; ; i++ {
		g := recvGoroutineDump()
		if g.ChannelRun == g.ChannelRunIdle {
			return g, true
		}
		if time.Now().After(deadline) {
			return g, false
		}
		if i < 50 {
			runtime.Gosched()
		} else {
			time.Sleep(200 * time.Microsecond)
		}
	}
}

// recvWaitNoChannels waits until no channel goroutine is left (after the receivers' contexts were cancelled).
func recvWaitNoChannels() bool {
	deadline := time.Now().Add(20 * time.Second)
	for i := 0; ; i++ {
		if recvGoroutineDump().ChannelRun == 0 {
			return true
		}
		if time.Now().After(deadline) {
			return false
		}
		if i < 50 {
			runtime.Gosched()
		} else {
			time.Sleep(200 * time.Microsecond)
		}
	}
}

// ---------------------------------------------------------------------------------------
// Yield-capable race-invisible gate runner (engine R). See hx/gate.go for the principle: the
// hand-off words are touched only inside //go:norace //go:noinline functions and waited on with
// Gosched spins, so ThreadSanitizer sees only the synchronisation of the program under test.
// In addition to hx.RunSerialized an operation may hand control back to the controller in the
// middle (SimYield park) and be resumed later.

type ygWord struct {
	v uint64
	_ [56]byte
}

//go:norace
//go:noinline
func (w *ygWord) load() uint64 { return w.v }

//go:norace
//go:noinline
func (w *ygWord) store(v uint64) { w.v = v }

const (
	ygIdle    = 0 // no operation in flight
	ygParked  = 1 // operation in flight, parked at a yield point
	ygDone    = 2 // client finished all its operations
	ygRunning = 3
)

type ygOp struct {
	Fn     func()
	ParkAt map[string]bool // yield points at which this operation parks (once each)
}

type ygClient struct {
	ops    []ygOp
	next   int    // controller side: next operation to start
	state  ygWord // ygIdle / ygParked / ygDone (written by the client, read by the controller)
	point  ygWord // index into ygPoints of the park point, or ygLockBase+k for "lock#k"
	cur    int    // client side: operation being executed
	parked map[string]bool
	locks  int // client side: instrumented lock acquisitions seen in the current operation
	held   int // client side: instrumented locks currently held by the operation
}

// ygLockBase offsets the ordinal of an auto-instrumented lock acquisition ("lock#k", see bin/instrument-locks)
// in ygClient.point.
const ygLockBase = 1000

// ygOnGoroutineWith tells whether the caller's own stack contains mark, e.g. the receiver's upload handler
// (the request goroutine of a serialized client operation) rather than a channel goroutine.
func ygOnGoroutineWith(mark string) bool {
	buf := make([]byte, 32<<10)
	n := runtime.Stack(buf, false)
	return bytes.Contains(buf[:n], []byte(mark))
}

// ygCurrent is the runner that receives the yields of the program under test. The hook variable of the
// receiver package is set once per process (channel goroutines read it at any time); which runner is current
// is kept in a race-invisible word.
var (
	ygCurrent     *ygRunner
	ygInstallOnce sync.Once
)

//go:norace
//go:noinline
func ygSetCurrent(r *ygRunner) { ygCurrent = r }

//go:norace
//go:noinline
func ygGetCurrent() *ygRunner { return ygCurrent }

func ygDispatch(point string) {
	if r := ygGetCurrent(); r != nil {
		r.Yield(point)
	}
}

var ygPoints = []string{"receiver.channel-miss", "receiver.stream-miss"}

type ygRunner struct {
	turn    ygWord // 0 = controller, k = client k-1
	clients []*ygClient
	wg      sync.WaitGroup
	Hung    bool
	// HandlerMark, when set, restricts yields to goroutines whose stack contains it (other goroutines of the
	// program under test that reach the hook are ignored)
	HandlerMark string
	// bgStall: while 1, background goroutines of the program under test (those without HandlerMark on their
	// stack, e.g. a channel goroutine) are held at their next lock acquisition: a slow consumer. The stall is
	// lifted by the controller, or by Step when a client operation turns out to need the background goroutine.
	bgStall           ygWord
	StallLiftedByNeed int
}

// StallBackground switches the stall of background goroutines on or off (controller side).
func (r *ygRunner) StallBackground(on bool) {
	if on {
		r.bgStall.store(1)
	} else {
		r.bgStall.store(0)
	}
}

func (r *ygRunner) wait(w *ygWord, v uint64, deadline time.Time) bool {
	n := 0
	for w.load() != v {
		runtime.Gosched()
		n++
		if n&0x3ff == 0 && !deadline.IsZero() && time.Now().After(deadline) {
			return false
		}
	}
	return true
}

// newYgRunner prepares the runner; Start launches the client goroutines (whatever the operations
// read without synchronisation, e.g. the SimYield hook variable, must be set before Start).
func newYgRunner(clients [][]ygOp) *ygRunner {
	r := &ygRunner{}
	for _, ops := range clients {
		r.clients = append(r.clients, &ygClient{ops: ops})
	}
	return r
}

func (r *ygRunner) Start() {
	for ci, cl := range r.clients {
		ci, cl := ci, cl
		r.wg.Add(1)
		go func() {
			defer r.wg.Done()
			for i := range cl.ops {
				r.wait(&r.turn, uint64(ci+1), time.Time{})
				cl.cur = i
				cl.parked = map[string]bool{}
				cl.locks, cl.held = 0, 0
				cl.ops[i].Fn()
				if i == len(cl.ops)-1 {
					cl.state.store(ygDone)
				} else {
					cl.state.store(ygIdle)
				}
				r.turn.store(0)
			}
		}()
	}
}

// Yield is the SimYield implementation: called on a client goroutine in the middle of an operation.
func (r *ygRunner) Yield(point string) {
	if point == "lock" && r.bgStall.load() == 1 && r.HandlerMark != "" && !ygOnGoroutineWith(r.HandlerMark) {
		for r.bgStall.load() == 1 { // a background goroutine (whether or not a client operation is running)
			runtime.Gosched()
		}
		return
	}
	t := r.turn.load()
	if t == 0 || int(t) > len(r.clients) {
		return // not inside a serialized operation
	}
	cl := r.clients[t-1]
	if r.HandlerMark != "" && !ygOnGoroutineWith(r.HandlerMark) {
		// another goroutine of the program under test (a channel goroutine): only the stall applies to it,
		// and only where it holds no lock ("lock" comes before an acquisition; nested locking is not used there)
		if point == "lock" {
			for r.bgStall.load() == 1 {
				runtime.Gosched()
			}
		}
		return
	}
	op := cl.ops[cl.cur]
	switch point {
	case "locked":
		cl.held++
		return
	case "unlocked":
		cl.held--
		return
	case "lock":
		cl.locks++
		if cl.held > 0 {
			return // never park while holding a lock: nobody else could get past it
		}
		point = "lock#" + strconv.Itoa(cl.locks)
	}
	if !op.ParkAt[point] || cl.parked[point] {
		return
	}
	cl.parked[point] = true
	if strings.HasPrefix(point, "lock#") {
		cl.point.store(uint64(ygLockBase + cl.locks))
	}
	for i, p := range ygPoints {
		if p == point {
			cl.point.store(uint64(i))
		}
	}
	cl.state.store(ygParked)
	r.turn.store(0)
	r.wait(&r.turn, t, time.Time{})
}

// ygStep tells what a Step did.
type ygStep struct {
	Started bool   // a new operation was started (false: a parked one was resumed, or nothing to do)
	OpIdx   int    // index of the client's operation that ran
	Parked  string // non-empty: the operation is now parked at this point
	Noop    bool
}

// InFlight reports whether client c has a parked operation.
func (r *ygRunner) InFlight(c int) bool { return r.clients[c].state.load() == ygParked }

// Step resumes client c: a parked operation continues, otherwise the next operation starts.
// It returns when the operation finished or parked again.
func (r *ygRunner) Step(c int, watchdog time.Duration) ygStep {
	cl := r.clients[c]
	st := ygStep{}
	if cl.state.load() == ygParked {
		st.OpIdx = cl.next - 1
	} else {
		if cl.next >= len(cl.ops) {
			st.Noop = true
			return st
		}
		st.Started = true
		st.OpIdx = cl.next
		cl.next++
	}
	cl.state.store(ygRunning)
	var dl time.Time
	if watchdog > 0 {
		dl = time.Now().Add(watchdog)
	}
	r.turn.store(uint64(c + 1))
	if r.bgStall.load() == 1 {
		// a stalled consumer must not deadlock the schedule: when the operation does not come back quickly it is
		// waiting for the background goroutine (e.g. a full queue), and the stall ends
		if !r.wait(&r.turn, 0, time.Now().Add(150*time.Millisecond)) {
			r.bgStall.store(0)
			r.StallLiftedByNeed++
		}
	}
	if !r.wait(&r.turn, 0, dl) {
		r.Hung = true
		return st
	}
	if cl.state.load() == ygParked {
		if pt := cl.point.load(); pt >= ygLockBase {
			st.Parked = "lock#" + strconv.Itoa(int(pt-ygLockBase))
		} else {
			st.Parked = ygPoints[pt]
		}
	}
	return st
}

// ygDrainPools empties every sync.Pool of the process (two collections: primary -> victim -> gone).
// Under the race detector a Pool.Put/Pool.Get pair on the same pooled object (fmt, regexp, net/http ...
// all use pools) is a release/acquire pair, i.e. a happens-before edge between two client goroutines that
// depends on per-P caches and on the pool's random dropping in race mode: it hides genuine races of the
// program under test in a run-to-run varying way. With empty pools at the start of every operation no
// such edge can cross from one operation to the next.
func ygDrainPools() {
	runtime.GC()
	runtime.GC()
}

// Finish must be called after all operations have completed: it joins the client goroutines with
// real synchronisation so that the controller may read what the operations recorded.
func (r *ygRunner) Finish() {
	if r.Hung {
		return
	}
	r.wg.Wait()
}

// ---------------------------------------------------------------------------------------
// Race-detector log (GORACE=log_path=<p>: reports are appended to <p>.<pid>).

// racePoolPkgs are standard-library packages that recycle objects through sync.Pool; a report whose two
// accesses are both inside them is a pooling artefact of the neutralised pool clocks, not a finding.
var racePoolPkgs = []string{"os.", "fmt.", "regexp.", "regexp/syntax.", "sync.", "net/http.", "net/textproto.", "encoding/json.", "bufio.", "log/slog.", "log/slog/internal/buffer."}

type raceReport struct {
	PoolArtefact bool
	A, B         string // "<kind> <top livesim2 function>" of both accesses, sorted (detail only: which pair of a
	// multi-party conflict the detector samples varies from run to run)
	Writer string // owning method of the (lexicographically first) writing access: the stable identity
	Map    bool   // an access is inside a runtime map routine
	Text   string
}

func raceLogPath() string {
	for _, f := range strings.Fields(os.Getenv("GORACE")) {
		if strings.HasPrefix(f, "log_path=") {
			p := strings.TrimPrefix(f, "log_path=")
			if p == "" || p == "stderr" || p == "stdout" {
				return ""
			}
			return fmt.Sprintf("%s.%d", p, os.Getpid())
		}
	}
	return ""
}

func raceLogSize() int64 {
	p := raceLogPath()
	if p == "" {
		return -1
	}
	fi, err := os.Stat(p)
	if err != nil {
		return 0
	}
	return fi.Size()
}

// raceLogSince parses the reports appended after offset.
func raceLogSince(offset int64) []raceReport {
	p := raceLogPath()
	if p == "" {
		return nil
	}
	b, err := os.ReadFile(p)
	if err != nil || int64(len(b)) <= offset {
		return nil
	}
	return parseRaceReports(string(b[offset:]))
}

func parseRaceReports(text string) []raceReport {
	var out []raceReport
	for _, blk := range strings.Split(text, "==================") {
		if !strings.Contains(blk, "WARNING: DATA RACE") {
			continue
		}
		var accs, writers []string
		isMap := false
		nPoolTop := 0
		lines := strings.Split(blk, "\n")
		for i := 0; i < len(lines); i++ {
			l := strings.TrimSpace(lines[i])
			low := strings.ToLower(l)
			kind := ""
			switch {
			case strings.HasPrefix(low, "write at"), strings.HasPrefix(low, "previous write at"):
				kind = "write"
			case strings.HasPrefix(low, "read at"), strings.HasPrefix(low, "previous read at"):
				kind = "read"
			case strings.HasPrefix(low, "atomic write at"), strings.HasPrefix(low, "previous atomic write at"):
				kind = "atomic-write"
			case strings.HasPrefix(low, "atomic read at"), strings.HasPrefix(low, "previous atomic read at"):
				kind = "atomic-read"
			}
			if kind == "" {
				continue
			}
			top, owner := "unknown", ""
			innermostSeen := false
			for j := i + 1; j < len(lines); j++ {
				s := strings.TrimSpace(lines[j])
				if s == "" {
					break
				}
				// the innermost frame that is not a runtime routine (slicecopy, slicebytetostring, memmove ... are
				// where the access physically happens) tells whose memory it is; file lines start with "/"
				if !innermostSeen && !strings.HasPrefix(s, "/") && !strings.HasPrefix(s, "<") && !strings.HasPrefix(s, "runtime.") && !strings.HasPrefix(s, "internal/") {
					innermostSeen = true
					for _, p := range racePoolPkgs {
						if strings.HasPrefix(s, p) {
							nPoolTop++
						}
					}
				}
				if strings.HasPrefix(s, "runtime.map") || strings.HasPrefix(s, "internal/runtime/maps.") {
					isMap = true
				}
				if strings.HasPrefix(s, "verif/sim/") && top == "unknown" { // harness frame: a harness bug, make it visible
					top = "HARNESS:" + raceFuncName(s)
					owner = top
					break
				}
				if strings.HasPrefix(s, "github.com/Dash-Industry-Forum/livesim2/") {
					fn := raceFuncName(s)
					if top == "unknown" {
						top = fn
					}
					// the owning method: plain helper functions (extractAudioData, writeMPD, ...) are attributed
					// to the first method frame below them; closures to their enclosing method
					if strings.Contains(fn, "(*") {
						owner = fn
						if k := strings.Index(owner, ").") + 2; k >= 2 {
							if d := strings.IndexByte(owner[k:], '.'); d >= 0 {
								owner = owner[:k+d]
							}
						}
						break
					}
				}
			}
			if owner == "" {
				owner = top
			}
			accs = append(accs, kind+" "+top)
			if strings.HasSuffix(kind, "write") {
				writers = append(writers, owner)
			}
		}
		for len(accs) < 2 {
			accs = append(accs, "unknown")
		}
		sort.Strings(accs)
		sort.Strings(writers)
		w := "unknown"
		if len(writers) > 0 {
			w = writers[0]
		}
		out = append(out, raceReport{A: accs[0], B: accs[1], Writer: w, Map: isMap, Text: strings.TrimSpace(blk), PoolArtefact: nPoolTop >= 2})
	}
	return out
}

func raceFuncName(line string) string {
	fn := line
	if i := strings.LastIndex(fn, "("); i > 0 {
		fn = fn[:i]
	}
	fn = strings.TrimPrefix(fn, "github.com/Dash-Industry-Forum/livesim2/")
	if i := strings.LastIndex(fn, "/"); i >= 0 {
		fn = fn[i+1:]
	}
	return fn
}

package props

import (
	"fmt"
	"net/url"
	"strconv"
	"strings"
	"testing"
	"testing/synctest"
	"time"

	"verif/sim/core"
	"verif/sim/hx"
	"verif/sim/refmodel"
)

// C14 — fault-injection parameters hit exactly the scheduled requests (engine T; the traffic
// part runs inside a testing/synctest bubble so that "slow" and "hang" cost no real time).
//
// Part 1, status-code patterns (world mode "status").
//   Model (from the statement only): cycles of `cycle` seconds counted from the START OF THE
//   STREAM (availabilityStartTime); within a cycle the segments are ordered by their start; a
//   media request gets `code` iff its representation matches the pattern and its index among
//   the segments STARTING in its cycle equals `rsq`; everything else is answered exactly like
//   the twin configuration without the parameter (status, content type, body).
//   Segment starts come from the reference model (refmodel.Asset.Live: own parse of the VoD
//   files), never from the server's helpers. Audio (and generated subtitles) are indexed by
//   their reference (video) segment; an audio segment whose own start and whose video
//   segment's start fall on different sides of a cycle boundary is excluded (Appendix B) and
//   counted in probe.audio-straddle. Only requests whose segment is available (twin says 200
//   at the same instant) are asserted. Init segments and MPDs must equal the twin's always.
//   The configuration under test is served by the guard child (hx.GuardGet): a handler that
//   spins is reported as C14.request-returns and the run stops issuing requests to it.
//
// Part 2, traffic patterns (world mode "traffic").
//   The MPD must carry exactly one BaseURL per pattern, "bu0/", "bu1/", ... in pattern order.
//   For every second of several cycles and every BaseURL the response class must equal the
//   pattern's state at that second: up = identical to the twin (same path without the bu
//   element, no traffic parameter) with no delay; down = 404 at once; slow = identical to the
//   twin after a delay; hang = 503 after a longer delay.
//   CYCLE ORIGIN (decision, documented): the statement counts only status-code cycles "from the
//   start of the stream"; for traffic it says "at any second ... repeated cyclically", and the
//   product's own documentation (urlgen page: "u45s10h5 ... every minute") describes
//   wall-clock alignment. The oracle therefore uses the Unix second modulo the pattern length,
//   independent of start_ (for the default start_=0 both readings coincide). Verified against
//   the real server (start_1003 does not shift the states).
//   DELAYS: the urlgen page documents them ("slow: all segment responses are delayed by 2s",
//   "hang: hang for 10s before resulting in 503"); they are asserted under the separate
//   invariant C14.traffic-delay, the state classes under C14.traffic-state (slow: 0 < delay,
//   hang: delay > 0 and 503), so an undocumented change of a constant and a wrong state are
//   told apart. Consumed time is fake time measured exactly with time.Now() in the bubble.
//   Requests without bu element, with an index beyond the pattern list, or with empty pattern
//   elements are outside the statement (C08) and are not generated.

type c14Pat struct {
	Cycle int    `json:"cycle"`
	Rsq   int    `json:"rsq"`
	Code  int    `json:"code"`
	Rep   string `json:"rep"` // "*" | "" (key omitted) | exact representation id
}

type c14World struct {
	Mode    string   `json:"mode"` // status | traffic
	VodRoot string   `json:"vodroot"`
	Asset   string   `json:"asset"`
	MPD     string   `json:"mpd"`
	Cfg     URLCfg   `json:"cfg"` // the twin configuration (without the fault parameter)
	Pats    []c14Pat `json:"pats,omitempty"`
	Ord     int      `json:"ord,omitempty"`     // key order inside a pattern
	Escaped bool     `json:"escaped,omitempty"` // percent-encode [{}] as a browser would
	Traffic []string `json:"traffic,omitempty"`
}

type c14Op struct {
	Kind string `json:"k"` // seg | init | mpd | tr | trmpd
	// status mode
	N     int64  `json:"n,omitempty"`     // live segment index (0 = first segment after AST)
	Rep   string `json:"rep,omitempty"`   // representation id
	Delta int64  `json:"delta,omitempty"` // ms after the instant at which the segment becomes available
	T     int64  `json:"t,omitempty"`     // absolute instant (init, mpd, trmpd)
	// traffic mode
	Sec   int64 `json:"sec,omitempty"`   // Unix second (nowMS mode) or second offset from bubble start (clock mode)
	MS    int64 `json:"ms,omitempty"`    // ms inside the second
	Bu    int   `json:"bu,omitempty"`    // BaseURL index
	Back  int   `json:"back,omitempty"`  // how many segments behind the live edge
	Init  bool  `json:"init,omitempty"`  // request the init segment instead of a media segment
	Clock bool  `json:"clock,omitempty"` // no nowMS: the server reads the (fake) clock
}

type C14 struct{}

func init() { core.Register(C14{}) }

func (C14) ID() string     { return "C14" }
func (C14) Engine() string { return "tlsim" }

// ---------------------------------------------------------------------------------------
// generator

var c14Assets = []assetRef{
	{"testpic_2s", "Manifest.mpd"},
	{"testpic_2s", "Manifest.mpd"},
	{"testpic_2s", "Manifest_thumbs.mpd"},
	{"testpic_2s", "Manifest_imsc1.mpd"},
	{"testpic_6s", "Manifest.mpd"},
	{"testpic_8s", "Manifest.mpd"},
	{"testpic_alt_seg_dur_stl", "Manifest.mpd"},
	{"bbb_hevc_ac3_8s", "manifest.mpd"},
	{"WAVE/vectors/cfhd_sets/12.5_25_50/t3/2022-10-17", "stream.mpd"},
	{"WAVE/vectors/cfhd_sets/14.985_29.97_59.94/t1/2022-10-17", "stream.mpd"},
	{"WAVE/vectors/cfhd_sets/14.985_29.97_59.94/t1/2022-10-17", "stream_w_beeps.mpd"},
}

const c14WaveNTSC = "WAVE/vectors/cfhd_sets/14.985_29.97_59.94/t1/2022-10-17"

func c14MPDReps(a *refmodel.Asset, mpdName string) []string {
	var ids []string
	for _, as := range a.ASets[mpdName] {
		ids = append(ids, as.RepIDs...)
	}
	return ids
}

func (C14) Gen(rng *core.Rng, tier string, idx int) *core.Scenario {
	if rng.Chance(0.35) {
		return c14GenTraffic(rng, tier)
	}
	return c14GenStatus(rng, tier)
}

var c14Codes = []int{400, 403, 404, 404, 410, 425, 429, 500, 502, 503, 599}

func c14GenStatus(rng *core.Rng, tier string) *core.Scenario {
	assets := refAssets(hx.BundledAssets)
	ar := core.Pick(rng, c14Assets)
	straddle := rng.Chance(0.06)
	if straddle {
		ar = assetRef{c14WaveNTSC, "stream_w_beeps.mpd"}
	}
	a := assets[ar.Asset]
	reps := c14MPDReps(a, ar.MPD)
	ref := a.Ref()
	segMS := a.SegDurMS
	cfg := URLCfg{MPDType: core.Pick(rng, []string{"number", "number", "number", "timeline", "timelinenr"})}
	switch rng.Intn(20) {
	case 0, 1: // explicit zero
		cfg.StartS = p64(0)
	case 2, 3, 4, 5: // small: later cycles start after the stream start value
		cfg.StartS = p64(int64(rng.Range(1, 60)))
	case 6, 7, 8:
		cfg.StartS = p64(int64(rng.Range(61, 100000)))
	case 9, 10, 11:
		cfg.StartS = p64(1_500_000_000 + int64(rng.Range(0, 200_000_000)))
	}
	switch rng.Intn(10) {
	case 0:
		cfg.Snr = pint(0)
	case 1, 2, 3, 4:
		cfg.Snr = pint(core.Pick(rng, []int{1, 2, 7, 100, 4711}))
	}
	if rng.Chance(0.08) && cfg.MPDType == "number" && !straddle {
		// generated subtitle tracks: additional representations timestpp-<lang> / timewvtt-<lang>
		switch rng.Intn(2) {
		case 0:
			cfg.Extra = append(cfg.Extra, "timesubsstpp_en")
			reps = append(reps, "timestpp-en")
		default:
			cfg.Extra = append(cfg.Extra, "timesubswvtt_en,sv")
			reps = append(reps, "timewvtt-en", "timewvtt-sv")
		}
	}
	w := c14World{Mode: "status", VodRoot: "bundled", Asset: ar.Asset, MPD: ar.MPD, Cfg: cfg, Ord: rng.Intn(4), Escaped: rng.Chance(0.25)}

	segS := int(segMS / 1000)
	if segS < 1 {
		segS = 1
	}
	cycles := []int{3, 5, 7, 9, 10, 11, 13, 15, 20, 27, 30, 37, 45, 60, segS * 2, segS * 3, segS * 5, segS * 15, segS*4 + 1}
	n0 := int64(0)
	var k int64 // number of consecutive segments
	if straddle {
		// Target: a video segment starting less than one audio frame before a cycle boundary.
		// Video starts at n*2.002 s; pick n with frac(start) in (0.979, 1) and a cycle dividing ceil(start).
		found := false
		for try := 0; try < 200 && !found; try++ {
			n := int64(489+rng.Range(0, 10)) + 500*int64(rng.Range(0, 3))
			ls := a.Live(ref, n)
			b := int(ls.Start/ref.Timescale) + 1 // next whole second
			var divs []int
			for d := 2; d <= 60; d++ {
				if b%d == 0 {
					divs = append(divs, d)
				}
			}
			if len(divs) == 0 {
				continue
			}
			c := core.Pick(rng, divs)
			w.Pats = append(w.Pats, c14Pat{Cycle: c, Rsq: rng.Range(0, 1), Code: core.Pick(rng, c14Codes), Rep: core.Pick(rng, []string{"*", "A48", ""})})
			n0 = n - int64(rng.Range(2, 8))
			k = 14
			found = true
		}
		if !found {
			straddle = false
		}
	}
	if !straddle {
		nPat := core.Pick(rng, []int{1, 1, 2, 2, 3})
		maxCycle := 0
		for i := 0; i < nPat; i++ {
			p := c14Pat{Cycle: core.Pick(rng, cycles), Code: core.Pick(rng, c14Codes)}
			per := p.Cycle/segS + 1
			if rng.Chance(0.4) {
				p.Rsq = 0
			} else {
				p.Rsq = rng.Range(0, per)
			}
			switch rng.Intn(10) {
			case 0, 1, 2:
				p.Rep = "*"
			case 3, 4:
				p.Rep = ""
			default:
				p.Rep = core.Pick(rng, reps)
			}
			if p.Cycle > maxCycle {
				maxCycle = p.Cycle
			}
			w.Pats = append(w.Pats, p)
		}
		per := int64(maxCycle)*1000/segMS + 1
		maxOps := int64(260)
		if tier == "thorough" {
			maxOps = 1500
		}
		k = int64(rng.Range(3, 6)) * per
		if tier == "thorough" {
			k = int64(rng.Range(5, 20)) * per
		}
		if strings.HasPrefix(ar.Asset, "WAVE/") {
			maxOps /= 3 // multi-megabyte video segments
		}
		if lim := maxOps / int64(len(reps)); k > lim {
			k = lim
		}
		if k < 4 {
			k = 4
		}
		switch rng.Intn(10) {
		case 0, 1, 2, 3: // from the very first segment of the stream
			n0 = 0
		case 4, 5:
			n0 = int64(rng.Range(0, int(3*per)))
		case 6, 7: // just before a cycle boundary far away
			c := int64(w.Pats[0].Cycle)
			n0 = c*int64(rng.Range(1, 5000))*1000/segMS - int64(rng.Range(1, 4))
		default:
			n0 = int64(rng.Range(0, 400000))
		}
		if n0 < 0 {
			n0 = 0
		}
	}
	sc := core.NewScenario("C14", "tlsim", 0, tier, w)
	deltas := []int64{0, 0, 1, 500, 999, 1000, 2001}
	var lastT int64
	for n := n0; n < n0+k; n++ {
		for _, rep := range reps {
			d := core.Pick(rng, deltas)
			if rng.Chance(0.3) {
				d = int64(rng.Range(0, 40000))
			}
			sc.AddOp(c14Op{Kind: "seg", N: n, Rep: rep, Delta: d})
		}
		ls := a.Live(ref, n)
		lastT = availMS(cfg.AST(), ls.End, ref.Timescale, 0)
		if rng.Chance(0.04) {
			sc.AddOp(c14Op{Kind: "init", Rep: core.Pick(rng, reps), T: lastT + int64(rng.Range(0, 5000))})
		}
		if rng.Chance(0.03) {
			sc.AddOp(c14Op{Kind: "mpd", T: lastT + int64(rng.Range(0, 5000))})
		}
	}
	sc.AddOp(c14Op{Kind: "init", Rep: core.Pick(rng, reps), T: lastT + 17})
	sc.AddOp(c14Op{Kind: "mpd", T: lastT + 23})
	return sc
}

const c14BubbleEpochS = 946684800 // a synctest bubble starts at 2000-01-01T00:00:00Z

func c14GenTraffic(rng *core.Rng, tier string) *core.Scenario {
	assets := refAssets(hx.BundledAssets)
	ar := core.Pick(rng, []assetRef{{"testpic_2s", "Manifest.mpd"}, {"testpic_2s", "Manifest.mpd"}, {"testpic_2s", "Manifest_imsc1.mpd"},
		{"testpic_6s", "Manifest.mpd"}, {"testpic_8s", "Manifest.mpd"}, {"bbb_hevc_ac3_8s", "manifest.mpd"}})
	a := assets[ar.Asset]
	reps := c14MPDReps(a, ar.MPD)
	maxDur := 9
	if tier == "thorough" {
		maxDur = 30
	}
	nPat := core.Pick(rng, []int{1, 2, 2, 3, 3, 4})
	var pats []string
	maxCycle := int64(0)
	for i := 0; i < nPat; i++ {
		nI := core.Pick(rng, []int{1, 2, 2, 3, 3, 4, 5})
		p := ""
		tot := int64(0)
		for j := 0; j < nI; j++ {
			d := rng.Range(1, maxDur)
			if rng.Chance(0.1) {
				d = rng.Range(10, 3*maxDur) // multi-digit durations
			}
			p += string("udsh"[rng.Intn(4)]) + strconv.Itoa(d)
			tot += int64(d)
		}
		if tot > maxCycle {
			maxCycle = tot
		}
		pats = append(pats, p)
	}
	cfg := URLCfg{MPDType: core.Pick(rng, []string{"number", "number", "number", "timeline", "timelinenr"})}
	base := int64(1_600_000_000) + rng.Int63n(300_000_000)
	if rng.Chance(0.3) {
		base = int64(rng.Range(1000, 1_000_000))
	}
	switch rng.Intn(10) {
	case 0, 1, 2: // non-zero start not aligned with anything; before bubble start and before base
		cfg.StartS = p64(base - int64(rng.Range(100, 900)))
		if *cfg.StartS > c14BubbleEpochS-100 {
			cfg.StartS = p64(c14BubbleEpochS - int64(rng.Range(100, 5000)))
		}
	case 3:
		cfg.StartS = p64(int64(rng.Range(1, 500)))
	}
	if rng.Chance(0.25) {
		cfg.Snr = pint(core.Pick(rng, []int{1, 7, 100}))
	}
	w := c14World{Mode: "traffic", VodRoot: "bundled", Asset: ar.Asset, MPD: ar.MPD, Cfg: cfg, Traffic: pats}
	sc := core.NewScenario("C14", "tlsim", 0, tier, w)
	sc.AddOp(c14Op{Kind: "trmpd", T: base*1000 + int64(rng.Range(0, 999))})
	// clock-mode requests first: the fake clock only moves forward
	off := int64(rng.Range(0, 30))
	for i, n := 0, rng.Range(2, 6); i < n; i++ {
		sc.AddOp(c14Op{Kind: "tr", Clock: true, Sec: off, MS: int64(rng.Range(0, 999)), Bu: rng.Intn(nPat), Rep: core.Pick(rng, reps),
			Back: rng.Range(0, 3), Init: rng.Chance(0.15)})
		off += int64(rng.Range(11, 11+int(maxCycle)))
	}
	// every second of several cycles, every BaseURL
	span := maxCycle*2 + int64(rng.Range(1, 5))
	lim := int64(70)
	if tier == "thorough" {
		lim = 400
	}
	if span > lim {
		span = lim
	}
	for s := base; s < base+span; s++ {
		for bu := 0; bu < nPat; bu++ {
			sc.AddOp(c14Op{Kind: "tr", Sec: s, MS: core.Pick(rng, []int64{0, 0, 1, 500, 999, int64(rng.Range(0, 999))}), Bu: bu,
				Rep: core.Pick(rng, reps), Back: rng.Range(0, 3), Init: rng.Chance(0.1)})
		}
	}
	return sc
}

// ShrinkCandidates: fewer patterns, plain spelling.
func (C14) ShrinkCandidates(sc *core.Scenario) []*core.Scenario {
	w, err := core.DecodeWorld[c14World](sc)
	if err != nil || w.Mode != "status" {
		return nil
	}
	var out []*core.Scenario
	add := func(nw c14World) {
		c := sc.Clone()
		c.World = core.MustJSON(nw)
		out = append(out, c)
	}
	if len(w.Pats) > 1 {
		for i := range w.Pats {
			nw := w
			nw.Pats = append(append([]c14Pat(nil), w.Pats[:i]...), w.Pats[i+1:]...)
			add(nw)
		}
	}
	if w.Escaped {
		nw := w
		nw.Escaped = false
		add(nw)
	}
	if w.Ord != 0 {
		nw := w
		nw.Ord = 0
		add(nw)
	}
	if len(w.Cfg.Extra) > 0 {
		nw := w
		nw.Cfg.Extra = nil
		add(nw)
	}
	return out
}

// ---------------------------------------------------------------------------------------
// executor

func (C14) Run(t *testing.T, sc *core.Scenario, res *core.Result) {
	w, err := core.DecodeWorld[c14World](sc)
	if err != nil {
		panic(err)
	}
	ops, err := core.DecodeOps[c14Op](sc)
	if err != nil {
		panic(err)
	}
	root := vodRootOf(w.VodRoot)
	a := refAssets(root)[w.Asset]
	if a == nil {
		panic("harness: unknown asset " + w.Asset)
	}
	switch w.Mode {
	case "status":
		c14RunStatus(res, w, ops, root, a)
	case "traffic":
		synctest.Test(t, func(t *testing.T) {
			c14RunTraffic(res, w, ops, root, a)
		})
	default:
		panic("harness: unknown C14 mode " + w.Mode)
	}
}

func c14Feat(cfg URLCfg) map[string]string {
	f := map[string]string{"mpdtype": cfg.MPDType, "start": "0", "snr": "default"}
	if cfg.MPDType == "" {
		f["mpdtype"] = "number"
	}
	if cfg.StartS != nil && *cfg.StartS != 0 {
		f["start"] = "nonzero"
	}
	if cfg.Snr != nil && *cfg.Snr != 0 {
		f["snr"] = "nonzero"
	}
	return f
}

// c14StatusPart spells the statuscode_ URL part.
func c14StatusPart(w c14World) string {
	var ps []string
	for _, p := range w.Pats {
		kv := []string{fmt.Sprintf("cycle:%d", p.Cycle), fmt.Sprintf("rsq:%d", p.Rsq), fmt.Sprintf("code:%d", p.Code)}
		if p.Rep != "" {
			kv = append(kv, "rep:"+p.Rep)
		}
		o := w.Ord % len(kv)
		kv = append(kv[o:], kv[:o]...)
		ps = append(ps, "{"+strings.Join(kv, ",")+"}")
	}
	s := "statuscode_[" + strings.Join(ps, ",") + "]"
	if w.Escaped {
		s = url.PathEscape(s)
	}
	return s
}

func (p c14Pat) matches(rep string) bool { return p.Rep == "" || p.Rep == "*" || p.Rep == rep }

// c14Index: cycle number (counted from the stream start) of live segment n of rep and the
// segment's index among the segments starting in that cycle.
func c14Index(a *refmodel.Asset, rep *refmodel.Rep, n int64, cycle int) (cyc int64, idx int64) {
	ls := a.Live(rep, n)
	cl := uint64(cycle) * rep.Timescale
	cyc = int64(ls.Start / cl)
	bound := uint64(cyc) * cl
	m := n
	for m > 0 && a.Live(rep, m-1).Start >= bound {
		m--
	}
	return cyc, n - m
}

type c14RepInfo struct {
	ca     ClientAS
	kind   string
	timing *refmodel.Rep // representation whose segment grid decides index and availability
	own    *refmodel.Rep
}

// c14LoadMPD fetches the twin's MPD and resolves the representations the way a player does.
func c14LoadMPD(get func(path string, now int64) *hx.Resp, prefix string, w c14World, a *refmodel.Asset, at int64) (map[string]*c14RepInfo, *ClientMPD, string) {
	r := get(prefix+"/"+w.MPD, at)
	if r.Status != 200 {
		return nil, nil, fmt.Sprintf("status %d", r.Status)
	}
	cm, err := ParseClientMPD(r.Body)
	if err != nil {
		return nil, nil, err.Error()
	}
	if len(cm.Periods) != 1 {
		return nil, nil, "period count"
	}
	out := map[string]*c14RepInfo{}
	for _, ca := range cm.Periods[0].Sets {
		ri := &c14RepInfo{ca: ca, kind: contentKind(ca), own: a.Reps[ca.RepID]}
		switch ri.kind {
		case "audio", "gen-stpp", "gen-wvtt":
			ri.timing = a.Ref()
		default:
			ri.timing = ri.own
		}
		out[ca.RepID] = ri
	}
	return out, cm, ""
}

// c14MediaURL builds the request path (relative to the asset) of live segment n.
func c14MediaURL(a *refmodel.Asset, ri *c14RepInfo, cfg URLCfg, n int64) (string, bool) {
	ca := ri.ca
	if !ca.UsesTime {
		return fillTemplate(ca.Media, ca.RepID, cfg.StartNr()+n, 0), true
	}
	ls := a.Live(ri.timing, n)
	switch ri.kind {
	case "audio":
		if ri.own == nil || ri.own.FrameDur == 0 {
			return "", false
		}
		ref := a.Ref()
		tm := refmodel.AudioGrid(ls.Start, ref.Timescale, ri.own.Timescale, uint64(ri.own.FrameDur))
		return fillTemplate(ca.Media, ca.RepID, 0, tm+ca.PTO), true
	case "gen-stpp", "gen-wvtt":
		return "", false
	}
	if ri.timing.Timescale != ca.Timescale {
		return "", false
	}
	return fillTemplate(ca.Media, ca.RepID, 0, ls.Start+ca.PTO), true
}

func c14Same(g, tw hx.GResp) bool {
	return g.Status == tw.Status && g.CT == tw.CT && g.Len == tw.Len && g.Sum == tw.Sum
}

func c14StatusClass(s int) string {
	switch {
	case s == 200:
		return "200"
	case s == 404, s == 410, s == 425, s == 500, s == 503:
		return strconv.Itoa(s)
	case s >= 400 && s < 500:
		return "4xx"
	case s >= 500:
		return "5xx"
	}
	return "other"
}

func c14RunStatus(res *core.Result, w c14World, ops []c14Op, root string, a *refmodel.Asset) {
	if len(w.Pats) == 0 {
		return
	}
	twinSrv := sharedSrv(root)
	cfg := w.Cfg
	fcfg := cfg
	fcfg.Extra = append(append([]string(nil), cfg.Extra...), c14StatusPart(w))
	twinPrefix := cfg.Prefix(w.Asset)
	faultPrefix := fcfg.Prefix(w.Asset)
	feat := c14Feat(cfg)
	if feat["snr"] == "nonzero" {
		res.Count("probe.snr-nonzero")
	}
	if feat["start"] == "nonzero" {
		res.Count("probe.start-nonzero")
	}
	if len(w.Pats) > 1 {
		res.Count("probe.multi-pattern")
	}
	if w.Escaped {
		res.Count("probe.escaped-url")
	}
	astMS := cfg.AST() * 1000
	reps, _, why := c14LoadMPD(twinSrv.GetAt, twinPrefix, w, a, astMS+1_000_000)
	res.Event("mpd-load %s", why)
	if reps == nil {
		res.Count("probe.mpd-unavailable")
		return
	}
	divisible := func(p c14Pat) string {
		if !a.ConstSegDur {
			return "variable-segdur"
		}
		ref := a.Ref()
		d := ref.Segs[0].Dur()
		if (uint64(p.Cycle)*ref.Timescale)%d == 0 {
			return "true"
		}
		return "false"
	}
	// shorter: is the cycle shorter than the longest reference segment (then some cycle begins
	// before the first segment of the stream has ended)
	shorter := func(p c14Pat) string {
		ref := a.Ref()
		for _, sg := range ref.Segs {
			if uint64(p.Cycle)*ref.Timescale < sg.Dur() {
				return "true"
			}
		}
		return "false"
	}
	// Scenario-level features (a pattern that misbehaves can spoil requests scheduled by another
	// pattern of the same configuration, so these are not taken from one pattern).
	feat["cycle-divisible"] = "true"
	feat["short-cycle"] = "false"
	for _, p := range w.Pats {
		if d := divisible(p); d != "true" {
			feat["cycle-divisible"] = d
		}
		if shorter(p) == "true" {
			feat["short-cycle"] = "true"
		}
	}
	guardGet := func(path string, now int64) hx.GResp {
		return hx.GuardGet(root, fmt.Sprintf("%s?nowMS=%d", path, now))
	}
	aborted := false
	var lo, hi int64
	first := true
	note := func(t int64) {
		if first || t < lo {
			lo = t
		}
		if first || t > hi {
			hi = t
		}
		first = false
	}
	liveness := func(g hx.GResp, f map[string]string, what string) bool {
		if g.Hung {
			res.Count("probe.hang-detected")
			res.Violate("C14.request-returns", merge(f, core.Sig("kind", "hang")), "%s: the handler did not return (%s)", what, g.Note)
			aborted = true
			return false
		}
		if g.Died {
			res.Violate("C14.request-returns", merge(f, core.Sig("kind", "process-death")), "%s: the server process died (%s)", what, g.Note)
			return false
		}
		return true
	}
	for _, op := range ops {
		if aborted {
			res.Count("probe.skipped-after-hang")
			continue
		}
		switch op.Kind {
		case "mpd":
			if op.T < astMS {
				continue
			}
			res.Count("op.mpd")
			note(op.T)
			tw := hx.Observe(twinSrv.GetAt(twinPrefix+"/"+w.MPD, op.T))
			g := guardGet(faultPrefix+"/"+w.MPD, op.T)
			res.Event("mpd t=%d -> %d/%d", op.T, g.Status, tw.Status)
			f := merge(feat, core.Sig("content", "mpd"))
			if !liveness(g, f, "MPD") {
				continue
			}
			if tw.Status == 200 && !c14Same(g, tw) {
				res.Violate("C14.other-requests-normal", merge(f, core.Sig("kind", "mpd-differs", "got", c14StatusClass(g.Status))),
					"MPD at %d: with statuscode %d len %d, twin %d len %d", op.T, g.Status, g.Len, tw.Status, tw.Len)
			}
			res.Count("probe.mpd-compared")
		case "init":
			ri := reps[op.Rep]
			if ri == nil || ri.ca.ContentType == "image" || op.T < astMS {
				continue
			}
			res.Count("op.init")
			note(op.T)
			u := "/" + fillTemplate(ri.ca.Init, ri.ca.RepID, 0, 0)
			tw := hx.Observe(twinSrv.GetAt(twinPrefix+u, op.T))
			g := guardGet(faultPrefix+u, op.T)
			res.Event("init %s t=%d -> %d/%d", op.Rep, op.T, g.Status, tw.Status)
			f := merge(feat, core.Sig("content", "init"))
			if !liveness(g, f, "init "+op.Rep) {
				continue
			}
			if tw.Status == 200 && !c14Same(g, tw) {
				res.Violate("C14.other-requests-normal", merge(f, core.Sig("kind", "init-differs", "got", c14StatusClass(g.Status), "rep-content", ri.kind)),
					"init %s at %d: with statuscode %d len %d %q, twin %d len %d", u, op.T, g.Status, g.Len, g.Head, tw.Status, tw.Len)
			}
			res.Count("probe.init-compared")
		case "seg":
			ri := reps[op.Rep]
			if ri == nil || ri.timing == nil || op.N < 0 {
				continue
			}
			u, ok := c14MediaURL(a, ri, cfg, op.N)
			if !ok {
				res.Count("probe.no-url")
				continue
			}
			ls := a.Live(ri.timing, op.N)
			inst := availMS(cfg.AST(), ls.End, ri.timing.Timescale, 0) + op.Delta
			note(inst)
			res.Count("op.segment")
			tw := hx.Observe(twinSrv.GetAt(twinPrefix+"/"+u, inst))
			g := guardGet(faultPrefix+"/"+u, inst)
			res.Event("seg %s n=%d t=%d -> %d/%d len=%d", op.Rep, op.N, inst, g.Status, tw.Status, g.Len)
			f := merge(feat, core.Sig("content", ri.kind))
			// model
			var hits []c14Pat
			straddle := false
			var ctxPat *c14Pat // pattern giving the context features of a report
			ctxCyc := int64(-1)
			for i := range w.Pats {
				p := w.Pats[i]
				if !p.matches(op.Rep) {
					continue
				}
				cyc, idx := c14Index(a, ri.timing, op.N, p.Cycle)
				if ri.kind == "audio" && ri.own != nil && ri.own.FrameDur > 0 {
					ref := a.Ref()
					own := refmodel.AudioGrid(ls.Start, ref.Timescale, ri.own.Timescale, uint64(ri.own.FrameDur))
					if int64(own/(uint64(p.Cycle)*ri.own.Timescale)) != cyc {
						straddle = true
					}
				}
				if idx == int64(p.Rsq) {
					hits = append(hits, p)
					if ctxPat == nil || len(hits) == 1 {
						ctxPat, ctxCyc = &w.Pats[i], cyc
					}
				} else if ctxPat == nil {
					ctxPat, ctxCyc = &w.Pats[i], cyc
				}
			}
			ctx := core.Sig("cycle", "n/a")
			generated := ri.own == nil // generated subtitle track: no grid of its own, the cycle position does not apply
			if ctxPat != nil && !generated {
				ctx["cycle"] = "later"
				if ctxCyc == 0 {
					ctx["cycle"] = "first"
				}
			}
			if !liveness(g, merge(f, ctx), fmt.Sprintf("GET %s/%s at %d", faultPrefix, u, inst)) {
				continue
			}
			if straddle {
				res.Count("probe.audio-straddle")
				continue
			}
			if tw.Status != 200 {
				res.Count("probe.twin-not-200")
				continue
			}
			res.Count("probe.segment-compared")
			same := c14Same(g, tw)
			if len(hits) > 0 {
				if len(hits) > 1 {
					res.Count("probe.multi-hit")
				}
				okc := false
				for _, p := range hits {
					if g.Status == p.Code {
						okc = true
					}
				}
				if okc {
					res.Count("fault.statuscode-hit")
					res.Count("probe.hit-cycle-" + ctx["cycle"])
					if divisible(hits[0]) != "true" {
						res.Count("probe.hit-nondivisible-cycle")
					}
					if shorter(hits[0]) == "true" {
						res.Count("probe.hit-short-cycle")
					}
					continue
				}
				got := c14StatusClass(g.Status)
				switch {
				case g.Panic != "":
					got = "panic:" + g.PanicFrame
				case same:
					got = "normal"
				}
				res.Violate("C14.scheduled-request-gets-code", merge(f, ctx, core.Sig("kind", "code-missing", "got", got)),
					"GET %s/%s at %d (live segment %d of %s): model: index %d in cycle %d of {cycle:%d,rsq:%d,code:%d,rep:%q} -> expected %d, got %d %q (twin 200)",
					faultPrefix, u, inst, op.N, op.Rep, hits[0].Rsq, ctxCyc, hits[0].Cycle, hits[0].Rsq, hits[0].Code, hits[0].Rep, hits[0].Code, g.Status, g.Head)
				continue
			}
			if same {
				res.Count("probe.normal-as-twin")
				continue
			}
			kind, got := "not-normal", c14StatusClass(g.Status)
			switch {
			case g.Panic != "":
				kind, got = "panic", "panic:"+g.PanicFrame
			default:
				for i := range w.Pats {
					p := w.Pats[i]
					if p.matches(op.Rep) && p.Code == g.Status {
						kind = "code-extra"
						if generated {
							break
						}
						cyc, _ := c14Index(a, ri.timing, op.N, p.Cycle)
						ctx["cycle"] = "later"
						if cyc == 0 {
							ctx["cycle"] = "first"
						}
						break
					}
				}
			}
			detail := ""
			if ctxPat != nil {
				cyc, idx := c14Index(a, ri.timing, op.N, ctxPat.Cycle)
				detail = fmt.Sprintf(" (index %d in cycle %d of {cycle:%d,rsq:%d,code:%d,rep:%q})", idx, cyc, ctxPat.Cycle, ctxPat.Rsq, ctxPat.Code, ctxPat.Rep)
			}
			res.Violate("C14.other-requests-normal", merge(f, ctx, core.Sig("kind", kind, "got", got)),
				"GET %s/%s at %d (live segment %d of %s)%s: not scheduled by any pattern, expected the twin's answer (200, %s, %d bytes), got %d %s %d bytes %q %s",
				faultPrefix, u, inst, op.N, op.Rep, detail, tw.CT, tw.Len, g.Status, g.CT, g.Len, g.Head, g.Panic)
		}
	}
	if !first {
		res.SimMS += hi - lo
	}
	res.Nontrivial = res.Stats["probe.segment-compared"] >= 4
}

// ---------------------------------------------------------------------------------------
// traffic part

type c14Itv struct {
	st  byte
	dur int64
}

// c14ParsePattern: own reading of "u20d10": letter, then seconds.
func c14ParsePattern(p string) ([]c14Itv, int64) {
	var out []c14Itv
	var tot int64
	i := 0
	for i < len(p) {
		st := p[i]
		i++
		j := i
		for j < len(p) && p[j] >= '0' && p[j] <= '9' {
			j++
		}
		d, err := strconv.ParseInt(p[i:j], 10, 64)
		if err != nil || d <= 0 || strings.IndexByte("udsh", st) < 0 {
			panic("harness: bad generated traffic pattern " + p)
		}
		out = append(out, c14Itv{st, d})
		tot += d
		i = j
	}
	return out, tot
}

func c14StateAt(itvs []c14Itv, tot, sec int64) byte {
	r := ((sec % tot) + tot) % tot
	for _, it := range itvs {
		if r < it.dur {
			return it.st
		}
		r -= it.dur
	}
	panic("harness: unreachable")
}

var c14StateName = map[byte]string{'u': "up", 'd': "down", 's': "slow", 'h': "hang"}

func c14RunTraffic(res *core.Result, w c14World, ops []c14Op, root string, a *refmodel.Asset) {
	if len(w.Traffic) == 0 {
		return
	}
	// The server lives inside the bubble: its sleeps use the fake clock.
	srv, err := hx.NewSrv(hx.SrvOpts{VodRoot: root})
	if err != nil {
		panic("harness: cannot set up server in bubble: " + err.Error())
	}
	bubbleStart := time.Now()
	if bubbleStart.Unix() != c14BubbleEpochS {
		panic(fmt.Sprintf("harness: bubble clock starts at %d", bubbleStart.Unix()))
	}
	cfg := w.Cfg
	fcfg := cfg
	fcfg.Extra = append(append([]string(nil), cfg.Extra...), "traffic_"+strings.Join(w.Traffic, ","))
	twinPrefix := cfg.Prefix(w.Asset)
	faultPrefix := fcfg.Prefix(w.Asset)
	feat := c14Feat(cfg)
	if feat["start"] == "nonzero" {
		res.Count("probe.start-nonzero")
	}
	type pat struct {
		itvs []c14Itv
		tot  int64
	}
	var pats []pat
	for _, p := range w.Traffic {
		it, tot := c14ParsePattern(p)
		pats = append(pats, pat{it, tot})
	}
	astMS := cfg.AST() * 1000
	var reps map[string]*c14RepInfo
	loadReps := func(at int64) bool {
		if reps != nil {
			return true
		}
		r, _, why := c14LoadMPD(srv.GetAt, twinPrefix, w, a, at)
		res.Event("mpd-load %s", why)
		reps = r
		return reps != nil
	}
	var fakeTotal time.Duration
	secs := map[int64]bool{}
	for _, op := range ops {
		switch op.Kind {
		case "trmpd":
			if op.T < astMS {
				continue
			}
			res.Count("op.mpd")
			t0 := time.Now()
			r := srv.GetAt(faultPrefix+"/"+w.MPD, op.T)
			el := time.Since(t0)
			res.Event("trmpd t=%d -> %d", op.T, r.Status)
			if r.Status != 200 {
				res.Violate("C14.mpd-baseurls", merge(feat, core.Sig("kind", "mpd-not-200", "status", c14StatusClass(r.Status))),
					"MPD %s/%s at %d: %d %q", faultPrefix, w.MPD, op.T, r.Status, trunc(string(r.Body), 100))
				continue
			}
			if el != 0 {
				res.Violate("C14.mpd-baseurls", merge(feat, core.Sig("kind", "mpd-delayed")), "MPD took %v of fake time", el)
			}
			cm, err := ParseClientMPD(r.Body)
			if err != nil || len(cm.Periods) != 1 {
				res.Violate("C14.mpd-baseurls", merge(feat, core.Sig("kind", "mpd-unparsable")), "MPD: %v", err)
				continue
			}
			var got []string
			for _, b := range cm.Periods[0].P.BaseURLs {
				got = append(got, string(b.Value))
			}
			var want []string
			for i := range w.Traffic {
				want = append(want, fmt.Sprintf("bu%d/", i))
			}
			if strings.Join(got, " ") != strings.Join(want, " ") {
				kind := "wrong-values"
				if len(got) != len(want) {
					kind = "wrong-count"
				}
				res.Violate("C14.mpd-baseurls", merge(feat, core.Sig("kind", kind)), "traffic_%s: MPD BaseURLs %v, expected %v",
					strings.Join(w.Traffic, ","), got, want)
			}
			res.Count("probe.baseurls-checked")
		case "tr":
			if op.Bu < 0 || op.Bu >= len(pats) {
				continue
			}
			var inst int64
			mode := "nowms"
			if op.Clock {
				mode = "wall"
				target := bubbleStart.Add(time.Duration(op.Sec)*time.Second + time.Duration(op.MS)*time.Millisecond)
				d := time.Until(target)
				if d < 0 {
					res.Count("probe.clock-op-in-the-past")
					continue
				}
				time.Sleep(d)
				inst = time.Now().UnixMilli()
			} else {
				inst = op.Sec*1000 + op.MS
			}
			if inst < astMS {
				continue
			}
			if !loadReps(inst) {
				res.Count("probe.mpd-unavailable")
				continue
			}
			ri := reps[op.Rep]
			if ri == nil || ri.timing == nil {
				continue
			}
			// choose a segment that is available at inst: the newest ended one, minus op.Back
			u := ""
			req := "media"
			nl := a.LastEndedBy(ri.timing, inst-astMS) - int64(op.Back)
			if op.Init || nl < 0 {
				if ri.ca.ContentType == "image" {
					continue
				}
				req = "init"
				u = fillTemplate(ri.ca.Init, ri.ca.RepID, 0, 0)
			} else {
				var ok bool
				u, ok = c14MediaURL(a, ri, cfg, nl)
				if !ok {
					continue
				}
			}
			sec := inst / 1000
			want := c14StateAt(pats[op.Bu].itvs, pats[op.Bu].tot, sec)
			res.Count("op.traffic-" + mode)
			secs[sec] = true
			path := fmt.Sprintf("%s/bu%d/%s", faultPrefix, op.Bu, u)
			t0 := time.Now()
			var r *hx.Resp
			if op.Clock {
				r = srv.Get(path)
			} else {
				r = srv.GetAt(path, inst)
			}
			el := time.Since(t0)
			fakeTotal += el
			tw := srv.GetAt(twinPrefix+"/"+u, inst)
			same := r.Status == tw.Status && r.CT() == tw.CT() && string(r.Body) == string(tw.Body)
			res.Event("tr %s sec=%d bu=%d %s -> %d after %dms (twin %d) want %c", mode, sec, op.Bu, req, r.Status, el.Milliseconds(), tw.Status, want)
			f := merge(feat, core.Sig("clock", mode, "req", req, "want", c14StateName[want]))
			if r.Panic != "" {
				res.Violate("C14.traffic-state", merge(f, core.Sig("kind", "panic", "frame", r.PanicFrame)), "GET %s at %d: panic %s", path, inst, r.Panic)
				continue
			}
			if tw.Status != 200 {
				res.Count("probe.twin-not-200")
				continue
			}
			got := "other"
			switch {
			case same && el == 0:
				got = "up"
			case same && el > 0:
				got = "slow"
			case r.Status == 404 && el == 0:
				got = "down"
			case r.Status == 503 && el > 0:
				got = "hang"
			}
			res.Count("probe.state-" + c14StateName[want])
			if got != c14StateName[want] {
				res.Violate("C14.traffic-state", merge(f, core.Sig("kind", "state-mismatch", "got", got)),
					"GET %s at %d (Unix second %d, pattern %q: second %d of its %d s cycle -> %s): got %d after %v of fake time (twin 200, same=%v) = %s",
					path, inst, sec, w.Traffic[op.Bu], sec%pats[op.Bu].tot, pats[op.Bu].tot, c14StateName[want], r.Status, el, same, got)
				continue
			}
			switch want {
			case 'd':
				res.Count("fault.traffic-down")
			case 's':
				res.Count("fault.traffic-slow")
				if el != 2*time.Second {
					res.Violate("C14.traffic-delay", merge(f, core.Sig("kind", "slow-delay")), "GET %s at %d: slow response after %v, documented 2s", path, inst, el)
				}
			case 'h':
				res.Count("fault.traffic-hang")
				if el != 10*time.Second {
					res.Violate("C14.traffic-delay", merge(f, core.Sig("kind", "hang-delay")), "GET %s at %d: hang ended after %v, documented 10s", path, inst, el)
				}
			}
		}
	}
	res.SimMS += int64(len(secs))*1000 + fakeTotal.Milliseconds()
	res.Nontrivial = res.Stats["probe.state-up"]+res.Stats["probe.state-down"]+res.Stats["probe.state-slow"]+res.Stats["probe.state-hang"] >= 4
}

package props

// C17 — ingest receiver: stored media and timeline MPD agree for any arrival order (engine B).
//
// One scenario = one channel, T simulated track senders, an explicit delivery order (the op list) with
// loss / duplication / reordering / late and missing tracks and receiver restarts over the same storage.
// Everything runs inside a synctest bubble: after every delivery the bubble is brought to quiescence
// (synctest.Wait: the channel goroutine has consumed what the handler handed over), then storage and the
// published MPDs are observed and the invariants evaluated against the harness's own record of what it
// uploaded (never against the receiver's internal tables).

import (
	"bytes"
	"context"
	"fmt"
	"net/http"
	"os"
	"path/filepath"
	"sort"
	"strconv"
	"strings"
	"syscall"
	"testing"
	"testing/synctest"
	"unsafe"

	rapp "github.com/Dash-Industry-Forum/livesim2/cmd/cmaf-ingest-receiver/app"

	"verif/sim/core"
	"verif/sim/hx"
)

type c17World struct {
	recvWorld
	Mode string `json:"mode,omitempty"` // sampled | exhaustive
}

type c17Op struct {
	Kind string `json:"kind"` // up | restart
	recvUpload
	Fault string `json:"fault,omitempty"` // the injected fault this delivery realises: loss | dup | reorder | late | gap
	// Slow > 0 (media uploads): the request reaches the handler now, its body only after Slow further operations
	// (other uploads, also of the same track, are handled in between: a slow connection)
	Slow int `json:"slow,omitempty"`
	// SlowEOF (with Slow): the bytes of the body arrive at once, only its end is Slow operations late: the segment is
	// parsed, numbered and written at once, the request (and the report to the channel) completes later, e.g. after
	// the channel start
	SlowEOF bool `json:"slow_eof,omitempty"`
}

type C17 struct{}

func init() { core.Register(C17{}) }

func (C17) ID() string     { return "C17" }
func (C17) Engine() string { return "bubble" }

// ---------------------------------------------------------------------------------------
// Generator.

// multinomial number of interleavings of sequences with the given remaining lengths (saturating).
func c17Interleavings(rem []int) uint64 {
	total := 0
	res := uint64(1)
	for _, r := range rem {
		for k := 1; k <= r; k++ {
			total++
			// res = res * total / k  (exact: product of binomials)
			hi := res * uint64(total)
			if res != 0 && hi/res != uint64(total) {
				return 1 << 62
			}
			res = hi / uint64(k)
		}
	}
	return res
}

// c17Unrank returns the k-th (lexicographic by track index) interleaving of sequences of the given lengths.
func c17Unrank(lens []int, k uint64) []int {
	rem := append([]int(nil), lens...)
	n := 0
	for _, r := range rem {
		n += r
	}
	out := make([]int, 0, n)
	for len(out) < n {
		for t := range rem {
			if rem[t] == 0 {
				continue
			}
			rem[t]--
			c := c17Interleavings(rem)
			if k < c {
				out = append(out, t)
				break
			}
			k -= c
			rem[t]++
		}
	}
	return out
}

func c17Tracks(rng *core.Rng, family string, n int) []recvTrack {
	defs := recvFamilies[family]
	var out []recvTrack
	if family == "zero" {
		order := []int{0, 2, 3, 1, 4}
		for i := 0; i < n && i < len(order); i++ {
			out = append(out, recvTrack{Name: defs[order[i]].Name, Src: defs[order[i]].Name})
		}
		return out
	}
	for i := 0; i < n; i++ {
		var d recvSrcDef
		switch {
		case i == 0:
			d = defs[0] // the video master
		case i == 1:
			d = defs[1]
		case i == 2 && len(defs) > 2:
			d = defs[2]
		default:
			d = core.Pick(rng, defs)
		}
		out = append(out, recvTrack{Name: fmt.Sprintf("%s%d", d.Kind[:1], i), Src: d.Name, Tag: i + 1})
	}
	return out
}

func (C17) Gen(rng *core.Rng, tier string, idx int) *core.Scenario {
	w := c17World{Mode: "sampled"}
	c := recvChannel{Name: "ch1"}
	exhaustive := tier == "thorough" && idx%3 == 0
	switch x := rng.Intn(100); {
	case exhaustive || x < 78:
		c.Family = "ls2"
	case x < 85:
		c.Family = "ls8"
	case x < 92:
		c.Family = "aws"
	default:
		c.Family = "zero"
	}
	segS := int(recvFamilySegMS[c.Family] / 1000)
	if segS < 1 {
		segS = 1
	}
	c.Btrt = rng.Chance(0.75)
	c.Streams = rng.Chance(0.25)
	c.Base = core.Pick(rng, []int64{0, 1, 7, 1000, 880_000_000 + rng.Int63n(1_000_000)})
	if rng.Chance(0.1) {
		c.StartNr, c.InCfg = 1, true
		if c.Base < 1 {
			c.Base = 1
		}
	}
	// window: smaller and larger than the run
	// (windows of one or two segments make the receiver die on almost any input: kept rare so that the rest is seen)
	w.Tsbd = uint64(core.Pick(rng, []int{2, 3, 3, 4, 4, 5, 6, 8, 10, 30}) * segS)
	if rng.Chance(0.06) {
		w.Tsbd = uint64(core.Pick(rng, []int{1, 2, 3}) * segS / 2)
	}
	if w.Tsbd == 0 {
		w.Tsbd = 1
	}
	nTr := 1 + rng.Intn(4)
	if rng.Chance(0.25) {
		nTr = 1 + rng.Intn(6)
	}
	maxSegs := recvFamilyLen[c.Family]
	switch c.Family {
	case "aws":
		if nTr > 2 {
			nTr = 2
		}
	case "zero":
		if nTr > 5 {
			nTr = 5
		}
	}
	nSeg := 4 + rng.Intn(12)
	if tier == "thorough" {
		nSeg = 4 + rng.Intn(30)
	}
	if maxSegs > 0 && nSeg > maxSegs {
		nSeg = maxSegs
	}
	if exhaustive {
		w.Mode = "exhaustive"
		nTr = 1 + rng.Intn(3)
		nSeg = 1 + rng.Intn(4)
		w.Tsbd = uint64(core.Pick(rng, []int{1, 2, 4, 60}))
		c.Streams, c.StartNr, c.InCfg = false, 0, false
	}
	c.Tracks = c17Tracks(rng, c.Family, nTr)
	nTr = len(c.Tracks)
	w.Channels = []recvChannel{c}
	sc := core.NewScenario("C17", "bubble", 0, tier, w)
	up := func(tr int, init bool, i int, fault string) c17Op {
		return c17Op{Kind: "up", Fault: fault, recvUpload: recvUpload{Ch: c.Name, Tr: c.Tracks[tr].Name, Init: init, Idx: i}}
	}

	if exhaustive {
		// the idx-th interleaving (per-track order preserved) of T x (init + M segments)
		lens := make([]int, nTr)
		for i := range lens {
			lens[i] = nSeg + 1
		}
		total := c17Interleavings(lens)
		k := (uint64(idx/3) * 2654435761) % total
		next := make([]int, nTr)
		for _, t := range c17Unrank(lens, k) {
			if next[t] == 0 {
				sc.AddOp(up(t, true, 0, ""))
			} else {
				sc.AddOp(up(t, false, next[t]-1, ""))
			}
			next[t]++
		}
		return sc
	}

	// ---- sampled: per-track sender programs, perturbed by the enabled disturbance kinds, then merged.
	// Half of the scenarios enable exactly one kind (so that a violation's cause is unambiguous), some none.
	kinds := []string{"loss", "dup", "reorder", "late", "restart", "skew", "earlymedia", "slow"}
	on := map[string]bool{}
	switch x := rng.Intn(100); {
	case x < 12:
	case x < 62:
		on[core.Pick(rng, kinds)] = true
	default:
		for _, k := range kinds {
			if rng.Chance(0.35) {
				on[k] = true
			}
		}
	}
	lossP, dupP, reorderP := 0.0, 0.0, 0.0
	if on["loss"] {
		lossP = core.Pick(rng, []float64{0.05, 0.1, 0.25})
	}
	if on["dup"] {
		dupP = core.Pick(rng, []float64{0.05, 0.15})
	}
	if on["reorder"] {
		reorderP = core.Pick(rng, []float64{0.05, 0.2})
	}
	// slots[t][i] = what track t sends for segment index i (slot 0 of row -1 is the init segment)
	inits := make([][]c17Op, nTr)
	slots := make([][][]c17Op, nTr)
	lateTrack, lateFrom := -1, 0
	if on["late"] && nTr > 1 {
		lateTrack = rng.Intn(nTr)
		lateFrom = 1 + rng.Intn(nSeg)
	}
	for t := 0; t < nTr; t++ {
		inits[t] = []c17Op{up(t, true, 0, "")}
		slots[t] = make([][]c17Op, nSeg)
		for i := 0; i < nSeg; i++ {
			if t == lateTrack && i < lateFrom {
				continue // the late track skips what it missed
			}
			o := up(t, false, i, "")
			switch {
			case rng.Chance(lossP):
				o.Fault = "loss"
			case rng.Chance(reorderP) && i > 0 && len(slots[t][i-1]) == 1 && slots[t][i-1][0].Fault == "":
				// out of order inside the track: this one overtakes the previous one
				prev := slots[t][i-1][0]
				prev.Fault = "reorder"
				slots[t][i-1] = []c17Op{o}
				o = prev
			}
			if on["slow"] && o.Fault == "" && rng.Chance(0.15) { // the request arrives now, its body a few operations later
				o.Slow = rng.Range(1, 2*nTr+2)
				o.SlowEOF = rng.Chance(0.35)
			}
			slots[t][i] = append(slots[t][i], o)
			if rng.Chance(dupP) {
				d := up(t, false, i-rng.Intn(3), "dup")
				if d.Idx < 0 || (t == lateTrack && d.Idx < lateFrom) {
					d.Idx = i
				}
				slots[t][i] = append(slots[t][i], d)
			}
		}
	}
	var body []c17Op
	order := func() []int {
		o := make([]int, nTr)
		for i := range o {
			o[i] = i
		}
		rng.Shuffle(nTr, func(i, j int) { o[i], o[j] = o[j], o[i] })
		return o
	}
	if !on["skew"] {
		// rounds: every track sends its slot i before any track sends slot i+1
		early := -1
		if on["earlymedia"] {
			early = rng.Intn(nTr) // this track's init segment arrives after some of its media
		}
		for _, t := range order() {
			if t != lateTrack && t != early {
				body = append(body, inits[t]...)
			}
		}
		earlyAt := 1 + rng.Intn(3)
		for i := 0; i < nSeg; i++ {
			if lateTrack >= 0 && i == lateFrom {
				body = append(body, inits[lateTrack]...)
			}
			if early >= 0 && early != lateTrack && i == earlyAt {
				body = append(body, inits[early]...)
			}
			for _, t := range order() {
				body = append(body, slots[t][i]...)
			}
		}
	} else {
		// free-running tracks with different speeds and bursts
		type prog struct {
			ops   []c17Op
			pos   int
			speed int
			wait  int
		}
		progs := make([]*prog, nTr)
		for t := 0; t < nTr; t++ {
			p := &prog{speed: 1 + rng.Intn(4)}
			p.ops = append(p.ops, inits[t]...)
			if on["earlymedia"] && rng.Chance(0.3) && nSeg > 1 {
				p.ops = append([]c17Op{}, slots[t][0]...)
				p.ops = append(p.ops, inits[t]...)
				for i := 1; i < nSeg; i++ {
					p.ops = append(p.ops, slots[t][i]...)
				}
			} else {
				for i := 0; i < nSeg; i++ {
					p.ops = append(p.ops, slots[t][i]...)
				}
			}
			if t == lateTrack {
				p.wait = lateFrom * nTr
			}
			progs[t] = p
		}
		step := 0
		for {
			var live []int
			weight, more := 0, false
			for t, p := range progs {
				if p.pos < len(p.ops) {
					more = true
					if p.wait <= step {
						live = append(live, t)
						weight += p.speed
					}
				}
			}
			if !more {
				break
			}
			if len(live) == 0 {
				step++
				continue
			}
			x := rng.Intn(weight)
			t := live[0]
			for _, c := range live {
				if x < progs[c].speed {
					t = c
					break
				}
				x -= progs[c].speed
			}
			burst := 1
			if rng.Chance(0.15) {
				burst = 2 + rng.Intn(4)
			}
			for b := 0; b < burst && progs[t].pos < len(progs[t].ops); b++ {
				body = append(body, progs[t].ops[progs[t].pos])
				progs[t].pos++
				step++
			}
		}
	}
	restartAt := map[int]bool{}
	if on["restart"] && len(body) > 2 {
		for i := 0; i < 1+rng.Intn(2); i++ {
			restartAt[1+rng.Intn(len(body)-1)] = true
		}
	}
	for i, o := range body {
		if restartAt[i] {
			sc.AddOp(c17Op{Kind: "restart"})
		}
		sc.AddOp(o)
	}
	// ---- fault-free tail: every track uploads consecutive new numbers in order (liveness clause)
	if maxSegs == 0 && rng.Chance(0.7) {
		segMS := recvFamilySegMS[c.Family]
		win := int(ceilDiv(int64(w.Tsbd)*1000, segMS))
		rounds := win + 2
		if rounds > 14 {
			rounds = 3 + rng.Intn(6)
		}
		for r := 0; r < rounds; r++ {
			for t := 0; t < nTr; t++ {
				sc.AddOp(up(t, false, nSeg+r, ""))
			}
		}
	}
	return sc
}

// ---------------------------------------------------------------------------------------
// Executor.

type c17SegMeta struct {
	Seq    uint32
	Tfdt   uint64
	Dur    uint64
	Hashes []string
	Err    string
}

type c17TrackState struct {
	def        recvSrcDef
	inTS       uint32         // timescale of the uploaded init segment
	initOK     bool           // an init segment was accepted (ever)
	uploaded   map[int64]bool // numbers (uploaded sequence number - startNr) delivered, any status
	accepted   map[int64]bool // ... answered 2xx
	everStored map[int64]bool // numbers seen as a stored file at some observation
	maxNr      int64          // highest number delivered so far (-1 = none)
	outOfOrder bool           // a number below maxNr was delivered
	firstStep  int            // step of the first accepted media upload (-1 = none)
	firstAny   int            // step of the first delivery of any kind (-1 = none)
	lastStored int64          // number under which the most recent acknowledged upload was found stored (-1 = none)
	sinceBoot  bool           // has uploaded since the last restart
	lateSlow   bool           // a slow upload of this track completed after newer segments of the track
}

type c17Run struct {
	res   *core.Result
	w     *c17World
	ch    *recvChannel
	dir   string
	chDir string
	feat  map[string]string

	tracks    map[string]*c17TrackState
	snap      map[string]recvFile // files below the channel directory (relative to it)
	metaCache map[string]c17SegMeta
	newest    int64 // newest number ever listed by the timeline MPD (-1 = none)
	restarts  int
	step      int
	gapSeen   bool
	dupSeen   bool
	skewSeen  bool
	earlySeen bool
	rewrites  bool
	shifts    map[string]bool
	mpdSeen   bool
	started   bool // manifest.mpd exists (the channel has fixed its segment duration)
	startStep int
	bound     int64
	segMS     int64
	lastMPD   *recvMPD
	ino       *c17Inotify
	verbatim  map[string]bool   // files whose last accepted upload was stored under its incoming number, unchanged
	incoming  map[string]string // <track>/<incoming number><ext> -> hash of the last body uploaded with that number
	pending   []*c17Pending     // slow uploads whose body has not arrived yet
	slowDone  bool
	// slowOverStart: an upload was in flight across the channel start
	slowOverStart bool
	// videoJoinedLate: the first video track registered after a non-video track had started the channel
	videoJoinedLate bool
	// after a restart a non-video track delivered media before any video track did (the receiver then takes
	// that track as master until the video returns)
	nonVideoFirst bool
}

func (C17) Run(t *testing.T, sc *core.Scenario, res *core.Result) {
	w, err := core.DecodeWorld[c17World](sc)
	if err != nil {
		panic(err)
	}
	ops, err := core.DecodeOps[c17Op](sc)
	if err != nil {
		panic(err)
	}
	if len(w.Channels) == 0 || len(ops) == 0 {
		return
	}
	// materialise all payloads outside the bubble (the livesim2 server must not live in it)
	for _, op := range ops {
		if op.Kind == "up" {
			w.request(op.recvUpload)
		}
	}
	dir := hx.TempDir("c17")
	defer os.RemoveAll(dir)
	func() {
		defer func() {
			if r := recover(); r != nil {
				msg := fmt.Sprint(r)
				if strings.HasPrefix(msg, "harness:") {
					panic(r)
				}
				// synctest reports goroutines that are still blocked when the bubble ends
				res.Violate("C17.keeps-processing", core.Sig("kind", "bubble-did-not-finish"), "%s", msg)
			}
		}()
		synctest.Test(t, func(t *testing.T) {
			c17RunInBubble(&w, ops, dir, res)
		})
	}()
}

func c17RunInBubble(w *c17World, ops []c17Op, dir string, res *core.Result) {
	ch := &w.Channels[0]
	r := &c17Run{res: res, w: w, ch: ch, dir: dir, chDir: filepath.Join(dir, ch.Name), tracks: map[string]*c17TrackState{},
		snap: map[string]recvFile{}, metaCache: map[string]c17SegMeta{}, newest: -1, shifts: map[string]bool{}, startStep: -1}
	r.segMS = recvFamilySegMS[ch.Family]
	r.bound = ceilDiv(int64(w.tsbdOf(ch))*1000, r.segMS) + 3 // DESIGN.md §7 C17 (5): ceil(tsbd/segmentDuration)+3
	r.feat = core.Sig("numbers-from-zero", fmt.Sprint(ch.Base == 0 && (ch.Family == "ls2" || ch.Family == "ls8")))
	for _, tr := range ch.Tracks {
		def := recvSrc(ch.Family, tr.Src)
		in, err := hx.ParseInit(recvInitBody(ch.Family, tr.Src, ch.Btrt))
		if err != nil {
			panic("harness: init: " + err.Error())
		}
		r.tracks[tr.Name] = &c17TrackState{def: def, inTS: in.Timescale, uploaded: map[int64]bool{}, accepted: map[int64]bool{},
			everStored: map[int64]bool{}, maxNr: -1, firstStep: -1, firstAny: -1, lastStored: -1}
	}
	if err := os.MkdirAll(r.chDir, 0o755); err != nil {
		panic("harness: " + err.Error())
	}
	r.ino = newC17Inotify(r.chDir)
	defer r.ino.Close()

	var ri *recvInst
	boot := func() {
		ctx, cancel := context.WithCancel(context.Background())
		opts := rapp.NewOptionsForVerif("/upload", dir, w.Tsbd, 0)
		rc, err := rapp.NewReceiver(ctx, opts, w.config())
		if err != nil {
			cancel()
			panic("harness: NewReceiver: " + err.Error())
		}
		ri = &recvInst{R: rc, H: http.HandlerFunc(rc.SegmentHandlerFunc), Dir: dir, cancel: cancel}
	}
	boot()
	blocked := false
	for _, op := range ops {
		if blocked {
			break
		}
		r.step++
		switch op.Kind {
		case "restart":
			if !r.releaseDue(true) { // the connections end with the process: the bodies arrive first
				blocked = true
				break
			}
			res.Count("fault.restart")
			res.Event("restart")
			ri.Stop()
			synctest.Wait()
			boot()
			r.restarts++
			for _, ts := range r.tracks {
				ts.sinceBoot = false
			}
			r.observe("", true)
		case "up":
			if op.Fault == "loss" {
				res.Count("fault.loss")
				res.Event("lost %s", op.recvUpload)
				if !op.Init {
					r.gapSeen = true
				}
				continue
			}
			blocked = !r.deliver(ri, op)
			if !blocked && !r.releaseDue(false) {
				blocked = true
			}
		}
	}
	if !blocked && !r.releaseDue(true) {
		blocked = true
	}
	if !blocked {
		r.observe("", true)
		r.liveness(ops)
	}
	ri.Stop()
	synctest.Wait()
	res.SimMS += int64(r.step) * r.segMS / int64(len(ch.Tracks)+1)
	res.Nontrivial = r.step >= 3 && r.mpdSeen
}

// deliver sends one upload and observes. It returns false when the handler did not return.
func (r *c17Run) deliver(ri *recvInst, op c17Op) bool {
	res := r.res
	ts := r.tracks[op.Tr]
	method, path, body, hdr, ok := r.w.request(op.recvUpload)
	if !ok || ts == nil {
		return true
	}
	if op.Fault != "" {
		res.Count("fault." + op.Fault)
	}
	if ts.firstAny < 0 {
		ts.firstAny = r.step
	}
	if op.Slow > 0 && !op.Init {
		p := &c17Pending{op: op, body: body, hold: op.Slow, gate: make(chan struct{}), beforeStart: !r.started}
		go func() {
			p.resp = ri.DoReader(method, path, &gatedBody{gate: p.gate, rd: bytes.NewReader(body), eofOnly: op.SlowEOF}, hdr)
			p.done = true
		}()
		synctest.Wait()
		if op.SlowEOF {
			res.Count("fault.slow-upload-end-only")
			if p.done { // answered without waiting for the end of the body (refused)
				return r.completed(op, ts, body, p.resp)
			}
			// The whole body has been consumed and the handler waits for its end: the segment is stored now. It is
			// judged now, as an acknowledged upload (every callback succeeded; only the answer is outstanding).
			p.early = true
			r.pending = append(r.pending, p)
			res.Event("up %s body consumed (end of body %d operations later)", op.recvUpload, op.Slow)
			return r.completed(op, ts, body, &hx.Resp{Status: 200, Header: http.Header{}})
		}
		r.pending = append(r.pending, p)
		res.Count("fault.slow-upload")
		res.Event("up %s started (body %d operations later)", op.recvUpload, op.Slow)
		return true
	}
	var resp *hx.Resp
	done := false
	go func() {
		resp = ri.Do(method, path, body, hdr)
		done = true
	}()
	synctest.Wait()
	if !done {
		res.Violate("C17.keeps-processing", merge(r.feat, core.Sig("kind", "handler-blocked", "upload", c17Kind(op))),
			"%s: the handler did not return (durably blocked)", op.recvUpload)
		return false
	}
	return r.completed(op, ts, body, resp)
}

// c17Pending is a slow upload whose body has not arrived yet.
type c17Pending struct {
	op   c17Op
	body []byte
	hold int
	gate chan struct{}
	resp *hx.Resp
	done bool
	// beforeStart: the request reached the handler before the channel had started (manifest.mpd not yet written)
	beforeStart bool
	// early: end-only slow upload that has been judged when its body was consumed
	early bool
}

// releaseDue lets the bodies of the slow uploads arrive whose hold has run out (all of them if all is set).
// It returns false when a handler did not return.
func (r *c17Run) releaseDue(all bool) bool {
	var keep []*c17Pending
	ok := true
	for _, p := range r.pending {
		if !all {
			p.hold--
		}
		if !all && p.hold > 0 {
			keep = append(keep, p)
			continue
		}
		close(p.gate)
		synctest.Wait()
		if !p.done {
			r.res.Violate("C17.keeps-processing", merge(r.feat, core.Sig("kind", "handler-blocked", "upload", "media-slow")),
				"%s: the handler did not return after the body had arrived", p.op.recvUpload)
			ok = false
			continue
		}
		r.slowDone = true
		if p.beforeStart && r.started {
			r.slowOverStart = true // its body arrived after the channel start (possibly with shifted numbers)
		}
		if p.early {
			r.res.Event("up %s ended -> %d", p.op.recvUpload, p.resp.Status)
			if p.resp.Panic != "" {
				r.res.Violate("C17.keeps-processing", merge(r.feat, core.Sig("kind", "handler-panic", "frame", p.resp.PanicFrame, "upload", "media-slow")),
					"%s: panic %s", p.op.recvUpload, p.resp.Panic)
			}
			if p.resp.Status/100 != 2 {
				r.res.Count("probe.end-only-upload-refused-at-its-end")
			}
			r.observe(p.op.Tr, false)
			continue
		}
		if !r.completed(p.op, r.tracks[p.op.Tr], p.body, p.resp) {
			ok = false
		}
	}
	r.pending = keep
	return ok
}

// completed evaluates an upload whose handler has returned.
func (r *c17Run) completed(op c17Op, ts *c17TrackState, body []byte, resp *hx.Resp) bool {
	res := r.res
	res.Event("up %s -> %d", op.recvUpload, resp.Status)
	if resp.Panic != "" {
		res.Violate("C17.keeps-processing", merge(r.feat, core.Sig("kind", "handler-panic", "frame", resp.PanicFrame, "upload", c17Kind(op))),
			"%s: panic %s", op.recvUpload, resp.Panic)
	}
	ok2xx := resp.Status/100 == 2
	if op.Init {
		res.Count("op.init")
		if ok2xx {
			if ts.def.Kind == "video" && r.started {
				videoBefore := false
				for _, o := range r.tracks {
					if o != ts && o.def.Kind == "video" && o.initOK {
						videoBefore = true
					}
				}
				if !videoBefore && !ts.initOK {
					// the channel was started by a non-video track and gets its first video track now: the video
					// takes over as master and the channel will start again under its numbering
					r.videoJoinedLate = true
					res.Count("probe.first-video-joined-after-channel-start")
				}
			}
			ts.initOK = true
		}
		r.observe(op.Tr, false)
		return true
	}
	res.Count("op.media")
	sm := r.meta("upload:"+hx.ShortHash(body), body, recvInitBody(r.ch.Family, mustTrack(r.ch, op.Tr).Src, r.ch.Btrt))
	if sm.Err != "" {
		panic("harness: cannot parse the uploaded segment: " + sm.Err)
	}
	nr := int64(sm.Seq) - int64(r.ch.StartNr)
	if r.incoming == nil {
		r.incoming = map[string]string{}
	}
	r.incoming[fmt.Sprintf("%s/%d%s", op.Tr, nr, ts.def.Ext)] = hx.ShortHash(body)
	if op.Slow > 0 && nr < ts.maxNr {
		ts.lateSlow = true
	}
	if nr < ts.maxNr {
		ts.outOfOrder = true
		res.Count("probe.out-of-order-delivery")
	}
	if ts.uploaded[nr] {
		r.dupSeen = true
		res.Count("probe.duplicate-delivery")
	}
	if ts.maxNr >= 0 && nr > ts.maxNr+1 {
		r.gapSeen = true
		res.Count("probe.gap-in-numbers")
	}
	ts.uploaded[nr] = true
	if nr > ts.maxNr {
		ts.maxNr = nr
	}
	var lo, hi int64 = -1, -1
	for _, o := range r.tracks {
		if o.maxNr < 0 {
			continue
		}
		if lo < 0 || o.maxNr < lo {
			lo = o.maxNr
		}
		if o.maxNr > hi {
			hi = o.maxNr
		}
	}
	if hi-lo >= 2 && !r.skewSeen {
		r.skewSeen = true
		res.Count("probe.tracks-two-or-more-apart")
	}
	before := r.snap
	r.observe(op.Tr, false)
	if !ok2xx {
		res.Count("probe.media-not-acknowledged")
		if !ts.initOK {
			r.earlySeen = true
			res.Count("probe.media-before-init")
		}
		return true
	}
	ts.accepted[nr] = true
	if r.restarts > 0 && ts.def.Kind != "video" {
		videoBack := false
		for _, o := range r.tracks {
			if o.def.Kind == "video" && o.sinceBoot {
				videoBack = true
			}
		}
		if !videoBack {
			r.nonVideoFirst = true // after a restart a non-video track delivered media before any video track
		}
	}
	ts.sinceBoot = true
	if ts.firstStep < 0 {
		ts.firstStep = r.step
	}
	r.checkStored(op, ts, body, sm, nr, before)
	return true
}

func mustTrack(c *recvChannel, name string) recvTrack {
	t, ok := c.track(name)
	if !ok {
		panic("harness: unknown track " + name)
	}
	return t
}

func c17Kind(op c17Op) string {
	if op.Init {
		return "init"
	}
	return "media"
}

// meta parses a media segment (cached by key).
func (r *c17Run) meta(key string, data, init []byte) c17SegMeta {
	if m, ok := r.metaCache[key]; ok {
		return m
	}
	var m c17SegMeta
	in, err := hx.ParseInit(init)
	if err != nil {
		m.Err = "init: " + err.Error()
	} else if sg, err := hx.ParseSeg(data, in.Trex); err != nil {
		m.Err = err.Error()
	} else {
		m.Seq, m.Tfdt, m.Dur = sg.Seq(), sg.Tfdt(), sg.Dur
		for _, s := range sg.AllSamples() {
			m.Hashes = append(m.Hashes, s.Hash)
		}
	}
	if len(r.metaCache) > 4000 {
		r.metaCache = map[string]c17SegMeta{}
	}
	r.metaCache[key] = m
	return m
}

// storedMeta parses a stored media segment with the stored init segment of its track.
func (r *c17Run) storedMeta(rel string) c17SegMeta {
	f, ok := r.snap[rel]
	if !ok {
		return c17SegMeta{Err: "no such file"}
	}
	trDir := rel[:strings.LastIndex(rel, "/")]
	ext := filepath.Ext(rel)
	initRel := trDir + "/init" + ext
	fi, ok := r.snap[initRel]
	if !ok {
		return c17SegMeta{Err: "no stored init segment " + initRel}
	}
	key := "stored:" + f.Hash + ":" + fi.Hash
	if m, ok := r.metaCache[key]; ok {
		return m
	}
	data, err1 := os.ReadFile(filepath.Join(r.chDir, rel))
	init, err2 := os.ReadFile(filepath.Join(r.chDir, initRel))
	if err1 != nil || err2 != nil {
		return c17SegMeta{Err: "cannot read"}
	}
	return r.meta(key, data, init)
}

// scan refreshes the snapshot: one track directory plus the channel-level files, or everything.
func (r *c17Run) scan(track string, full bool) {
	next := map[string]recvFile{}
	if !full {
		pre := track + "/"
		for k, v := range r.snap {
			if !strings.HasPrefix(k, pre) && strings.Contains(k, "/") {
				next[k] = v
			}
		}
	}
	readDir := func(rel string) {
		ents, err := os.ReadDir(filepath.Join(r.chDir, rel))
		if err != nil {
			return
		}
		for _, e := range ents {
			if e.IsDir() {
				continue
			}
			p := e.Name()
			if rel != "" {
				p = rel + "/" + e.Name()
			}
			b, err := os.ReadFile(filepath.Join(r.chDir, p))
			if err != nil {
				continue
			}
			next[p] = recvFile{Size: len(b), Hash: hx.ShortHash(b)}
		}
	}
	readDir("")
	if full {
		ents, _ := os.ReadDir(r.chDir)
		for _, e := range ents {
			if e.IsDir() {
				readDir(e.Name())
			}
		}
	} else if track != "" {
		readDir(track)
	}
	r.snap = next
}

// disturbances names what has disturbed the ideal in-order round-robin delivery so far in this run: the
// categorical context of a violation, taken from the harness's own record of its deliveries.
func (r *c17Run) disturbances() string {
	var d []string
	if r.gapSeen {
		d = append(d, "loss")
	}
	if r.dupSeen {
		d = append(d, "dup")
	}
	if r.earlySeen {
		d = append(d, "media-before-init")
	}
	if r.lateJoiner() {
		d = append(d, "late-track")
	}
	if r.restarts > 0 {
		d = append(d, "restart")
	}
	if r.skewSeen {
		d = append(d, "tracks-apart")
	}
	if r.slowDone || len(r.pending) > 0 {
		d = append(d, "slow-upload")
	}
	for _, ts := range r.tracks {
		if ts.outOfOrder {
			d = append(d, "reorder")
			break
		}
	}
	sort.Strings(d)
	switch {
	case len(d) == 0:
		return "none"
	case len(d) > 2:
		return "mixed"
	}
	return strings.Join(d, "+")
}

func (r *c17Run) sig(kv ...string) map[string]string {
	m := merge(core.Sig(kv...), core.Sig("disturbances", r.disturbances()))
	if r.slowOverStart {
		m["upload-in-flight-across-channel-start"] = "true"
	}
	if r.videoJoinedLate {
		m["first-video-joined-after-channel-start"] = "true"
	}
	return m
}

// observe looks at storage and the published MPDs after a delivery (or restart) and evaluates the
// state invariants (2)-(5) and (7).
func (r *c17Run) observe(track string, full bool) {
	res := r.res
	r.scan(track, full)
	// remember what has been stored
	for name := range r.snap {
		i := strings.IndexByte(name, '/')
		if i < 0 {
			continue
		}
		ts := r.tracks[name[:i]]
		if ts == nil {
			continue
		}
		base := strings.TrimSuffix(name[i+1:], ts.def.Ext)
		if n, err := strconv.ParseInt(base, 10, 64); err == nil && strings.HasSuffix(name, ts.def.Ext) {
			ts.everStored[n] = true
		}
	}
	if _, ok := r.snap["manifest.mpd"]; ok && !r.started {
		r.started = true
		r.startStep = r.step
		res.Count("probe.channel-started")
	}
	// (4) the published path only receives whole-file replacements
	for _, ev := range r.ino.Drain() {
		if ev.Name != "manifest_timeline_nr.mpd" {
			continue
		}
		res.Count("probe.inotify-event-on-published-mpd")
		if ev.Mask&(syscall.IN_MODIFY|syscall.IN_CREATE|syscall.IN_DELETE|syscall.IN_MOVED_FROM) != 0 {
			res.Violate("C17.mpd-complete", r.sig("kind", "published-path-not-replaced-atomically", "event", c17InoName(ev.Mask)),
				"inotify on the channel directory: %s %s", c17InoName(ev.Mask), ev.Name)
		}
	}
	// (4) every observed MPD parses as a complete document
	for _, name := range []string{"manifest.mpd", "manifest_timeline_nr.mpd"} {
		if _, ok := r.snap[name]; !ok {
			continue
		}
		raw, err := os.ReadFile(filepath.Join(r.chDir, name))
		if err != nil {
			continue
		}
		m, err := recvParseMPD(raw)
		if err != nil {
			res.Violate("C17.mpd-complete", r.sig("kind", "mpd-does-not-parse", "mpd", name), "%s after step %d: %v", name, r.step, err)
			continue
		}
		if name == "manifest_timeline_nr.mpd" {
			r.checkTimeline(m)
		}
	}
	// (5) storage stays within the window implied by timeShiftBufferDepth
	for _, trn := range sortedKeys(r.tracks) {
		ts := r.tracks[trn]
		nrs := c17Numbers(r.snap, trn, ts.def.Ext)
		if len(nrs) == 0 {
			continue
		}
		// an upload whose body has been consumed but whose request has not ended has stored its file and has not
		// yet triggered the clean-up that its end triggers: one file more per such request of the track
		open := int64(0)
		for _, p := range r.pending {
			if p.early && p.op.Tr == trn {
				open++
			}
		}
		if int64(len(nrs)) > r.bound+open {
			res.Violate("C17.within-window", r.sig("kind", "stored-count", "overtaken-slow-upload-of-track", fmt.Sprint(ts.lateSlow), "after-restart-nonvideo-first", fmt.Sprint(r.nonVideoFirst)),
				"track %s stores %d segments %v > bound %d (tsbd %d s, segment %d ms) after step %d", trn, len(nrs), nrs,
				r.bound, r.w.tsbdOf(r.ch), r.segMS, r.step)
		}
	}
}

// c17Numbers returns the stored media segment numbers of a track (snapshot relative to the channel directory).
func c17Numbers(snap map[string]recvFile, tr, ext string) []int64 {
	var nrs []int64
	pre := tr + "/"
	for name := range snap {
		if !strings.HasPrefix(name, pre) || !strings.HasSuffix(name, ext) {
			continue
		}
		n, err := strconv.ParseInt(strings.TrimSuffix(strings.TrimPrefix(name, pre), ext), 10, 64)
		if err != nil {
			continue
		}
		nrs = append(nrs, n)
	}
	sort.Slice(nrs, func(i, j int) bool { return nrs[i] < nrs[j] })
	return nrs
}

// commonStored tells whether some number is stored for every registered track ("some"/"none"):
// with "none" no non-empty SegmentTimeline MPD over stored segments exists at all.
func (r *c17Run) commonStored() (string, string) {
	var ids []string
	for id, ts := range r.tracks {
		if ts.initOK {
			ids = append(ids, id)
		}
	}
	sort.Strings(ids)
	cnt := map[int64]int{}
	var sb strings.Builder
	for _, id := range ids {
		seen := map[int64]bool{}
		var nrs []int64
		pre := id + "/"
		for name := range r.snap {
			if !strings.HasPrefix(name, pre) {
				continue
			}
			base := strings.TrimPrefix(name, pre)
			n, err := strconv.ParseInt(strings.TrimSuffix(base, filepath.Ext(base)), 10, 64)
			if err != nil || seen[n] {
				continue
			}
			seen[n] = true
			nrs = append(nrs, n)
			cnt[n]++
		}
		sort.Slice(nrs, func(i, j int) bool { return nrs[i] < nrs[j] })
		fmt.Fprintf(&sb, "%s:%v ", id, nrs)
	}
	common := "none"
	for _, c := range cnt {
		if c == len(ids) && len(ids) > 0 {
			common = "some"
		}
	}
	return common, strings.TrimSpace(sb.String())
}

// checkTimeline evaluates (2), (3) and the listed-range part of (5) on a parsed timeline MPD.
func (r *c17Run) checkTimeline(m *recvMPD) {
	res := r.res
	r.lastMPD = m
	if len(m.Reps) == 0 {
		return
	}
	r.mpdSeen = true
	res.Count("probe.timeline-mpd-observed")
	var first, last int64 = -1, -1
	for _, rep := range m.Reps {
		if !rep.HasTimeline || len(rep.Segs) == 0 {
			res.Violate("C17.mpd-agrees-with-storage", r.sig("kind", "representation-without-timeline", "content", rep.ContentType),
				"representation %s has no SegmentTimeline entries", rep.ID)
			continue
		}
		if rep.GapDetail != "" {
			res.Violate("C17.mpd-agrees-with-storage", r.sig("kind", "timeline-not-contiguous", "content", rep.ContentType),
				"representation %s: %s", rep.ID, rep.GapDetail)
		}
		f, l := rep.Segs[0].Number, rep.Segs[len(rep.Segs)-1].Number
		if first < 0 {
			first, last = f, l
		} else if f != first || l != last {
			res.Violate("C17.mpd-agrees-with-storage", r.sig("kind", "ranges-differ-between-adaptation-sets"),
				"representation %s lists %d..%d, another one %d..%d", rep.ID, f, l, first, last)
		}
		if int64(len(rep.Segs)) > r.bound {
			res.Violate("C17.within-window", r.sig("kind", "listed-range"),
				"representation %s lists %d segments > bound %d", rep.ID, len(rep.Segs), r.bound)
		}
		ts := r.tracks[rep.ID]
		reported := false
		for _, s := range rep.Segs {
			rel := s.URL
			if _, ok := r.snap[rel]; !ok {
				if !reported { // one report per representation and observation
					reported = true
					common, all := r.commonStored()
					res.Violate("C17.mpd-agrees-with-storage", r.sig("kind", "listed-segment-not-stored", "history", r.missingHistory(ts, s.Number), "complete-number-stored", common),
						"step %d: MPD lists %d..%d; %s is not stored (tracks store %s)", r.step, f, l, rel, all)
				}
				continue
			}
			sm := r.storedMeta(rel)
			if sm.Err != "" {
				res.Violate("C17.mpd-agrees-with-storage", r.sig("kind", "listed-segment-unreadable", "content", rep.ContentType),
					"%s: %s", rel, sm.Err)
				continue
			}
			res.Count("probe.listed-segment-checked")
			if sm.Tfdt != s.T || sm.Dur != s.D {
				which := "t"
				if sm.Tfdt == s.T {
					which = "d"
				}
				res.Violate("C17.mpd-agrees-with-storage", r.sig("kind", "listed-timing-differs", "which", which, "content", rep.ContentType, "after-restart-nonvideo-first", fmt.Sprint(r.nonVideoFirst), "after-restart", fmt.Sprint(r.restarts > 0), "channel-renumbers", fmt.Sprint(r.rewrites),
					"overwritten-under-incoming-number", fmt.Sprint(r.rewrites && r.incoming[rel] != "" && r.incoming[rel] == r.snap[rel].Hash)),
					"%s: MPD lists t=%d d=%d, the stored segment has tfdt=%d duration=%d", rel, s.T, s.D, sm.Tfdt, sm.Dur)
			}
		}
	}
	// (3) the newest listed number never decreases
	if last >= 0 {
		if last < r.newest {
			res.Violate("C17.newest-never-decreases", r.sig("kind", "newest-listed-number-decreased"),
				"step %d: newest listed number %d after %d", r.step, last, r.newest)
		}
		if last > r.newest {
			r.newest = last
			res.Count("probe.mpd-edge-advanced")
		}
	}
}

// missingHistory tells from the harness's own record what happened to a listed but missing segment.
func (r *c17Run) missingHistory(ts *c17TrackState, nr int64) string {
	switch {
	case ts == nil:
		return "unknown-track"
	case ts.everStored[nr]:
		return "was-stored-then-removed"
	case ts.accepted[nr]:
		return "accepted-never-seen-stored"
	case ts.uploaded[nr]:
		return "delivered-not-acknowledged"
	}
	return "never-delivered"
}

// checkStored evaluates (1) for an acknowledged media upload.
func (r *c17Run) checkStored(op c17Op, ts *c17TrackState, body []byte, sm c17SegMeta, nr int64, before map[string]recvFile) {
	res := r.res
	ext := ts.def.Ext
	want := fmt.Sprintf("%s/%d%s", op.Tr, nr, ext)
	if f, ok := r.snap[want]; ok && f.Hash == hx.ShortHash(body) {
		res.Count("probe.stored-verbatim")
		if r.verbatim == nil {
			r.verbatim = map[string]bool{}
		}
		r.verbatim[want] = true // stored under its incoming number, unchanged
		ts.lastStored = nr
		return
	}
	// the receiver rewrote the segment (shifted time / number, changed timescale): find it among the files
	// of the track that this delivery created or changed
	var cands []string
	pre := op.Tr + "/"
	for name, f := range r.snap {
		if !strings.HasPrefix(name, pre) || !strings.HasSuffix(name, ext) {
			continue
		}
		if _, err := strconv.ParseInt(strings.TrimSuffix(strings.TrimPrefix(name, pre), ext), 10, 64); err != nil {
			continue
		}
		if b, ok := before[name]; !ok || b.Hash != f.Hash {
			cands = append(cands, name)
		}
	}
	sort.Strings(cands)
	if _, ok := r.snap[want]; ok {
		cands = append(cands, want)
	}
	// then the unchanged files: a repeated upload may have been rewritten to exactly the bytes that are already there
	nChanged := len(cands)
	inCands := map[string]bool{}
	for _, c := range cands {
		inCands[c] = true
	}
	for _, n := range c17Numbers(r.snap, op.Tr, ext) {
		if name := fmt.Sprintf("%s/%d%s", op.Tr, n, ext); !inCands[name] {
			cands = append(cands, name)
		}
	}
	for _, name := range cands {
		st := r.storedMeta(name)
		if st.Err != "" || len(st.Hashes) != len(sm.Hashes) {
			continue
		}
		same := true
		for i := range st.Hashes {
			if st.Hashes[i] != sm.Hashes[i] {
				same = false
				break
			}
		}
		if !same {
			continue
		}
		res.Count("probe.stored-rewritten")
		r.rewrites = true
		delete(r.verbatim, name)
		n, _ := strconv.ParseInt(strings.TrimSuffix(strings.TrimPrefix(name, pre), ext), 10, 64)
		ts.lastStored = n
		if int64(st.Seq) != n {
			res.Violate("C17.accepted-is-stored", r.sig("kind", "stored-number-differs-from-name", "content", ts.def.Kind),
				"%s: stored as %s but its mfhd sequence number is %d", op.recvUpload, name, st.Seq)
		}
		return
	}
	kind := "accepted-upload-not-stored"
	if _, ok := r.snap[want]; ok {
		kind = "accepted-upload-stored-with-other-content"
	}
	res.Violate("C17.accepted-is-stored", r.sig("kind", kind, "content", ts.def.Kind),
		"%s (number %d) answered 2xx; no file of track %s holds its samples (expected %s; changed files %v; track has %v)", op.recvUpload, nr, op.Tr, want, cands[:nChanged],
		c17Numbers(r.snap, op.Tr, ext))
}

// liveness evaluates (6): after faults stop and all tracks upload consecutive new numbers in order, the MPD
// edge equals the newest complete number within window+2 rounds.
func (r *c17Run) liveness(ops []c17Op) {
	res := r.res
	nTr := len(r.ch.Tracks)
	// longest clean tail of whole rounds: every track once, same index, indices increasing by one, no fault labels
	var ups []c17Op
	for _, op := range ops {
		if op.Kind == "up" || op.Kind == "restart" {
			ups = append(ups, op)
		}
	}
	rounds := 0
	lastIdx := -1
	for end := len(ups); end-nTr >= 0; end -= nTr {
		blk := ups[end-nTr : end]
		seen := map[string]bool{}
		okBlk := true
		for _, op := range blk {
			if op.Kind != "up" || op.Init || op.Fault != "" || op.Slow > 0 || seen[op.Tr] || op.Idx != blk[0].Idx || r.tracks[op.Tr] == nil {
				okBlk = false
				break
			}
			seen[op.Tr] = true
		}
		if !okBlk || (lastIdx >= 0 && blk[0].Idx != lastIdx-1) {
			break
		}
		// the numbers must be new for every track, and no slow upload of before may complete inside the tail
		for j, op := range ups[:end-nTr] {
			if op.Kind == "up" && !op.Init && op.Idx >= blk[0].Idx {
				okBlk = false
			}
			if op.Slow > 0 && j+op.Slow >= end-nTr {
				okBlk = false
			}
		}
		if !okBlk {
			break
		}
		if lastIdx < 0 {
			lastIdx = blk[0].Idx + 1
		}
		lastIdx = blk[0].Idx
		rounds++
	}
	need := int(ceilDiv(int64(r.w.tsbdOf(r.ch))*1000, r.segMS)) + 2 // "within window + 2 rounds" (DESIGN.md §5.3)
	if rounds < need {
		res.Count("probe.liveness-tail-too-short")
		return
	}
	// every track must be able to deliver at all (its init segment was accepted at some time)
	for _, ts := range r.tracks {
		if !ts.initOK {
			res.Count("probe.liveness-track-without-init")
			return
		}
	}
	res.Count("probe.liveness-checked")
	// newest complete number: the number under which the last round's uploads were found stored (the receiver may
	// renumber; then the last round must have been stored under one common number)
	want := int64(-1)
	for _, tr := range r.ch.Tracks {
		ts := r.tracks[tr.Name]
		if ts.lastStored < 0 || (want >= 0 && ts.lastStored != want) {
			res.Count("probe.liveness-last-round-not-uniformly-stored")
			return
		}
		want = ts.lastStored
	}
	switch {
	case r.lastMPD == nil || r.newest < 0:
		res.Violate("C17.edge-catches-up", r.sig("kind", "no-timeline-mpd"),
			"after %d in-order rounds (window+2 = %d) no timeline MPD is published; newest complete number %d", rounds, need, want)
	default:
		edge := int64(-1)
		for _, rep := range r.lastMPD.Reps {
			if len(rep.Segs) > 0 {
				edge = rep.Segs[len(rep.Segs)-1].Number
				break
			}
		}
		if edge != want {
			rel := "behind"
			if edge > want {
				rel = "ahead"
			}
			res.Violate("C17.edge-catches-up", r.sig("kind", "edge-"+rel),
				"after %d in-order rounds (window+2 = %d) the MPD edge is %d, newest complete number %d", rounds, need, edge, want)
		}
	}
}

func (r *c17Run) lateJoiner() bool {
	// a track whose first acknowledged media segment arrives after the channel has started (= after the
	// receiver published manifest.mpd), or that has sent something but no acknowledged media yet
	for _, ts := range r.tracks {
		if r.startStep >= 0 && ts.firstAny >= 0 && (ts.firstStep < 0 || ts.firstStep > r.startStep) {
			return true
		}
	}
	return false
}

// ---------------------------------------------------------------------------------------
// inotify trace of the channel directory (Linux).

type c17InoEvent struct {
	Mask uint32
	Name string
}

type c17Inotify struct {
	fd int
}

func newC17Inotify(dir string) *c17Inotify {
	fd, err := syscall.InotifyInit1(syscall.IN_NONBLOCK | syscall.IN_CLOEXEC)
	if err != nil {
		return &c17Inotify{fd: -1}
	}
	_, err = syscall.InotifyAddWatch(fd, dir, syscall.IN_MODIFY|syscall.IN_CREATE|syscall.IN_DELETE|syscall.IN_MOVED_TO|syscall.IN_MOVED_FROM|syscall.IN_CLOSE_WRITE)
	if err != nil {
		syscall.Close(fd)
		return &c17Inotify{fd: -1}
	}
	return &c17Inotify{fd: fd}
}

func (i *c17Inotify) Close() {
	if i.fd >= 0 {
		syscall.Close(i.fd)
	}
}

func (i *c17Inotify) Drain() []c17InoEvent {
	if i.fd < 0 {
		return nil
	}
	var out []c17InoEvent
	buf := make([]byte, 16384)
	for {
		n, err := syscall.Read(i.fd, buf)
		if n <= 0 || err != nil {
			return out
		}
		off := 0
		for off+syscall.SizeofInotifyEvent <= n {
			ev := (*syscall.InotifyEvent)(unsafe.Pointer(&buf[off]))
			nameLen := int(ev.Len)
			name := ""
			if nameLen > 0 {
				raw := buf[off+syscall.SizeofInotifyEvent : off+syscall.SizeofInotifyEvent+nameLen]
				name = strings.TrimRight(string(raw), "\x00")
			}
			out = append(out, c17InoEvent{Mask: ev.Mask, Name: name})
			off += syscall.SizeofInotifyEvent + nameLen
		}
	}
}

func c17InoName(mask uint32) string {
	var parts []string
	for _, m := range []struct {
		bit  uint32
		name string
	}{{syscall.IN_MODIFY, "modify"}, {syscall.IN_CREATE, "create"}, {syscall.IN_DELETE, "delete"}, {syscall.IN_MOVED_TO, "moved-to"},
		{syscall.IN_MOVED_FROM, "moved-from"}, {syscall.IN_CLOSE_WRITE, "close-write"}} {
		if mask&m.bit != 0 {
			parts = append(parts, m.name)
		}
	}
	return strings.Join(parts, "+")
}

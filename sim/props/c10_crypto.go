package props

// Independent Common Encryption (ISO/IEC 23001-7) decryptor used by C10 next to mp4ff's.
// Only crypto/aes block operations from the standard library are used: the counter mode
// (cenc) and the pattern cipher-block-chaining mode (cbcs) are written out here, and the
// sample auxiliary information (IV, subsample map) is read from the raw bytes of the served
// segment, so that the oracle does not rest on mp4ff's crypto.go nor on its senc parser.

import (
	"crypto/aes"
	"encoding/binary"
	"fmt"
)

// c10Tenc is what the init segment's protection box tells a decryptor.
type c10Tenc struct {
	SampleType string // encv / enca (or the clear type when not protected)
	Frma       string // original format
	Scheme     string // cenc / cbcs
	KID        []byte
	IVSize     int
	ConstIV    []byte
	Crypt      int
	Skip       int
	Protected  bool
	HasSinf    bool
}

type c10SubSample struct {
	Clear     uint32
	Protected uint32
}

type c10Aux struct {
	IV   []byte
	Subs []c10SubSample
	Size int // bytes of this sample's auxiliary information
}

// c10RawMoof is the raw view of one moof box: positions relative to the start of the body.
type c10RawMoof struct {
	Start       int
	Size        int
	HasSenc     bool
	SencFlags   uint32
	SencCount   uint32
	SencDataPos int // position of the first sample's auxiliary data (absolute in body)
	SencEnd     int
	HasSaio     bool
	SaioOffsets []int64
	HasSaiz     bool
	SaizDefault int
	SaizCount   uint32
	SaizSizes   []byte
	TfhdFlags   uint32
	BaseData    int64 // tfhd base_data_offset (-1 if absent)
	NrTraf      int
}

type rawBox struct {
	typ        string
	start, end int // whole box
	body       int // start of payload
}

func walkBoxes(data []byte, from, to int) ([]rawBox, error) {
	var out []rawBox
	pos := from
	for pos < to {
		if pos+8 > to {
			return out, fmt.Errorf("truncated box header at %d", pos)
		}
		size := int(binary.BigEndian.Uint32(data[pos:]))
		typ := string(data[pos+4 : pos+8])
		hdr := 8
		if size == 1 {
			if pos+16 > to {
				return out, fmt.Errorf("truncated largesize at %d", pos)
			}
			size = int(binary.BigEndian.Uint64(data[pos+8:]))
			hdr = 16
		} else if size == 0 {
			size = to - pos
		}
		if size < hdr || pos+size > to {
			return out, fmt.Errorf("bad size %d of %q at %d", size, typ, pos)
		}
		out = append(out, rawBox{typ: typ, start: pos, end: pos + size, body: pos + hdr})
		pos += size
	}
	return out, nil
}

// c10RawMoofs finds every moof in a media segment body and reads its encryption side boxes.
func c10RawMoofs(body []byte) ([]c10RawMoof, error) {
	top, err := walkBoxes(body, 0, len(body))
	if err != nil {
		return nil, err
	}
	var out []c10RawMoof
	for _, b := range top {
		if b.typ != "moof" {
			continue
		}
		rm := c10RawMoof{Start: b.start, Size: b.end - b.start, BaseData: -1}
		kids, err := walkBoxes(body, b.body, b.end)
		if err != nil {
			return nil, fmt.Errorf("moof: %w", err)
		}
		for _, k := range kids {
			if k.typ != "traf" {
				continue
			}
			rm.NrTraf++
			tk, err := walkBoxes(body, k.body, k.end)
			if err != nil {
				return nil, fmt.Errorf("traf: %w", err)
			}
			for _, x := range tk {
				p := body[x.body:x.end]
				switch x.typ {
				case "tfhd":
					if len(p) < 8 {
						return nil, fmt.Errorf("short tfhd")
					}
					rm.TfhdFlags = binary.BigEndian.Uint32(p) & 0xffffff
					if rm.TfhdFlags&0x1 != 0 && len(p) >= 16 {
						rm.BaseData = int64(binary.BigEndian.Uint64(p[8:]))
					}
				case "senc":
					if len(p) < 8 {
						return nil, fmt.Errorf("short senc")
					}
					rm.HasSenc = true
					rm.SencFlags = binary.BigEndian.Uint32(p) & 0xffffff
					rm.SencCount = binary.BigEndian.Uint32(p[4:])
					rm.SencDataPos = x.body + 8
					rm.SencEnd = x.end
				case "saio":
					if len(p) < 8 {
						return nil, fmt.Errorf("short saio")
					}
					rm.HasSaio = true
					vf := binary.BigEndian.Uint32(p)
					q := p[4:]
					if vf&1 != 0 {
						if len(q) < 8 {
							return nil, fmt.Errorf("short saio")
						}
						q = q[8:]
					}
					if len(q) < 4 {
						return nil, fmt.Errorf("short saio")
					}
					n := int(binary.BigEndian.Uint32(q))
					q = q[4:]
					for i := 0; i < n; i++ {
						if vf>>24 == 0 {
							if len(q) < 4 {
								return nil, fmt.Errorf("short saio")
							}
							rm.SaioOffsets = append(rm.SaioOffsets, int64(binary.BigEndian.Uint32(q)))
							q = q[4:]
						} else {
							if len(q) < 8 {
								return nil, fmt.Errorf("short saio")
							}
							rm.SaioOffsets = append(rm.SaioOffsets, int64(binary.BigEndian.Uint64(q)))
							q = q[8:]
						}
					}
				case "saiz":
					if len(p) < 9 {
						return nil, fmt.Errorf("short saiz")
					}
					rm.HasSaiz = true
					vf := binary.BigEndian.Uint32(p)
					q := p[4:]
					if vf&1 != 0 {
						if len(q) < 8 {
							return nil, fmt.Errorf("short saiz")
						}
						q = q[8:]
					}
					if len(q) < 5 {
						return nil, fmt.Errorf("short saiz")
					}
					rm.SaizDefault = int(q[0])
					rm.SaizCount = binary.BigEndian.Uint32(q[1:])
					if rm.SaizDefault == 0 {
						rm.SaizSizes = append([]byte(nil), q[5:]...)
					}
				}
			}
		}
		out = append(out, rm)
	}
	return out, nil
}

// c10ReadAux reads nr samples' auxiliary information starting at body[pos:end].
func c10ReadAux(body []byte, pos, end int, nr int, ivSize int, subsUsed bool) ([]c10Aux, error) {
	out := make([]c10Aux, 0, nr)
	for i := 0; i < nr; i++ {
		start := pos
		var a c10Aux
		if ivSize > 0 {
			if pos+ivSize > end {
				return nil, fmt.Errorf("aux info of sample %d: IV beyond box end", i)
			}
			a.IV = append([]byte(nil), body[pos:pos+ivSize]...)
			pos += ivSize
		}
		if subsUsed {
			if pos+2 > end {
				return nil, fmt.Errorf("aux info of sample %d: subsample count beyond box end", i)
			}
			n := int(binary.BigEndian.Uint16(body[pos:]))
			pos += 2
			if pos+6*n > end {
				return nil, fmt.Errorf("aux info of sample %d: %d subsamples beyond box end", i, n)
			}
			for j := 0; j < n; j++ {
				a.Subs = append(a.Subs, c10SubSample{Clear: uint32(binary.BigEndian.Uint16(body[pos:])), Protected: binary.BigEndian.Uint32(body[pos+2:])})
				pos += 6
			}
		}
		a.Size = pos - start
		out = append(out, a)
	}
	if pos != end {
		return out, fmt.Errorf("senc has %d trailing bytes after %d samples", end-pos, nr)
	}
	return out, nil
}

// ctr128 is AES counter mode as Common Encryption defines it: the 16-byte counter block starts
// as the IV (8-byte IVs are zero-extended) and its low 64 bits count blocks, wrapping without carry.
type ctr128 struct {
	enc  func(dst, src []byte)
	ctr  [16]byte
	ks   [16]byte
	used int
}

func (c *ctr128) xor(data []byte) {
	for i := range data {
		if c.used == 16 {
			c.enc(c.ks[:], c.ctr[:])
			lo := binary.BigEndian.Uint64(c.ctr[8:]) + 1
			binary.BigEndian.PutUint64(c.ctr[8:], lo)
			c.used = 0
		}
		data[i] ^= c.ks[c.used]
		c.used++
	}
}

// c10IndepDecryptSample decrypts one sample (returns a new slice).
func c10IndepDecryptSample(t *c10Tenc, key []byte, sample []byte, aux c10Aux) ([]byte, error) {
	out := append([]byte(nil), sample...)
	blk, err := aes.NewCipher(key)
	if err != nil {
		return nil, err
	}
	iv := aux.IV
	if len(iv) == 0 {
		iv = t.ConstIV
	}
	if len(iv) != 8 && len(iv) != 16 {
		return nil, fmt.Errorf("no usable IV (per-sample %d bytes, constant %d bytes)", len(aux.IV), len(t.ConstIV))
	}
	var iv16 [16]byte
	copy(iv16[:], iv)
	// protected ranges
	type rng struct{ a, b int }
	var ranges []rng
	if len(aux.Subs) == 0 {
		ranges = []rng{{0, len(out)}}
	} else {
		pos := 0
		for i, s := range aux.Subs {
			pos += int(s.Clear)
			if pos+int(s.Protected) > len(out) {
				return nil, fmt.Errorf("subsample %d reaches byte %d of a %d byte sample", i, pos+int(s.Protected), len(out))
			}
			if s.Protected > 0 {
				ranges = append(ranges, rng{pos, pos + int(s.Protected)})
			}
			pos += int(s.Protected)
		}
		if pos != len(out) {
			return nil, fmt.Errorf("subsamples cover %d of %d sample bytes", pos, len(out))
		}
	}
	switch t.Scheme {
	case "cenc":
		c := &ctr128{enc: blk.Encrypt, ctr: iv16, used: 16}
		for _, r := range ranges {
			c.xor(out[r.a:r.b]) // the key stream continues over the protected ranges of one sample
		}
	case "cbcs":
		period := t.Crypt + t.Skip
		for _, r := range ranges {
			prev := iv16 // the chain restarts with the IV in every subsample
			nBlocks := (r.b - r.a) / 16
			for k := 0; k < nBlocks; k++ {
				if period > 0 && k%period >= t.Crypt {
					continue
				}
				p := out[r.a+16*k : r.a+16*k+16]
				var c [16]byte
				copy(c[:], p)
				blk.Decrypt(p, p)
				for i := 0; i < 16; i++ {
					p[i] ^= prev[i]
				}
				prev = c
			}
		}
	default:
		return nil, fmt.Errorf("scheme %q", t.Scheme)
	}
	return out, nil
}

func protectedBytes(aux c10Aux, sampleLen int) int {
	if len(aux.Subs) == 0 {
		return sampleLen
	}
	n := 0
	for _, s := range aux.Subs {
		n += int(s.Protected)
	}
	return n
}

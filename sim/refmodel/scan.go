// Package refmodel is the independent reference model of "the looped live timeline".
// It is computed from an own parse of the VoD files on disk (MPD XML + tfdt/trun of every
// media file) and the DASH rules quoted in the property statements; it never looks at
// livesim2's own asset structures.
package refmodel

import (
	"fmt"
	"os"
	"path/filepath"
	"sort"
	"strconv"
	"strings"

	"github.com/Eyevinn/dash-mpd/mpd"

	"verif/sim/hx"
)

type Seg struct {
	VodNr uint32 // $Number$ of the VoD file (0 for $Time$ assets)
	Start uint64 // media timescale
	End   uint64
	File  string // absolute path
}

func (s Seg) Dur() uint64 { return s.End - s.Start }

type Rep struct {
	ID          string
	ContentType string // video, audio, text, image
	Codecs      string
	Lang        string
	Timescale   uint64
	InitFile    string
	InitURI     string
	MediaURI    string // with $Number$ or $Time$ left in place
	TimeURI     bool
	Segs        []Seg
	FrameDur    uint32 // constant sample duration (0 = not constant)
	ASIndex     int
	init        *hx.Init
}

func (r *Rep) TotalDur() uint64 { return r.Segs[len(r.Segs)-1].End - r.Segs[0].Start }

func (r *Rep) Init() (*hx.Init, error) {
	if r.init != nil {
		return r.init, nil
	}
	if r.ContentType == "image" {
		return nil, fmt.Errorf("image has no init")
	}
	data, err := os.ReadFile(r.InitFile)
	if err != nil {
		return nil, err
	}
	in, err := hx.ParseInit(data)
	if err != nil {
		return nil, err
	}
	r.init = in
	return in, nil
}

// AS describes one adaptation set of a VoD MPD in document order.
type AS struct {
	ContentType string
	RepIDs      []string
	Lang        string
}

type Asset struct {
	Path      string          // relative to vod root, slash separated
	MPDs      []string        // names
	ASets     map[string][]AS // by MPD name
	Reps      map[string]*Rep // by id
	RefRepID  string          // first video (sorted by id) else first audio
	LoopDurMS int64
	// Bad is set when the model says the asset must be left out (C15).
	Bad string
	// ConstSegDur is true if all reference segments have the same duration.
	ConstSegDur bool
	// SegDurMS is the minimal average segment duration over representations (as ms, rounded).
	SegDurMS int64
}

func (a *Asset) Ref() *Rep { return a.Reps[a.RefRepID] }

func (a *Asset) RepIDs() []string {
	ids := make([]string, 0, len(a.Reps))
	for id := range a.Reps {
		ids = append(ids, id)
	}
	sort.Strings(ids)
	return ids
}

func contentType(as *mpd.AdaptationSetType) string {
	if as.ContentType != "" {
		return string(as.ContentType)
	}
	switch as.MimeType {
	case "video/mp4":
		return "video"
	case "audio/mp4":
		return "audio"
	case "application/mp4":
		return "text"
	}
	codecs := []string{as.Codecs}
	for _, r := range as.Representations {
		switch r.MimeType {
		case "video/mp4":
			return "video"
		case "audio/mp4":
			return "audio"
		case "application/mp4":
			return "text"
		}
		codecs = append(codecs, r.Codecs)
	}
	for _, c := range codecs {
		switch {
		case strings.HasPrefix(c, "avc"), strings.HasPrefix(c, "hev"), strings.HasPrefix(c, "hvc"):
			return "video"
		case strings.HasPrefix(c, "mp4a"), strings.HasPrefix(c, "ac-3"), strings.HasPrefix(c, "ec-3"):
			return "audio"
		case strings.HasPrefix(c, "stpp"), strings.HasPrefix(c, "wvtt"):
			return "text"
		}
	}
	return ""
}

// ScanRoot scans all assets below vodRoot.
func ScanRoot(vodRoot string) (map[string]*Asset, error) {
	assets := map[string]*Asset{}
	var mpdPaths []string
	err := filepath.WalkDir(vodRoot, func(p string, d os.DirEntry, err error) error {
		if err != nil {
			return nil
		}
		if !d.IsDir() && filepath.Ext(p) == ".mpd" {
			mpdPaths = append(mpdPaths, p)
		}
		return nil
	})
	if err != nil {
		return nil, err
	}
	sort.Strings(mpdPaths)
	for _, mp := range mpdPaths {
		rel, _ := filepath.Rel(vodRoot, mp)
		rel = filepath.ToSlash(rel)
		dir, name := "", rel
		if i := strings.LastIndex(rel, "/"); i >= 0 {
			dir, name = rel[:i], rel[i+1:]
		}
		a := assets[dir]
		if a == nil {
			a = &Asset{Path: dir, ASets: map[string][]AS{}, Reps: map[string]*Rep{}}
			assets[dir] = a
		}
		if err := scanMPD(vodRoot, a, name); err != nil {
			if a.Bad == "" {
				a.Bad = fmt.Sprintf("%s: %v", name, err)
			}
			continue
		}
		a.MPDs = append(a.MPDs, name)
	}
	for _, a := range assets {
		consolidate(a)
	}
	return assets, nil
}

func scanMPD(vodRoot string, a *Asset, name string) error {
	data, err := os.ReadFile(filepath.Join(vodRoot, filepath.FromSlash(a.Path), name))
	if err != nil {
		return err
	}
	m, err := mpd.ReadFromString(string(data))
	if err != nil {
		return err
	}
	if len(m.Periods) != 1 {
		return fmt.Errorf("periods != 1")
	}
	var sets []AS
	for asIdx, as := range m.Periods[0].AdaptationSets {
		ct := contentType(as)
		st := as.SegmentTemplate
		if st == nil {
			return fmt.Errorf("no SegmentTemplate")
		}
		set := AS{ContentType: ct, Lang: as.Lang}
		for _, r := range as.Representations {
			set.RepIDs = append(set.RepIDs, r.Id)
			if _, ok := a.Reps[r.Id]; ok {
				continue
			}
			rep, err := scanRep(vodRoot, a, as, r, ct, asIdx)
			if err != nil {
				return fmt.Errorf("rep %s: %w", r.Id, err)
			}
			a.Reps[r.Id] = rep
		}
		sets = append(sets, set)
	}
	a.ASets[name] = sets
	return nil
}

func subst(tpl string, r *mpd.RepresentationType) string {
	s := strings.ReplaceAll(tpl, "$RepresentationID$", r.Id)
	s = strings.ReplaceAll(s, "$Bandwidth$", strconv.Itoa(int(r.Bandwidth)))
	return s
}

func scanRep(vodRoot string, a *Asset, as *mpd.AdaptationSetType, r *mpd.RepresentationType, ct string, asIdx int) (*Rep, error) {
	st := as.SegmentTemplate
	rep := &Rep{ID: r.Id, ContentType: ct, Codecs: as.Codecs, Lang: as.Lang, ASIndex: asIdx}
	if r.Codecs != "" {
		rep.Codecs = r.Codecs
	}
	rep.InitURI = subst(st.Initialization, r)
	rep.MediaURI = subst(st.Media, r)
	rep.TimeURI = strings.Contains(rep.MediaURI, "$Time$")
	base := filepath.Join(vodRoot, filepath.FromSlash(a.Path))
	var trex = (*hx.Init)(nil)
	if ct != "image" {
		rep.InitFile = filepath.Join(base, filepath.FromSlash(rep.InitURI))
		in, err := rep.Init()
		if err != nil {
			return nil, fmt.Errorf("init: %w", err)
		}
		trex = in
		rep.Timescale = uint64(in.Timescale)
	}
	readSeg := func(file string, nr uint32) (Seg, uint32, error) {
		data, err := os.ReadFile(file)
		if err != nil {
			return Seg{}, 0, err
		}
		sg, err := hx.ParseSeg(data, trex.Trex)
		if err != nil {
			return Seg{}, 0, fmt.Errorf("%s: %w", file, err)
		}
		var common uint32
		first := true
		for _, s := range sg.AllSamples() {
			if first {
				common = s.Dur
				first = false
			} else if s.Dur != common {
				common = 0
			}
		}
		return Seg{VodNr: nr, Start: sg.Tfdt(), End: sg.Frags[len(sg.Frags)-1].Tfdt + sg.Frags[len(sg.Frags)-1].Dur, File: file}, common, nil
	}
	frame := int64(-1)
	noteFrame := func(c uint32) {
		switch {
		case frame < 0:
			frame = int64(c)
		case frame != int64(c):
			frame = 0
		}
	}
	switch {
	case st.SegmentTimeline != nil && rep.TimeURI:
		var t uint64
		for _, s := range st.SegmentTimeline.S {
			if s.T != nil {
				t = *s.T
			}
			for i := 0; i <= s.R; i++ {
				file := filepath.Join(base, filepath.FromSlash(strings.ReplaceAll(rep.MediaURI, "$Time$", strconv.FormatUint(t, 10))))
				sg, c, err := readSeg(file, 0)
				if err != nil {
					return nil, err
				}
				noteFrame(c)
				rep.Segs = append(rep.Segs, sg)
				t += s.D
			}
		}
	case st.SegmentTimeline != nil:
		return nil, fmt.Errorf("SegmentTimeline with $Number$ unsupported")
	case strings.Contains(rep.MediaURI, "$Number$"):
		startNr := uint32(1)
		if st.StartNumber != nil {
			startNr = *st.StartNumber
		}
		for nr := startNr; ; nr++ {
			file := filepath.Join(base, filepath.FromSlash(strings.ReplaceAll(rep.MediaURI, "$Number$", strconv.Itoa(int(nr)))))
			if ct == "image" {
				if _, err := os.Stat(file); err != nil {
					break
				}
				if st.Duration == nil {
					return nil, fmt.Errorf("image without duration")
				}
				d := uint64(*st.Duration)
				rep.Timescale = uint64(st.GetTimescale())
				k := uint64(nr - startNr)
				rep.Segs = append(rep.Segs, Seg{VodNr: nr, Start: k * d, End: (k + 1) * d, File: file})
			} else {
				sg, c, err := readSeg(file, nr)
				if err != nil {
					if os.IsNotExist(err) {
						break
					}
					return nil, err
				}
				noteFrame(c)
				if n := len(rep.Segs); n > 0 {
					rep.Segs[n-1].End = sg.Start
				}
				rep.Segs = append(rep.Segs, sg)
			}
			if st.EndNumber != nil && nr == *st.EndNumber {
				break
			}
		}
	default:
		return nil, fmt.Errorf("unknown template type")
	}
	if len(rep.Segs) == 0 {
		return nil, fmt.Errorf("no segments")
	}
	if frame > 0 {
		rep.FrameDur = uint32(frame)
	}
	if ct == "audio" && rep.FrameDur == 0 {
		return nil, fmt.Errorf("audio without constant frame duration")
	}
	return rep, nil
}

func consolidate(a *Asset) {
	if len(a.Reps) == 0 {
		if a.Bad == "" {
			a.Bad = "no representations"
		}
		return
	}
	ids := a.RepIDs()
	for _, id := range ids {
		if a.Reps[id].ContentType == "video" {
			a.RefRepID = id
			break
		}
	}
	if a.RefRepID == "" {
		for _, id := range ids {
			if a.Reps[id].ContentType == "audio" {
				a.RefRepID = id
				break
			}
		}
	}
	if a.RefRepID == "" {
		a.Bad = "no video or audio"
		return
	}
	ref := a.Ref()
	tot := ref.TotalDur()
	if (tot*1000)%ref.Timescale != 0 {
		a.Bad = "loop duration is not a whole number of milliseconds"
	}
	a.LoopDurMS = int64(tot * 1000 / ref.Timescale)
	// Representations of the reference's content type must agree in duration (in ms).
	for _, id := range ids {
		r := a.Reps[id]
		if r.ContentType != ref.ContentType {
			continue
		}
		if int64(r.TotalDur()*1000/r.Timescale) != a.LoopDurMS && a.Bad == "" {
			a.Bad = "representations disagree in duration"
		}
	}
	a.ConstSegDur = true
	d0 := ref.Segs[0].Dur()
	for _, s := range ref.Segs {
		if s.Dur() != d0 {
			a.ConstSegDur = false
		}
	}
	for _, id := range ids {
		r := a.Reps[id]
		avg := int64(float64(r.TotalDur())*1000/float64(r.Timescale*uint64(len(r.Segs))) + 0.5)
		if a.SegDurMS == 0 || avg < a.SegDurMS {
			a.SegDurMS = avg
		}
	}
}

package refmodel

// LiveSeg is segment index n (counted from availabilityStartTime) of a non-audio
// representation of the looped timeline.
type LiveSeg struct {
	N     int64
	Wrap  int64
	Idx   int
	Start uint64 // media time relative to AST, rep timescale
	End   uint64
	Vod   Seg
}

// LoopDur is the asset loop duration expressed in the representation's timescale.
func (a *Asset) LoopDur(r *Rep) uint64 {
	return uint64(a.LoopDurMS) * r.Timescale / 1000
}

// Live returns live segment n of rep r:
// start = floor(n/N)*loopDuration + VoD start of segment (n mod N).
func (a *Asset) Live(r *Rep, n int64) LiveSeg {
	N := int64(len(r.Segs))
	w := n / N
	i := int(n % N)
	ld := a.LoopDur(r)
	v := r.Segs[i]
	return LiveSeg{N: n, Wrap: w, Idx: i, Start: uint64(w)*ld + v.Start, End: uint64(w)*ld + v.End, Vod: v}
}

// IndexAtOrAfter returns the smallest n whose End (relative to AST) is > t (timescale units),
// i.e. the segment containing media time t or the next one.
func (a *Asset) IndexContaining(r *Rep, t uint64) int64 {
	ld := a.LoopDur(r)
	N := int64(len(r.Segs))
	w := int64(t / ld)
	rel := t - uint64(w)*ld
	for i, s := range r.Segs {
		if s.End > rel {
			return w*N + int64(i)
		}
	}
	return (w + 1) * N
}

// LastEndedBy returns the largest n with End*1000/ts <= relMS*... precisely: End/ts <= tS, where
// the comparison is done in exact integer arithmetic: End*1000 <= relMS*ts. -1 if none.
func (a *Asset) LastEndedBy(r *Rep, relMS int64) int64 {
	if relMS < 0 {
		return -1
	}
	ld := a.LoopDur(r)
	N := int64(len(r.Segs))
	w := relMS / a.LoopDurMS
	best := int64(-1)
	for ww := w - 1; ww <= w; ww++ {
		if ww < 0 {
			continue
		}
		for i, s := range r.Segs {
			end := uint64(ww)*ld + s.End
			if int64(end)*1000 <= relMS*int64(r.Timescale) {
				n := ww*N + int64(i)
				if n > best {
					best = n
				}
			}
		}
	}
	return best
}

// AudioGrid maps a reference (video) time to the first audio frame boundary at or after it:
// A(x) = ceil(x * tsA / tsV / f) * f.
func AudioGrid(x, tsV, tsA uint64, f uint64) uint64 {
	num := x * tsA // exact while x*tsA fits in 64 bits (x < 2^44 for tsA=48000... checked by callers)
	q := num / tsV
	g := q / f * f
	if g*tsV < num {
		g += f
	}
	return g
}

package sim

// The harness binary is a Go test binary because testing/synctest needs a *testing.T.
// bin/check builds it from /repo's current working tree and drives it through env vars:
//
//	VERIF_MODE=worker  VERIF_PROP VERIF_TIER VERIF_SEED VERIF_FROM VERIF_TO VERIF_OUT
//	VERIF_MODE=replay  VERIF_REPLAY=<file> [VERIF_OUT]
//	VERIF_MODE=gen     VERIF_PROP VERIF_SEED VERIF_FROM   (prints the scenario)
import (
	"encoding/json"
	"fmt"
	"os"
	"path/filepath"
	"strconv"
	"testing"
	"time"

	"verif/sim/core"
	"verif/sim/hx"
	_ "verif/sim/props"
)

type runRecord struct {
	Idx        int              `json:"idx"`
	Seed       uint64           `json:"seed"`
	Finger     string           `json:"finger"`
	Events     int              `json:"events"`
	SimMS      int64            `json:"sim_ms"`
	Nontrivial bool             `json:"nontrivial"`
	Stats      map[string]int   `json:"stats,omitempty"`
	Violations []core.Violation `json:"violations,omitempty"`
	ReplayFile []string         `json:"replay_files,omitempty"`
	WallMS     int64            `json:"wall_ms"`
	Sample     *core.Scenario   `json:"sample,omitempty"`
	ShrinkRuns int              `json:"shrink_runs,omitempty"`
	NOps       int              `json:"n_ops"`
}

func envInt(name string, def int) int {
	v := os.Getenv(name)
	if v == "" {
		return def
	}
	n, err := strconv.Atoi(v)
	if err != nil {
		panic(fmt.Sprintf("bad %s=%q", name, v))
	}
	return n
}

func envU64(name string, def uint64) uint64 {
	v := os.Getenv(name)
	if v == "" {
		return def
	}
	n, err := strconv.ParseUint(v, 10, 64)
	if err != nil {
		panic(fmt.Sprintf("bad %s=%q", name, v))
	}
	return n
}

func writeJSON(path string, v any) {
	b, err := json.MarshalIndent(v, "", " ")
	if err != nil {
		panic(err)
	}
	tmp := path + ".tmp"
	if err := os.WriteFile(tmp, b, 0o644); err != nil {
		panic(err)
	}
	if err := os.Rename(tmp, path); err != nil {
		panic(err)
	}
}

func genScenario(p core.Prop, master uint64, tier string, idx int) *core.Scenario {
	seed := core.Mix(master, p.ID(), uint64(idx))
	rng := core.NewRng(seed)
	sc := p.Gen(rng, tier, idx)
	sc.Seed = seed
	sc.Tier = tier
	sc.Idx = idx
	return sc
}

func TestSim(t *testing.T) {
	mode := os.Getenv("VERIF_MODE")
	switch mode {
	case "":
		t.Skip("VERIF_MODE not set")
	case "worker":
		workerMode(t)
	case "replay":
		replayMode(t)
	case "gen":
		p, ok := core.Lookup(os.Getenv("VERIF_PROP"))
		if !ok {
			t.Fatalf("unknown property")
		}
		sc := genScenario(p, envU64("VERIF_SEED", 1), os.Getenv("VERIF_TIER"), envInt("VERIF_FROM", 0))
		b, _ := json.MarshalIndent(sc, "", " ")
		fmt.Println(string(b))
	default:
		t.Fatalf("unknown VERIF_MODE %q", mode)
	}
}

func workerMode(t *testing.T) {
	p, ok := core.Lookup(os.Getenv("VERIF_PROP"))
	if !ok {
		fmt.Fprintf(os.Stderr, "HARNESS-ERROR unknown property %q (have %v)\n", os.Getenv("VERIF_PROP"), core.AllIDs())
		os.Exit(2)
	}
	tier := os.Getenv("VERIF_TIER")
	if tier == "" {
		tier = "quick"
	}
	master := envU64("VERIF_SEED", 1)
	from, to := envInt("VERIF_FROM", 0), envInt("VERIF_TO", 1)
	stride := envInt("VERIF_STRIDE", 1)
	out := os.Getenv("VERIF_OUT")
	if out == "" {
		t.Fatalf("VERIF_OUT not set")
	}
	shrinkBudget := envInt("VERIF_SHRINK_BUDGET", 400)
	maxShrinks := envInt("VERIF_MAX_SHRINKS", 3)
	deadline := time.Time{}
	if d := envInt("VERIF_DEADLINE_UNIX", 0); d > 0 {
		deadline = time.Unix(int64(d), 0)
	}
	wid := os.Getenv("VERIF_WORKER_ID")
	recFile, err := os.Create(filepath.Join(out, fmt.Sprintf("runs-%s.jsonl", wid)))
	if err != nil {
		t.Fatal(err)
	}
	defer recFile.Close()
	enc := json.NewEncoder(recFile)
	curPath := filepath.Join(out, fmt.Sprintf("current-%s.json", wid))
	shrunk := map[string]bool{}
	nSample := 0
	var known []core.Finding
	if kf := os.Getenv("VERIF_KNOWN"); kf != "" {
		if b, err := os.ReadFile(kf); err == nil {
			_ = json.Unmarshal(b, &known)
		}
	}
	isKnown := func(v core.Violation) bool {
		for _, f := range known {
			if f.Matches(p.ID(), v) {
				return true
			}
		}
		return false
	}
	for idx := from; idx < to; idx += stride {
		if !deadline.IsZero() && time.Now().After(deadline) {
			break
		}
		sc := genScenario(p, master, tier, idx)
		writeJSON(curPath, sc)
		start := time.Now()
		res := core.Execute(t, p, sc, false)
		rec := runRecord{Idx: idx, Seed: sc.Seed, Finger: res.Finger, Events: res.Events, SimMS: res.SimMS,
			Nontrivial: res.Nontrivial, Stats: res.Stats, Violations: res.Violations, NOps: len(sc.Ops)}
		if nSample < 2 && (idx-from)/stride < 2 {
			rec.Sample = sc
			nSample++
		}
		for _, v := range res.Violations {
			key := v.Key()
			if shrunk[key] || len(shrunk) >= maxShrinks || isKnown(v) {
				continue
			}
			if hx.Poisoned.Load() {
				// a handler goroutine is still spinning: do not shrink, keep the scenario as it is
				sc2 := sc.Clone()
				vv := v
				sc2.Expect = &vv
				name := fmt.Sprintf("fail-%s-%d-%d.json", p.ID(), idx, len(rec.ReplayFile))
				writeJSON(filepath.Join(out, name), sc2)
				rec.ReplayFile = append(rec.ReplayFile, name)
				continue
			}
			shrunk[key] = true
			min, tries := core.Shrink(t, p, sc, key, shrinkBudget)
			rec.ShrinkRuns += tries
			final := core.Execute(t, p, min, true)
			vv := v
			for _, fv := range final.Violations {
				if fv.Key() == key {
					vv = fv
				}
			}
			if !final.Has(key) {
				// shrinking must never lose the violation; fall back to the original
				min = sc.Clone()
				final = core.Execute(t, p, min, true)
			}
			min.Expect = &vv
			min.Log = final.Log
			if len(min.Log) > 300 {
				min.Log = append(min.Log[:150], min.Log[len(min.Log)-150:]...)
			}
			name := fmt.Sprintf("fail-%s-%d-%d.json", p.ID(), idx, len(rec.ReplayFile))
			writeJSON(filepath.Join(out, name), min)
			rec.ReplayFile = append(rec.ReplayFile, name)
		}
		rec.WallMS = time.Since(start).Milliseconds()
		if err := enc.Encode(rec); err != nil {
			t.Fatal(err)
		}
		if hx.Poisoned.Load() {
			os.Remove(curPath)
			recFile.Sync()
			fmt.Fprintf(os.Stderr, "WORKER-POISONED %s next=%d\n", wid, idx+stride)
			os.Exit(0)
		}
	}
	os.Remove(curPath)
	fmt.Fprintf(os.Stderr, "WORKER-DONE %s\n", wid)
}

type replayOut struct {
	Reproduced bool             `json:"reproduced"`
	Expect     *core.Violation  `json:"expect,omitempty"`
	Violations []core.Violation `json:"violations"`
	Finger     string           `json:"finger"`
	Stats      map[string]int   `json:"stats,omitempty"`
}

func replayMode(t *testing.T) {
	file := os.Getenv("VERIF_REPLAY")
	b, err := os.ReadFile(file)
	if err != nil {
		fmt.Fprintf(os.Stderr, "HARNESS-ERROR %v\n", err)
		os.Exit(2)
	}
	var sc core.Scenario
	if err := json.Unmarshal(b, &sc); err != nil {
		fmt.Fprintf(os.Stderr, "HARNESS-ERROR %v\n", err)
		os.Exit(2)
	}
	p, ok := core.Lookup(sc.Property)
	if !ok {
		fmt.Fprintf(os.Stderr, "HARNESS-ERROR unknown property %q\n", sc.Property)
		os.Exit(2)
	}
	res := core.Execute(t, p, &sc, true)
	ro := replayOut{Expect: sc.Expect, Violations: res.Violations, Finger: res.Finger, Stats: res.Stats}
	if sc.Expect != nil {
		ro.Reproduced = res.Has(sc.Expect.Key())
	}
	ob, _ := json.Marshal(ro)
	if out := os.Getenv("VERIF_OUT"); out != "" {
		os.WriteFile(out, ob, 0o644)
	} else {
		fmt.Println("REPLAY-RESULT " + string(ob))
	}
	if os.Getenv("VERIF_REPLAY_LOG") != "" {
		for _, l := range res.Log {
			fmt.Println(l)
		}
	}
}
